(* Proofs/Gf2Lemmas.v — basic list / bit / xorrow / dotb / span lemmas used by the
   C18 proofs about the GF(2) model. *)
From Coq Require Import List Bool Arith ZArith Lia.
From SageVerif Require Import Model.Gf2 Proofs.Gf2Spec.
Import ListNotations.

(* ------------------------------------------------------------------ *)
(* generic list helpers                                                *)
(* ------------------------------------------------------------------ *)

Lemma nth_map_lt : forall (A B : Type) (f : A -> B) (l : list A) (i : nat) (d : B) (d' : A),
  i < length l -> nth i (map f l) d = f (nth i l d').
Proof.
  intros A B f l. induction l as [|x l IH]; intros i d d' Hi; simpl in *.
  - lia.
  - destruct i as [|i]. reflexivity. apply IH. lia.
Qed.

Lemma nth_firstn_lt : forall (A : Type) (l : list A) (n i : nat) (d : A),
  i < n -> nth i (firstn n l) d = nth i l d.
Proof.
  intros A l. induction l as [|x l IH]; intros n i d Hi.
  - rewrite firstn_nil. reflexivity.
  - destruct n as [|n]. lia. destruct i as [|i]; simpl. reflexivity. apply IH. lia.
Qed.

Lemma map_eq_in : forall (A B : Type) (f g : A -> B) (l : list A),
  map f l = map g l <-> (forall x, In x l -> f x = g x).
Proof.
  intros A B f g l. induction l as [|x l IH]; simpl.
  - split. intros _ y []. reflexivity.
  - split.
    + intros H y [Hy|Hy]. subst y. injection H. intros _ E. exact E.
      apply IH. injection H. intros E _. exact E. exact Hy.
    + intros H. f_equal. apply H. left. reflexivity. apply IH. intros y Hy. apply H. right. exact Hy.
Qed.

Lemma NoDup_app_intro : forall (A : Type) (l1 l2 : list A),
  NoDup l1 -> NoDup l2 -> (forall x, In x l1 -> In x l2 -> False) -> NoDup (l1 ++ l2).
Proof.
  intros A l1. induction l1 as [|x l1 IH]; intros l2 H1 H2 Hd; simpl.
  - exact H2.
  - apply NoDup_cons_iff in H1. destruct H1 as [Hnin Hnd]. constructor.
    + intro Hin. apply in_app_or in Hin. destruct Hin as [Hin|Hin].
      * apply Hnin. exact Hin.
      * apply (Hd x). left. reflexivity. exact Hin.
    + apply IH. exact Hnd. exact H2. intros z Hz1 Hz2. apply (Hd z). right. exact Hz1. exact Hz2.
Qed.

Lemma NoDup_map_inj : forall (A B : Type) (f : A -> B) (l : list A),
  (forall x y, In x l -> In y l -> f x = f y -> x = y) -> NoDup l -> NoDup (map f l).
Proof.
  intros A B f l. induction l as [|x l IH]; intros Hinj Hnd; simpl.
  - constructor.
  - apply NoDup_cons_iff in Hnd. destruct Hnd as [Hnin Hnd']. constructor.
    + intro Hin. apply in_map_iff in Hin. destruct Hin as [z [Hz1 Hz2]].
      assert (z = x) as E.
      { apply Hinj. right. exact Hz2. left. reflexivity. exact Hz1. }
      subst z. apply Hnin. exact Hz2.
    + apply IH. intros a b Ha Hb. apply Hinj; right; assumption. exact Hnd'.
Qed.

(* ------------------------------------------------------------------ *)
(* bit                                                                 *)
(* ------------------------------------------------------------------ *)

Lemma bit_nil : forall k, bit k [] = false.
Proof. intros [|k]; reflexivity. Qed.

Lemma bit_0 : forall x r, bit 0 (x :: r) = x.
Proof. reflexivity. Qed.

Lemma bit_S : forall k x r, bit (S k) (x :: r) = bit k r.
Proof. reflexivity. Qed.

Lemma bit_overflow : forall k r, length r <= k -> bit k r = false.
Proof. intros k r Hk. unfold bit. apply nth_overflow. exact Hk. Qed.

Lemma row_ext : forall a b : row, length a = length b ->
  (forall j, j < length a -> bit j a = bit j b) -> a = b.
Proof.
  induction a as [|x a IHa]; intros [|y b] Hlen Hbit; simpl in *; try discriminate; try reflexivity.
  f_equal.
  - apply (Hbit 0). lia.
  - apply IHa. lia. intros j Hj. apply (Hbit (S j)). lia.
Qed.

Lemma zeros_length : forall n, length (zeros n) = n.
Proof. intro n. unfold zeros. apply repeat_length. Qed.

Lemma zeros_S : forall n, zeros (S n) = false :: zeros n.
Proof. reflexivity. Qed.

Lemma bit_zeros : forall n j, bit j (zeros n) = false.
Proof.
  induction n as [|n IH]; intros j.
  - apply bit_nil.
  - rewrite zeros_S. destruct j as [|j]. reflexivity. rewrite bit_S. apply IH.
Qed.

Lemma row_all_false : forall n (r : row), length r = n ->
  (forall j, j < n -> bit j r = false) -> r = zeros n.
Proof.
  intros n r Hlen Hz. apply row_ext.
  - rewrite zeros_length. exact Hlen.
  - intros j Hj. rewrite bit_zeros. apply Hz. lia.
Qed.

Lemma bit_firstn : forall n (r : row) j, j < n -> bit j (firstn n r) = bit j r.
Proof. intros n r j Hj. unfold bit. apply nth_firstn_lt. exact Hj. Qed.

Lemma row_split_last : forall n (r : row), length r = S n ->
  r = firstn n r ++ [bit n r].
Proof.
  induction n as [|n IH]; intros r Hlen.
  - destruct r as [|x [|y r]]; simpl in *; try discriminate. reflexivity.
  - destruct r as [|x r]; simpl in *; try discriminate.
    rewrite bit_S. f_equal. apply IH. lia.
Qed.

(* ------------------------------------------------------------------ *)
(* wf                                                                  *)
(* ------------------------------------------------------------------ *)

Lemma wf_in : forall n A r, wf n A -> In r A -> length r = n.
Proof. intros n A r Hwf Hin. unfold wf in Hwf. rewrite Forall_forall in Hwf. apply Hwf. exact Hin. Qed.

Lemma wf_intro : forall n A, (forall r, In r A -> length r = n) -> wf n A.
Proof. intros n A H. unfold wf. rewrite Forall_forall. exact H. Qed.

Lemma wf_app : forall n A B, wf n (A ++ B) <-> wf n A /\ wf n B.
Proof. intros n A B. unfold wf. apply Forall_app. Qed.

Lemma wf_nth : forall n A i, wf n A -> i < length A -> length (nth i A []) = n.
Proof. intros n A i Hwf Hi. apply (wf_in n A). exact Hwf. apply nth_In. exact Hi. Qed.

(* ------------------------------------------------------------------ *)
(* xorrow                                                              *)
(* ------------------------------------------------------------------ *)

Lemma xorrow_length : forall a b, length a = length b -> length (xorrow a b) = length a.
Proof.
  induction a as [|x a IH]; intros [|y b] H; simpl in *; try discriminate; try reflexivity.
  f_equal. apply IH. lia.
Qed.

Lemma bit_xorrow : forall a b j, length a = length b ->
  bit j (xorrow a b) = xorb (bit j a) (bit j b).
Proof.
  induction a as [|x a IH]; intros [|y b] j H; simpl in *; try discriminate.
  - rewrite bit_nil. reflexivity.
  - destruct j as [|j].
    + reflexivity.
    + rewrite !bit_S. apply IH. lia.
Qed.

Lemma xorrow_comm : forall a b, xorrow a b = xorrow b a.
Proof.
  induction a as [|x a IH]; intros [|y b]; simpl; try reflexivity.
  rewrite IH. rewrite xorb_comm. reflexivity.
Qed.

Lemma xorrow_assoc : forall a b c, xorrow (xorrow a b) c = xorrow a (xorrow b c).
Proof.
  induction a as [|x a IH]; intros [|y b] [|z c]; simpl; try reflexivity.
  rewrite IH. f_equal. destruct x, y, z; reflexivity.
Qed.

Lemma xorrow_swap : forall a b c, xorrow a (xorrow b c) = xorrow b (xorrow a c).
Proof.
  induction a as [|x a IH]; intros [|y b] [|z c]; simpl; try reflexivity.
  rewrite IH. f_equal. destruct x, y, z; reflexivity.
Qed.

Lemma xorrow_invol : forall a b, length a = length b -> xorrow (xorrow a b) b = a.
Proof.
  induction a as [|x a IH]; intros [|y b] H; simpl in *; try discriminate; try reflexivity.
  rewrite IH by lia. f_equal. destruct x, y; reflexivity.
Qed.

Lemma xorrow_cancel : forall r a b, length r = length a -> length r = length b ->
  xorrow (xorrow r a) (xorrow r b) = xorrow a b.
Proof.
  induction r as [|x r IH]; intros [|y a] [|z b] Ha Hb; simpl in *; try discriminate; try reflexivity.
  rewrite IH by lia. f_equal. destruct x, y, z; reflexivity.
Qed.

Lemma xorrow_zeros_r : forall n a, length a = n -> xorrow a (zeros n) = a.
Proof.
  induction n as [|n IH]; intros [|x a] H; simpl in *; try discriminate; try reflexivity.
  rewrite IH by lia. rewrite xorb_false_r. reflexivity.
Qed.

Lemma xorrow_zeros_l : forall n a, length a = n -> xorrow (zeros n) a = a.
Proof. intros n a H. rewrite xorrow_comm. apply xorrow_zeros_r. exact H. Qed.

Lemma xorrow_self : forall a, xorrow a a = zeros (length a).
Proof.
  induction a as [|x a IH]; simpl. reflexivity.
  rewrite IH. rewrite xorb_nilpotent. reflexivity.
Qed.

Lemma xor_from_xorrow : forall pc a b, length a = length b ->
  (forall j, j < pc -> bit j b = false) -> xor_from pc a b = xorrow a b.
Proof.
  unfold xor_from.
  induction pc as [|pc IH]; intros a b Hlen Hz.
  - reflexivity.
  - destruct a as [|x a]; destruct b as [|y b]; simpl in *; try discriminate; try reflexivity.
    assert (y = false) as Hy. { apply (Hz 0). lia. }
    subst y. rewrite xorb_false_r. f_equal. apply IH. lia.
    intros j Hj. apply (Hz (S j)). lia.
Qed.

(* ------------------------------------------------------------------ *)
(* set_nth                                                             *)
(* ------------------------------------------------------------------ *)

Lemma set_nth_length : forall k v x, length (set_nth k v x) = length x.
Proof.
  induction k as [|k IH]; intros v [|y x]; simpl; try reflexivity.
  rewrite IH. reflexivity.
Qed.

Lemma bit_set_nth_eq : forall k v x, k < length x -> bit k (set_nth k v x) = v.
Proof.
  induction k as [|k IH]; intros v [|y x] H; simpl in *; try lia.
  - reflexivity.
  - rewrite bit_S. apply IH. lia.
Qed.

Lemma bit_set_nth_neq : forall k v x j, j <> k -> bit j (set_nth k v x) = bit j x.
Proof.
  induction k as [|k IH]; intros v [|y x] j H; simpl; try reflexivity.
  - destruct j as [|j]. lia. reflexivity.
  - destruct j as [|j]. reflexivity. rewrite !bit_S. apply IH. lia.
Qed.

Lemma bit_set_nth_false : forall k x j,
  bit j (set_nth k false x) = if j =? k then false else bit j x.
Proof.
  intros k x j. destruct (Nat.eqb_spec j k) as [E|E].
  - subst j. destruct (Nat.lt_ge_cases k (length x)) as [H|H].
    + apply bit_set_nth_eq. exact H.
    + apply bit_overflow. rewrite set_nth_length. exact H.
  - apply bit_set_nth_neq. exact E.
Qed.

Lemma skipn_set_nth : forall k v x, skipn (S k) (set_nth k v x) = skipn (S k) x.
Proof.
  induction k as [|k IH]; intros v [|y x]; try reflexivity.
  change (skipn (S k) (set_nth k v x) = skipn (S k) x). apply IH.
Qed.

(* ------------------------------------------------------------------ *)
(* dotb                                                                *)
(* ------------------------------------------------------------------ *)

Lemma dotb_nil_r : forall a, dotb a [] = false.
Proof. intros [|x a]; reflexivity. Qed.

Lemma dotb_comm : forall a b, dotb a b = dotb b a.
Proof.
  induction a as [|x a IH]; intros [|y b]; simpl; try reflexivity.
  rewrite IH. rewrite andb_comm. reflexivity.
Qed.

Lemma dotb_xorrow_l : forall a b x, length a = length b ->
  dotb (xorrow a b) x = xorb (dotb a x) (dotb b x).
Proof.
  induction a as [|u a IH]; intros [|v b] [|z x] H; simpl in *; try discriminate; try reflexivity.
  rewrite IH by lia. destruct u, v, z, (dotb a x), (dotb b x); reflexivity.
Qed.

Lemma dotb_xorrow_r : forall a x y, length x = length y ->
  dotb a (xorrow x y) = xorb (dotb a x) (dotb a y).
Proof.
  intros a x y H. rewrite dotb_comm. rewrite dotb_xorrow_l by exact H.
  rewrite (dotb_comm x a). rewrite (dotb_comm y a). reflexivity.
Qed.

Lemma dotb_zeros_l : forall n x, dotb (zeros n) x = false.
Proof.
  induction n as [|n IH]; intros [|y x]; try reflexivity.
  rewrite zeros_S. simpl. rewrite IH. reflexivity.
Qed.

Lemma dotb_zeros_r : forall n a, dotb a (zeros n) = false.
Proof. intros n a. rewrite dotb_comm. apply dotb_zeros_l. Qed.

Lemma dotb_app : forall a a' x x', length a = length x ->
  dotb (a ++ a') (x ++ x') = xorb (dotb a x) (dotb a' x').
Proof.
  induction a as [|u a IH]; intros a' [|z x] x' H; simpl in *; try discriminate.
  - destruct (dotb a' x'); reflexivity.
  - rewrite IH by lia. destruct (u && z), (dotb a x), (dotb a' x'); reflexivity.
Qed.

Lemma dotb_zero_prod : forall a y, (forall j, bit j a && bit j y = false) -> dotb a y = false.
Proof.
  induction a as [|u a IH]; intros [|z y] H; simpl; try reflexivity.
  rewrite IH.
  - specialize (H 0). rewrite !bit_0 in H. rewrite H. reflexivity.
  - intro j. specialize (H (S j)). rewrite !bit_S in H. exact H.
Qed.

Lemma dotb_extract : forall p a y,
  dotb a y = xorb (bit p a && bit p y) (dotb a (set_nth p false y)).
Proof.
  induction p as [|p IH]; intros [|u a] [|z y]; cbn [dotb set_nth];
    rewrite ?bit_nil, ?bit_0, ?bit_S, ?andb_false_r; try reflexivity.
  - destruct u, z, (dotb a y); reflexivity.
  - rewrite (IH a y).
    destruct (u && z), (bit p a && bit p y), (dotb a (set_nth p false y)); reflexivity.
Qed.

Lemma dotb_single : forall p a y,
  (forall j, j <> p -> bit j a && bit j y = false) -> dotb a y = bit p a && bit p y.
Proof.
  intros p a y H. rewrite (dotb_extract p a y).
  rewrite (dotb_zero_prod a (set_nth p false y)).
  - rewrite xorb_false_r. reflexivity.
  - intro j. rewrite bit_set_nth_false. destruct (Nat.eqb_spec j p) as [E|E].
    + apply andb_false_r.
    + apply H. exact E.
Qed.

Lemma dotb_two : forall p q a y, p <> q ->
  (forall j, j <> p -> j <> q -> bit j a && bit j y = false) ->
  dotb a y = xorb (bit p a && bit p y) (bit q a && bit q y).
Proof.
  intros p q a y Hpq H. rewrite (dotb_extract p a y). f_equal.
  rewrite (dotb_single q a (set_nth p false y)).
  - rewrite bit_set_nth_false. destruct (Nat.eqb_spec q p) as [E|E]. congruence. reflexivity.
  - intros j Hj. rewrite bit_set_nth_false. destruct (Nat.eqb_spec j p) as [E|E].
    + apply andb_false_r.
    + apply H. exact E. exact Hj.
Qed.

Lemma dotb_set_nth_unused : forall j a v x, bit j a = false ->
  dotb a (set_nth j v x) = dotb a x.
Proof.
  induction j as [|j IH]; intros [|u a] v [|z x] H; simpl; try reflexivity.
  - rewrite bit_0 in H. subst u. reflexivity.
  - rewrite bit_S in H. rewrite IH by exact H. reflexivity.
Qed.

Lemma dotb_lead : forall pc a v x,
  (forall j, j < pc -> bit j a = false) -> bit pc a = true -> pc < length x ->
  dotb a (set_nth pc v x) = xorb v (dotb (skipn (S pc) a) (skipn (S pc) x)).
Proof.
  induction pc as [|pc IH]; intros [|u a] v [|z x] Hz H1 Hlen; simpl in *;
    try lia; try (rewrite bit_nil in H1; discriminate).
  - rewrite bit_0 in H1. subst u. rewrite andb_true_l. reflexivity.
  - rewrite bit_S in H1.
    assert (u = false) as Hu. { apply (Hz 0). lia. }
    subst u. rewrite andb_false_l. rewrite xorb_false_l.
    apply IH. intros j Hj. apply (Hz (S j)). lia. exact H1. lia.
Qed.

Lemma dotb_all_false : forall a y, existsb (fun b => b) a = false -> dotb a y = false.
Proof.
  induction a as [|u a IH]; intros [|z y] H; simpl in *; try reflexivity.
  apply orb_false_iff in H. destruct H as [Hu Ha]. subst u. rewrite IH by exact Ha. reflexivity.
Qed.

(* ------------------------------------------------------------------ *)
(* mapi                                                                *)
(* ------------------------------------------------------------------ *)

Lemma mapi_aux_length : forall (A B : Type) (f : nat -> A -> B) l s, length (mapi_aux f s l) = length l.
Proof. intros A B f l. induction l as [|x l IH]; intro s; simpl. reflexivity. rewrite IH. reflexivity. Qed.

Lemma mapi_length : forall (A B : Type) (f : nat -> A -> B) l, length (mapi f l) = length l.
Proof. intros. unfold mapi. apply mapi_aux_length. Qed.

Lemma mapi_aux_nth : forall (A B : Type) (f : nat -> A -> B) l s i d d',
  i < length l -> nth i (mapi_aux f s l) d = f (s + i) (nth i l d').
Proof.
  intros A B f l. induction l as [|x l IH]; intros s i d d' Hi; simpl in *.
  - lia.
  - destruct i as [|i].
    + rewrite Nat.add_0_r. reflexivity.
    + rewrite (IH (S s) i d d') by lia. f_equal. lia.
Qed.

Lemma mapi_nth : forall (A B : Type) (f : nat -> A -> B) l i d d',
  i < length l -> nth i (mapi f l) d = f i (nth i l d').
Proof. intros. unfold mapi. rewrite (mapi_aux_nth A B f l 0 i d d') by assumption. reflexivity. Qed.

(* ------------------------------------------------------------------ *)
(* Span: inductive row space, sub / req, kernel                        *)
(* ------------------------------------------------------------------ *)

Inductive Span (n : nat) (rows : mat) : row -> Prop :=
| Span_zero : Span n rows (zeros n)
| Span_in : forall r, In r rows -> Span n rows r
| Span_xor : forall a b, Span n rows a -> Span n rows b -> Span n rows (xorrow a b).

Definition sub (n : nat) (A B : mat) : Prop := forall r, In r A -> Span n B r.
Definition req (n : nat) (A B : mat) : Prop := sub n A B /\ sub n B A.

Lemma Span_length : forall n rows r, wf n rows -> Span n rows r -> length r = n.
Proof.
  intros n rows r Hwf HS. induction HS as [|r Hin|a b Ha IHa Hb IHb].
  - apply zeros_length.
  - apply (wf_in n rows). exact Hwf. exact Hin.
  - rewrite xorrow_length; lia.
Qed.

Lemma Span_trans : forall n A B r, Span n A r -> sub n A B -> Span n B r.
Proof.
  intros n A B r HS Hsub. induction HS as [|r Hin|a b Ha IHa Hb IHb].
  - apply Span_zero.
  - apply Hsub. exact Hin.
  - apply Span_xor; assumption.
Qed.

Lemma sub_refl : forall n A, sub n A A.
Proof. intros n A r Hin. apply Span_in. exact Hin. Qed.

Lemma sub_trans : forall n A B C, sub n A B -> sub n B C -> sub n A C.
Proof. intros n A B C H1 H2 r Hin. apply (Span_trans n B C). apply H1. exact Hin. exact H2. Qed.

Lemma req_refl : forall n A, req n A A.
Proof. intros n A. split; apply sub_refl. Qed.

Lemma req_trans : forall n A B C, req n A B -> req n B C -> req n A C.
Proof.
  intros n A B C [H1 H2] [H3 H4]. split.
  - apply (sub_trans n A B C); assumption.
  - apply (sub_trans n C B A); assumption.
Qed.

Definition ksat (A : mat) (x : row) : Prop := forall r, In r A -> dotb r x = false.

Lemma Span_ksat : forall n A x r, wf n A -> ksat A x -> Span n A r -> dotb r x = false.
Proof.
  intros n A x r Hwf Hk HS. induction HS as [|r Hin|a b Ha IHa Hb IHb].
  - apply dotb_zeros_l.
  - apply Hk. exact Hin.
  - rewrite dotb_xorrow_l.
    + rewrite IHa, IHb. reflexivity.
    + rewrite (Span_length n A a Hwf Ha). rewrite (Span_length n A b Hwf Hb). reflexivity.
Qed.

Lemma sub_ksat : forall n A B x, wf n B -> sub n A B -> ksat B x -> ksat A x.
Proof.
  intros n A B x Hwf Hsub Hk r Hin. apply (Span_ksat n B x r Hwf Hk). apply Hsub. exact Hin.
Qed.

Lemma req_ksat : forall n A B x, wf n A -> wf n B -> req n A B -> (ksat A x <-> ksat B x).
Proof.
  intros n A B x HA HB [H1 H2]. split.
  - apply (sub_ksat n B A x HA H2).
  - apply (sub_ksat n A B x HB H1).
Qed.

Lemma mulmv_zeros_ksat : forall A x, mulmv A x = zeros (length A) <-> ksat A x.
Proof.
  intros A x. unfold ksat. induction A as [|r A IH]; simpl.
  - split. intros _ r []. reflexivity.
  - rewrite zeros_S. split.
    + intros H r0 [E|Hin].
      * subst r0. injection H. intros _ E. exact E.
      * apply IH. injection H. intros E _. exact E. exact Hin.
    + intros H. f_equal.
      * apply H. left. reflexivity.
      * apply IH. intros r0 Hin. apply H. right. exact Hin.
Qed.

(* ------------------------------------------------------------------ *)
(* comb / in_span  <->  Span                                           *)
(* ------------------------------------------------------------------ *)

Lemma comb_nil_r : forall n sel, comb n sel [] = zeros n.
Proof. intros n [|s sel]; reflexivity. Qed.

Lemma comb_length : forall n rows sel, wf n rows -> length (comb n sel rows) = n.
Proof.
  intros n rows. induction rows as [|r rows IH]; intros sel Hwf.
  - rewrite comb_nil_r. apply zeros_length.
  - destruct sel as [|s sel]; simpl.
    + apply zeros_length.
    + assert (length r = n) as Hr. { apply (wf_in n (r :: rows)). exact Hwf. left. reflexivity. }
      assert (wf n rows) as Hwf'. { inversion Hwf; assumption. }
      destruct s.
      * rewrite xorrow_length. exact Hr. rewrite IH by exact Hwf'. exact Hr.
      * apply IH. exact Hwf'.
Qed.

Lemma comb_false : forall n rows m, comb n (repeat false m) rows = zeros n.
Proof.
  intros n rows. induction rows as [|r rows IH]; intros m.
  - apply comb_nil_r.
  - destruct m as [|m]; simpl. reflexivity. apply IH.
Qed.

Lemma comb_xor : forall n rows s1 s2, wf n rows ->
  length s1 = length rows -> length s2 = length rows ->
  comb n (xorrow s1 s2) rows = xorrow (comb n s1 rows) (comb n s2 rows).
Proof.
  intros n rows. induction rows as [|r rows IH]; intros s1 s2 Hwf H1 H2.
  - rewrite !comb_nil_r. rewrite xorrow_zeros_r. reflexivity. apply zeros_length.
  - destruct s1 as [|a s1]; destruct s2 as [|b s2]; simpl in H1, H2; try discriminate.
    assert (length r = n) as Hr. { apply (wf_in n (r :: rows)). exact Hwf. left. reflexivity. }
    assert (wf n rows) as Hwf'. { inversion Hwf; assumption. }
    assert (length (comb n s1 rows) = n) as L1 by (apply comb_length; exact Hwf').
    assert (length (comb n s2 rows) = n) as L2 by (apply comb_length; exact Hwf').
    specialize (IH s1 s2 Hwf' ltac:(lia) ltac:(lia)).
    destruct a, b; simpl; rewrite IH.
    + symmetry. apply xorrow_cancel; lia.
    + symmetry. apply xorrow_assoc.
    + apply xorrow_swap.
    + reflexivity.
Qed.

Lemma comb_Span : forall n rows' rows sel, (forall r, In r rows -> In r rows') ->
  Span n rows' (comb n sel rows).
Proof.
  intros n rows' rows. induction rows as [|r rows IH]; intros sel Hincl.
  - rewrite comb_nil_r. apply Span_zero.
  - destruct sel as [|s sel]; simpl.
    + apply Span_zero.
    + assert (Span n rows' (comb n sel rows)) as HS.
      { apply IH. intros r0 H0. apply Hincl. right. exact H0. }
      destruct s.
      * apply Span_xor. apply Span_in. apply Hincl. left. reflexivity. exact HS.
      * exact HS.
Qed.

Lemma in_span_Span : forall n rows r, in_span n rows r -> Span n rows r.
Proof.
  intros n rows r [sel [_ E]]. subst r. apply comb_Span. intros r0 H0. exact H0.
Qed.

Lemma In_in_span : forall n rows r, wf n rows -> In r rows -> in_span n rows r.
Proof.
  intros n rows. induction rows as [|r0 rows IH]; intros r Hwf Hin.
  - destruct Hin.
  - assert (length r0 = n) as Hr. { apply (wf_in n (r0 :: rows)). exact Hwf. left. reflexivity. }
    assert (wf n rows) as Hwf'. { inversion Hwf; assumption. }
    destruct Hin as [E|Hin].
    + subst r0. exists (true :: repeat false (length rows)). split.
      * simpl. rewrite repeat_length. reflexivity.
      * simpl. rewrite comb_false. rewrite xorrow_zeros_r by exact Hr. reflexivity.
    + destruct (IH r Hwf' Hin) as [sel [Hl E]].
      exists (false :: sel). split.
      * simpl. rewrite Hl. reflexivity.
      * simpl. exact E.
Qed.

Lemma Span_in_span : forall n rows r, wf n rows -> Span n rows r -> in_span n rows r.
Proof.
  intros n rows r Hwf HS. induction HS as [|r Hin|a b Ha IHa Hb IHb].
  - exists (repeat false (length rows)). split.
    + apply repeat_length.
    + rewrite comb_false. reflexivity.
  - apply In_in_span; assumption.
  - destruct IHa as [s1 [L1 E1]]. destruct IHb as [s2 [L2 E2]].
    exists (xorrow s1 s2). split.
    + rewrite xorrow_length; lia.
    + rewrite comb_xor by assumption. rewrite <- E1, <- E2. reflexivity.
Qed.

(* ------------------------------------------------------------------ *)
(* strictly_increasing                                                 *)
(* ------------------------------------------------------------------ *)

Lemma si_nil : strictly_increasing [].
Proof. intros i j Hij Hj. simpl in Hj. lia. Qed.

Lemma si_snoc : forall l k, strictly_increasing l ->
  (forall i, i < length l -> nth i l 0 < k) -> strictly_increasing (l ++ [k]).
Proof.
  intros l k Hsi Hlt i j Hij Hj. rewrite app_length in Hj. simpl in Hj.
  destruct (Nat.lt_ge_cases j (length l)) as [Hjl|Hjl].
  - rewrite !app_nth1 by lia. apply Hsi; lia.
  - assert (j = length l) as E by lia. subst j.
    rewrite nth_middle. rewrite app_nth1 by lia. apply Hlt. lia.
Qed.

Lemma si_cons_inv : forall p l, strictly_increasing (p :: l) ->
  strictly_increasing l /\ (forall q, In q l -> p < q).
Proof.
  intros p l Hsi. split.
  - intros i j Hij Hj. apply (Hsi (S i) (S j)). lia. simpl. lia.
  - intros q Hq. destruct (In_nth l q 0 Hq) as [t [Ht E]]. subst q.
    apply (Hsi 0 (S t)). lia. simpl. lia.
Qed.

Lemma si_ge_index : forall l, strictly_increasing l -> forall i, i < length l -> i <= nth i l 0.
Proof.
  intros l Hsi. induction i as [|i IH]; intro Hi.
  - lia.
  - assert (nth i l 0 < nth (S i) l 0) as H. { apply Hsi; lia. }
    specialize (IH ltac:(lia)). lia.
Qed.

Lemma si_length_le : forall l n, strictly_increasing l ->
  (forall i, i < length l -> nth i l 0 < n) -> length l <= n.
Proof.
  intros l n Hsi Hlt. destruct (length l) as [|m] eqn:E.
  - lia.
  - assert (m <= nth m l 0) as H1. { apply si_ge_index. exact Hsi. lia. }
    assert (nth m l 0 < n) as H2. { apply Hlt. lia. }
    lia.
Qed.

Lemma si_inj : forall l i j, strictly_increasing l -> i < length l -> j < length l ->
  nth i l 0 = nth j l 0 -> i = j.
Proof.
  intros l i j Hsi Hi Hj E.
  destruct (Nat.lt_trichotomy i j) as [H|[H|H]].
  - specialize (Hsi i j H Hj). lia.
  - exact H.
  - specialize (Hsi j i H Hi). lia.
Qed.

Lemma si_NoDup : forall l, strictly_increasing l -> NoDup l.
Proof.
  induction l as [|p l IH]; intro Hsi.
  - constructor.
  - destruct (si_cons_inv p l Hsi) as [Hsi' Hlt]. constructor.
    + intro Hin. specialize (Hlt p Hin). lia.
    + apply IH. exact Hsi'.
Qed.

Lemma filter_lt_count : forall k l i, i < length l ->
  (forall j, j <= i -> nth j l 0 < k) -> i < length (filter (fun p => p <? k) l).
Proof.
  intros k l. induction l as [|p l IH]; intros i Hi H; simpl in *.
  - lia.
  - assert (p < k) as Hp. { apply (H 0). lia. }
    apply Nat.ltb_lt in Hp. rewrite Hp. simpl.
    destruct i as [|i]. lia.
    apply -> Nat.succ_lt_mono. apply IH. lia.
    intros j Hj. apply (H (S j)). lia.
Qed.
