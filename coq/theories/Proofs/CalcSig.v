(* Proofs/CalcSig.v — C14, signomial part: the symbolic partial derivative is the partial
   derivative; Hessian entries; grad_val / hess_val closed forms; shift_coordinates. *)
From Coq Require Import Reals List Bool Arith ZArith QArith Qreals Lra Lia.
From SageVerif Require Import Math.RVec Model.Signomial Model.SigExpr Model.Calculus
  Proofs.SigSpec Proofs.SigLemmas Proofs.SigRound Proofs.SigMk Proofs.CalcSpec Proofs.CalcBase.
Import ListNotations.
Local Open Scope R_scope.

(* the list of (row, derivative coefficient) pairs before filtering *)
Definition dterms (i : nat) (f : qsig) : qsig :=
  map (fun t => (fst t, Qred (snd t * nthq (fst t) i)%Q)) f.
Definition nzq (t : qrow * Q) : bool := negb (Qeq_bool (snd t) 0%Q).

Lemma sig_partial_unfold : forall n i f,
  sig_partial n i f = match filter nzq (dterms i f) with [] => zero_sig n | _ => q_mk (filter nzq (dterms i f)) end.
Proof. intros. unfold sig_partial, dterms, nzq. destruct (filter _ _); reflexivity. Qed.

Lemma wfsig_dterms : forall n i f, wfsig n f -> wfsig n (dterms i f).
Proof.
  intros n i f H. unfold wfsig, dterms in *. rewrite Forall_forall in *. intros t Ht.
  apply in_map_iff in Ht. destruct Ht as [s [<- Hs]]. simpl. auto.
Qed.

Lemma wfsig_filter : forall n p f, wfsig n f -> wfsig n (filter p f).
Proof.
  intros n p f H. unfold wfsig in *. rewrite Forall_forall in *. intros t Ht.
  apply filter_In in Ht. apply H. tauto.
Qed.

Lemma zero_sig_qconst : forall n, zero_sig n = qconst n 0%Q.
Proof. reflexivity. Qed.

Lemma sig_partial_wf : sig_partial_wf_stmt.
Proof.
  intros n i f Hwf Hi. rewrite sig_partial_unfold.
  destruct (filter nzq (dterms i f)) as [|t d] eqn:E.
  - rewrite zero_sig_qconst. split; [apply qconst_wf|apply qconst_nonempty].
  - split.
    + apply mk_wf. apply wfsig_lengths. rewrite <- E. apply wfsig_filter. now apply wfsig_dterms.
    + apply mk_nonempty. discriminate.
Qed.

(* dropping zero coefficients does not change the value *)
Lemma eval_filter_nz : forall f x, sig_evalR (filter nzq f) x = sig_evalR f x.
Proof.
  induction f as [|t f IH]; intros x; auto. simpl filter.
  destruct (nzq t) eqn:E.
  - rewrite !sig_evalR_cons, IH. reflexivity.
  - rewrite sig_evalR_cons, IH. unfold nzq in E. apply negb_false_iff in E.
    rewrite (qiszero_true (snd t) E). lra.
Qed.

Definition w1 (i : nat) (t : qrow * Q) : R := Q2R (snd t) * nth i (rowR (fst t)) 0.

Lemma eval_dterms : forall i f x, sig_evalR (dterms i f) x = wsum (w1 i) f x.
Proof.
  intros i f x. rewrite wsum_sig. unfold dterms. rewrite wsum_map by reflexivity.
  apply wsum_ext. intros t _. cbv beta. cbn [fst snd]. unfold w1, nthq.
  rewrite Q2R_Qred, Q2R_mult, nth_rowR. reflexivity.
Qed.

(* value of the symbolic partial derivative: sum_j c_j a_ji exp(a_j . x), at every x *)
Lemma sig_partial_eval : forall n i f x, wfsig n f ->
  sig_evalR (sig_partial n i f) x = wsum (w1 i) f x.
Proof.
  intros n i f x Hwf. rewrite sig_partial_unfold.
  rewrite <- eval_dterms, <- (eval_filter_nz (dterms i f)).
  destruct (filter nzq (dterms i f)) as [|t d] eqn:E.
  - rewrite zero_sig_qconst, qconst_eval. rewrite Q2R_0'. reflexivity.
  - apply (mk_eval_grid n). rewrite <- E. apply wfsig_filter. now apply wfsig_dterms.
Qed.

Lemma sig_partial_derive : sig_partial_derive_stmt.
Proof.
  intros n i f x Hwf Hi Hx. rewrite (sig_partial_eval n i f x Hwf).
  apply (derivable_pt_lim_ext (fun t => wsum (fun s => Q2R (snd s)) f (upd x i t))).
  - intros t. reflexivity.
  - apply (wsum_derive (fun s => Q2R (snd s)) f x i). lia.
Qed.

(* second derivatives *)
Definition w2 (i k : nat) (t : qrow * Q) : R :=
  Q2R (snd t) * nth i (rowR (fst t)) 0 * nth k (rowR (fst t)) 0.

Lemma sig_partial2_eval : forall n i k f x, wfsig n f -> (i < n)%nat -> (k < n)%nat -> length x = n ->
  sig_evalR (sig_partial n k (sig_partial n i f)) x = wsum (w2 i k) f x.
Proof.
  intros n i k f x Hwf Hi Hk Hx.
  destruct (sig_partial_wf n i f Hwf Hi) as [Hwf' _].
  pose proof (sig_partial_derive n k (sig_partial n i f) x Hwf' Hk Hx) as D1.
  assert (D2 : derivable_pt_lim (fun t => sig_evalR (sig_partial n i f) (upd x k t)) (nth k x 0)
                                (wsum (w2 i k) f x)).
  { apply (derivable_pt_lim_ext (fun t => wsum (w1 i) f (upd x k t))).
    - intros t. symmetry. now apply sig_partial_eval.
    - apply (wsum_derive (w1 i) f x k). lia. }
  exact (uniqueness_limite _ _ _ _ D1 D2).
Qed.

Lemma w2_sym : forall i k f x, wsum (w2 i k) f x = wsum (w2 k i) f x.
Proof. intros. apply wsum_ext. intros t _. unfold w2. ring. Qed.

Lemma sig_hess_derive : sig_hess_derive_stmt.
Proof.
  intros n i k f x Hwf Hi Hk Hx. split.
  - destruct (sig_partial_wf n i f Hwf Hi) as [Hwf' _].
    now apply sig_partial_derive.
  - rewrite !sig_partial2_eval by auto. apply w2_sym.
Qed.

(* closed forms *)
Lemma nth_map_seq : forall (A : Type) (g : nat -> A) n i d, (i < n)%nat ->
  nth i (map g (seq 0 n)) d = g i.
Proof.
  intros A g n i d Hi. rewrite (nth_indep _ d (g 0%nat)) by (rewrite map_length, seq_length; auto).
  rewrite map_nth, seq_nth; auto.
Qed.

Lemma grad_val_closed_form : grad_val_closed_form_stmt.
Proof.
  intros n i f x Hwf Hi Hx. unfold grad_weights.
  rewrite (nth_map_seq _ (fun i => map (fun t => (fst t, Qred (snd t * nthq (fst t) i)%Q)) f)) by auto.
  rewrite (sig_partial_eval n i f x Hwf). apply eval_dterms.
Qed.

Lemma hess_val_closed_form : hess_val_closed_form_stmt.
Proof.
  intros n i k f x Hwf Hi Hk Hx. unfold hess_weights.
  rewrite (nth_map_seq _ (fun i => map (fun k => map (fun t => (fst t, Qred (snd t * nthq (fst t) i * nthq (fst t) k)%Q)) f) (seq 0 n))) by auto.
  rewrite (nth_map_seq _ (fun k => map (fun t => (fst t, Qred (snd t * nthq (fst t) i * nthq (fst t) k)%Q)) f)) by auto.
  rewrite sig_partial2_eval by auto.
  rewrite wsum_sig, wsum_map by reflexivity.
  apply wsum_ext. intros t _. cbv beta. cbn [fst snd]. unfold w2, nthq.
  rewrite Q2R_Qred, !Q2R_mult, !nth_rowR. reflexivity.
Qed.

(* ------------------------------------------------------------------ *)
(* shift_coordinates *)
Lemma dot_vadd : forall a x y, length x = length y -> dot a (vadd x y) = dot a x + dot a y.
Proof.
  induction a as [|e a IH]; intros x y H.
  - simpl. lra.
  - destruct x, y; simpl in *; try lia; try lra.
    rewrite IH by lia. lra.
Qed.

Lemma Q2R_fold_dot : forall a b acc,
  Q2R (fold_left (fun acc p => (acc + fst p * snd p)%Q) (combine a b) acc) = Q2R acc + dot (rowR a) (map Q2R b).
Proof.
  induction a as [|e a IH]; intros b acc.
  - simpl. lra.
  - destruct b as [|v b]; simpl; [lra|].
    rewrite IH, Q2R_plus, Q2R_mult. lra.
Qed.

Lemma Q2R_qdotq : forall a b, Q2R (qdotq a b) = dot (rowR a) (map Q2R b).
Proof. intros. unfold qdotq. rewrite Q2R_Qred, Q2R_fold_dot, Q2R_0'. lra. Qed.

Lemma shift_correct : shift_correct_stmt.
Proof.
  intros n f x0 x Hwf H0 Hx. induction f as [|t f IH].
  - reflexivity.
  - inversion Hwf; subst.
    change (shifted_eval (shift (t :: f) x0) x)
      with (Q2R (snd t) * exp (Q2R (qdotq (fst t) x0)) * exp (dot (rowR (fst t)) x)
            + shifted_eval (shift f x0) x).
    rewrite sig_evalR_cons, <- IH by auto.
    rewrite Q2R_qdotq, dot_vadd by (rewrite map_length; lia).
    rewrite exp_plus. lra.
Qed.
