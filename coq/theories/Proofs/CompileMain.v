(* Proofs/CompileMain.v — C07, part 3: the compiled conic system is equivalent to the high-level
   constraints (completeness for all inputs, soundness under the DCP guard), and the explicit
   counterexample outside the guard. *)
From Coq Require Import Reals List Bool Arith ZArith QArith Qreals Lra Lia.
From SageVerif Require Import Math.RVec Model.Expr Model.SolverForms Model.Compile
  Proofs.MathSpec Proofs.MathProofs Proofs.ExprSpec Proofs.FormsSpec Proofs.FormsLemmas
  Proofs.CompileSpec Proofs.ExprAtoms Proofs.ExprScalar Proofs.CompileRows Proofs.CompileBlocks.
Import ListNotations.
Open Scope R_scope.

(* ------------------------------------------------------------------ atoms *)
Lemma is_nl_eqb : forall a b, atom_eqb a b = true -> is_nl a = is_nl b.
Proof. intros [i|k xs] [j|l ys]; simpl; intros H; try reflexivity; discriminate. Qed.

Lemma not_nl_var : forall a, is_nl a = false -> is_var a = true.
Proof. intros [i|k xs]; simpl; auto. Qed.

Lemma avar_eqb : forall i k, atom_eqb (AVar i) k = true -> k = AVar i.
Proof. intros i [j|l ys]; simpl; intros H; [|discriminate]. apply Z.eqb_eq in H. now subst. Qed.

Lemma term_key : forall e t, In t (terms e) -> exists k, In k (keys e) /\ atom_eqb (fst t) k = true.
Proof. intros e t H. apply mem_atom_iff. now apply keys_cover. Qed.

(* ------------------------------------------------------------------ nl_atoms *)
Definition nstep (acc : list atom) (a : atom) : list atom :=
  if is_nl a && negb (mem_atom a acc) then a :: acc else acc.
Definition all_keys (cs : list econ) : list atom := flat_map (fun c => flat_map keys (e_cells c)) cs.

Lemma nl_atoms_eq : forall cs, nl_atoms cs = rev (fold_left nstep (all_keys cs) []).
Proof. reflexivity. Qed.

Lemma nfold_inv : forall l acc,
  (forall a, In a (fold_left nstep l acc) -> In a acc \/ (In a l /\ is_nl a = true)) /\
  (forall a, mem_atom a acc = true -> mem_atom a (fold_left nstep l acc) = true) /\
  (forall a, In a l -> is_nl a = true -> mem_atom a (fold_left nstep l acc) = true).
Proof.
  induction l as [|x l IH]; simpl; intros acc.
  - repeat split; auto; try (intros a []).
  - destruct (IH (nstep acc x)) as (I1 & I2 & I3).
    assert (Hm : forall a, mem_atom a acc = true -> mem_atom a (nstep acc x) = true).
    { intros a Ha. unfold nstep. destruct (is_nl x && negb (mem_atom x acc)); auto.
      simpl. rewrite Ha. apply orb_true_r. }
    repeat split.
    + intros a Ha. destruct (I1 a Ha) as [H|[H1 H2]]; [|right; auto].
      unfold nstep in H. destruct (is_nl x && negb (mem_atom x acc)) eqn:E; auto.
      destruct H as [<-|H]; auto. apply andb_prop in E as [E1 _]. right; auto.
    + intros a Ha. apply I2. auto.
    + intros a [<-|Ha] Hn; [|apply I3; auto].
      apply I2. unfold nstep. rewrite Hn. simpl.
      destruct (mem_atom x acc) eqn:E; simpl; auto. now rewrite atom_eqb_refl.
Qed.

Lemma in_all_keys : forall cs a,
  In a (all_keys cs) <-> exists c e, In c cs /\ In e (e_cells c) /\ In a (keys e).
Proof.
  intros cs a. unfold all_keys. rewrite in_flat_map. split.
  - intros [c [Hc H]]. apply in_flat_map in H as [e [He Ha]]. exists c, e. auto.
  - intros [c [e [Hc [He Ha]]]]. exists c. split; auto. apply in_flat_map. exists e. auto.
Qed.

Lemma nl_atoms_in : forall cs a, In a (nl_atoms cs) ->
  is_nl a = true /\ exists c e, In c cs /\ In e (e_cells c) /\ In a (keys e).
Proof.
  intros cs a H. rewrite nl_atoms_eq in H. apply in_rev in H.
  destruct (nfold_inv (all_keys cs) []) as (I1 & _ & _).
  destruct (I1 a H) as [[]|[H1 H2]]. split; auto. now apply in_all_keys.
Qed.

Lemma nl_atoms_cover : forall cs c e k, In c cs -> In e (e_cells c) -> In k (keys e) ->
  is_nl k = true -> exists a, In a (nl_atoms cs) /\ atom_eqb k a = true.
Proof.
  intros cs c e k Hc He Hk Hn. apply mem_atom_iff. rewrite nl_atoms_eq, mem_atom_rev.
  destruct (nfold_inv (all_keys cs) []) as (_ & _ & I3). apply I3; auto.
  apply in_all_keys. exists c, e. auto.
Qed.

(* ------------------------------------------------------------------ user ids *)
Lemma user_ids_cs : forall cs ss c e k i, In c cs -> In e (e_cells c) -> In k (keys e) ->
  In i (atom_var_ids k) -> In i (user_ids cs ss).
Proof.
  intros cs ss c e k i Hc He Hk Hi. unfold user_ids. apply in_or_app. left.
  apply in_flat_map. exists c. split; auto. apply in_flat_map. exists e. split; auto.
  apply in_flat_map. exists k. auto.
Qed.

Definition cells_of (s : smem) : list sexpr := match s with SPrimal y _ | SDual y _ => y end.

Lemma user_ids_ss : forall cs ss s e k i, In s ss -> In e (cells_of s) -> In k (keys e) ->
  In i (atom_var_ids k) -> In i (user_ids cs ss).
Proof.
  intros cs ss s e k i Hs He Hk Hi. unfold user_ids. apply in_or_app. right.
  apply in_flat_map. exists s. split; auto.
  assert (G : In i (flat_map (fun e => flat_map atom_var_ids (keys e)) (cells_of s))).
  { apply in_flat_map. exists e. split; auto. apply in_flat_map. exists k. auto. }
  destruct s; exact G.
Qed.

(* ------------------------------------------------------------------ values and environments *)
Lemma value_ext : forall rho rho' e,
  (forall k i, In k (keys e) -> In i (atom_var_ids k) -> rho i = rho' i) ->
  value rho e = value rho' e.
Proof.
  intros rho rho' e H. rewrite !value_by_keys. f_equal.
  apply (rsumf_ext _ (fun a => Q2R (coeff_of a e) * atom_val rho a)
                     (fun a => Q2R (coeff_of a e) * atom_val rho' a)).
  intros k Hk. f_equal. apply atom_val_ext. intros i Hi. eapply H; eauto.
Qed.

(* the substituted cell, term by term and key by key *)
Definition gval (rho : env) (epi : atom -> Z) (a : atom) : R :=
  if is_nl a then rho (epi a) else atom_val rho a.

Lemma subst_value_terms : forall rho epi e,
  value rho (subst_cell epi e)
  = rsumf (fun t => Q2R (snd t) * gval rho epi (fst t)) (terms e) + Q2R (off e).
Proof.
  intros rho epi e. unfold value, subst_cell. cbn [terms off]. f_equal.
  induction (terms e) as [|[a c] l IH]; [reflexivity|].
  cbn [map fold_right]. rewrite rsumf_cons, <- IH. cbn [fst snd]. unfold gval.
  destruct (is_nl a); reflexivity.
Qed.

Lemma subst_affine : forall epi e, affine_cell (subst_cell epi e).
Proof.
  intros epi e. unfold affine_cell. apply forallb_forall. intros k Hk.
  apply keys_in_terms in Hk. unfold subst_cell in Hk. cbn [terms] in Hk.
  rewrite map_map in Hk. apply in_map_iff in Hk as [[a c] [<- _]]. cbn [fst snd].
  destruct (is_nl a) eqn:E; [reflexivity | now apply not_nl_var].
Qed.

(* the bag view for any atom function respecting atom_eqb *)
Section GBag.
  Variable g : atom -> R.
  Hypothesis g_eqb : forall a b, atom_eqb a b = true -> g a = g b.

  Lemma gbag_single : forall a c ks, NoDupE ks ->
    rsumf (fun k => (if atom_eqb a k then c else 0) * g k) ks
    = if mem_atom a ks then c * g a else 0.
  Proof.
    intros a c ks H. induction H as [|k ks Hk Hks IH]; simpl; auto.
    destruct (atom_eqb a k) eqn:E; simpl.
    - assert (Hf : mem_atom a ks = false).
      { destruct (mem_atom a ks) eqn:F; auto.
        rewrite (mem_atom_congr k a ks (atom_eqb_sym _ _ E) F) in Hk. discriminate. }
      rewrite IH, Hf, (g_eqb _ _ E). lra.
    - rewrite IH. lra.
  Qed.

  Lemma gbag : forall ks l, NoDupE ks ->
    rsumf (fun k => coefR k l * g k) ks
    = rsumf (fun t => if mem_atom (fst t) ks then Q2R (snd t) * g (fst t) else 0) l.
  Proof.
    intros ks l H. induction l as [|t l IH]; simpl.
    - apply rsumf_zero. intros; lra.
    - rewrite <- IH, <- (gbag_single (fst t) (Q2R (snd t)) ks H), <- rsumf_plus.
      apply rsumf_ext. intros k _. destruct (atom_eqb (fst t) k); lra.
  Qed.

  Lemma gbag_keys : forall e,
    rsumf (fun t => Q2R (snd t) * g (fst t)) (terms e)
    = rsumf (fun k => Q2R (coeff_of k e) * g k) (keys e).
  Proof.
    intros e. transitivity (rsumf (fun k => coefR k (terms e) * g k) (keys e)).
    - rewrite (gbag _ _ (keys_nodup e)). apply rsumf_ext. intros t Ht. now rewrite (keys_cover e t Ht).
    - apply rsumf_ext. intros k _. now rewrite coeff_of_R.
  Qed.
End GBag.

Lemma rsumf_le : forall A (f g : A -> R) l, (forall a, In a l -> f a <= g a) -> rsumf f l <= rsumf g l.
Proof.
  intros A f g l. induction l as [|x l IH]; simpl; intros H; [lra|].
  pose proof (H x (or_introl eq_refl)). assert (rsumf f l <= rsumf g l) by (apply IH; auto). lra.
Qed.

(* ------------------------------------------------------------------ elementwise blocks *)
Lemma econ_block_sat : forall rho epi dummy c,
  block_sat rho (econ_block dummy (subst_econ epi c)) <->
  Forall (fun e => match e_op c with
                   | OpEq => value rho (subst_cell epi e) = 0
                   | OpLe => value rho (subst_cell epi e) <= 0
                   end) (e_cells c).
Proof.
  intros rho epi dummy c. unfold econ_block, subst_econ. cbn [e_op e_cells].
  rewrite block_single by (now rewrite !map_length).
  assert (V : forall e, rrow_val rho (row_of dummy true (subst_cell epi e)) = - value rho (subst_cell epi e)).
  { intros e. rewrite row_of_val by apply subst_affine. lra. }
  rewrite !map_map. destruct (e_op c); cbn [sem_tag in_cone]; rewrite Forall_map; split; intros H;
    rewrite Forall_forall in *; intros e He; specialize (H e He); rewrite V in *; lra.
Qed.

(* ------------------------------------------------------------------ epigraph blocks *)
Lemma in_domain_eqb : forall rho a b, atom_eqb a b = true -> in_domain rho a -> in_domain rho b.
Proof.
  intros rho [i|k xs] [j|l ys]; simpl atom_eqb; intros H; try discriminate H; [intros; exact I|].
  apply andb_prop in H as [H1 H2]. apply nlkind_eqb_eq in H1. subst l.
  destruct k; try (intros; exact I).
  assert (Hlen : length xs = length ys).
  { clear -H2. revert ys H2. induction xs as [|x xs IH]; intros [|y ys] H; simpl in *;
      try discriminate H; auto. apply andb_prop in H as [_ H]. f_equal. auto. }
  destruct xs as [|x [|y [|z xs]]]; destruct ys as [|x' [|y' [|z' ys]]];
    try discriminate Hlen; try (intros; exact I). simpl in H2.
  apply andb_prop in H2 as [E1 E2]. apply andb_prop in E2 as [E2 _].
  simpl. now rewrite (aff_eqb_val rho _ _ E1), (aff_eqb_val rho _ _ E2).
Qed.

Lemma in_domain_ext : forall rho rho' a, (forall i, In i (atom_var_ids a) -> rho i = rho' i) ->
  in_domain rho a -> in_domain rho' a.
Proof.
  intros rho rho' [i|k xs] H; [intros; exact I|].
  destruct k; try (intros; exact I).
  destruct xs as [|x [|y [|z xs]]]; try (intros; exact I).
  simpl. simpl in H.
  rewrite (aff_val_ext rho rho' x), (aff_val_ext rho rho' y); auto;
    intros i Hi; apply H; rewrite !in_app_iff; auto.
Qed.

(* a solution of the epigraph block bounds the atom from above and lies in its domain *)
Lemma epi_block_sound : forall rho dummy t a, atom_ok a -> is_nl a = true ->
  block_sat rho (epi_block dummy t a) -> atom_val rho a <= rho t /\ in_domain rho a.
Proof.
  intros rho dummy t [i|k args] Hok Hn H; [discriminate Hn|].
  destruct k.
  - destruct args as [|x [|y args]]; try contradiction Hok.
    apply epi_exp_iff in H. simpl. auto.
  - destruct args as [|x [|y args]]; try contradiction Hok.
    apply epi_abs_iff in H. simpl. auto.
  - destruct args as [|x [|y args]]; try contradiction Hok.
    apply epi_pos_iff in H. simpl. auto.
  - destruct args as [|x [|y [|z args]]]; try contradiction Hok.
    apply epi_relent_iff in H. simpl.
    destruct H as [[H1 [H2 H3]]|[H1 [H2 H3]]]; split; auto.
    rewrite H1, rel_entr_zero. exact H3.
  - apply epi_norm_iff in H. simpl. auto.
Qed.

(* assigning the atom's value to the epigraph variable solves the block *)
Lemma epi_block_complete : forall rho dummy t a, atom_ok a -> is_nl a = true ->
  in_domain rho a -> rho t = atom_val rho a -> block_sat rho (epi_block dummy t a).
Proof.
  intros rho dummy t [i|k args] Hok Hn Hd Ht; [discriminate Hn|].
  destruct k.
  - destruct args as [|x [|y args]]; try contradiction Hok.
    apply epi_exp_iff. rewrite Ht. simpl. lra.
  - destruct args as [|x [|y args]]; try contradiction Hok.
    apply epi_abs_iff. rewrite Ht. simpl. lra.
  - destruct args as [|x [|y args]]; try contradiction Hok.
    apply epi_pos_iff. rewrite Ht. simpl. lra.
  - destruct args as [|x [|y [|z args]]]; try contradiction Hok.
    apply epi_relent_iff. rewrite Ht. simpl. simpl in Hd.
    destruct Hd as [[H1 H2]|[H1 H2]]; [left | right]; repeat split; auto; try lra.
    rewrite H1, rel_entr_zero. lra.
  - apply epi_norm_iff. rewrite Ht. simpl. lra.
Qed.

(* ------------------------------------------------------------------ set-membership blocks *)
Lemma smem_block_iff : forall rho dummy s b, smem_ok s -> Forall affine_cell (cells_of s) ->
  smem_block dummy s = Some b -> (block_sat rho b <-> smem_sat rho s).
Proof.
  intros rho dummy [y K|y K] b Hok Ha Hb; simpl in Ha.
  - now apply (primal_block_iff rho dummy y K b).
  - now apply (dual_block_iff rho dummy y K b).
Qed.

Lemma smem_sat_ext : forall rho rho' s,
  (forall e, In e (cells_of s) -> value rho e = value rho' e) -> smem_sat rho s -> smem_sat rho' s.
Proof.
  intros rho rho' s H. assert (E : map (value rho) (cells_of s) = map (value rho') (cells_of s)).
  { apply map_ext_in. exact H. }
  destruct s as [y K|y K]; simpl in *; now rewrite E.
Qed.

Lemma Forall2_in_l : forall A B (R : A -> B -> Prop) l1 l2, Forall2 R l1 l2 ->
  forall a, In a l1 -> exists b, In b l2 /\ R a b.
Proof.
  induction 1 as [|x y l1 l2 Hxy H IH]; intros a Ha; [destruct Ha|].
  destruct Ha as [<-|Ha]; [exists y; simpl; auto|].
  destruct (IH a Ha) as [b [Hb Hr]]. exists b. simpl; auto.
Qed.

Lemma Forall2_in_r : forall A B (R : A -> B -> Prop) l1 l2, Forall2 R l1 l2 ->
  forall b, In b l2 -> exists a, In a l1 /\ R a b.
Proof.
  induction 1 as [|x y l1 l2 Hxy H IH]; intros b Hb; [destruct Hb|].
  destruct Hb as [<-|Hb]; [exists x; simpl; auto|].
  destruct (IH b Hb) as [a [Ha Hr]]. exists a. simpl; auto.
Qed.

Lemma inputs_smem : forall cs ss s, inputs_ok cs ss -> In s ss ->
  smem_ok s /\ Forall affine_cell (cells_of s).
Proof.
  intros cs ss s (_ & H2 & H3) Hs. rewrite Forall_forall in H2, H3. split; auto.
  specialize (H3 s Hs). destruct s; exact H3.
Qed.

Lemma inputs_atom_ok : forall cs ss c e k, inputs_ok cs ss -> In c cs -> In e (e_cells c) ->
  In k (keys e) -> atom_ok k.
Proof.
  intros cs ss c e k (H1 & _ & _) Hc He Hk. rewrite Forall_forall in H1.
  specialize (H1 c Hc). rewrite Forall_forall in H1. specialize (H1 e He).
  rewrite Forall_forall in H1. auto.
Qed.

(* ------------------------------------------------------------------ the extended assignment *)
Lemma extend_other : forall rho epi atoms i, (forall a, In a atoms -> epi a <> i) ->
  extend rho epi atoms i = rho i.
Proof.
  intros rho epi atoms i H. unfold extend.
  destruct (filter (fun a => Z.eqb (epi a) i) atoms) as [|a l] eqn:E; auto.
  assert (Ha : In a (filter (fun a => Z.eqb (epi a) i) atoms)) by (rewrite E; now left).
  apply filter_In in Ha as [Ha1 Ha2]. apply Z.eqb_eq in Ha2. exfalso. exact (H a Ha1 Ha2).
Qed.

Lemma extend_epi : forall rho epi cs ss a, epi_fresh epi cs ss -> In a (nl_atoms cs) ->
  extend rho epi (nl_atoms cs) (epi a) = atom_val rho a.
Proof.
  intros rho epi cs ss a (_ & F2 & _) Ha. unfold extend.
  destruct (filter (fun b => Z.eqb (epi b) (epi a)) (nl_atoms cs)) as [|b l] eqn:E.
  - assert (Hin : In a (filter (fun b => Z.eqb (epi b) (epi a)) (nl_atoms cs))).
    { apply filter_In. split; auto. apply Z.eqb_refl. }
    rewrite E in Hin. destruct Hin.
  - assert (Hb : In b (filter (fun b => Z.eqb (epi b) (epi a)) (nl_atoms cs))) by (rewrite E; now left).
    apply filter_In in Hb as [Hb1 Hb2]. apply Z.eqb_eq in Hb2.
    apply atom_eqb_value. apply F2; auto.
Qed.

Lemma extend_user : forall rho epi cs ss i, epi_fresh epi cs ss -> In i (user_ids cs ss) ->
  extend rho epi (nl_atoms cs) i = rho i.
Proof.
  intros rho epi cs ss i (F1 & _ & _) Hi. apply extend_other.
  intros a Ha E. apply (F1 a Ha). now rewrite E.
Qed.

(* ------------------------------------------------------------------ completeness *)
Lemma compile_complete : compile_complete_stmt.
Proof.
  intros epi dummy cs ss bs rho Hin Hfr Hbs Hcs Hss.
  apply all_blocks_inv in Hbs as [sbs [Hsb ->]].
  set (rho' := extend rho epi (nl_atoms cs)).
  assert (Huser : forall i, In i (user_ids cs ss) -> rho' i = rho i).
  { intros i Hi. unfold rho'. now apply (extend_user rho epi cs ss). }
  assert (Hepi : forall a, In a (nl_atoms cs) -> rho' (epi a) = atom_val rho a).
  { intros a Ha. unfold rho'. now apply (extend_epi rho epi cs ss). }
  assert (Hatom : forall c e k, In c cs -> In e (e_cells c) -> In k (keys e) ->
            atom_val rho' k = atom_val rho k /\ (in_domain rho k -> in_domain rho' k)).
  { intros c e k Hc He Hk. split.
    - apply atom_val_ext. intros i Hi. apply Huser. eapply user_ids_cs; eauto.
    - apply in_domain_ext. intros i Hi. symmetry. apply Huser. eapply user_ids_cs; eauto. }
  unfold blocks_sat. apply Forall_app. split; [|apply Forall_app; split].
  - (* elementwise constraints *)
    apply Forall_forall. intros b Hb. rewrite map_map in Hb.
    apply in_map_iff in Hb as [c [<- Hc]]. apply econ_block_sat.
    specialize (Hcs c Hc). unfold econ_sat in Hcs. rewrite Forall_forall in Hcs.
    apply Forall_forall. intros e He. destruct (Hcs e He) as [_ Hv].
    assert (E : value rho' (subst_cell epi e) = value rho e).
    { rewrite subst_value_terms, value_eq. f_equal. unfold tsum. apply rsumf_ext.
      intros t Ht. f_equal. destruct (term_key e t Ht) as [k [Hk Hkt]].
      unfold gval. destruct (is_nl (fst t)) eqn:En.
      - assert (Hnk : is_nl k = true) by (now rewrite <- (is_nl_eqb _ _ Hkt)).
        destruct (nl_atoms_cover cs c e k Hc He Hk Hnk) as [a [Ha Hka]].
        destruct Hfr as (_ & _ & F3).
        rewrite (F3 _ _ Hkt), (F3 _ _ Hka), (Hepi a Ha).
        symmetry. apply atom_eqb_value. eapply atom_eqb_trans; eauto.
      - destruct (fst t) as [i|kk xs] eqn:Et; [|discriminate En].
        apply avar_eqb in Hkt. subst k. simpl. apply Huser.
        apply (user_ids_cs cs ss c e (AVar i) i); simpl; auto. }
    rewrite E. exact Hv.
  - (* epigraph cones *)
    apply Forall_forall. intros b Hb. apply in_map_iff in Hb as [a [<- Ha]].
    destruct (nl_atoms_in cs a Ha) as [Hn [c [e [Hc [He Hk]]]]].
    destruct (Hatom c e a Hc He Hk) as [Hv Hd].
    apply epi_block_complete; auto.
    + eapply inputs_atom_ok; eauto.
    + apply Hd. specialize (Hcs c Hc). unfold econ_sat in Hcs. rewrite Forall_forall in Hcs.
      destruct (Hcs e He) as [Hdom _]. auto.
    + rewrite Hv. now apply Hepi.
  - (* set membership *)
    apply smem_blocks_spec in Hsb. apply Forall_forall. intros b Hb.
    destruct (Forall2_in_r _ _ _ _ _ Hsb b Hb) as [s [Hs Hsb']].
    destruct (inputs_smem cs ss s Hin Hs) as [Hok Haff].
    apply (smem_block_iff rho' dummy s b Hok Haff Hsb').
    apply (smem_sat_ext rho rho'); [|now apply Hss].
    intros e He. apply value_ext. intros k i Hk Hi. symmetry. apply Huser.
    eapply user_ids_ss; eauto.
Qed.

(* ------------------------------------------------------------------ soundness *)
Lemma compile_sound : compile_sound_stmt.
Proof.
  intros epi dummy cs ss bs rho Hin Hfr Hdcp Hbs Hsat.
  apply all_blocks_inv in Hbs as [sbs [Hsb ->]].
  unfold blocks_sat in Hsat. apply Forall_app in Hsat as [S1 S2]. apply Forall_app in S2 as [S2 S3].
  rewrite Forall_forall in S1, S2, S3.
  destruct Hfr as (_ & _ & F3).
  (* every distinct atom is bounded by its epigraph variable and lies in its domain *)
  assert (Hat : forall c e k, In c cs -> In e (e_cells c) -> In k (keys e) -> is_nl k = true ->
            atom_val rho k <= rho (epi k) /\ in_domain rho k).
  { intros c e k Hc He Hk Hn.
    destruct (nl_atoms_cover cs c e k Hc He Hk Hn) as [a [Ha Hka]].
    destruct (nl_atoms_in cs a Ha) as [Hna [c' [e' [Hc' [He' Hk']]]]].
    assert (Hb : block_sat rho (epi_block dummy (epi a) a)).
    { apply S2. apply in_map_iff. exists a. auto. }
    apply epi_block_sound in Hb as [B1 B2]; auto; [|eapply inputs_atom_ok; eauto].
    split.
    - rewrite (atom_eqb_value rho _ _ Hka), (F3 _ _ Hka). exact B1.
    - apply (in_domain_eqb rho a k); auto. now apply atom_eqb_sym. }
  assert (Hg : forall a b, atom_eqb a b = true -> gval rho epi a = gval rho epi b).
  { intros a b H. unfold gval. rewrite (is_nl_eqb _ _ H), (F3 _ _ H), (atom_eqb_value rho _ _ H).
    reflexivity. }
  split.
  - intros c Hc. unfold econ_sat. apply Forall_forall. intros e He.
    assert (Hb : block_sat rho (econ_block dummy (subst_econ epi c))).
    { apply S1. rewrite map_map. apply in_map_iff. exists c. auto. }
    apply econ_block_sat in Hb. rewrite Forall_forall in Hb. specialize (Hb e He).
    assert (Es : value rho (subst_cell epi e)
                 = rsumf (fun k => Q2R (coeff_of k e) * gval rho epi k) (keys e) + Q2R (off e)).
    { rewrite subst_value_terms. f_equal. apply (gbag_keys _ Hg). }
    assert (Ev : value rho e
                 = rsumf (fun k => Q2R (coeff_of k e) * atom_val rho k) (keys e) + Q2R (off e)).
    { apply value_by_keys. }
    split.
    + intros a Ha. destruct (is_nl a) eqn:En.
      * exact (proj2 (Hat c e a Hc He Ha En)).
      * destruct a; [exact I | discriminate En].
    + destruct (e_op c) eqn:Eop.
      * (* equality cells contain no nonlinear atom *)
        rewrite Ev, <- Hb, Es. f_equal. apply rsumf_ext. intros k Hk. f_equal.
        unfold gval. destruct (is_nl k) eqn:En; auto.
        destruct (Hdcp c Hc e He k Hk En) as [Hop _]. congruence.
      * assert (Hle : rsumf (fun k => Q2R (coeff_of k e) * atom_val rho k) (keys e)
                      <= rsumf (fun k => Q2R (coeff_of k e) * gval rho epi k) (keys e)).
        { apply rsumf_le. intros k Hk. unfold gval. destruct (is_nl k) eqn:En; [|lra].
          destruct (Hdcp c Hc e He k Hk En) as [_ Hco].
          destruct (Hat c e k Hc He Hk En) as [Hbound _].
          apply Rmult_le_compat_l; auto. }
        lra.
  - intros s Hs. apply smem_blocks_spec in Hsb.
    destruct (Forall2_in_l _ _ _ _ _ Hsb s Hs) as [b [Hb Hsb']].
    destruct (inputs_smem cs ss s Hin Hs) as [Hok Haff].
    apply (smem_block_iff rho dummy s b Hok Haff Hsb'). apply S3. exact Hb.
Qed.

(* ------------------------------------------------------------------ outside the DCP guard *)
Lemma compile_nondcp_refuted : compile_nondcp_refuted_stmt.
Proof.
  pose (x := ([(0%Z, 1%Q)], 0%Q) : aff).
  pose (e := {| terms := [(ANl KAbs [x], (-1)%Q)]; off := 1%Q |}).
  pose (c := {| e_op := OpLe; e_cells := [e] |}).
  pose (epi := fun _ : atom => 1%Z).
  pose (rho := (fun i => if Z.eqb i 1 then 1 else 0) : env).
  assert (Hx : aff_val rho x = 0).
  { unfold aff_val, x, rho. simpl. rewrite EQ2R_0. lra. }
  exists epi, 2%Z, [c],
    (map (econ_block 2%Z) (map (subst_econ epi) [c])
     ++ map (fun a => epi_block 2%Z (epi a) a) (nl_atoms [c]) ++ []), rho.
  split; [reflexivity|]. split.
  - unfold blocks_sat. apply Forall_app. split.
    + constructor; [|constructor]. apply econ_block_sat. constructor; [|constructor].
      cbn [e_op c]. rewrite subst_value_terms. unfold e, gval, epi, rho. simpl.
      rewrite EQ2R_m1, EQ2R_1. lra.
    + change (nl_atoms [c]) with [ANl KAbs [x]]. constructor; [|constructor].
      apply epi_abs_iff. rewrite Hx, Rabs_R0. unfold epi, rho. simpl. lra.
  - intros H. specialize (H c (or_introl eq_refl)). unfold econ_sat in H.
    inversion H as [|? ? [_ Hv] _]; subst. cbn [e_op c] in Hv.
    unfold value, e in Hv. cbn [terms off fold_right fst snd atom_val nl_val map] in Hv.
    rewrite Hx, Rabs_R0, EQ2R_m1, EQ2R_1 in Hv. lra.
Qed.
