(* Proofs/GenProdConeSpec.v — the block loop of DualProductCone.conic_form regenerated from the source (Gen/GenProdCone.v) produces, cone by cone, the
   rows of Model/Compile.dual_rows: with cells tagged by what the source does to them (kept, negated, scaled by e) and rows made from the tags, the
   generated function IS the model on every y and K whose exponential cones have length 3 and whose lengths add up to |y| (the constructor's check). *)
From Coq Require Import List Bool Arith ZArith.
From SageVerif Require Import Model.SolverForms Model.Expr Model.Compile Gen.GenProdCone.
Import ListNotations.

Inductive dcell := DPlain (e : sexpr) | DNeg (e : sexpr) | DScaleE (e : sexpr).
Definition d_neg (c : dcell) : dcell := match c with DPlain e => DNeg e | DNeg e => DPlain e | DScaleE e => DScaleE e end.
Definition d_scale (c : dcell) : dcell := match c with DPlain e => DScaleE e | other => other end.
Definition d_row (dummy : Z) (c : dcell) : rrow :=
  match c with DPlain e => prow dummy e | DNeg e => neg_rrow dummy e | DScaleE e => scale_rrow_e (prow dummy e) end.

Definition exp_len3 (K : list cone) : Prop := Forall (fun co => fst co = TExp -> snd co = 3) K.

Definition gen_dual_rows_equiv_stmt : Prop :=
  forall dummy (d0 : sexpr) (y : list sexpr) (K : list cone), exp_len3 K -> length y = Ksize K ->
    dual_rows dummy y K
    = match gen_dual_ymod (DPlain d0) d_neg d_scale (map DPlain y) K with
      | Some (ym, Ks) => Some (Ks, map (d_row dummy) ym)
      | None => None
      end.

(* the dual-block equivalence of C07 restated for the rows obtained from the GENERATED loop *)
From Coq Require Import Reals.
From SageVerif Require Import Math.RVec Proofs.ExprSpec Proofs.FormsSpec Proofs.CompileSpec.
Definition gen_dual_block (dummy : Z) (d0 : sexpr) (y : list sexpr) (K : list cone) : option block :=
  match gen_dual_ymod (DPlain d0) d_neg d_scale (map DPlain y) K with
  | Some (ym, Ks) => Some (Ks, map (d_row dummy) ym)
  | None => None
  end.
Definition gen_dual_block_iff_stmt : Prop :=
  forall rho dummy d0 y K b, Forall affine_cell y -> smem_ok (SDual y K) ->
    gen_dual_block dummy d0 y K = Some b ->
    (block_sat rho b <-> in_Kdual (semK K) (map (ExprSpec.value rho) y)).
