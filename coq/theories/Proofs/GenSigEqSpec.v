(* Proofs/GenSigEqSpec.v — Signomial.query_coeff and Signomial.__eq__ regenerated from the source (Gen/GenSigEq.v) are the model's query_coeff and
   q_eqb on every pair of term lists, so the C12 theorems about equality (reflexive, symmetric, holds exactly when the coefficient functions
   coincide up to the fixed tolerance) are theorems about the code generated from the current signomials.py, tolerance literal included. *)
From Coq Require Import List Bool Arith ZArith QArith.
From SageVerif Require Import Model.Signomial Gen.GenSigEq Proofs.SigSpec.
Import ListNotations.

Definition gen_query_coeff_equiv_stmt : Prop := forall f a, gen_query_coeff f a = query_coeff f (round_row a).
Definition gen_sig_eq_equiv_stmt : Prop := forall f g, gen_sig_eq f g = q_eqb f g.
Definition gen_eq_sym_stmt : Prop := forall f g : qsig, gen_sig_eq f g = gen_sig_eq g f.
Definition gen_eq_iff_close_stmt : Prop :=
  forall n f g, wfsig n f -> wfsig n g -> rows_distinct f -> rows_distinct g ->
    (gen_sig_eq f g = true <->
     (length f = length g /\
      forall r, In r (map fst f ++ map fst g) -> close (query_coeff f r) (query_coeff g r) = true)).
