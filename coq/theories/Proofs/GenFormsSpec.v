(* Proofs/GenFormsSpec.v — ECOS.apply and build_cone_type_selectors regenerated from the source (Gen/GenForms.v) are the model's
   ecos_apply and selector on every input, so the C10 theorems about the ECOS standard form (ecos_feasible_iff, ecos_error_iff, ...) are
   theorems about the code generated from the current ecos.py / cones.py. *)
From Coq Require Import List Bool Arith.
From SageVerif Require Import Model.SolverForms Gen.GenForms.
Import ListNotations.

Definition gen_selector_equiv_stmt : Prop := forall K t, gen_selector K t = selector K t.

Definition gen_ecos_apply_equiv_stmt : Prop :=
  forall (T : Type) (topp : T -> T) c A b K, gen_ecos_apply topp c A b K = ecos_apply topp c A b K.

(* ---- the ECOS standard-form theorem of C10, restated for the GENERATED ECOS.apply at the reals ---- *)
From Coq Require Import Reals.
From SageVerif Require Import Math.RVec Proofs.MathSpec Proofs.FormsSpec.

Definition gen_ecos_feasible_iff_stmt : Prop :=
  forall n c A b K d x,
    okK K -> wfm n A -> length x = n -> length A = SolverForms.Ksize K -> length b = SolverForms.Ksize K ->
    gen_ecos_apply Ropp c A b K = Ok d ->
    (in_K (semK K) (vadd (mv A x) b) <-> ecos_sat d x) /\ ec d = c.
