(* Proofs/SymSigTree.v — C13: expression trees with symbolic coefficients.  Computing symbolically
   and then substituting values equals substituting and computing pointwise. *)
From Coq Require Import Reals List Bool Arith ZArith QArith Qreals Lra Lia.
From SageVerif Require Import Math.RVec Model.Expr Model.Signomial Model.SymSig
  Proofs.ExprSpec Proofs.ExprAtoms Proofs.ExprScalar Proofs.SigSpec Proofs.SigLemmas Proofs.SigRound
  Proofs.SymCorrSpec Proofs.SymSigSpec Proofs.SymSigBag Proofs.SymSigOps.
Import ListNotations.
Local Open Scope R_scope.

(* induction principle with the list of operands of YSum *)
Lemma symexp_ind' : forall P : symexp -> Prop,
  (forall rows, P (YNum rows)) ->
  (forall rows, P (YSym rows)) ->
  (forall a b, P a -> P b -> P (YAdd a b)) ->
  (forall a b, P a -> P b -> P (YSub a b)) ->
  (forall a b, P a -> P b -> P (YMul a b)) ->
  (forall a q, P a -> P (YScale a q)) ->
  (forall a e, P a -> P (YAddE a e)) ->
  (forall a e, P a -> P (YSubE a e)) ->
  (forall a e, P a -> P (YMulE a e)) ->
  (forall l, Forall P l -> P (YSum l)) ->
  (forall a, P a -> P (YWithoutZeros a)) ->
  forall t, P t.
Proof.
  intros P HNum HSym HAdd HSub HMul HScale HAddE HSubE HMulE HSum HWz.
  fix IH 1. intros [rows|rows|a b|a b|a b|a q|a e|a e|a e|l|a].
  - apply HNum.
  - apply HSym.
  - apply HAdd; apply IH.
  - apply HSub; apply IH.
  - apply HMul; apply IH.
  - apply HScale; apply IH.
  - apply HAddE; apply IH.
  - apply HSubE; apply IH.
  - apply HMulE; apply IH.
  - apply HSum. induction l as [|a l IHl]; constructor; [apply IH|exact IHl].
  - apply HWz; apply IH.
Qed.

Lemma obind_some : forall A B (o : option A) (f : A -> option B) r,
  obind o f = Some r -> exists x, o = Some x /\ f x = Some r.
Proof. intros A B [x|] f r H; simpl in H; [eauto|discriminate]. Qed.

Lemma all_some_cons : forall X (o : option X) l fs,
  all_some (o :: l) = Some fs -> exists x fs', o = Some x /\ all_some l = Some fs' /\ fs = x :: fs'.
Proof.
  intros X [x|] l fs H; simpl in H; [|discriminate].
  destruct (all_some l) as [r|]; [|discriminate]. injection H as <-. eauto.
Qed.

Lemma of_numeric_widths : forall n rows,
  Forall (fun r : qrow * Q => length (fst r) = n) rows -> widths n (of_numeric rows).
Proof.
  intros n rows H. unfold widths, of_numeric. rewrite Forall_forall in *. intros t Ht.
  apply in_map_iff in Ht as [r [<- Hr]]. simpl. auto.
Qed.

Lemma of_numeric_ev : forall chi rho rows,
  sevalchi chi rho (map (fun t => (round_row (fst t), snd t)) (of_numeric rows))
  = evalchi chi (map (fun r => (round_row (fst r), snd r)) rows).
Proof.
  intros chi rho rows. induction rows as [|r rows IH]; [reflexivity|].
  unfold sevalchi, evalchi, of_numeric in *. cbn [map fold_right fst snd].
  rewrite IH, value_sconst. reflexivity.
Qed.

Section Tree.
  Variables (poly : bool) (n : nat) (chi : qrow -> R) (rho : env).
  Hypothesis Hc : character n chi.
  Hypothesis Hone : chi (repeat 0%Q n) = 1.

  Definition good (f : ssig) (v : R) : Prop := wfs n f /\ f <> [] /\ sevalchi chi rho f = v.
  Definition TP (t : symexp) : Prop :=
    forall r, seval' poly n t = Some r -> wfy n t -> good (snd r) (ysem chi rho t).

  Lemma const_good : forall e, good (const_ssig n e) (value rho e).
  Proof.
    intros e. split; [apply const_ssig_wf|split; [apply const_ssig_nonempty|]].
    rewrite (const_ssig_ev n) by exact Hc. rewrite Hone. lra.
  Qed.

  Lemma add_good : forall f g u v, good f u -> good g v -> good (s_add n f g) (u + v).
  Proof.
    intros f g u v (Hf & Hnf & <-) (Hg & Hng & <-).
    destruct (s_add_eval n chi rho f g Hc Hf Hg Hnf Hng) as (He & Hw & Hn). repeat split; auto.
  Qed.

  Lemma sub_good : forall f g u v, good f u -> good g v -> good (s_sub n f g) (u - v).
  Proof.
    intros f g u v (Hf & Hnf & <-) (Hg & Hng & <-).
    destruct (s_sub_eval n chi rho f g Hc Hf Hg Hnf Hng) as (He & Hw & Hn). repeat split; auto.
  Qed.

  Lemma mul_good : forall f g u v, good f u -> good g v -> product_defined f g = true ->
    good (s_mul_sig n f g) (u * v).
  Proof.
    intros f g u v (Hf & Hnf & <-) (Hg & Hng & <-) Hp.
    destruct (s_mul_eval n chi rho f g Hc Hf Hg Hnf Hng Hp) as (He & Hw & Hn). repeat split; auto.
  Qed.

  Lemma scale_good : forall f q u, good f u -> good (s_scale n q f) (u * Q2R q).
  Proof.
    intros f q u (Hf & Hnf & <-).
    destruct (s_scale_eval n chi rho q f Hc Hf Hnf) as (He & Hw & Hn). repeat split; auto.
    rewrite He. ring.
  Qed.

  Lemma wz_good : forall f u, good f u -> good (s_without_zeros n f) u.
  Proof.
    intros f u (Hf & Hnf & <-). split; [now apply s_wz_wf|split; [now apply s_wz_nonempty|]].
    now apply s_wz_ev.
  Qed.

  Lemma sum_list_good : forall l, Forall TP l -> wfy n (YSum l) ->
    forall fs, all_some (map (seval' poly n) l) = Some fs ->
      Forall (wfs n) (map snd fs) /\ Forall (fun f => f <> []) (map snd fs) /\
      fold_right (fun f acc => sevalchi chi rho f + acc) 0 (map snd fs) = ysem chi rho (YSum l).
  Proof.
    induction l as [|a l IH]; intros HP Hw fs H.
    - simpl in H. injection H as <-. simpl. repeat split; constructor.
    - cbn [map] in H. apply all_some_cons in H as (x & fs' & Ea & Efs & ->).
      inversion HP as [|? ? HPa HPl]; subst.
      destruct Hw as [Hwa Hwl].
      destruct (HPa x Ea Hwa) as (Hxw & Hxn & Hxe).
      destruct (IH HPl Hwl fs' Efs) as (I1 & I2 & I3).
      cbn [map fold_right]. repeat split; try (constructor; auto).
      change (ysem chi rho (YSum (a :: l))) with (ysem chi rho a + ysem chi rho (YSum l)).
      rewrite I3, Hxe. reflexivity.
  Qed.

  Lemma tree_good : forall t, TP t.
  Proof.
    induction t as [rows|rows|a b IHa IHb|a b IHa IHb|a b IHa IHb|a q IHa|a e IHa|a e IHa|a e IHa|l IHl|a IHa]
      using symexp_ind'; intros r H Hw; cbn [seval'] in H.
    - (* YNum *)
      injection H as <-. destruct Hw as [Hne Hwd]. cbn [snd ysem]. split; [|split].
      + apply s_mk_wf. now apply of_numeric_widths.
      + apply s_mk_nonempty. destruct rows; [congruence|discriminate].
      + rewrite (s_mk_ev n) by exact Hc. apply of_numeric_ev.
    - (* YSym *)
      injection H as <-. destruct Hw as [Hne Hwd]. cbn [snd ysem]. split; [|split].
      + now apply s_mk_wf.
      + now apply s_mk_nonempty.
      + apply (s_mk_ev n). exact Hc.
    - (* YAdd *)
      apply obind_some in H as (ra & Ea & H). apply obind_some in H as (rb & Eb & H).
      injection H as <-. destruct Hw as [Hwa Hwb]. cbn [snd ysem].
      apply add_good; [exact (IHa ra Ea Hwa)|exact (IHb rb Eb Hwb)].
    - (* YSub *)
      apply obind_some in H as (ra & Ea & H). apply obind_some in H as (rb & Eb & H).
      injection H as <-. destruct Hw as [Hwa Hwb]. cbn [snd ysem].
      apply sub_good; [exact (IHa ra Ea Hwa)|exact (IHb rb Eb Hwb)].
    - (* YMul *)
      apply obind_some in H as (ra & Ea & H). apply obind_some in H as (rb & Eb & H).
      destruct (poly && fst ra && fst rb); [discriminate H|].
      destruct (product_defined (snd ra) (snd rb)) eqn:Ep; [|discriminate H].
      injection H as <-. destruct Hw as [Hwa Hwb]. cbn [snd ysem].
      apply mul_good; [exact (IHa ra Ea Hwa)|exact (IHb rb Eb Hwb)|exact Ep].
    - (* YScale *)
      apply obind_some in H as (ra & Ea & H). injection H as <-. cbn [snd ysem] in *.
      apply scale_good. exact (IHa ra Ea Hw).
    - (* YAddE *)
      apply obind_some in H as (ra & Ea & H). injection H as <-. cbn [snd ysem] in *.
      apply add_good; [exact (IHa ra Ea Hw)|apply const_good].
    - (* YSubE *)
      apply obind_some in H as (ra & Ea & H). injection H as <-. cbn [snd ysem] in *.
      replace (ysem chi rho a - value rho e) with (ysem chi rho a + value rho (sscale (-1)%Q e))
        by (rewrite value_sscale, EQ2R_m1; lra).
      apply add_good; [exact (IHa ra Ea Hw)|apply const_good].
    - (* YMulE *)
      apply obind_some in H as (ra & Ea & H). cbv zeta in H.
      destruct (poly && fst ra); [discriminate H|].
      destruct (product_defined (snd ra) (const_ssig n e)) eqn:Ep; [|discriminate H].
      injection H as <-. cbn [snd ysem] in *.
      apply mul_good; [exact (IHa ra Ea Hw)|apply const_good|exact Ep].
    - (* YSum *)
      apply obind_some in H as (fs & Efs & H).
      destruct fs as [|f0 fs']; [discriminate H|]. injection H as <-. cbn [snd].
      destruct (sum_list_good l IHl Hw _ Efs) as (I1 & I2 & I3).
      destruct (s_sum_eval n chi rho (map snd (f0 :: fs')) Hc I1 I2) as (He & Hwf & Hn); [discriminate|].
      split; [exact Hwf|split; [exact Hn|]]. etransitivity; [exact He|exact I3].
    - (* YWithoutZeros *)
      apply obind_some in H as (ra & Ea & H). injection H as <-. cbn [snd ysem] in *.
      apply wz_good. exact (IHa ra Ea Hw).
  Qed.
End Tree.

Lemma subst_commutes : subst_commutes_stmt.
Proof.
  intros poly n chi rho t f Hc Hw Hone H. unfold seval in H.
  destruct (seval' poly n t) as [r|] eqn:E; [|discriminate H].
  simpl in H. injection H as <-.
  destruct (tree_good poly n chi rho Hc Hone t r E Hw) as (_ & _ & He). exact He.
Qed.

(* the stronger fact proved by the induction: the result is moreover well formed and non-empty *)
Lemma subst_commutes_strong : forall poly n chi rho t f, character n chi -> wfy n t ->
  chi (repeat 0%Q n) = 1 -> seval poly n t = Some f ->
  wfs n f /\ f <> [] /\ sevalchi chi rho f = ysem chi rho t.
Proof.
  intros poly n chi rho t f Hc Hw Hone H. unfold seval in H.
  destruct (seval' poly n t) as [r|] eqn:E; [|discriminate H].
  simpl in H. injection H as <-.
  exact (tree_good poly n chi rho Hc Hone t r E Hw).
Qed.
