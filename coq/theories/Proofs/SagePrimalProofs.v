(* Proofs/SagePrimalProofs.v — C01 / C19(primal): the rows emitted for a primal SAGE constraint
   (Model/Sage.v: primal_blocks) certify nonnegativity of the signomial on X.
   Statements: Proofs/SageSpec.v (primal_rows_sound_stmt, primal_certificate_stmt,
   force_equality_restricts_stmt).
   Bridging lemmas for weak duality (C03): primal_age_hyps (the rows of the i-th AGE cone give the
   hypotheses [age_hyps] of age_cert_nonneg / age_pairing, see age_hyps_nonneg / age_hyps_pairing),
   primal_age_empty, primal_sum_le, primal_trivial_nonneg, age_vals_off_support, age_off_nonneg,
   and the master lemma primal_rows_facts. *)
From Coq Require Import Reals List Bool Arith ZArith QArith Qreals Lra Lia.
From SageVerif Require Import Math.RVec Model.Expr Model.SolverForms Model.Compile Model.Sage
  Proofs.MathSpec Proofs.MathProofs Proofs.ExprSpec Proofs.FormsSpec Proofs.FormsLemmas
  Proofs.CompileSpec Proofs.ExprAtoms Proofs.ExprScalar Proofs.CompileRows Proofs.CompileBlocks
  Proofs.SageSpec.
From SageVerif Require Export Proofs.SageRows.
Import ListNotations.
Open Scope R_scope.

(* ================================================================== structure of primal_blocks *)
Definition collect (last : block) : list (option (list block)) -> option (list block) :=
  fix all (l : list (option (list block))) : option (list block) :=
    match l with
    | [] => Some [last]
    | Some b :: l' => match all l' with Some r => Some (b ++ r) | None => None end
    | None :: _ => None
    end.

Lemma collect_spec : forall last l bs, collect last l = Some bs ->
  exists bl, l = map Some bl /\ bs = concat bl ++ [last].
Proof.
  intros last. induction l as [|o l IH]; intros bs H.
  - simpl in H. injection H as <-. exists []. auto.
  - destruct o as [b|]; [|discriminate H].
    change (collect last (Some b :: l)) with
      (match collect last l with Some r => Some (b ++ r) | None => None end) in H.
    destruct (collect last l) as [r|] eqn:E; [|discriminate H]. injection H as <-.
    destruct (IH r eq_refl) as [bl [-> ->]]. exists (b :: bl). split; [reflexivity|].
    simpl. now rewrite app_assoc.
Qed.

(* the i-th AGE vector as the model builds it *)
Definition AV (m : nat) (c : list sexpr) (covers : nat -> list bool) (ids : nat -> age_ids) (i : nat) : list sexpr :=
  age_vector m i (nth_sexpr c i) (in_NI (nth_sexpr c i)) (cover_idx (covers i)) (a_c (ids i)).

Definition trivial_case (m : nat) (c : list sexpr) (covers : nat -> list bool) : bool :=
  Nat.leb m 1 || forallb (fun i => match cover_idx (covers i) with [] => true | _ => false end) (UI c).

Lemma primal_blocks_unfold : forall n N alpha c X covers ids st dummy,
  primal_blocks n N alpha c X covers ids st dummy =
  let m := length alpha in
  if trivial_case m c covers then Some [ ([(TPos, m)], map (row_of dummy false) c) ]
  else collect (sum_block dummy st m c (map (AV m c covers ids) (UI c)))
         (map (fun i => age_blocks n N alpha X dummy i (cover_idx (covers i)) (ids i) (AV m c covers ids i)) (UI c)).
Proof.
  intros. unfold primal_blocks, trivial_case, UI. cbv zeta.
  destruct (_ || _); [reflexivity|].
  rewrite (map_combine_self
    (fun iv : nat * list sexpr => age_blocks n N alpha X dummy (fst iv) (cover_idx (covers (fst iv))) (ids (fst iv)) (snd iv))).
  reflexivity.
Qed.

Lemma age_vals_eq : forall rho alpha c covers ids i,
  age_vals rho alpha c covers ids i = map (value rho) (AV (length alpha) c covers ids i).
Proof. reflexivity. Qed.

(* ================================================================== AGE vectors *)
Lemma last_In {X} : forall (l : list X) d, l <> [] -> In (last l d) l.
Proof.
  induction l as [|x l IH]; intros d H; [contradiction|].
  destruct l as [|y l]; [now left|]. right. apply IH. discriminate.
Qed.

Lemma age_vector_length : forall m i ci isN cov cv, length (age_vector m i ci isN cov cv) = m.
Proof. intros. unfold age_vector. now rewrite map_length, seq_length. Qed.

Lemma age_vector_affine : forall m i ci isN cov cv, affine_cell ci ->
  Forall affine_cell (age_vector m i ci isN cov cv).
Proof.
  intros. unfold age_vector. apply Forall_forall. intros e He. apply in_map_iff in He as [j [<- _]].
  destruct (Nat.eqb j i); [destruct isN; auto using affine_svar|].
  destruct (indices_where _ _); auto using affine_svar, affine_sconst.
Qed.

Lemma nth_sexpr_affine : forall av j, Forall affine_cell av -> affine_cell (nth_sexpr av j).
Proof.
  intros av j H. unfold nth_sexpr. destruct (Nat.lt_ge_cases j (length av)) as [Hl|Hl].
  - rewrite Forall_forall in H. apply H, nth_In, Hl.
  - rewrite nth_overflow by assumption. apply affine_sconst.
Qed.

Lemma age_vector_nth : forall m i ci isN cov cv j, (j < m)%nat ->
  nth_sexpr (age_vector m i ci isN cov cv) j =
  if Nat.eqb j i then (if isN then ci else svar (last cv 0%Z))
  else match indices_where (Nat.eqb j) cov with
       | p :: _ => svar (nth p cv 0%Z)
       | [] => sconst 0%Q
       end.
Proof. intros. unfold nth_sexpr, age_vector. now rewrite nth_map_seq. Qed.

Lemma age_vector_off : forall m i ci isN cov cv j, (j < m)%nat -> j <> i -> ~ In j cov ->
  nth_sexpr (age_vector m i ci isN cov cv) j = sconst 0%Q.
Proof.
  intros. rewrite age_vector_nth by assumption.
  destruct (Nat.eqb_spec j i); [contradiction|]. now rewrite indices_where_none.
Qed.

(* every cell is a scalar variable of the cone's own c-vector, or a constant *)
Definition simple_cell (S : list Z) (e : sexpr) : Prop :=
  (exists id, e = svar id /\ In id S) \/ is_constant e = true.

Lemma is_constant_sconst : forall q, is_constant (sconst q) = true.
Proof. reflexivity. Qed.

Lemma age_vector_simple : forall m i ci isN cov cv j, (j < m)%nat -> NoDup cov ->
  (isN = true -> is_constant ci = true) ->
  length cv = (length cov + (if isN then 0 else 1))%nat ->
  simple_cell cv (nth_sexpr (age_vector m i ci isN cov cv) j).
Proof.
  intros m i ci isN cov cv j Hj Hn HN Hl. rewrite age_vector_nth by assumption.
  destruct (Nat.eqb_spec j i) as [->|Hne].
  - destruct isN; [right; auto|]. left. exists (last cv 0%Z). split; [reflexivity|].
    apply last_In. intros ->. simpl in Hl. lia.
  - destruct (in_dec Nat.eq_dec j cov) as [Hin|Hnin].
    + destruct (In_nth cov j 0%nat Hin) as [p [Hp <-]].
      rewrite indices_where_pos by assumption. left. exists (nth p cv 0%Z). split; [reflexivity|].
      apply nth_In. lia.
    + rewrite indices_where_none by assumption. right. reflexivity.
Qed.

Lemma live_keys_svar : forall id, live_keys (svar id) = [AVar id].
Proof.
  intros. unfold live_keys, keys, svar, coeff_of. cbn [terms fold_left fst snd mem_atom rev app filter atom_eqb].
  rewrite Z.eqb_refl. reflexivity.
Qed.

Lemma simple_cell_val : forall rho S e, simple_cell S e ->
  value rho e = rsum (map rho (map var_id (live_keys e))) + Q2R (off e).
Proof.
  intros rho S e [[id [-> Hid]]|Hc].
  - rewrite live_keys_svar, value_svar. cbn [map var_id rsum fold_right svar off]. rewrite EQ2R_0. lra.
  - rewrite (is_constant_sound e Hc). unfold is_constant in Hc.
    destruct (live_keys e); [|discriminate]. cbn [map rsum fold_right]. lra.
Qed.

Lemma simple_cell_ids : forall S e, simple_cell S e ->
  NoDup (map var_id (live_keys e)) /\ incl (map var_id (live_keys e)) S.
Proof.
  intros S e [[id [-> Hid]]|Hc].
  - rewrite live_keys_svar. cbn [map var_id].
    split; [repeat constructor; intros [] | intros x [<-|[]]; exact Hid].
  - unfold is_constant in Hc. destruct (live_keys e); [|discriminate]. cbn [map].
    split; [constructor | intros x []].
Qed.

(* ================================================================== duplicate-free id lists *)
Lemma NoDup_app_iff {X} : forall a b : list X,
  NoDup (a ++ b) <-> NoDup a /\ NoDup b /\ (forall x, In x a -> ~ In x b).
Proof.
  induction a as [|x a IH]; intros b; simpl.
  - split; [intros H; repeat split; auto; constructor | tauto].
  - split.
    + intros H. inversion H as [|? ? Hx Hn]; subst. apply IH in Hn as [Ha [Hb Hd]].
      repeat split; auto.
      * constructor; auto. intros Hin. apply Hx, in_or_app. now left.
      * intros y [<-|Hy]; [intros Hin; apply Hx, in_or_app; now right | now apply Hd].
    + intros [Ha [Hb Hd]]. inversion Ha as [|? ? Hx Hn]; subst. constructor.
      * intros Hin. apply in_app_or in Hin as [Hin|Hin]; [contradiction | apply (Hd x); auto].
      * apply IH. repeat split; auto.
Qed.

Lemma NoDup_flat_map_sub {X Y} (f g : X -> list Y) : forall l, NoDup (flat_map f l) ->
  (forall x, In x l -> NoDup (g x) /\ incl (g x) (f x)) -> NoDup (flat_map g l).
Proof.
  induction l as [|x l IH]; intros H Hg; simpl; [constructor|].
  simpl in H. apply NoDup_app_iff in H as [Hf [Hl Hd]]. apply NoDup_app_iff.
  destruct (Hg x (or_introl eq_refl)) as [Hgx Hix]. repeat split; auto.
  - apply IH; auto. intros y Hy. apply Hg. now right.
  - intros y Hy Hin. apply (Hd y); [now apply Hix|].
    apply in_flat_map in Hin as [x' [Hx' Hy']]. apply in_flat_map. exists x'. split; auto.
    apply (proj2 (Hg x' (or_intror Hx'))). exact Hy'.
Qed.

Lemma dedup_ids_NoDup : forall l, NoDup l -> dedup_ids l = l.
Proof.
  unfold dedup_ids. induction 1 as [|x l Hx Hn IH]; simpl; [reflexivity|].
  rewrite IH. destruct (existsb (Z.eqb x) l) eqn:E; [|reflexivity].
  apply existsb_exists in E as [y [Hy He]]. apply Z.eqb_eq in He. subst. contradiction.
Qed.

(* ================================================================== rows of the sum block *)
Lemma cells_sum : forall rho (cells : list sexpr),
  (forall e, In e cells -> exists S, simple_cell S e) ->
  rsumf (value rho) cells =
  rsum (map rho (flat_map (fun e => map var_id (live_keys e)) cells)) + rsumf (fun e => Q2R (off e)) cells.
Proof.
  intros rho cells. induction cells as [|e cells IH]; intros H; [unfold rsum; simpl; lra|].
  cbn [rsumf fold_right flat_map]. fold (rsumf (value rho) cells). fold (rsumf (fun e => Q2R (off e)) cells).
  rewrite IH by (intros; apply H; now right).
  destruct (H e (or_introl eq_refl)) as [S HS]. rewrite (simple_cell_val rho S e HS).
  rewrite !rsum_map, rsumf_app. lra.
Qed.

Lemma Q2R_fold_off : forall (cells : list sexpr) a,
  Q2R (fold_left (fun acc e => (acc + off e)%Q) cells a) = Q2R a + rsumf (fun e => Q2R (off e)) cells.
Proof.
  induction cells as [|e cells IH]; intros a; simpl; [lra|]. rewrite IH, Q2R_plus. lra.
Qed.

Lemma guarded_row_val : forall rho dummy (ents : list (Z * qe)) (b : qe),
  rrow_val rho (match ents with [] => ([(dummy, qzero)], b) | _ => (ents, b) end) = esum rho ents + qe_val b.
Proof.
  intros. destruct ents; [|reflexivity].
  rewrite rrow_val_pair, esum_cons, !esum_nil. cbn [fst snd]. rewrite qe_val_zero. lra.
Qed.

(* value of row j of columns_sum_leq_vec: c_j minus the sum of the cells *)
Lemma sum_row_val : forall rho dummy (cells : list sexpr) (cj : sexpr),
  affine_cell cj -> (forall e, In e cells -> exists S, simple_cell S e) ->
  NoDup (flat_map (fun e => map var_id (live_keys e)) cells) ->
  rrow_val rho
    (let svs := dedup_ids (flat_map (fun e => map var_id (live_keys e)) cells) in
     let ents := map (fun t => (t, qmone)) svs ++ entries false cj in
     let b := qe_of (off cj - fold_left (fun acc e => acc + off e) cells 0)%Q in
     match ents with [] => ([(dummy, qzero)], b) | _ => (ents, b) end)
  = value rho cj - rsumf (value rho) cells.
Proof.
  intros rho dummy cells cj Ha Hs Hn. cbv zeta.
  rewrite guarded_row_val, esum_app, esum_const_ids, esum_entries, qe_val_mone, qe_val_of by assumption.
  rewrite dedup_ids_NoDup by assumption.
  unfold Qminus. rewrite Q2R_plus, Q2R_opp, Q2R_fold_off, EQ2R_0, (cells_sum rho cells Hs). lra.
Qed.

(* ================================================================== one AGE cone *)
Definition age_hyps (n : nat) (alpha_i : list R) (alphaJ : list (list R)) (ci : R) (cJ nu epi : list R)
           (A : list (list R)) (b eta : list R) (K : list (ctype * nat)) : Prop :=
  length alpha_i = n /\ wfm n alphaJ /\ wfm n A /\ length b = length A /\ length eta = length A /\
  0 <= ci - dot eta b - rsum epi /\
  Forall3 (fun e c v => Kexp (- e) (exp 1 * c) v) epi cJ nu /\
  length alphaJ = length nu /\
  vsub (tmv n (map (fun r => vsub r alpha_i) alphaJ) nu) (tmv n A eta) = vzero n /\
  in_Kdual K eta.

Lemma age_hyps_nonneg : forall n alpha_i alphaJ ci cJ nu epi A b eta K,
  age_hyps n alpha_i alphaJ ci cJ nu epi A b eta K ->
  forall z, length z = n -> in_K K (vadd (mv A z) b) ->
    0 <= ci * exp (dot alpha_i z) + sigeval alphaJ cJ z.
Proof.
  intros n alpha_i alphaJ ci cJ nu epi A b eta K (H1 & H2 & H3 & H4 & H5 & H6 & H7 & H8 & H9 & H10).
  intros z Hz Hk.
  exact (age_cert_nonneg n alpha_i alphaJ ci cJ nu epi A b eta K H1 H2 H3 H4 H5 H6 H7 H8 H9 H10 z Hz Hk).
Qed.

Lemma age_hyps_pairing : forall n alpha_i alphaJ ci cJ nu epi A b eta K,
  age_hyps n alpha_i alphaJ ci cJ nu epi A b eta K ->
  forall vi vJ mu, length mu = n -> length vJ = length alphaJ -> 0 <= vi ->
    Forall2 (fun aj vj => Kexp (- dot (vsub alpha_i aj) mu) vj vi) alphaJ vJ ->
    in_K K (vadd (mv A mu) (vscale vi b)) ->
    0 <= ci * vi + dot cJ vJ.
Proof.
  intros n alpha_i alphaJ ci cJ nu epi A b eta K (H1 & H2 & H3 & H4 & H5 & H6 & H7 & H8 & H9 & H10).
  intros vi vJ mu G1 G2 G3 G4 G5.
  exact (age_pairing n alpha_i alphaJ ci cJ nu epi A b eta K vi vJ mu H1 H2 H3 H4 H5 H6 H7 H8 H9 H10 G1 G2 G3 G4 G5).
Qed.

Lemma age_cover_entries_nonneg : forall n alpha_i alphaJ ci cJ nu epi A b eta K,
  age_hyps n alpha_i alphaJ ci cJ nu epi A b eta K -> Forall (fun c => 0 <= c) cJ.
Proof.
  intros n alpha_i alphaJ ci cJ nu epi A b eta K (H1 & H2 & H3 & H4 & H5 & H6 & H7 & H8 & H9 & H10).
  exact (age_cover_nonneg epi cJ nu H7).
Qed.

(* the domain data as real matrices (empty when X = R^n) *)
Definition XA (X : option domain) : list (list R) := match X with Some D => aR (dA D) | None => [] end.
Definition Xb (X : option domain) : list R := match X with Some D => map Q2R (db D) | None => [] end.
Definition XK (X : option domain) : list (ctype * nat) := match X with Some D => semK (dK D) | None => [] end.

Lemma in_X_K : forall N X z, in_X N X z -> length z = N /\ in_K (XK X) (vadd (mv (XA X) z) (Xb X)).
Proof. intros N [D|] z [H1 H2]; split; auto. reflexivity. Qed.

(* the eta @ b term of z: zero entries of b are dropped *)
Lemma etab_val : forall rho (eta : list Z) (bq : list Q),
  tsum rho (map (fun p : Z * Q => (AVar (fst p), snd p))
                (filter (fun p => negb (Qeq_bool (snd p) 0%Q)) (combine eta bq)))
  = dot (map rho eta) (map Q2R bq).
Proof.
  intros rho. induction eta as [|e eta IH]; intros [|q bq]; try reflexivity.
  cbn [combine filter snd map dot]. destruct (Qeq_bool q 0) eqn:E; cbn [negb].
  - rewrite IH, (Qeq_bool_0_Q2R _ E). lra.
  - cbn [map]. unfold tsum in *. rewrite rsumf_cons, IH. cbn [fst snd atom_val]. lra.
Qed.

Definition etab_expr (eta : list Z) (bq : list Q) : sexpr :=
  {| terms := map (fun p : Z * Q => (AVar (fst p), snd p))
                  (filter (fun p => negb (Qeq_bool (snd p) 0%Q)) (combine eta bq));
     off := 0%Q |}.

Lemma etab_affine : forall eta bq, affine_cell (etab_expr eta bq).
Proof.
  intros. apply affine_cell_terms. unfold etab_expr. cbn [terms]. rewrite Forall_map.
  apply Forall_forall. intros p _. reflexivity.
Qed.

Lemma etab_value : forall rho eta bq, value rho (etab_expr eta bq) = dot (map rho eta) (map Q2R bq).
Proof. intros. rewrite value_eq. unfold etab_expr. cbn [terms off]. rewrite etab_val, EQ2R_0. lra. Qed.

(* the matrix of shifted (zero-padded) exponents *)
Definition MQ (N : nat) (alpha : list (list Q)) (i : nat) (cov : list nat) : list (list Q) :=
  map (fun j => vsubQ (pad N (nth j alpha [])) (pad N (nth i alpha []))) cov.

Definition alphaI (N : nat) (alpha : list (list Q)) (i : nat) : list R := map Q2R (pad N (nth i alpha [])).
Definition alphaJs (N : nat) (alpha : list (list Q)) (cov : list nat) : list (list R) :=
  map (fun j => map Q2R (pad N (nth j alpha []))) cov.

Lemma aR_MQ : forall N alpha i cov,
  aR (MQ N alpha i cov) = map (fun r => vsub r (alphaI N alpha i)) (alphaJs N alpha cov).
Proof.
  intros. unfold aR, MQ, alphaJs, alphaI. rewrite !map_map. apply map_ext. intros j. apply vsubQ_R.
Qed.

Lemma nth_alpha_length : forall n (alpha : list (list Q)) j, Forall (fun r => length r = n) alpha ->
  (j < length alpha)%nat -> length (nth j alpha []) = n.
Proof. intros n alpha j H Hj. rewrite Forall_forall in H. apply H, nth_In, Hj. Qed.

Lemma MQ_wf : forall n N alpha i cov, Forall (fun r => length r = n) alpha -> (n <= N)%nat ->
  (i < length alpha)%nat -> Forall (fun j => (j < length alpha)%nat) cov ->
  Forall (fun r => length r = N) (MQ N alpha i cov).
Proof.
  intros n N alpha i cov Ha Hn Hi Hc. unfold MQ. rewrite Forall_map.
  eapply Forall_impl; [|exact Hc]. intros j Hj. cbv beta.
  rewrite vsubQ_length; rewrite !pad_length; auto; rewrite (nth_alpha_length n); auto.
Qed.

Lemma alphaJs_wf : forall n N alpha cov, Forall (fun r => length r = n) alpha -> (n <= N)%nat ->
  Forall (fun j => (j < length alpha)%nat) cov -> wfm N (alphaJs N alpha cov).
Proof.
  intros n N alpha cov Ha Hn Hc. unfold wfm, alphaJs. rewrite Forall_map.
  eapply Forall_impl; [|exact Hc]. intros j Hj. cbv beta.
  rewrite map_length, pad_length; auto. rewrite (nth_alpha_length n); auto.
Qed.

Lemma aR_wf : forall N A, Forall (fun r => length r = N) A -> wfm N (aR A).
Proof.
  intros N A H. unfold wfm, aR. rewrite Forall_map. eapply Forall_impl; [|exact H].
  intros r Hr. cbv beta. now rewrite map_length.
Qed.

(* the nonempty-cover branch of age_blocks, spelled out *)
Lemma age_blocks_nonempty : forall n N alpha X dummy i cov ids av, cov <> [] ->
  age_blocks n N alpha X dummy i cov ids av =
  let y := map (nth_sexpr av) cov in
  let alpha_l := map (pad N) alpha in
  let ai := nth i alpha_l [] in
  let mat := transposeQ N (map (fun j => vsubQ (nth j alpha_l []) ai) cov) in
  match X with
  | None =>
      Some [ sum_relent_rows (a_nu ids) y (sneg (nth_sexpr av i)) (a_epi ids);
             ([(T0, n)], matvec_rows (transposeQ n (map (fun j => vsubQ (nth j alpha []) (nth i alpha [])) cov)) (a_nu ids)) ]
  | Some D =>
      let z := sadd (sneg (nth_sexpr av i)) (etab_expr (a_eta ids) (db D)) in
      let mat2 := map (map (fun q => Qred (- q)%Q)) (transposeQ N (dA D)) in
      match dual_rows dummy (map svar (a_eta ids)) (dK D) with
      | None => None
      | Some dualblk =>
          Some [ sum_relent_rows (a_nu ids) y z (a_epi ids);
                 ([(T0, N)],
                  map (fun rr : rrow * rrow => (fst (fst rr) ++ fst (snd rr), qzero))
                      (combine (matvec_rows mat (a_nu ids)) (matvec_rows mat2 (a_eta ids))));
                 dualblk ]
      end
  end.
Proof. intros. destruct cov; [contradiction | reflexivity]. Qed.

Lemma age_blocks_hyps : forall n N alpha X dummy i cov ids av b rho,
  Forall (fun r => length r = n) alpha -> dom_ok n N X ->
  (i < length alpha)%nat -> Forall (fun j => (j < length alpha)%nat) cov -> cov <> [] ->
  length (a_nu ids) = length cov -> length (a_epi ids) = length cov ->
  length (a_eta ids) = match X with Some D => length (dA D) | None => 0%nat end ->
  Forall affine_cell av ->
  age_blocks n N alpha X dummy i cov ids av = Some b -> blocks_sat rho b ->
  age_hyps N (alphaI N alpha i) (alphaJs N alpha cov)
           (value rho (nth_sexpr av i)) (map (fun j => value rho (nth_sexpr av j)) cov)
           (map rho (a_nu ids)) (map rho (a_epi ids)) (XA X) (Xb X) (map rho (a_eta ids)) (XK X).
Proof.
  intros n N alpha X dummy i cov ids av b rho Ha HX Hi Hc Hne Hnu Hepi Heta Hav Hb Hsat.
  rewrite age_blocks_nonempty in Hb by assumption. cbv zeta in Hb.
  assert (Hy : Forall affine_cell (map (nth_sexpr av) cov)).
  { rewrite Forall_map. apply Forall_forall. intros j _. now apply nth_sexpr_affine. }
  assert (Hyl : length (map (nth_sexpr av) cov) = length (a_nu ids)) by (rewrite map_length; lia).
  assert (Hel : length (a_epi ids) = length (a_nu ids)) by lia.
  assert (Hai : affine_cell (nth_sexpr av i)) by now apply nth_sexpr_affine.
  destruct X as [D|].
  - (* conditional SAGE *)
    destruct HX as (Hn & HA & Hdb & HK & HoK).
    destruct (dual_rows dummy (map svar (a_eta ids)) (dK D)) as [[Ks rs]|] eqn:Ed; [|discriminate Hb].
    injection Hb as <-.
    inversion Hsat as [|? ? S1 Hsat1]; subst. inversion Hsat1 as [|? ? S2 Hsat2]; subst.
    inversion Hsat2 as [|? ? S3 _]; subst. clear Hsat Hsat1 Hsat2.
    apply sum_relent_sat in S1; auto using affine_sadd, affine_sneg, etab_affine.
    destruct S1 as [S1a S1b].
    rewrite value_sadd, value_sneg, etab_value, map_map in *.
    (* balance rows *)
    assert (HMQ : map (fun j => vsubQ (nth j (map (pad N) alpha) []) (nth i (map (pad N) alpha) [])) cov
                  = MQ N alpha i cov).
    { unfold MQ. apply map_ext_in. intros j Hj. rewrite Forall_forall in Hc.
      rewrite !pad_nth; auto. }
    rewrite HMQ in S2.
    apply block_T0 in S2.
    2:{ rewrite map_length, combine_length, !matvec_rows_length, map_length, !transposeQ_length. lia. }
    rewrite glued_rows_val in S2 by (apply matvec_rows_off).
    rewrite !matvec_rows_val, mv_neg, vadd_opp in S2.
    rewrite (mv_transposeQ N (MQ N alpha i cov)) in S2 by (eapply MQ_wf; eauto).
    rewrite (mv_transposeQ N (dA D)) in S2 by assumption.
    rewrite aR_MQ in S2.
    (* dual cone rows *)
    assert (S3' : in_Kdual (semK (dK D)) (map rho (a_eta ids))).
    { assert (Hsv : Forall affine_cell (map svar (a_eta ids))).
      { rewrite Forall_map. apply Forall_forall. intros; apply affine_svar. }
      assert (Hsl : length (map svar (a_eta ids)) = KsizeM (dK D)) by (rewrite map_length; lia).
      destruct (dual_rows_spec rho dummy (dK D) _ Ks rs Hsv Hsl HoK Ed) as [_ Hiff].
      apply Hiff in S3. rewrite map_map in S3.
      erewrite map_ext in S3; [exact S3|]. intros; apply value_svar. }
    unfold age_hyps, XA, Xb, XK. repeat split.
    + unfold alphaI. rewrite map_length, pad_length; auto. rewrite (nth_alpha_length n); auto.
    + eapply alphaJs_wf; eauto.
    + now apply aR_wf.
    + rewrite aR_length, map_length. exact Hdb.
    + rewrite aR_length, map_length. exact Heta.
    + lra.
    + exact S1b.
    + unfold alphaJs. rewrite !map_length. lia.
    + exact S2.
    + exact S3'.
  - (* ordinary SAGE *)
    simpl in HX. subst N. injection Hb as <-.
    inversion Hsat as [|? ? S1 Hsat1]; subst. inversion Hsat1 as [|? ? S2 _]; subst. clear Hsat Hsat1.
    apply sum_relent_sat in S1; auto using affine_sneg.
    destruct S1 as [S1a S1b]. rewrite value_sneg, map_map in *.
    assert (HMQ : map (fun j => vsubQ (nth j alpha []) (nth i alpha [])) cov = MQ n alpha i cov).
    { unfold MQ. apply map_ext_in. intros j Hj. rewrite Forall_forall in Hc.
      rewrite !(pad_exact n); auto using nth_alpha_length. }
    rewrite HMQ in S2.
    apply block_T0 in S2. 2:{ now rewrite matvec_rows_length, transposeQ_length. }
    rewrite matvec_rows_val in S2.
    rewrite (mv_transposeQ n (MQ n alpha i cov)) in S2 by (eapply MQ_wf; eauto).
    rewrite aR_MQ in S2.
    destruct (a_eta ids) as [|? ?]; [|discriminate Heta].
    unfold age_hyps, XA, Xb, XK. cbn [map dot tmv length]. repeat split.
    + unfold alphaI. rewrite map_length, pad_length; auto. rewrite (nth_alpha_length n); auto.
    + eapply alphaJs_wf; eauto.
    + constructor.
    + lra.
    + exact S1b.
    + unfold alphaJs. rewrite !map_length. lia.
    + rewrite S2. apply vsub_vzero_r. apply length_vzero.
Qed.

(* ================================================================== well-formedness, unpacked *)
Lemma flat_map_map {X Y Z} (f : Y -> list Z) (g : X -> Y) : forall l,
  flat_map f (map g l) = flat_map (fun x => f (g x)) l.
Proof. induction l as [|x l IH]; simpl; [reflexivity | now rewrite IH]. Qed.

Lemma UI_lt : forall c i, In i (UI c) -> (i < length c)%nat.
Proof. intros c i H. unfold UI in H. now apply (indices_where_In in_UI (sconst 0%Q)) in H. Qed.

Lemma in_NI_constant : forall e, in_NI e = true -> is_constant e = true.
Proof. intros e H. unfold in_NI in H. now apply andb_prop in H. Qed.

Section Primal.
  Variables (n N : nat) (alpha : list (list Q)) (c : list sexpr) (X : option domain)
            (covers : nat -> list bool) (ids : nat -> age_ids).
  Hypothesis wf : primal_wf n N alpha c X covers ids.

  Notation m := (length alpha).
  Notation av := (AV (length alpha) c covers ids).
  Notation covi i := (cover_idx (covers i)).

  Lemma wf_alpha : Forall (fun r => length r = n) alpha.
  Proof. exact (proj1 wf). Qed.
  Lemma wf_clen : length c = m.
  Proof. exact (proj1 (proj2 wf)). Qed.
  Lemma wf_caff : Forall affine_cell c.
  Proof. exact (proj1 (proj2 (proj2 wf))). Qed.
  Lemma wf_dom : dom_ok n N X.
  Proof. exact (proj1 (proj2 (proj2 (proj2 wf)))). Qed.
  Lemma wf_n_le : (n <= N)%nat.
  Proof. pose proof wf_dom as H. destruct X; simpl in H; [tauto | lia]. Qed.

  Lemma wf_UI_lt : forall i, In i (UI c) -> (i < m)%nat.
  Proof. intros i H. rewrite <- wf_clen. now apply UI_lt. Qed.

  Lemma wf_ids : forall i, In i (UI c) ->
    cover_ok m i (covers i) /\
    length (a_nu (ids i)) = length (covi i) /\ length (a_epi (ids i)) = length (covi i) /\
    length (a_eta (ids i)) = match X with Some D => length (dA D) | None => 0%nat end /\
    length (a_c (ids i)) = (length (covi i) + (if in_NI (nth_sexpr c i) then 0 else 1))%nat /\
    (in_NI (nth_sexpr c i) = true -> covi i <> []).
  Proof. intros i H. exact (proj1 (proj2 (proj2 (proj2 (proj2 wf)))) i H). Qed.

  Lemma wf_nodup : NoDup (flat_map (fun i => a_c (ids i)) (UI c)).
  Proof. exact (proj2 (proj2 (proj2 (proj2 (proj2 wf))))). Qed.

  Lemma wf_cov_lt : forall i, In i (UI c) -> Forall (fun j => (j < m)%nat) (covi i).
  Proof.
    intros i H. destruct (wf_ids i H) as [[Hl _] _]. apply Forall_forall. intros j Hj.
    apply cover_idx_In in Hj. lia.
  Qed.

  Lemma wf_cov_notin : forall i, In i (UI c) -> ~ In i (covi i).
  Proof.
    intros i H Hin. destruct (wf_ids i H) as [[_ Hf] _]. apply cover_idx_In in Hin. destruct Hin; congruence.
  Qed.

  Lemma av_affine : forall i, Forall affine_cell (av i).
  Proof. intros. unfold AV. apply age_vector_affine, nth_sexpr_affine, wf_caff. Qed.

  Lemma av_simple : forall i j, In i (UI c) -> (j < m)%nat ->
    simple_cell (a_c (ids i)) (nth_sexpr (av i) j).
  Proof.
    intros i j Hi Hj. destruct (wf_ids i Hi) as (_ & _ & _ & _ & Hl & _).
    unfold AV. apply age_vector_simple; auto using cover_idx_NoDup, in_NI_constant.
  Qed.

  Lemma age_vals_nth : forall rho i j,
    nth j (age_vals rho alpha c covers ids i) 0 = value rho (nth_sexpr (av i) j).
  Proof. intros. rewrite age_vals_eq. apply value_nth. Qed.

  Lemma age_vals_off_support : forall rho i j, In i (UI c) -> (j < m)%nat -> j <> i -> ~ In j (covi i) ->
    nth j (age_vals rho alpha c covers ids i) 0 = 0.
  Proof.
    intros rho i j Hi Hj Hne Hnin. rewrite age_vals_nth. unfold AV.
    rewrite age_vector_off by assumption. rewrite value_sconst. apply EQ2R_0.
  Qed.

  (* a nonempty cover forces at least two terms, hence the AGE branch of the model *)
  Lemma nontrivial_of_cover : forall i, In i (UI c) -> covi i <> [] -> trivial_case m c covers = false.
  Proof.
    intros i Hi Hne. unfold trivial_case. apply orb_false_iff. split.
    - apply Nat.leb_gt. pose proof (wf_UI_lt i Hi) as Him. pose proof (wf_cov_notin i Hi) as Hnin.
      pose proof (wf_cov_lt i Hi) as Hlt. destruct (covi i) as [|j l] eqn:E; [contradiction|].
      inversion Hlt; subst. assert (j <> i) by (intros ->; apply Hnin; now left). lia.
    - apply not_true_is_false. intros Hall. rewrite forallb_forall in Hall. specialize (Hall i Hi).
      cbv beta in Hall. destruct (cover_idx (covers i)); [contradiction | discriminate].
  Qed.

  (* ---------------------------------------------------------------- extraction of the blocks *)
  Lemma primal_nontrivial_inv : forall st dummy bs rho,
    trivial_case m c covers = false ->
    primal_blocks n N alpha c X covers ids st dummy = Some bs -> blocks_sat rho bs ->
    (forall i, In i (UI c) -> exists b,
       age_blocks n N alpha X dummy i (covi i) (ids i) (av i) = Some b /\ blocks_sat rho b) /\
    block_sat rho (sum_block dummy st m c (map av (UI c))).
  Proof.
    intros st dummy bs rho Ht Hb Hs. rewrite primal_blocks_unfold in Hb. cbv zeta in Hb. rewrite Ht in Hb.
    apply collect_spec in Hb as [bl [Hmap ->]]. unfold blocks_sat in Hs. apply Forall_app in Hs as [Hs1 Hs2].
    split; [|now inversion Hs2].
    intros i Hi.
    assert (Hin : In (age_blocks n N alpha X dummy i (covi i) (ids i) (av i)) (map Some bl)).
    { rewrite <- Hmap. apply in_map_iff. exists i. auto. }
    apply in_map_iff in Hin as [b [Hb Hbl]]. exists b. split; [now symmetry|].
    unfold blocks_sat. apply Forall_forall. intros x Hx. rewrite Forall_forall in Hs1. apply Hs1.
    apply in_concat. exists b. auto.
  Qed.

  Lemma primal_trivial_inv : forall st dummy bs rho,
    trivial_case m c covers = true ->
    primal_blocks n N alpha c X covers ids st dummy = Some bs -> blocks_sat rho bs ->
    Forall (fun e => 0 <= value rho e) c.
  Proof.
    intros st dummy bs rho Ht Hb Hs. rewrite primal_blocks_unfold in Hb. cbv zeta in Hb. rewrite Ht in Hb.
    injection Hb as <-. inversion Hs as [|? ? S1 _]; subst.
    apply block_TPos in S1; [|rewrite map_length; apply wf_clen].
    rewrite Forall_map in S1. pose proof wf_caff as Ha. rewrite Forall_forall in *.
    intros e He. specialize (S1 e He). rewrite row_of_val in S1 by auto. lra.
  Qed.

  (* ---------------------------------------------------------------- one AGE cone, read off rho *)
  Lemma primal_age_core : forall dummy rho i b, In i (UI c) ->
    age_blocks n N alpha X dummy i (covi i) (ids i) (av i) = Some b -> blocks_sat rho b ->
    (covi i = [] -> 0 <= nth i (age_vals rho alpha c covers ids i) 0) /\
    (covi i <> [] ->
     age_hyps N (alphaI N alpha i) (alphaJs N alpha (covi i))
       (nth i (age_vals rho alpha c covers ids i) 0)
       (map (fun j => nth j (age_vals rho alpha c covers ids i) 0) (covi i))
       (map rho (a_nu (ids i))) (map rho (a_epi (ids i))) (XA X) (Xb X) (map rho (a_eta (ids i))) (XK X)).
  Proof.
    intros dummy rho i b Hi Hb Hs. destruct (wf_ids i Hi) as (Hcov & Hnu & Hepi & Heta & Hcl & HNI). split.
    - intros E. rewrite E in Hb. cbn [age_blocks] in Hb. injection Hb as <-.
      inversion Hs as [|? ? S1 _]; subst. apply block_TPos in S1; [|reflexivity].
      inversion S1 as [|? ? S1a _]; subst. rewrite row_of_val in S1a by (apply nth_sexpr_affine, av_affine).
      rewrite age_vals_nth. lra.
    - intros Hne.
      pose proof (age_blocks_hyps n N alpha X dummy i (covi i) (ids i) (av i) b rho
                    wf_alpha wf_dom (wf_UI_lt i Hi) (wf_cov_lt i Hi) Hne Hnu Hepi Heta (av_affine i) Hb Hs) as H.
      rewrite age_vals_nth.
      erewrite (map_ext (fun j => nth j (age_vals rho alpha c covers ids i) 0)); [exact H|].
      intros j. apply age_vals_nth.
  Qed.

  (* ---------------------------------------------------------------- the sum block *)
  Lemma primal_sum_core : forall st dummy rho,
    block_sat rho (sum_block dummy st m c (map av (UI c))) ->
    forall j, (j < m)%nat ->
      rsumf (fun i => nth j (age_vals rho alpha c covers ids i) 0) (UI c) <= value rho (nth_sexpr c j).
  Proof.
    intros st dummy rho Hs j Hj. unfold sum_block in Hs.
    assert (Hp : block_sat rho ([(TPos, m)],
       map (fun j => let cells := map (fun a => nth_sexpr a j) (map av (UI c)) in
              let svs := dedup_ids (flat_map (fun e => map var_id (live_keys e)) cells) in
              let cj := nth_sexpr c j in
              let ents := map (fun t => (t, qmone)) svs ++ entries false cj in
              let b := qe_of (off cj - fold_left (fun acc e => acc + off e) cells 0)%Q in
              match ents with [] => ([(dummy, qzero)], b) | _ => (ents, b) end) (seq 0 m))).
    { destruct (force_equality st); [apply zero_in_pos|]; exact Hs. }
    clear Hs. apply block_TPos in Hp; [|now rewrite map_length, seq_length].
    rewrite Forall_map, Forall_forall in Hp. specialize (Hp j (proj2 (in_seq m 0 j) (conj (Nat.le_0_l j) Hj))).
    cbv beta in Hp.
    set (cells := map (fun a => nth_sexpr a j) (map av (UI c))) in *.
    assert (Hsimple : forall e, In e cells -> exists S, simple_cell S e).
    { intros e He. unfold cells in He. rewrite map_map in He. apply in_map_iff in He as [i [<- Hi]].
      exists (a_c (ids i)). now apply av_simple. }
    assert (Hnd : NoDup (flat_map (fun e => map var_id (live_keys e)) cells)).
    { unfold cells. rewrite map_map, flat_map_map.
      apply (NoDup_flat_map_sub (fun i => a_c (ids i))); [exact wf_nodup|].
      intros i Hi. apply simple_cell_ids. now apply av_simple. }
    assert (E : rrow_val rho
       (let svs := dedup_ids (flat_map (fun e => map var_id (live_keys e)) cells) in
        let ents := map (fun t => (t, qmone)) svs ++ entries false (nth_sexpr c j) in
        let b := qe_of (off (nth_sexpr c j) - fold_left (fun acc e => acc + off e) cells 0)%Q in
        match ents with [] => ([(dummy, qzero)], b) | _ => (ents, b) end)
       = value rho (nth_sexpr c j) - rsumf (value rho) cells).
    { apply sum_row_val; auto. apply nth_sexpr_affine, wf_caff. }
    assert (Hp' : 0 <= value rho (nth_sexpr c j) - rsumf (value rho) cells) by (rewrite <- E; exact Hp).
    clear E Hp.
    assert (E2 : rsumf (value rho) cells = rsumf (fun i => nth j (age_vals rho alpha c covers ids i) 0) (UI c)).
    { unfold cells. rewrite map_map, rsumf_map. apply rsumf_ext. intros i _. symmetry. apply age_vals_nth. }
    rewrite <- E2. lra.
  Qed.

  (* ---------------------------------------------------------------- master lemma *)
  Definition age_facts (rho : env) (i : nat) : Prop :=
    (covi i = [] -> 0 <= nth i (age_vals rho alpha c covers ids i) 0) /\
    (covi i <> [] ->
     age_hyps N (alphaI N alpha i) (alphaJs N alpha (covi i))
       (nth i (age_vals rho alpha c covers ids i) 0)
       (map (fun j => nth j (age_vals rho alpha c covers ids i) 0) (covi i))
       (map rho (a_nu (ids i))) (map rho (a_epi (ids i))) (XA X) (Xb X) (map rho (a_eta (ids i))) (XK X)).

  Lemma primal_rows_facts : forall st dummy bs rho,
    primal_blocks n N alpha c X covers ids st dummy = Some bs -> blocks_sat rho bs ->
    (trivial_case m c covers = true /\ Forall (fun e => 0 <= value rho e) c) \/
    (trivial_case m c covers = false /\
     (forall j, (j < m)%nat ->
        rsumf (fun i => nth j (age_vals rho alpha c covers ids i) 0) (UI c) <= value rho (nth_sexpr c j)) /\
     (forall i, In i (UI c) -> age_facts rho i)).
  Proof.
    intros st dummy bs rho Hb Hs. destruct (trivial_case m c covers) eqn:Ht.
    - left. split; [reflexivity|]. eapply primal_trivial_inv; eauto.
    - right. split; [reflexivity|].
      destruct (primal_nontrivial_inv st dummy bs rho Ht Hb Hs) as [Hage Hsum]. split.
      + eapply primal_sum_core; eauto.
      + intros i Hi. destruct (Hage i Hi) as [b [Hb1 Hb2]]. eapply primal_age_core; eauto.
  Qed.

  (* ---------------------------------------------------------------- an AGE vector is nonnegative on X *)
  Lemma sigeval_padded : forall (g : nat -> R) z l, Forall (fun j => (j < m)%nat) l ->
    sigeval (alphaJs N alpha l) (map g l) z
    = rsumf (fun j => g j * exp (dot (nth j (aR alpha) []) (firstn n z))) l.
  Proof.
    intros g z. induction l as [|j l IH]; intros H; [reflexivity|].
    inversion H as [|? ? Hj Hl]; subst. unfold alphaJs in *. cbn [map sigeval]. rewrite (IH Hl).
    rewrite rsumf_cons, dot_pad, aR_nth, (nth_alpha_length n alpha j wf_alpha Hj). reflexivity.
  Qed.

  Lemma age_sig_nonneg : forall rho i, In i (UI c) -> age_facts rho i ->
    forall z, in_X N X z -> 0 <= sig_at n alpha (age_vals rho alpha c covers ids i) z.
  Proof.
    intros rho i Hi [Hempty Hfull] z Hz. apply in_X_K in Hz as [Hzl HzK].
    destruct (wf_ids i Hi) as ([Hcl Hci] & _).
    unfold sig_at. rewrite sigeval_rsumf, aR_length.
    rewrite (rsumf_support _ (fun j => nth j (covers i) false) m i (wf_UI_lt i Hi) Hci).
    2:{ intros j Hj Hne Hp. rewrite (age_vals_off_support rho i j Hi Hj Hne); [lra|].
        intros Hin. apply cover_idx_In in Hin. destruct Hin; congruence. }
    replace (filter (fun j => nth j (covers i) false) (seq 0 m)) with (covi i)
      by (rewrite cover_idx_filter, Hcl; reflexivity).
    destruct (cover_idx (covers i)) as [|j0 l] eqn:E.
    - specialize (Hempty eq_refl). cbn [rsumf fold_right].
      pose proof (exp_pos (dot (nth i (aR alpha) []) (firstn n z))). nra.
    - assert (Hne : j0 :: l <> []) by discriminate. specialize (Hfull Hne).
      pose proof (age_hyps_nonneg _ _ _ _ _ _ _ _ _ _ _ Hfull z Hzl HzK) as H.
      rewrite sigeval_padded in H by (rewrite <- E; apply (wf_cov_lt i Hi)).
      unfold alphaI in H. rewrite dot_pad, (nth_alpha_length n alpha i wf_alpha (wf_UI_lt i Hi)) in H.
      rewrite aR_nth. exact H.
  Qed.

  Lemma age_off_nonneg : forall rho i, In i (UI c) -> age_facts rho i ->
    forall j, (j < m)%nat -> j <> i -> 0 <= nth j (age_vals rho alpha c covers ids i) 0.
  Proof.
    intros rho i Hi [_ Hfull] j Hj Hne.
    destruct (in_dec Nat.eq_dec j (covi i)) as [Hin|Hnin].
    - assert (Hc : covi i <> []) by (intros E; rewrite E in Hin; destruct Hin).
      pose proof (age_cover_entries_nonneg _ _ _ _ _ _ _ _ _ _ _ (Hfull Hc)) as H.
      rewrite Forall_map, Forall_forall in H. now apply H.
    - rewrite age_vals_off_support by assumption. lra.
  Qed.

  (* ---------------------------------------------------------------- the whole constraint *)
  Lemma cvals_nth : forall rho j, nth j (cvals rho c) 0 = value rho (nth_sexpr c j).
  Proof. intros. unfold cvals. apply value_nth. Qed.

  Lemma primal_sound_core : forall st dummy bs rho,
    primal_blocks n N alpha c X covers ids st dummy = Some bs -> blocks_sat rho bs ->
    forall z, in_X N X z -> 0 <= sig_at n alpha (cvals rho c) z.
  Proof.
    intros st dummy bs rho Hb Hs z Hz.
    destruct (primal_rows_facts st dummy bs rho Hb Hs) as [[_ Hc]|[_ [Hsum Hage]]].
    - unfold sig_at. apply sigeval_nonneg. unfold cvals. now rewrite Forall_map.
    - set (E := fun j => exp (dot (nth j (aR alpha) []) (firstn n z))).
      assert (HE : forall j, 0 < E j) by (intros; apply exp_pos).
      assert (H1 : 0 <= rsumf (fun i => sig_at n alpha (age_vals rho alpha c covers ids i) z) (UI c)).
      { apply rsumf_nonneg. intros i Hi. apply age_sig_nonneg; auto. }
      assert (H2 : rsumf (fun i => sig_at n alpha (age_vals rho alpha c covers ids i) z) (UI c)
                   = rsumf (fun j => rsumf (fun i => nth j (age_vals rho alpha c covers ids i) 0) (UI c) * E j) (seq 0 m)).
      { erewrite rsumf_ext.
        2:{ intros i _. unfold sig_at. rewrite sigeval_rsumf, aR_length. reflexivity. }
        rewrite (rsumf_swap (fun i j => nth j (age_vals rho alpha c covers ids i) 0 * E j)).
        apply rsumf_ext. intros j _.
        rewrite (rsumf_ext _ _ (fun i => E j * nth j (age_vals rho alpha c covers ids i) 0)) by (intros; lra).
        rewrite rsumf_scale. lra. }
      unfold sig_at at 1. rewrite sigeval_rsumf, aR_length. fold E.
      eapply Rle_trans; [exact H1|]. rewrite H2. apply rsumf_le.
      intros j Hj. apply in_seq in Hj. rewrite cvals_nth.
      apply Rmult_le_compat_r; [apply Rlt_le, HE | apply Hsum; lia].
  Qed.
End Primal.

(* ================================================================== the theorems *)
Lemma primal_rows_sound : primal_rows_sound_stmt.
Proof.
  intros n N alpha c X covers ids st dummy bs rho wf Hb Hs z Hz.
  eapply primal_sound_core; eauto.
Qed.

Lemma trivial_case_false : forall (alpha : list (list Q)) c covers,
  (2 <= length alpha)%nat -> (exists i, In i (UI c) /\ cover_idx (covers i) <> []) ->
  trivial_case (length alpha) c covers = false.
Proof.
  intros alpha c covers Hm [i [Hi Hne]]. unfold trivial_case. apply orb_false_iff. split.
  - apply Nat.leb_gt. lia.
  - apply not_true_is_false. intros Hall. rewrite forallb_forall in Hall. specialize (Hall i Hi).
    cbv beta in Hall. destruct (cover_idx (covers i)); [contradiction | discriminate].
Qed.

Lemma vsum_nth : forall m vs j, (j < m)%nat -> nth j (vsum m vs) 0 = rsumf (fun v => nth j v 0) vs.
Proof. intros. unfold vsum. rewrite nth_map_seq by assumption. apply rsum_map. Qed.

Lemma primal_certificate : primal_certificate_stmt.
Proof.
  intros n N alpha c X covers ids st dummy bs rho wf Hm Hex Hb Hs. cbv zeta.
  pose proof (trivial_case_false alpha c covers Hm Hex) as Ht.
  destruct (primal_rows_facts n N alpha c X covers ids wf st dummy bs rho Hb Hs) as [[Ht' _]|[_ [Hsum Hage]]];
    [congruence|].
  split.
  - intros j Hj. rewrite vsum_nth, rsumf_map by assumption. rewrite (cvals_nth c). now apply Hsum.
  - intros i Hi. split.
    + intros j Hj Hne. eapply age_off_nonneg; eauto.
    + intros z Hz. eapply age_sig_nonneg; eauto.
Qed.

Lemma force_equality_restricts : force_equality_restricts_stmt.
Proof.
  intros n N alpha c X covers ids dummy bs0 bs1 rho H1 H0 Hs.
  rewrite primal_blocks_unfold in H1, H0. cbv zeta in H1, H0.
  destruct (trivial_case (length alpha) c covers); [congruence|].
  apply collect_spec in H1 as [bl1 [Hm1 ->]]. apply collect_spec in H0 as [bl0 [Hm0 ->]].
  rewrite Hm1 in Hm0. assert (bl1 = bl0) as ->.
  { clear -Hm0. revert bl0 Hm0. induction bl1 as [|b bl1 IH]; intros [|b0 bl0] H; try discriminate; auto.
    simpl in H. injection H as -> H. f_equal. now apply IH. }
  unfold blocks_sat in *. apply Forall_app in Hs as [Hs1 Hs2]. apply Forall_app. split; [exact Hs1|].
  inversion Hs2 as [|? ? S _]; subst. constructor; [|constructor].
  unfold sum_block in *. cbn [force_equality] in *. now apply zero_in_pos.
Qed.

(* ================================================================== bridging lemmas (weak duality) *)
(* the rows of the i-th AGE cone give exactly the hypotheses of age_cert_nonneg / age_pairing *)
Lemma primal_age_hyps : forall n N alpha c X covers ids st dummy bs rho i,
  primal_wf n N alpha c X covers ids ->
  primal_blocks n N alpha c X covers ids st dummy = Some bs -> blocks_sat rho bs ->
  In i (UI c) -> cover_idx (covers i) <> [] ->
  age_hyps N (alphaI N alpha i) (alphaJs N alpha (cover_idx (covers i)))
    (nth i (age_vals rho alpha c covers ids i) 0)
    (map (fun j => nth j (age_vals rho alpha c covers ids i) 0) (cover_idx (covers i)))
    (map rho (a_nu (ids i))) (map rho (a_epi (ids i)))
    (XA X) (Xb X) (map rho (a_eta (ids i))) (XK X).
Proof.
  intros n N alpha c X covers ids st dummy bs rho i wf Hb Hs Hi Hne.
  pose proof (nontrivial_of_cover n N alpha c X covers ids wf i Hi Hne) as Ht.
  destruct (primal_rows_facts n N alpha c X covers ids wf st dummy bs rho Hb Hs) as [[Ht' _]|[_ [_ Hage]]];
    [congruence|].
  exact (proj2 (Hage i Hi) Hne).
Qed.

(* an index of U_I with an empty cover (in the AGE branch): its own entry is nonnegative *)
Lemma primal_age_empty : forall n N alpha c X covers ids st dummy bs rho i,
  primal_wf n N alpha c X covers ids ->
  primal_blocks n N alpha c X covers ids st dummy = Some bs -> blocks_sat rho bs ->
  trivial_case (length alpha) c covers = false ->
  In i (UI c) -> cover_idx (covers i) = [] ->
  0 <= nth i (age_vals rho alpha c covers ids i) 0.
Proof.
  intros n N alpha c X covers ids st dummy bs rho i wf Hb Hs Ht Hi He.
  destruct (primal_rows_facts n N alpha c X covers ids wf st dummy bs rho Hb Hs) as [[Ht' _]|[_ [_ Hage]]];
    [congruence|].
  exact (proj1 (Hage i Hi) He).
Qed.

(* the AGE vectors sum to at most c (AGE branch); all of c is nonnegative (trivial branch) *)
Lemma primal_sum_le : forall n N alpha c X covers ids st dummy bs rho,
  primal_wf n N alpha c X covers ids ->
  primal_blocks n N alpha c X covers ids st dummy = Some bs -> blocks_sat rho bs ->
  trivial_case (length alpha) c covers = false ->
  forall j, (j < length alpha)%nat ->
    rsumf (fun i => nth j (age_vals rho alpha c covers ids i) 0) (UI c) <= nth j (cvals rho c) 0.
Proof.
  intros n N alpha c X covers ids st dummy bs rho wf Hb Hs Ht j Hj.
  destruct (primal_rows_facts n N alpha c X covers ids wf st dummy bs rho Hb Hs) as [[Ht' _]|[_ [Hsum _]]];
    [congruence|].
  rewrite (cvals_nth c). now apply Hsum.
Qed.

Lemma primal_trivial_nonneg : forall n N alpha c X covers ids st dummy bs rho,
  primal_wf n N alpha c X covers ids ->
  primal_blocks n N alpha c X covers ids st dummy = Some bs -> blocks_sat rho bs ->
  trivial_case (length alpha) c covers = true ->
  Forall (fun v => 0 <= v) (cvals rho c).
Proof.
  intros n N alpha c X covers ids st dummy bs rho wf Hb Hs Ht.
  destruct (primal_rows_facts n N alpha c X covers ids wf st dummy bs rho Hb Hs) as [[_ H]|[Ht' _]];
    [|congruence].
  unfold cvals. now rewrite Forall_map.
Qed.
