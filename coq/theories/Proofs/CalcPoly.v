(* Proofs/CalcPoly.v — C14, polynomial part: a bag lemma for arbitrary row characters,
   as_polynomial, Polynomial._partial, Polynomial.__call__. *)
From Coq Require Import Reals List Bool Arith ZArith QArith Qreals Lra Lia.
From Coq Require Qcanon.
From SageVerif Require Import Math.RVec Model.Signomial Model.SigExpr Model.Calculus
  Proofs.SigSpec Proofs.SigLemmas Proofs.SigRound Proofs.SigMk Proofs.CalcSpec Proofs.CalcBase.
Import ListNotations.
Local Open Scope R_scope.

(* ------------------------------------------------------------------ *)
(* sums  sum_j c_j chi(alpha_j)  for a function chi of the row that respects row equality *)
Definition chisum (chi : qrow -> R) (f : qsig) : R :=
  fold_right (fun t acc => Q2R (snd t) * chi (fst t) + acc) 0 f.
Definition respects (chi : qrow -> R) : Prop := forall a b, qrow_eqb a b = true -> chi a = chi b.
Definition bagc (chi F : qrow -> R) (u : list qrow) : R :=
  fold_right (fun r acc => F r * chi r + acc) 0 u.

Lemma chisum_cons : forall chi t f, chisum chi (t :: f) = Q2R (snd t) * chi (fst t) + chisum chi f.
Proof. reflexivity. Qed.

Lemma chisum_poly : forall f x, poly_evalR f x = chisum (fun a => monoR a x) f.
Proof. reflexivity. Qed.

Lemma bagc_cons : forall chi F r u, bagc chi F (r :: u) = F r * chi r + bagc chi F u.
Proof. reflexivity. Qed.

Lemma bagc_ext : forall chi F G u, (forall r, In r u -> F r = G r) -> bagc chi F u = bagc chi G u.
Proof.
  induction u; intros H; auto. rewrite !bagc_cons, IHu, H; auto.
  - now left.
  - intros; apply H; now right.
Qed.

Lemma bagc_zero : forall chi F u, (forall r, In r u -> F r = 0) -> bagc chi F u = 0.
Proof.
  induction u; intros H; auto. rewrite bagc_cons, IHu, H.
  - lra.
  - now left.
  - intros; apply H; now right.
Qed.

Lemma bagc_plus : forall chi F G u, bagc chi (fun r => F r + G r) u = bagc chi F u + bagc chi G u.
Proof. induction u; [unfold bagc; simpl; lra|]. rewrite !bagc_cons, IHu. lra. Qed.

Lemma bagc_single : forall chi a c u, respects chi -> NoDupR u -> mem_row a u = true ->
  bagc chi (fun r => if qrow_eqb a r then c else 0) u = c * chi a.
Proof.
  intros chi a c u Hr. induction u; intros Hn Hm; [discriminate|].
  inversion Hn; subst. rewrite bagc_cons. simpl in Hm.
  destruct (qrow_eqb a a0) eqn:E.
  - rewrite (Hr _ _ E). rewrite bagc_zero; [lra|].
    intros r Hin. rewrite (qrow_eqb_compat_l _ _ r E).
    rewrite (mem_row_false _ _ H1 r Hin). reflexivity.
  - simpl in Hm. rewrite IHu; auto. lra.
Qed.

Lemma bagc_eval : forall chi u f, respects chi -> NoDupR u ->
  (forall t, In t f -> mem_row (fst t) u = true) ->
  chisum chi f = bagc chi (coefR f) u.
Proof.
  intros chi u f Hr Hn. induction f as [|[a c] f IH]; intros Hc.
  - rewrite bagc_zero; auto. intros; apply coefR_nil.
  - rewrite chisum_cons, IH by (intros; apply Hc; now right).
    rewrite (bagc_ext chi (coefR ((a, c) :: f)) (fun r => (if qrow_eqb a r then Q2R c else 0) + coefR f r))
      by (intros; apply coefR_cons).
    rewrite bagc_plus, bagc_single; auto.
    apply (Hc (a, c)). now left.
Qed.

Lemma chisum_map_rows : forall chi (c : qrow -> Q) u,
  chisum chi (map (fun r => (r, c r)) u) = bagc chi (fun r => Q2R (c r)) u.
Proof.
  induction u; auto. simpl map. rewrite chisum_cons, bagc_cons, IHu. reflexivity.
Qed.

Lemma chisum_consolidate : forall chi g, respects chi -> chisum chi (qconsolidate g) = chisum chi g.
Proof.
  intros chi g Hr. unfold qconsolidate, consolidate.
  destruct (Nat.eqb _ _); auto.
  rewrite (chisum_map_rows chi (fun r => qcsum (coeffs_at r g))).
  symmetry. apply bagc_eval; auto.
  - apply sort_unique_NoDupR.
  - intros t Ht. rewrite sort_unique_mem. apply mem_row_In. now apply in_map.
Qed.

Lemma chisum_rnd : forall chi f, Forall (fun t => chi (round_row (fst t)) = chi (fst t)) f ->
  chisum chi (rnd f) = chisum chi f.
Proof.
  intros chi f H. induction H as [|t f Ht Hf IH]; auto.
  unfold rnd in *. simpl map. rewrite !chisum_cons, IH. simpl. now rewrite Ht.
Qed.

Lemma chisum_mk : forall chi f, respects chi ->
  Forall (fun t => chi (round_row (fst t)) = chi (fst t)) f ->
  chisum chi (q_mk f) = chisum chi f.
Proof. intros. rewrite q_mk_unfold, chisum_consolidate, chisum_rnd; auto. Qed.

(* ------------------------------------------------------------------ *)
(* monomials *)
Lemma monoR_cons : forall e a v x, monoR (e :: a) (v :: x) = v ^ natq e * monoR a x.
Proof. reflexivity. Qed.

Lemma monoR_respects : forall x, respects (fun a => monoR a x).
Proof.
  intros x a. revert x. induction a as [|e a IH]; intros x b H; destruct b as [|e' b]; try discriminate; auto.
  simpl in H. apply andb_true_iff in H. destruct H as [H1 H2]. apply Qeq_bool_iff in H1.
  destruct x as [|v x]; auto. rewrite !monoR_cons, (natq_compat _ _ H1), (IH x b H2). reflexivity.
Qed.

Lemma natrow_round : forall a, natrow a -> natrow (round_row a).
Proof.
  intros a H. unfold natrow, round_row in *. rewrite Forall_forall in *. intros q Hq.
  apply in_map_iff in Hq. destruct Hq as [e [<- He]]. apply natq_round7. auto.
Qed.

Lemma monoR_round : forall a x, natrow a -> monoR (round_row a) x = monoR a x.
Proof.
  induction a as [|e a IH]; intros x H; auto. inversion H; subst.
  destruct x as [|v x]; auto. simpl round_row. rewrite !monoR_cons, IH by auto.
  now rewrite (proj1 (natq_round7 e H2)).
Qed.

Definition natrows (f : qsig) : Prop := Forall (fun t => natrow (fst t)) f.

Lemma polyrows_natrows : forall n f, polyrows n f -> natrows f.
Proof.
  intros n f H. unfold polyrows, natrows in *. rewrite Forall_forall in *. intros t Ht.
  apply (H t Ht).
Qed.

Lemma poly_mk_eval : forall f x, natrows f -> poly_evalR (q_mk f) x = poly_evalR f x.
Proof.
  intros f x H. rewrite !chisum_poly. apply chisum_mk.
  - apply monoR_respects.
  - unfold natrows in H. rewrite Forall_forall in *. intros t Ht. apply monoR_round. auto.
Qed.

Lemma polyrows_mk : forall n f, polyrows n f -> polyrows n (q_mk f).
Proof.
  intros n f H. rewrite q_mk_unfold.
  apply (consolidate_rows (fun r => length r = n /\ natrow r)).
  unfold polyrows, rnd in *. rewrite Forall_forall in *. intros t Ht.
  apply in_map_iff in Ht. destruct Ht as [s [<- Hs]]. simpl.
  destruct (H s Hs) as [Hl Hn]. split.
  - now rewrite round_row_length.
  - now apply natrow_round.
Qed.

Lemma natrow_zeros : forall n, natrow (repeat 0%Q n).
Proof. induction n; constructor; auto. Qed.

Lemma polyrows_zero : forall n, polyrows n (zero_sig n).
Proof.
  intros n. apply polyrows_mk. constructor; [|constructor]. simpl. split.
  - apply repeat_length.
  - apply natrow_zeros.
Qed.

Lemma poly_eval_zero : forall n x, poly_evalR (zero_sig n) x = 0.
Proof.
  intros n x. unfold zero_sig. rewrite poly_mk_eval.
  - unfold poly_evalR. simpl. rewrite Q2R_0'. lra.
  - constructor; [|constructor]. apply natrow_zeros.
Qed.

(* ------------------------------------------------------------------ *)
(* as_polynomial *)
Lemma exp_pow_INR : forall k v, exp v ^ k = exp (INR k * v).
Proof.
  induction k; intros v.
  - simpl. rewrite Rmult_0_l, exp_0. reflexivity.
  - rewrite S_INR. simpl pow. rewrite IHk, <- exp_plus. f_equal. ring.
Qed.

Lemma mono_exp : forall a x, natrow a -> monoR a (map exp x) = exp (dot (rowR a) x).
Proof.
  induction a as [|e a IH]; intros x H.
  - simpl. now rewrite exp_0.
  - destruct x as [|v x]; [simpl; now rewrite exp_0|]. inversion H; subst.
    simpl map. rewrite monoR_cons, IH by auto. simpl dot.
    rewrite exp_plus, exp_pow_INR, (Q2R_natq e H2). reflexivity.
Qed.

Lemma is_nat_q_eq : forall e e', (e == e')%Q -> is_nat_q e = is_nat_q e'.
Proof.
  intros e e' H. destruct (is_nat_q e) eqn:E1, (is_nat_q e') eqn:E2; auto.
  - rewrite (is_nat_q_compat e e' H E1) in E2. discriminate.
  - rewrite (is_nat_q_compat e' e (Qeq_sym _ _ H) E2) in E1. discriminate.
Qed.

Lemma forallb_nat_round : forall a, on_grid_row a -> forallb is_nat_q (round_row a) = forallb is_nat_q a.
Proof.
  induction a as [|e a IH]; intros H; auto. inversion H; subst. simpl.
  rewrite IH by auto. now rewrite (is_nat_q_eq _ _ H2).
Qed.

Lemma poly_ok_rnd : forall n f, wfsig n f -> poly_ok (rnd f) = poly_ok f.
Proof.
  intros n f H. induction H as [|t f [_ Hg] Hf IH]; auto.
  unfold poly_ok, rnd in *. simpl. rewrite IH. now rewrite forallb_nat_round.
Qed.

Lemma forallb_natrow : forall a, forallb is_nat_q a = true -> natrow a.
Proof. intros a H. unfold natrow. apply Forall_forall. now apply forallb_forall. Qed.

Lemma poly_ok_natrows : forall f, poly_ok f = true -> natrows f.
Proof.
  intros f H. unfold natrows. apply Forall_forall. intros t Ht.
  apply forallb_natrow. unfold poly_ok in H. rewrite forallb_forall in H. auto.
Qed.

Lemma poly_sig_exp : forall f x, natrows f -> poly_evalR f (map exp x) = sig_evalR f x.
Proof.
  intros f x H. induction H as [|t f Ht Hf IH]; auto.
  rewrite sig_evalR_cons, <- IH. unfold poly_evalR at 1. simpl fold_right.
  rewrite mono_exp by auto. reflexivity.
Qed.

Lemma as_poly_correct : as_poly_correct_stmt.
Proof.
  intros n f Hwf Hd. unfold as_polynomial, chk.
  rewrite (mk_id_grid n f Hwf Hd), (poly_ok_rnd n f Hwf).
  destruct (poly_ok f) eqn:E; auto. split; auto.
  intros x Hx. rewrite <- (mk_id_grid n f Hwf Hd).
  rewrite poly_mk_eval by (now apply poly_ok_natrows).
  apply poly_sig_exp. now apply poly_ok_natrows.
Qed.

(* ------------------------------------------------------------------ *)
(* derivative of a monomial in its i-th variable *)
Fixpoint monoP (i : nat) (a : qrow) (x : list R) : R :=
  match a, x with
  | e :: a', v :: x' =>
      match i with
      | O => v ^ pred (natq e) * monoR a' x'
      | S i' => v ^ natq e * monoP i' a' x'
      end
  | _, _ => 1
  end.

Lemma mono_derive : forall a x i, (i < length x)%nat ->
  derivable_pt_lim (fun t => monoR a (upd x i t)) (nth i x 0) (INR (natq (nth i a 0%Q)) * monoP i a x).
Proof.
  induction a as [|e a IH]; intros x i Hi.
  - replace (INR (natq (nth i [] 0%Q)) * monoP i [] x) with 0.
    + apply (derivable_pt_lim_ext (fun _ => 1)); [reflexivity|apply derivable_pt_lim_const].
    + assert (E : nth i [] 0%Q = 0%Q) by (destruct i; reflexivity).
      rewrite E, natq_0. simpl INR. ring.
  - destruct x as [|v x]; [simpl in Hi; lia|]. destruct i as [|i].
    + simpl nth. simpl monoP.
      apply (derivable_pt_lim_ext (fun t => monoR a x * t ^ natq e)).
      * intros t. simpl upd. rewrite monoR_cons. ring.
      * replace (INR (natq e) * (v ^ pred (natq e) * monoR a x))
          with (monoR a x * (INR (natq e) * v ^ pred (natq e))) by ring.
        apply derivable_pt_lim_scal. apply derivable_pt_lim_pow.
    + simpl nth. simpl monoP.
      apply (derivable_pt_lim_ext (fun t => v ^ natq e * monoR a (upd x i t))).
      * intros t. simpl upd. rewrite monoR_cons. reflexivity.
      * replace (INR (natq (nth i a 0%Q)) * (v ^ natq e * monoP i a x))
          with (v ^ natq e * (INR (natq (nth i a 0%Q)) * monoP i a x)) by ring.
        apply derivable_pt_lim_scal. apply IH. simpl in Hi. lia.
Qed.

Lemma monoP_dec : forall a x i, is_nat_q (nth i a 0%Q) = true -> (0 < natq (nth i a 0%Q))%nat ->
  monoR (dec_at i a) x = monoP i a x.
Proof.
  induction a as [|e a IH]; intros x i Hn Hp.
  - destruct i; reflexivity.
  - destruct x as [|v x]; [destruct i; reflexivity|]. destruct i as [|i].
    + cbn [dec_at monoP nth] in *. rewrite monoR_cons. now rewrite (proj1 (natq_pred e Hn Hp)).
    + cbn [dec_at monoP nth] in *. rewrite monoR_cons, IH; auto.
Qed.

Lemma dec_at_length : forall a i, length (dec_at i a) = length a.
Proof. induction a; destruct i; simpl; auto. Qed.

Lemma natrow_dec_at : forall a i, natrow a -> (0 < natq (nth i a 0%Q))%nat -> natrow (dec_at i a).
Proof.
  induction a as [|e a IH]; intros i H Hp; [destruct i; constructor|].
  inversion H; subst. destruct i as [|i]; simpl in *.
  - constructor; auto. now apply natq_pred.
  - constructor; auto. apply IH; auto.
Qed.

(* derivative of the polynomial function, as an explicit sum *)
Definition dsum (i : nat) (f : qsig) (x : list R) : R :=
  fold_right (fun (t : qrow * Q) acc => Q2R (snd t) * (INR (natq (nth i (fst t) 0%Q)) * monoP i (fst t) x) + acc) 0 f.

Lemma poly_evalR_cons : forall t f x, poly_evalR (t :: f) x = Q2R (snd t) * monoR (fst t) x + poly_evalR f x.
Proof. reflexivity. Qed.

Lemma poly_derive_raw : forall f x i, (i < length x)%nat ->
  derivable_pt_lim (fun t => poly_evalR f (upd x i t)) (nth i x 0) (dsum i f x).
Proof.
  intros f x i Hi. induction f as [|s f IH].
  - simpl. apply derivable_pt_lim_const.
  - apply (derivable_pt_lim_ext
             (fun t => Q2R (snd s) * monoR (fst s) (upd x i t) + poly_evalR f (upd x i t))).
    + intros t. now rewrite poly_evalR_cons.
    + unfold dsum. simpl fold_right. fold (dsum i f x).
      apply (derivable_pt_lim_plus (fun t => Q2R (snd s) * monoR (fst s) (upd x i t))
                                   (fun t => poly_evalR f (upd x i t))); auto.
      apply derivable_pt_lim_scal. now apply mono_derive.
Qed.

(* ------------------------------------------------------------------ *)
(* the dict of Polynomial._partial *)
Definition pstep (i : nat) (d : qsig) (t : qrow * Q) : qsig :=
  match Qcompare (nthq (fst t) i) 0%Q with
  | Gt => dict_add (dec_at i (fst t)) (Qred (snd t * nthq (fst t) i)%Q) d
  | _ => d
  end.

Lemma poly_partial_unfold : forall n i f,
  poly_partial n i f = match fold_left (pstep i) f [] with [] => zero_sig n | _ => q_mk (fold_left (pstep i) f []) end.
Proof. intros. unfold poly_partial, pstep. destruct (fold_left _ _ _); reflexivity. Qed.

Lemma chisum_dict_add : forall chi k v d, respects chi ->
  chisum chi (dict_add k v d) = chisum chi d + Q2R v * chi k.
Proof.
  intros chi k v d Hr. induction d as [|[k' v'] d IH].
  - simpl. lra.
  - cbn [dict_add]. destruct (qrow_eqb k k') eqn:E.
    + rewrite !chisum_cons. cbn [fst snd]. rewrite Q2R_Qred, Q2R_plus, (Hr _ _ E). lra.
    + rewrite !chisum_cons, IH. lra.
Qed.

Definition psum (chi : qrow -> R) (i : nat) (f : qsig) : R :=
  fold_right (fun (t : qrow * Q) acc => match Qcompare (nthq (fst t) i) 0%Q with
                           | Gt => Q2R (snd t) * Q2R (nthq (fst t) i) * chi (dec_at i (fst t))
                           | _ => 0
                           end + acc) 0 f.

Lemma chisum_fold : forall chi i f acc, respects chi ->
  chisum chi (fold_left (pstep i) f acc) = chisum chi acc + psum chi i f.
Proof.
  intros chi i f acc Hr. revert acc. induction f as [|t f IH]; intros acc.
  - simpl. lra.
  - cbn [fold_left]. rewrite IH. unfold psum at 2. cbn [fold_right]. fold (psum chi i f).
    unfold pstep. destruct (Qcompare (nthq (fst t) i) 0%Q); try lra.
    rewrite chisum_dict_add, Q2R_Qred, Q2R_mult by auto. lra.
Qed.

Lemma psum_dsum : forall i f x, natrows f -> psum (fun a => monoR a x) i f = dsum i f x.
Proof.
  intros i f x H. induction H as [|t f Ht Hf IH]; auto.
  unfold psum, dsum. simpl fold_right. fold (psum (fun a => monoR a x) i f). fold (dsum i f x).
  rewrite IH. f_equal. unfold nthq.
  pose proof (natrow_nth (fst t) i Ht) as Hn.
  destruct (qgt_natq _ Hn) as [Hg Hng].
  destruct (Qcompare (nth i (fst t) 0%Q) 0%Q) eqn:E.
  - rewrite Hng by discriminate. simpl. ring.
  - rewrite Hng by discriminate. simpl. ring.
  - rewrite (monoP_dec _ _ _ Hn (Hg eq_refl)), (Q2R_natq _ Hn). ring.
Qed.

Lemma polyrows_dict_add : forall n k v d, polyrows n d -> length k = n -> natrow k ->
  polyrows n (dict_add k v d).
Proof.
  intros n k v d H Hl Hn. induction H as [|[k' v'] d Ht Hd IH].
  - constructor; [|constructor]. auto.
  - cbn [dict_add]. destruct (qrow_eqb k k'); constructor; auto.
Qed.

Lemma polyrows_fold : forall n i f acc, polyrows n f -> polyrows n acc ->
  polyrows n (fold_left (pstep i) f acc).
Proof.
  intros n i f. induction f as [|t f IH]; intros acc H Ha; auto.
  inversion H as [|? ? [Hl Hn] Hf]; subst.
  cbn [fold_left]. apply IH; auto. unfold pstep.
  destruct (Qcompare (nthq (fst t) i) 0%Q) eqn:E; auto.
  apply polyrows_dict_add; auto.
  - now rewrite dec_at_length.
  - apply natrow_dec_at; auto.
    apply (proj1 (qgt_natq _ (natrow_nth (fst t) i Hn))). exact E.
Qed.

Lemma poly_partial_polyrows : forall n i f, polyrows n f -> polyrows n (poly_partial n i f).
Proof.
  intros n i f H. rewrite poly_partial_unfold.
  pose proof (polyrows_fold n i f [] H (Forall_nil _)) as Hd.
  destruct (fold_left (pstep i) f []) as [|t d].
  - apply polyrows_zero.
  - now apply polyrows_mk.
Qed.

Lemma poly_partial_eval : forall n i f x, polyrows n f ->
  poly_evalR (poly_partial n i f) x = dsum i f x.
Proof.
  intros n i f x H. rewrite poly_partial_unfold.
  pose proof (polyrows_fold n i f [] H (Forall_nil _)) as Hd.
  pose proof (chisum_fold (fun a => monoR a x) i f [] (monoR_respects x)) as He.
  rewrite (psum_dsum i f x (polyrows_natrows n f H)) in He.
  destruct (fold_left (pstep i) f []) as [|t d].
  - rewrite poly_eval_zero. simpl in He. lra.
  - rewrite poly_mk_eval by (now apply (polyrows_natrows n)).
    rewrite chisum_poly, He. simpl. lra.
Qed.

Lemma poly_partial_derive : poly_partial_derive_stmt.
Proof.
  intros n i f x H Hi Hx. split.
  - now apply poly_partial_polyrows.
  - rewrite (poly_partial_eval n i f x H). apply poly_derive_raw. lia.
Qed.

(* ------------------------------------------------------------------ *)
(* Polynomial.__call__ at rational points *)
Lemma Q2R_qpow_nat : forall v k, Q2R (qpow_nat v k) = Q2R v ^ k.
Proof.
  induction k; simpl.
  - apply Q2R_1'.
  - now rewrite Q2R_mult, IHk.
Qed.

(* exponents stored in lowest terms, as the constructor produces them *)
Definition reduced_row (a : qrow) : Prop := Forall (fun q => Qred q = q) a.
Definition reduced_rows (f : qsig) : Prop := Forall (fun t => reduced_row (fst t)) f.

Lemma Q2R_mono_fold : forall a x acc, reduced_row a ->
  Q2R (fold_left (fun acc ax => (acc * qpow_nat (snd ax) (Z.to_nat (Qnum (fst ax))))%Q) (combine a x) acc)
  = Q2R acc * monoR a (map Q2R x).
Proof.
  induction a as [|e a IH]; intros x acc H.
  - simpl. lra.
  - destruct x as [|v x]; [simpl; lra|]. inversion H; subst.
    simpl combine. simpl fold_left. rewrite IH by auto. simpl map. rewrite monoR_cons.
    rewrite Q2R_mult, Q2R_qpow_nat. unfold natq. rewrite H2. simpl fst. simpl snd. ring.
Qed.

Lemma Q2R_mono_eval : forall a x, reduced_row a -> Q2R (mono_eval a x) = monoR a (map Q2R x).
Proof. intros. unfold mono_eval. rewrite Q2R_mono_fold by auto. rewrite Q2R_1'. ring. Qed.

Lemma Q2R_poly_fold : forall f x acc, reduced_rows f ->
  Q2R (fold_left (fun acc t => (acc + snd t * mono_eval (fst t) x)%Q) f acc)
  = Q2R acc + poly_evalR f (map Q2R x).
Proof.
  induction f as [|t f IH]; intros x acc H.
  - simpl. lra.
  - inversion H; subst. simpl fold_left. rewrite IH by auto.
    rewrite poly_evalR_cons, Q2R_plus, Q2R_mult, Q2R_mono_eval by auto. ring.
Qed.

(* corrected statement: poly_eval reads the exponent as the numerator of the stored fraction,
   so it is the true value exactly when the exponents are stored in lowest terms *)
Definition poly_call_exact_corrected_stmt : Prop :=
  forall n f x, polyrows n f -> reduced_rows f -> length x = n ->
    Q2R (poly_call f x) = poly_evalR f (map Q2R x).

Lemma poly_call_exact_corrected : poly_call_exact_corrected_stmt.
Proof.
  intros n f x _ Hr _. unfold poly_call, poly_eval.
  rewrite Q2R_Qred, Q2R_poly_fold by auto. rewrite Q2R_0'. ring.
Qed.

(* what the constructor returns is always in lowest terms *)
Lemma round7_reduced : forall q, Qred (round7 q) = round7 q.
Proof. intros q. unfold round7. apply Qcanon.Qred_involutive. Qed.

Lemma mk_reduced : forall f, reduced_rows (q_mk f).
Proof.
  intros f. rewrite q_mk_unfold.
  apply (consolidate_rows reduced_row).
  unfold rnd. apply Forall_forall. intros t Ht. apply in_map_iff in Ht.
  destruct Ht as [s [<- _]]. simpl. unfold reduced_row, round_row. apply Forall_forall.
  intros q Hq. apply in_map_iff in Hq. destruct Hq as [e [<- _]]. apply round7_reduced.
Qed.

Lemma poly_call_exact_mk : forall n f x, polyrows n f -> length x = n ->
  Q2R (poly_call (q_mk f) x) = poly_evalR f (map Q2R x).
Proof.
  intros n f x H Hx.
  rewrite (poly_call_exact_corrected n (q_mk f) x (polyrows_mk n f H) (mk_reduced f) Hx).
  apply poly_mk_eval. now apply (polyrows_natrows n).
Qed.

(* the statement of CalcSpec.v is false: the exponent 4/2 is the natural number 2, but
   poly_eval uses the raw numerator 4 *)
Lemma poly_call_exact_counterexample : ~ poly_call_exact_loose_stmt.
Proof.
  intros H. specialize (H 1%nat [([4 # 2], 1)]%Q [2%Q]).
  assert (Hp : polyrows 1 [([4 # 2], 1)]%Q).
  { constructor; [|constructor]. simpl. split; auto. }
  specialize (H Hp eq_refl).
  assert (E1 : poly_call [([4 # 2], 1)]%Q [2%Q] = 16%Q) by reflexivity.
  rewrite E1 in H. unfold poly_evalR in H. simpl in H.
  unfold Q2R in H. simpl in H. lra.
Qed.

(* the statement of Proofs/CalcSpec.v *)
Lemma poly_call_exact : poly_call_exact_stmt.
Proof. intros n f x Hp Hr Hx. apply (poly_call_exact_corrected n f x Hp); auto. Qed.
