(* Model/NpIdioms.v — the meaning of the numpy array idioms that occur in the GF(2) routines of
   poly_solution_recovery.py, as list functions.  The translator (harness/translator/gf2_tr.py) maps each array statement of
   the source to one of these; the control skeleton (loops, conditions, index arithmetic, statement order) is translated
   structurally.  Definitions only. *)
From Coq Require Import List Bool Arith.
From SageVerif Require Import Model.Gf2.
Import ListNotations.

(* np.argmax(col) for a 0/1 column: index of the first 1, or 0 when there is none; col = [r[k] for r in rows] *)
Fixpoint first_one (k : nat) (rows : mat) : option nat :=
  match rows with
  | [] => None
  | r :: rs => if bit k r then Some 0 else option_map S (first_one k rs)
  end.
Definition col_argmax (k : nat) (rows : mat) : nat := match first_one k rows with Some i => i | None => 0 end.

Fixpoint set_row (i : nat) (r : row) (A : mat) : mat :=
  match A, i with
  | [], _ => []
  | _ :: A', O => r :: A'
  | x :: A', S i' => x :: set_row i' r A'
  end.

(* row_h = A[h,:].copy(); row_i = A[i,:].copy(); A[h,:] = row_i; A[i,:] = row_h *)
Definition swap_rows (h i : nat) (A : mat) : mat :=
  let rh := nth h A [] in let ri := nth i A [] in set_row i rh (set_row h ri A).

(* for i in range(h+1, m): if A[i,k] > 0: A[i,:] = np.mod(A[i,:] - A[h,:], 2)      (row h itself is not modified by the loop) *)
Definition elim_rows_after (h k : nat) (A : mat) : mat :=
  let rh := nth h A [] in
  mapi (fun i r => if (h <? i) && bit k r then xorrow r rh else r) A.

(* np.column_stack((A, b)) *)
Definition column_stack_vec (A : mat) (b : row) : mat := augment A b.
