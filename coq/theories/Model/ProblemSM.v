(* Model/ProblemSM.v — state machine for Problem.solve (problem.py) with the ECOS interface
   (ecos.py: parse_result, load_variable_values).  The solver's answer (exit flag, x, pcost)
   is an ORACLE INPUT of each step.  The decision tables come from Gen/GenEcosParse.v and
   Gen/GenProblemSolve.v, regenerated from the source on every run. *)
From Coq Require Import ZArith QArith List Bool.
From SageVerif Require Import Gen.GenEcosParse Gen.GenProblemSolve.
Import ListNotations.

(* extended values: what a float can be, with finite values kept exact *)
Inductive xval := Fin (q : Q) | NaN | PInf | NInf.

Definition xneg (v : xval) : xval :=
  match v with Fin q => Fin (Qred (Qopp q)) | NaN => NaN | PInf => NInf | NInf => PInf end.

Definition xval_eqb (a b : xval) : bool :=
  match a, b with
  | Fin p, Fin q => Qeq_bool p q
  | NaN, NaN | PInf, PInf | NInf, NInf => true
  | _, _ => false
  end.

(* a Variable of a problem: name, and per component (scalar-variable id, column in the
   solver vector or -1 when the component does not participate) *)
Record pvar := { pv_name : nat; pv_comps : list (Z * Z) }.
Record problem := { p_min : bool; p_vars : list pvar }.

Record answer := { a_flag : Z; a_x : list Q; a_pcost : xval }.

(* global store of ScalarVariable._value, keyed by scalar-variable id *)
Definition vstate := list (Z * xval).

Fixpoint lookup (s : vstate) (id : Z) : option xval :=
  match s with
  | [] => None
  | (k, v) :: s' => if Z.eqb k id then Some v else lookup s' id
  end.

Definition store (s : vstate) (id : Z) (v : xval) : vstate := (id, v) :: s.

(* x = np.hstack([x, 0]); x[col] with Python's negative indexing; out of range = IndexError *)
Definition py_index (x : list Q) (col : Z) : option Q :=
  let n := Z.of_nat (length x) in
  if (0 <=? col)%Z then (if (col <? n)%Z then nth_error x (Z.to_nat col) else None)
  else (if (- n <=? col)%Z then nth_error x (Z.to_nat (n + col)) else None).

Definition load_comp (x0 : list Q) (s : option vstate) (c : Z * Z) : option vstate :=
  match s with
  | None => None
  | Some s' => match py_index x0 (snd c) with
               | Some q => Some (store s' (fst c) (Fin q))
               | None => None
               end
  end.

Definition load_values (x : list Q) (p : problem) (s : vstate) : option vstate :=
  let x0 := x ++ [0%Q] in
  fold_left (load_comp x0) (flat_map pv_comps (p_vars p)) (Some s).

Definition fill_nan (p : problem) (s : vstate) : vstate :=
  fold_left (fun s' c => store s' (fst c) NaN) (flat_map pv_comps (p_vars p)) s.

Definition parsed_value (k : valkind) (pcost : xval) : xval :=
  match k with VPcost => pcost | VInf => PInf | VNegInf => NInf | VNan => NaN end.

Inductive outcome :=
| Out (st : status) (value : xval)
| IndexError.

(* one call of Problem.solve(solver='ECOS') given the solver's answer *)
Definition solve_step (s : vstate) (p : problem) (ans : answer) : vstate * outcome :=
  let '(st, vk, load) := ecos_parse (a_flag ans) in
  let pv := parsed_value vk (a_pcost ans) in
  let value := match solve_value_post st (p_min p) with
               | PKeep => pv | PNegate => xneg pv | PNan => NaN end in
  if load && negb (match p_vars p with [] => true | _ => false end) then
    match load_values (a_x ans) p s with
    | Some s' => (s', Out st value)
    | None => (s, IndexError)
    end
  else (fill_nan p s, Out st value).

Definition run (ops : list (problem * answer)) (s : vstate) : vstate * list outcome :=
  fold_left (fun acc op => let '(s', o) := solve_step (fst acc) (fst op) (snd op) in (s', snd acc ++ [o]))
            ops (s, []).

(* observation: the values of all components of a problem's variables *)
Definition observe (s : vstate) (p : problem) : list (list (option xval)) :=
  map (fun v => map (fun c => lookup s (fst c)) (pv_comps v)) (p_vars p).

(* ---- objective (compile_objective + sense flip) ---- *)
(* objective = offset + sum coeff * scalar variable; svid2col gives the column of an id *)
Definition objective := (list (Z * Q) * Q)%type.

Fixpoint set_nthq (k : nat) (v : Q) (l : list Q) : list Q :=
  match l, k with
  | [], _ => []
  | _ :: l', O => v :: l'
  | y :: l', S k' => y :: set_nthq k' v l'
  end.

(* compile_objective: c[col(id)] = coeff (later entries overwrite earlier: numpy fancy assignment);
   None = ValueError (a scalar variable of the objective is in no constraint) *)
Definition compile_objective (n : nat) (svid2col : Z -> Z) (obj : objective) : option (list Q * Q) :=
  if forallb (fun ic => (0 <=? svid2col (fst ic))%Z) (fst obj) then
    Some (fold_left (fun c ic => set_nthq (Z.to_nat (svid2col (fst ic))) (snd ic) c) (fst obj) (repeat 0%Q n),
          snd obj)
  else None.

(* Problem.__init__: self.c = c if minimizing, -c otherwise *)
Definition problem_c (is_min : bool) (c : list Q) : list Q :=
  if objective_negated is_min then map (fun q => Qred (Qopp q)) c else c.
