(* Model/PowCone.v — executable model of coniclifts/constraints/set_membership/pow_cone.py:
   PowCone.__init__ (which entries of w are the "w" part, which one is "z", the normalised weights) and
   PowCone.conic_form (the rows: the w part in its original order, then z; one cone ('pow', w.size) annotated with the weights).
   Documented domain: lamb has exactly one negative entry and all other entries positive.  Outside it the constructor either
   raises ValueError (sizes differ, no negative entry, |sum lamb| > 1e-6) or relies on numpy broadcasting; the model reports the
   ValueErrors and labels everything else [PowOutside]. *)
From Coq Require Import List Bool Arith ZArith QArith Qabs.
From SageVerif Require Import Model.Expr Model.SolverForms Model.Compile.
Import ListNotations.
Close Scope Q_scope.

Definition qpos (q : Q) : bool := match (0 ?= q)%Q with Lt => true | _ => false end.
Definition qneg (q : Q) : bool := match (q ?= 0)%Q with Lt => true | _ => false end.
Definition qsum (l : list Q) : Q := fold_right Qplus 0%Q l.
Definition pow_tol : Q := (1 # 1000000)%Q.

Inductive pow_result :=
| PowValueError
| PowOutside
| PowOk (K : list cone) (rows : list rrow) (weights : list Q).

Definition pow_conic_form (dummy : Z) (w : list sexpr) (lamb : list Q) : pow_result :=
  if negb (Nat.eqb (length w) (length lamb)) then PowValueError
  else if forallb qpos lamb then PowValueError
  else if qpos (Qabs (qsum lamb) - pow_tol)%Q then PowValueError
  else
    let pos := map qpos lamb in
    let neg := map qneg lamb in
    match mask neg lamb with
    | [ln] =>
        if Nat.eqb (length (mask pos lamb) + 1) (length lamb) then
          PowOk [(TPow, length w)]
                (map (prow dummy) (mask pos w ++ mask neg w))
                (map (fun l => Qred (l / Qabs ln)%Q) (mask pos lamb))
        else PowOutside      (* a zero entry: fewer rows than the cone is long *)
    | _ => PowOutside
    end.
