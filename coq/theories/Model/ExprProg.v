(* Model/ExprProg.v — straight-line programs over coniclifts Expressions and their interpretation
   by Model/Expr.v.  A register holds (is_scalar_expression, array).  [None] = the implementation raises. *)
From Coq Require Import List Bool Arith ZArith QArith.
From SageVerif Require Import Model.Expr.
Import ListNotations.
Close Scope Q_scope.

Inductive instr :=
| IVar (sh : list nat) (ids : list Z)            (* Variable / slice of a Variable with these scalar ids *)
| IConst (sh : list nat) (vals : list Q)         (* Expression(numeric array) *)
| IAdd (a b : nat) | ISub (a b : nat) | IMulE (a b : nat)
| IMulQ (a : nat) (q : Q) | IDivQ (a : nat) (q : Q) | IAddQ (a : nat) (q : Q) | IRSubQ (q : Q) (a : nat)
| INeg (a : nat)
| IRMatmul (M : list (list Q)) (mvec : bool) (a : nat)
| IMatmul (a : nat) (N : list (list Q)) (nvec : bool)
| ISumAll (a : nat) | ISumAxis (ax : nat) (a : nat)
| IConcat (xs : list nat) | IVstack (xs : list nat)
| IIndex (a i : nat) | ISlice (a lo hi : nat) | ITile (a k : nat) | IRepeat (a k : nat)
| ITrace (a : nat) | IDiag (a : nat) | ITranspose (a : nat)
| IDotQ (coefs : list Q) (a : nat) | IOuterQ (coefs : list Q) (a : nat) | IKronQ (coefs : list Q) (a : nat)
| ISetItem (a i b : nat)
| IAbs (a : nat) | IPos (a : nat)
| IWse (c : list Q) (a : nat) | IRelent (a b : nat) | INorm (a : nat).

Definition reg := (bool * arr)%type.   (* true = ScalarExpression object *)
Definition scalar_reg (e : sexpr) : reg := (true, {| shape := []; cells := [e] |}).

Definition getr (rs : list reg) (i : nat) : option reg := nth_error rs i.

Definition lift {X} (r : res X) : option X := match r with ROk x => Some x | RErr => None end.
Definition obind {A B} (o : option A) (f : A -> option B) : option B :=
  match o with Some x => f x | None => None end.

Fixpoint all_some {X} (l : list (option X)) : option (list X) :=
  match l with
  | [] => Some []
  | Some x :: l' => match all_some l' with Some r => Some (x :: r) | None => None end
  | None :: _ => None
  end.

Definition amap_res (f : sexpr -> res sexpr) (a : arr) : option arr :=
  obind (all_some (map (fun e => lift (f e)) (cells a))) (fun cs => Some {| shape := shape a; cells := cs |}).

Definition azip_res (f : sexpr -> sexpr -> res sexpr) (a b : arr) : option arr :=
  let k := Nat.max (length (shape a)) (length (shape b)) in
  let sa := pad_shape k (shape a) in let sb := pad_shape k (shape b) in
  match bshape sa sb with
  | Some sh =>
      let ca := broadcast_cells szero sh sa (cells a) in
      let cb := broadcast_cells szero sh sb (cells b) in
      obind (all_some (map (fun p => lift (f (fst p) (snd p))) (combine ca cb)))
            (fun cs => Some {| shape := sh; cells := cs |})
  | None => None
  end.

(* result is a ScalarExpression object iff both operands are *)
Definition bin (rs : list reg) (a b : nat) (f : arr -> arr -> option arr) : option reg :=
  obind (getr rs a) (fun ra => obind (getr rs b) (fun rb =>
    obind (f (snd ra) (snd rb)) (fun r => Some (fst ra && fst rb, r)))).

Definition un (rs : list reg) (a : nat) (f : arr -> option arr) : option reg :=
  obind (getr rs a) (fun ra => obind (f (snd ra)) (fun r => Some (fst ra, r))).

Definition un_arr (rs : list reg) (a : nat) (f : arr -> option arr) : option reg :=
  obind (getr rs a) (fun ra => obind (f (snd ra)) (fun r => Some (false, r))).

Definition un_scalar (rs : list reg) (a : nat) (f : arr -> option sexpr) : option reg :=
  obind (getr rs a) (fun ra => obind (f (snd ra)) (fun e => Some (scalar_reg e))).

Definition step (rs : list reg) (i : instr) : option reg :=
  match i with
  | IVar sh ids => if Nat.eqb (size_of sh) (length ids)
                   then Some (false, {| shape := sh; cells := map svar ids |}) else None
  | IConst sh vals => if Nat.eqb (size_of sh) (length vals)
                      then Some (false, {| shape := sh; cells := map sconst vals |}) else None
  | IAdd a b => bin rs a b (fun x y => lift (e_aadd x y))
  | ISub a b => bin rs a b (fun x y => lift (e_asub x y))
  | IMulE a b => bin rs a b (azip_res smul)
  | IMulQ a q => un rs a (fun x => Some (e_ascale q x))
  | IDivQ a q => un rs a (fun x => lift (e_adivq x q))
  | IAddQ a q => un rs a (fun x => Some (e_aaddq x q))
  | IRSubQ q a => un rs a (fun x => Some (e_aaddq (amap (sscale (-1)%Q) x) q))
  | INeg a => un rs a (fun x => Some (e_aneg x))
  | IRMatmul M mvec a => un_arr rs a (fun x => lift (e_rmatmul M mvec x))
  | IMatmul a N nvec => un_arr rs a (fun x => lift (e_matmul x N nvec))
  | ISumAll a => un_arr rs a (fun x => Some {| shape := []; cells := [e_asum_all x] |})   (* np.sum of an Expression: 0-d Expression *)
  | ISumAxis ax a => un_arr rs a (fun x => lift (e_asum_axis ax x))
  | IConcat xs => obind (all_some (map (getr rs) xs)) (fun l => obind (lift (aconcat1 (map snd l))) (fun r => Some (false, r)))
  | IVstack xs => obind (all_some (map (getr rs) xs)) (fun l => obind (lift (avstack (map snd l))) (fun r => Some (false, r)))
  | IIndex a i => un_scalar rs a (fun x => lift (e_aindex x i))
  | ISlice a lo hi => un_arr rs a (fun x => lift (aslice x lo hi))
  | ITile a k => un_arr rs a (fun x => lift (atile x k))
  | IRepeat a k => un_arr rs a (fun x => lift (arepeat x k))
  | ITrace a => un_scalar rs a (fun x => lift (e_atrace x))
  | IDiag a => un_arr rs a (fun x => lift (e_adiag x))
  | ITranspose a => un_arr rs a (fun x => lift (e_atranspose x))
  | IDotQ coefs a => un_scalar rs a (fun x => lift (e_adotq coefs x))
  | IOuterQ coefs a => un_arr rs a (fun x => lift (e_aouterq coefs x))
  | IKronQ coefs a => un_arr rs a (fun x => lift (e_akronq coefs x))
  | ISetItem a i b => obind (getr rs a) (fun ra => obind (getr rs b) (fun rb =>
                        match cells (snd rb) with
                        | [v] => obind (lift (asetitem (snd ra) i v)) (fun r => Some (false, r))
                        | _ => None
                        end))
  | IAbs a => un_arr rs a (amap_res (fun e => mk_atom KAbs [e]))
  | IPos a => un_arr rs a (amap_res (fun e => mk_atom KPos [e]))
  | IWse c a =>
      obind (getr rs a) (fun ra =>
        if negb (Nat.eqb (length c) (length (cells (snd ra)))) then None
        else if existsb (fun q => match Qcompare q 0%Q with Lt => true | _ => false end) c then None
        else obind (all_some (map (fun ce => if Qeq_bool (fst ce) 0%Q then Some (sconst 0%Q)
                                             else obind (lift (mk_atom KExp [snd ce])) (fun at_ => Some (sscale (fst ce) at_)))
                                  (combine c (cells (snd ra)))))
                   (fun l => Some (false, {| shape := []; cells := [ssum l] |})))
  | IRelent a b =>
      obind (getr rs a) (fun ra => obind (getr rs b) (fun rb =>
        if negb (Nat.eqb (length (cells (snd ra))) (length (cells (snd rb)))) then None
        else obind (all_some (map (fun xy => lift (mk_atom KRelEnt [fst xy; snd xy]))
                                  (combine (cells (snd ra)) (cells (snd rb)))))
                   (fun l => Some (false, {| shape := []; cells := [ssum l] |}))))
  | INorm a =>
      obind (getr rs a) (fun ra => obind (lift (mk_atom KNorm2 (cells (snd ra)))) (fun e =>
        Some (false, {| shape := []; cells := [e] |})))
  end.

(* run a program; the register file grows by one per instruction; a raising instruction leaves a
   placeholder so that later indices stay aligned, and is reported as None in the trace *)
Definition placeholder : reg := (false, {| shape := [0]; cells := [] |}).
Fixpoint run (rs : list reg) (p : list instr) : list (option reg) :=
  match p with
  | [] => []
  | i :: p' => match step rs i with
               | Some r => Some r :: run (rs ++ [r]) p'
               | None => None :: run (rs ++ [placeholder]) p'
               end
  end.

(* observations of one register: (is ScalarExpression, shape, cells, per-cell
   (is_affine_raw, is_affine, is_constant, scalar variable ids)) *)
Definition obs := (bool * list nat * list sexpr)%type.
Definition observe (r : option reg) : option obs :=
  match r with Some (b, a) => Some (b, shape a, cells a) | None => None end.

Definition obs_eqb (a b : option obs) : bool :=
  match a, b with
  | None, None => true
  | Some (b1, sh1, c1), Some (b2, sh2, c2) =>
      Bool.eqb b1 b2 && list_nat_eqb sh1 sh2 &&
      (fix go (x y : list sexpr) : bool :=
         match x, y with [], [] => true | e :: x', f :: y' => sexpr_eqb e f && go x' y' | _, _ => false end) c1 c2
  | _, _ => false
  end.

Fixpoint insertZ (x : Z) (l : list Z) : list Z :=
  match l with [] => [x] | y :: l' => if (x <=? y)%Z then x :: l else y :: insertZ x l' end.
Definition sortZ (l : list Z) : list Z := fold_right insertZ [] l.

(* introspection of a register: per cell (is_affine after zero removal, is_constant, sorted ids) *)
Definition introspect (r : option reg) : option (list (bool * bool * list Z)) :=
  match r with
  | Some (_, a) => Some (map (fun e => (is_affine e, is_constant e, sortZ (scalar_variable_ids e))) (cells a))
  | None => None
  end.
