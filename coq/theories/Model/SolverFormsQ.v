(* Model/SolverFormsQ.v — the rational instance of Model/SolverForms.v used by the
   correspondence check, with outputs flattened to tuples and boolean equalities. *)
From Coq Require Import List Bool Arith QArith.
From SageVerif Require Import Base.Corr Model.SolverForms.
Import ListNotations.

Definition matQ := list (list Q).
Definition qopp (q : Q) : Q := Qred (Qopp q).

Definition ecos_apply_q (x : list Q * matQ * list Q * list cone) :=
  let '(c, A, b, K) := x in
  match ecos_apply qopp c A b K with
  | Ok d => Some (eG d, eh d, (el d, ee d, eq_ d), (eA d, eb d, ec d))
  | Err _ => None
  end.

Definition separate_q (x : nat * matQ * list Q * list cone * list ctag) :=
  let '(n, A, b, K, ds) := x in
  separate 0%Q 1%Q qopp n A b K (fun t => existsb (ctag_eqb t) ds).

Definition mosek_primal_q (x : nat * list Q * matQ * list Q * list cone) :=
  let '(n, c, A, b, K) := x in
  let d := mosek_primal_apply 0%Q 1%Q qopp n c A b K in
  (mpA d, mpb d, mpK d, mpsep d, mpc d, mpn d).

Definition mosek_dual_q (x : nat * list Q * matQ * list Q * list cone) :=
  let '(n, c, A, b, K) := x in
  let d := mosek_dual_apply qopp n c A b K in
  (mdf d, mdG d, mdh d, (md_pos d, md_soc d, md_de d, md_fr d), decide_dual n K).

Definition vq_eqb := list_eqb Qeqb.
Definition mq_eqb := list_eqb vq_eqb.
Definition cone_eqb (a b : cone) : bool := ctag_eqb (fst a) (fst b) && Nat.eqb (snd a) (snd b).
Definition sepcone_eqb (a b : sepcone) : bool :=
  cone_eqb (fst a) (fst b) && list_eqb Nat.eqb (snd a) (snd b).
Definition ln_eqb := list_eqb Nat.eqb.

Definition ecos_out_eqb :=
  option_eqb (pair_eqb (pair_eqb (pair_eqb mq_eqb vq_eqb)
                                  (pair_eqb (pair_eqb Nat.eqb Nat.eqb) ln_eqb))
                       (pair_eqb (pair_eqb mq_eqb vq_eqb) vq_eqb)).
Definition separate_out_eqb :=
  pair_eqb (pair_eqb (pair_eqb mq_eqb vq_eqb) (list_eqb cone_eqb)) (list_eqb sepcone_eqb).
Definition mosek_primal_out_eqb :=
  pair_eqb (pair_eqb (pair_eqb (pair_eqb (pair_eqb mq_eqb vq_eqb) (list_eqb cone_eqb)) (list_eqb sepcone_eqb)) vq_eqb) Nat.eqb.
Definition mosek_dual_out_eqb :=
  pair_eqb (pair_eqb (pair_eqb (pair_eqb vq_eqb mq_eqb) vq_eqb)
                     (pair_eqb (pair_eqb (pair_eqb Nat.eqb ln_eqb) Nat.eqb) Nat.eqb)) Bool.eqb.
