(* Model/Signomial.v — executable model of Signomial arithmetic
   (sageopt/symbolic/signomials.py, sageopt/symbolic/utilities.py), generic in the
   coefficient type C (Q for numeric coefficients, affine expressions for symbolic ones).
   A signomial is the list of its (exponent row, coefficient) pairs IN THE ROW ORDER OF
   THE IMPLEMENTATION.  Definitions only. *)
From Coq Require Import List Bool Arith ZArith QArith Qabs.
Import ListNotations.

Definition qrow := list Q.

(* ---- exponent rounding: np.round(alpha, 7) as exact round-half-even on the 10^-7 grid ---- *)
Definition grid : Z := 10000000%Z.
Definition round_half_even (q : Q) : Z :=
  let n := Qnum q in let d := Zpos (Qden q) in
  let fl := (n / d)%Z in let r := (n mod d)%Z in
  if (2 * r <? d)%Z then fl
  else if (d <? 2 * r)%Z then (fl + 1)%Z
  else if Z.even fl then fl else (fl + 1)%Z.
Definition round7 (q : Q) : Q :=
  Qred (Qmake (round_half_even (q * (grid # 1))) (Z.to_pos grid)).
Definition round_row (r : qrow) : qrow := map round7 r.

Fixpoint qrow_eqb (a b : qrow) : bool :=
  match a, b with
  | [], [] => true
  | x :: a', y :: b' => Qeq_bool x y && qrow_eqb a' b'
  | _, _ => false
  end.

(* lexicographic order (np.unique(axis=0) sorts rows lexicographically) *)
Fixpoint qrow_ltb (a b : qrow) : bool :=
  match a, b with
  | [], [] => false
  | [], _ :: _ => true
  | _ :: _, [] => false
  | x :: a', y :: b' =>
      if Qeq_bool x y then qrow_ltb a' b'
      else match Qcompare x y with Lt => true | _ => false end
  end.

Fixpoint insert_row (r : qrow) (l : list qrow) : list qrow :=
  match l with
  | [] => [r]
  | x :: l' => if qrow_eqb r x then l
               else if qrow_ltb r x then r :: l else x :: insert_row r l'
  end.
Definition sort_unique (rows : list qrow) : list qrow := fold_left (fun acc r => insert_row r acc) rows [].

Fixpoint mem_row (r : qrow) (l : list qrow) : bool :=
  match l with [] => false | x :: l' => qrow_eqb r x || mem_row r l' end.

(* rows in first-seen order, duplicates dropped (align_basis_matrices) *)
Definition first_seen (rows : list qrow) : list qrow :=
  rev (fold_left (fun acc r => if mem_row r acc then acc else r :: acc) rows []).

Section Sig.
  Context {C : Type}.
  Context (czero : C) (cadd : C -> C -> C) (cmul : C -> C -> C) (cofq : Q -> C)
          (cscale : Q -> C -> C) (ciszero : C -> bool).

  Definition sig := list (qrow * C).

  Definition csum (l : list C) : C := fold_left cadd l czero.

  (* coefficients of all terms of [f] whose exponent row equals [r], in index order *)
  Definition coeffs_at (r : qrow) (f : sig) : list C :=
    map snd (filter (fun t => qrow_eqb (fst t) r) f).

  (* utilities.consolidate_basis_funcs: identity when all rows are distinct, otherwise the
     lexicographically sorted distinct rows with summed coefficients *)
  Definition consolidate (f : sig) : sig :=
    let u := sort_unique (map fst f) in
    if Nat.eqb (length u) (length f) then f
    else map (fun r => (r, csum (coeffs_at r f))) u.

  (* Signomial.__init__ on an ndarray alpha *)
  Definition mk (f : sig) : sig := consolidate (map (fun t => (round_row (fst t), snd t)) f).

  (* Signomial.sum (len >= 2 goes through align/lift; len = 1 returns the operand itself) *)
  Definition sig_sum (fs : list sig) : sig :=
    match fs with
    | [f] => f
    | _ =>
      let rows := first_seen (concat (map (map fst) fs)) in
      mk (map (fun r => (r, csum (map (fun f => csum (coeffs_at r f)) fs))) rows)
    end.

  Fixpoint vaddq (a b : qrow) : qrow :=
    match a, b with
    | x :: a', y :: b' => Qred (x + y) :: vaddq a' b'
    | _, _ => []
    end.

  (* Signomial.product: rows tiled (f1 fastest), coefficients multiplied, then the constructor *)
  Definition sig_product (f1 f2 : sig) : sig :=
    mk (flat_map (fun t2 => map (fun t1 => (round_row (vaddq (fst t1) (fst t2)), cmul (snd t1) (snd t2))) f1) f2).

  Definition const_sig (n : nat) (c : C) : sig := [(repeat 0%Q n, c)].

  (* Signomial.without_zeros *)
  Definition without_zeros (n : nat) (f : sig) : sig :=
    match f with
    | [_] => f
    | _ =>
      let keep := filter (fun t => negb (ciszero (snd t))) f in
      if Nat.eqb (length keep) (length f) then f
      else match keep with
           | [] => mk (const_sig n (cofq 0))
           | _ => mk keep
           end
    end.

  Definition sig_add (n : nat) (f g : sig) : sig := without_zeros n (sig_sum [f; g]).
  Definition sig_mul (n : nat) (f g : sig) : sig := without_zeros n (sig_product f g).
  Definition sig_scale (n : nat) (q : Q) (f : sig) : sig := sig_mul n f (mk (const_sig n (cofq q))).
  Definition sig_neg (n : nat) (f : sig) : sig := sig_scale n (-1) f.
  Definition sig_sub (n : nat) (f g : sig) : sig := sig_add n f (sig_scale n (-1) g).
  Definition sig_add_scalar (n : nat) (f : sig) (q : Q) : sig := sig_add n f (mk (const_sig n (cofq q))).

  (* nonnegative integer powers: s = Signomial(alpha, c); repeat s = s * self *)
  Fixpoint pow_iter (n : nat) (k : nat) (s f : sig) : sig :=
    match k with O => s | S k' => pow_iter n k' (sig_mul n s f) f end.
  Definition sig_pow_nat (n : nat) (f : sig) (k : nat) : sig :=
    match k with
    | O => mk (const_sig n (cofq 1))
    | S k' => pow_iter n k' (mk f) f
    end.
End Sig.

(* ---------------- numeric instance ---------------- *)
Definition qadd (a b : Q) : Q := Qred (a + b).
Definition qmul (a b : Q) : Q := Qred (a * b).
Definition qiszero (a : Q) : bool := Qeq_bool a 0.
Definition qid (a : Q) : Q := Qred a.

Definition qsig := list (qrow * Q).
Definition q_mk := mk (C:=Q) 0%Q qadd.
Definition q_sum := sig_sum (C:=Q) 0%Q qadd.
Definition q_add := sig_add (C:=Q) 0%Q qadd qid qiszero.
Definition q_mul := sig_mul (C:=Q) 0%Q qadd qmul qid qiszero.
Definition q_scale := sig_scale (C:=Q) 0%Q qadd qmul qid qiszero.
Definition q_neg := sig_neg (C:=Q) 0%Q qadd qmul qid qiszero.
Definition q_sub := sig_sub (C:=Q) 0%Q qadd qmul qid qiszero.
Definition q_add_scalar := sig_add_scalar (C:=Q) 0%Q qadd qid qiszero.
Definition q_pow_nat := sig_pow_nat (C:=Q) 0%Q qadd qmul qid qiszero.
Definition q_without_zeros := without_zeros (C:=Q) 0%Q qadd qid qiszero.

(* negative / fractional powers of a one-term signomial: Signomial.__pow__'s else-branch.
   The exponent p is given as a rational; coefficient power only for integer p (the harness
   uses coefficients 2^k so that float(v)**p is exact). None = ValueError. *)
Definition qpow_z (v : Q) (p : Z) : Q :=
  match p with
  | Z0 => 1
  | Zpos k => Qred (Qpower v (Zpos k))
  | Zneg k => Qred (Qpower (Qinv v) (Zpos k))
  end.

Definition q_pow_neg (f : qsig) (p : Z) : option qsig :=
  match filter (fun t => negb (qiszero (snd t))) f with
  | [(a, v)] =>
      Some (q_mk [(map (fun x => Qred (inject_Z p * x)) a, qpow_z v p)])
  | _ => None
  end.

(* ---------------- equality (Signomial.__eq__, after the symmetric repair) ---------------- *)
Definition query_coeff (f : qsig) (r : qrow) : Q :=
  match filter (fun t => qrow_eqb (fst t) r) f with
  | (_, c) :: _ => c      (* alpha_c is a dict keyed by the row; rows are unique *)
  | [] => 0
  end.

Definition tol8 : Q := 1 # 100000000.
Definition close (a b : Q) : bool := Qle_bool (Qabs (a - b)) tol8.

Definition one_sided_eq (f g : qsig) : bool :=
  forallb (fun t => close (snd t) (query_coeff g (round_row (fst t)))) f.

Definition q_eqb (f g : qsig) : bool :=
  Nat.eqb (length f) (length g) && one_sided_eq f g && one_sided_eq g f.

(* ---------------- evaluation support: exact rational evaluation of polynomials ---------------- *)
Fixpoint qpow_nat (x : Q) (k : nat) : Q := match k with O => 1 | S k' => x * qpow_nat x k' end.

Definition mono_eval (a : qrow) (x : list Q) : Q :=
  fold_left (fun acc ax => acc * qpow_nat (snd ax) (Z.to_nat (Qnum (fst ax)))) (combine a x) 1.

Definition poly_eval (f : qsig) (x : list Q) : Q :=
  Qred (fold_left (fun acc t => acc + snd t * mono_eval (fst t) x) f 0).
