(* Model/FormIdioms.v — the fixed table of scipy / numpy ARRAY idioms used by the translation of reformulators.py and of
   Mosek._primal_apply / _dual_apply (harness/translator/mforms_tr.py).  Control flow, index arithmetic, list building and cone
   bookkeeping of those functions are translated structurally; only the array-valued library calls below go through this table.
   The table is part of the trusted base of that translation and is validated on every run by the `*_generated` correspondence
   suites of C10 (the generated functions are evaluated on the inputs the implementation ran on). *)
From Coq Require Import List Bool Arith.
From SageVerif Require Import Model.SolverForms.
Import ListNotations.

(* total number of slack columns of a list of separated cones (A.shape[1] after separate_cone_constraints is n + sep_total slacks_K) *)
Definition sep_total (sl : list sepcone) : nat := fold_right (fun s acc => snd (fst s) + acc) 0 sl.

Section Idioms.
  Context {T : Type} (tzero : T) (tplus : T -> T -> T).

  (* sp.csc_matrix((vals, (rows, cols)), shape=(nrows, ncols)) as a dense row list: entries given for the same coordinates are SUMMED
     (scipy's documented behaviour); coordinates outside the shape make scipy raise and are outside this table *)
  Definition coo_entry (tr : list (T * (nat * nat))) (r c : nat) : T :=
    fold_right (fun e acc => if (Nat.eqb (fst (snd e)) r && Nat.eqb (snd (snd e)) c)%bool then tplus (fst e) acc else acc) tzero tr.
  Definition coo_matrix (vals : list T) (rows cols : list nat) (nrows ncols : nat) : list (list T) :=
    let tr := combine vals (combine rows cols) in
    map (fun r => map (fun c => coo_entry tr r c) (seq 0 ncols)) (seq 0 nrows).

  (* np.arange(lo, hi) *)
  Definition arange (lo hi : nat) : list nat := seq lo (hi - lo).
End Idioms.
