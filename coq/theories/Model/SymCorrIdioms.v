(* Model/SymCorrIdioms.v — the fixed table of numpy ARRAY idioms used by the translation of relaxations/symbolic_correspondences.py
   (harness/translator/symcorr_tr.py).  Loops, appends, conditionals and calls are translated structurally; only the three array
   statements below go through this table, which is validated on every run by the `*_generated` suites of C16. *)
From Coq Require Import List Bool Arith ZArith QArith Qabs.
From SageVerif Require Import Model.Signomial Model.SymCorr.
Import ListNotations.

(* np.all(np.abs(b - a) < tol) for two rows of equal length *)
Fixpoint row_within (tol : Q) (a b : qrow) : bool :=
  match a, b with
  | [], [] => true
  | x :: a', y :: b' => (match Qcompare (Qabs (y - x)) tol with Lt => true | _ => false end) && row_within tol a' b'
  | _, _ => false
  end.

(* np.where(np.all(np.abs(alpha2 - row) < tol, axis=1))[0]: the indices of the rows of alpha2 within tol of row, increasing *)
Fixpoint close_from (tol : Q) (row : qrow) (alpha2 : list qrow) (k : nat) : list nat :=
  match alpha2 with
  | [] => []
  | x :: rest => if row_within tol row x then k :: close_from tol row rest (S k) else close_from tol row rest (S k)
  end.
Definition close_rows (tol : Q) (alpha2 : list qrow) (row : qrow) : list nat := close_from tol row alpha2 0%nat.

(* c[idx] = vals with integer index arrays: assignments in order, later ones overwrite earlier ones *)
Definition fancy_assign (c : list Q) (idx : list nat) (vals : list Q) : list Q :=
  fold_left (fun c iv => set_nthQ (fst iv) (snd iv) c) (combine idx vals) c.

(* sc[common] *)
Definition take_idx (sc : list Q) (idx : list nat) : list Q := map (fun i => nth i sc 0%Q) idx.
