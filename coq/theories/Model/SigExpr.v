(* Model/SigExpr.v — expression trees over Signomials/Polynomials with numeric coefficients and
   their interpretation by the model of Model/Signomial.v; [None] = the implementation raises. *)
From Coq Require Import List Bool Arith ZArith QArith.
From SageVerif Require Import Model.Signomial.
Import ListNotations.

Inductive sexp :=
| SMono (i : nat)                       (* standard_sig_monomials(n)[i] / standard_poly_monomials(n)[i] *)
| SLit (rows : list (qrow * Q))         (* Signomial(alpha, c) with possibly repeated rows *)
| SAdd (a b : sexp) | SSub (a b : sexp) | SMul (a b : sexp) | SDiv (a b : sexp)
| SNeg (a : sexp)
| SAddQ (a : sexp) (q : Q)              (* a + q *)
| SRAddQ (q : Q) (a : sexp)             (* q + a *)
| SSubQ (a : sexp) (q : Q)              (* a - q *)
| SRSubQ (q : Q) (a : sexp)             (* q - a *)
| SMulQ (a : sexp) (q : Q)              (* a * q  and  q * a *)
| SDivQ (a : sexp) (q : Q)              (* a / q *)
| SRDivQ (q : Q) (a : sexp)             (* q / a *)
| SPow (a : sexp) (p : Z)               (* a ** p, integer p *)
| SWithoutZeros (a : sexp).

Definition unit_row (n i : nat) : qrow := map (fun j => if Nat.eqb i j then 1%Q else 0%Q) (seq 0 n).

Definition is_nat_q (q : Q) : bool := Qeq_bool q (inject_Z (Qnum (Qred q))) && (0 <=? Qnum (Qred q))%Z.
Definition poly_ok (f : qsig) : bool := forallb (fun t => forallb is_nat_q (fst t)) f.

Definition bind {A B} (o : option A) (f : A -> option B) : option B :=
  match o with Some x => f x | None => None end.

Definition chk (poly : bool) (f : qsig) : option qsig :=
  if poly then (if poly_ok f then Some f else None) else Some f.

Fixpoint eval (poly : bool) (n : nat) (e : sexp) : option qsig :=
  match e with
  | SMono i => Some (q_mk [(unit_row n i, 1%Q)])
  | SLit rows => chk poly (q_mk rows)
  | SAdd a b => bind (eval poly n a) (fun fa => bind (eval poly n b) (fun fb => chk poly (q_add n fa fb)))
  | SSub a b => bind (eval poly n a) (fun fa => bind (eval poly n b) (fun fb => chk poly (q_sub n fa fb)))
  | SMul a b => bind (eval poly n a) (fun fa => bind (eval poly n b) (fun fb => chk poly (q_mul n fa fb)))
  | SDiv a b =>
      if poly then None   (* Polynomial.__truediv__ accepts numeric divisors only *)
      else bind (eval poly n a) (fun fa => bind (eval poly n b) (fun fb =>
             bind (q_pow_neg fb (-1)) (fun ib => Some (q_mul n fa ib))))
  | SNeg a => bind (eval poly n a) (fun fa => chk poly (q_neg n fa))
  | SAddQ a q | SRAddQ q a => bind (eval poly n a) (fun fa => chk poly (q_add_scalar n fa q))
  | SSubQ a q => bind (eval poly n a) (fun fa => chk poly (q_add_scalar n fa (Qred (- q))))
  | SRSubQ q a =>  (* other + (-1) * self : scalar.__add__ fails, so (-1*self).__radd__(q) *)
      bind (eval poly n a) (fun fa => chk poly (q_add_scalar n (q_scale n (-1) fa) q))
  | SMulQ a q => bind (eval poly n a) (fun fa => chk poly (q_scale n q fa))
  | SDivQ a q =>
      if Qeq_bool q 0 then None
      else bind (eval poly n a) (fun fa => chk poly (q_scale n (Qred (/ q)) fa))
  | SRDivQ q a =>   (* Signomial.__rtruediv__ (not overridden by Polynomial): (self ** -1) * other *)
      bind (eval poly n a) (fun fa => bind (q_pow_neg fa (-1)) (fun ia =>
        bind (chk poly ia) (fun ia' => chk poly (q_scale n q ia'))))
  | SPow a p =>
      bind (eval poly n a) (fun fa =>
        if (0 <=? p)%Z then chk poly (q_pow_nat n fa (Z.to_nat p))
        else bind (q_pow_neg fa p) (fun r => chk poly r))
  | SWithoutZeros a => bind (eval poly n a) (fun fa => chk poly (q_without_zeros n fa))
  end.

Definition sig_out_eqb (a b : option qsig) : bool :=
  match a, b with
  | None, None => true
  | Some f, Some g =>
      (fix go (f g : qsig) : bool :=
         match f, g with
         | [], [] => true
         | (r1, c1) :: f', (r2, c2) :: g' => qrow_eqb r1 r2 && Qeq_bool c1 c2 && go f' g'
         | _, _ => false
         end) f g
  | _, _ => false
  end.
