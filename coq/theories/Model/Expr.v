(* Model/Expr.v — executable model of coniclifts ScalarExpression / Expression arithmetic
   (sageopt/coniclifts/base.py, operators/*.py constructors).
   A ScalarExpression is a formal linear combination of atoms plus an offset.  The term list
   mirrors the Python dict as a MULTISET of (atom, coefficient) entries: the dict's value for a
   key is the sum of the entries with that atom; a key whose entries sum to 0 is still a key
   (explicit zero), exactly as in the defaultdict.  Definitions only. *)
From Coq Require Import List Bool Arith ZArith QArith.
Import ListNotations.
Close Scope Q_scope.

Inductive nlkind := KExp | KAbs | KPos | KRelEnt | KNorm2.
Definition nlkind_eqb (a b : nlkind) : bool :=
  match a, b with
  | KExp, KExp | KAbs, KAbs | KPos, KPos | KRelEnt, KRelEnt | KNorm2, KNorm2 => true
  | _, _ => false
  end.

(* NonlinearScalarAtom.parse_arg: ((var id, coeff) sorted by id, zero-free; offset) *)
Definition aff := (list (Z * Q) * Q)%type.

Inductive atom := AVar (id : Z) | ANl (k : nlkind) (args : list aff).

Fixpoint zq_list_eqb (a b : list (Z * Q)) : bool :=
  match a, b with
  | [], [] => true
  | (i, c) :: a', (j, d) :: b' => Z.eqb i j && Qeq_bool c d && zq_list_eqb a' b'
  | _, _ => false
  end.
Definition aff_eqb (a b : aff) : bool := zq_list_eqb (fst a) (fst b) && Qeq_bool (snd a) (snd b).
Fixpoint affs_eqb (a b : list aff) : bool :=
  match a, b with
  | [], [] => true
  | x :: a', y :: b' => aff_eqb x y && affs_eqb a' b'
  | _, _ => false
  end.
(* ScalarVariable.__eq__ (same generation) / NonlinearScalarAtom.__eq__ (type and args) *)
Definition atom_eqb (a b : atom) : bool :=
  match a, b with
  | AVar i, AVar j => Z.eqb i j
  | ANl k xs, ANl l ys => nlkind_eqb k l && affs_eqb xs ys
  | _, _ => false
  end.

Record sexpr := { terms : list (atom * Q); off : Q }.

Definition qred2 (q : Q) : Q := Qred q.
Definition coeff_of (a : atom) (e : sexpr) : Q :=
  Qred (fold_left (fun acc t => if atom_eqb (fst t) a then (acc + snd t)%Q else acc) (terms e) 0%Q).

Fixpoint mem_atom (a : atom) (l : list atom) : bool :=
  match l with [] => false | x :: l' => atom_eqb a x || mem_atom a l' end.
(* dict keys, first-insertion order *)
Definition keys (e : sexpr) : list atom :=
  rev (fold_left (fun acc t => if mem_atom (fst t) acc then acc else fst t :: acc) (terms e) []).
(* keys whose coefficient is nonzero (after remove_zeros) *)
Definition live_keys (e : sexpr) : list atom :=
  filter (fun a => negb (Qeq_bool (coeff_of a e) 0%Q)) (keys e).

Definition sconst (q : Q) : sexpr := {| terms := []; off := q |}.
Definition svar (id : Z) : sexpr := {| terms := [(AVar id, 1%Q)]; off := 0%Q |}.
Definition satom (a : atom) : sexpr := {| terms := [(a, 1%Q)]; off := 0%Q |}.

Definition sadd (a b : sexpr) : sexpr := {| terms := terms a ++ terms b; off := Qred (off a + off b)%Q |}.
Definition sscale_raw (q : Q) (a : sexpr) : sexpr :=
  {| terms := map (fun t => (fst t, Qred (q * snd t)%Q)) (terms a); off := Qred (q * off a)%Q |}.
(* ScalarExpression.__mul__ by a number: multiplying by 0 gives the EMPTY expression *)
Definition sscale (q : Q) (a : sexpr) : sexpr :=
  if Qeq_bool q 0%Q then sconst 0%Q else sscale_raw q a.
Definition sneg (a : sexpr) : sexpr := sscale_raw (-1)%Q a.
Definition ssub (a b : sexpr) : sexpr := sadd a (sscale_raw (-1)%Q b).

Definition is_constant (e : sexpr) : bool := match live_keys e with [] => true | _ => false end.
Definition is_var (a : atom) : bool := match a with AVar _ => true | _ => false end.
(* is_affine as the dict sees it (explicit-zero nonlinear keys count) and after remove_zeros *)
Definition is_affine_raw (e : sexpr) : bool := forallb is_var (keys e).
Definition is_affine (e : sexpr) : bool := forallb is_var (live_keys e).

Inductive res (X : Type) := ROk (x : X) | RErr.
Arguments ROk {X} x.
Arguments RErr {X}.

(* ScalarExpression * ScalarExpression *)
Definition smul (a b : sexpr) : res sexpr :=
  if is_constant b then ROk (sscale (off b) a)
  else if is_constant a then ROk (sscale (off a) b)
  else RErr.
(* ScalarExpression / number  (self * (1 / other)); division by zero raises ZeroDivisionError *)
Definition sdiv (a : sexpr) (q : Q) : res sexpr :=
  if Qeq_bool q 0%Q then RErr else ROk (sscale (Qred (/ q)%Q) a).

(* ---- nonlinear atoms ---- *)
Fixpoint insert_zq (x : Z * Q) (l : list (Z * Q)) : list (Z * Q) :=
  match l with
  | [] => [x]
  | y :: l' => if (fst x <? fst y)%Z then x :: l else y :: insert_zq x l'
  end.
Definition var_id (a : atom) : Z := match a with AVar i => i | _ => 0%Z end.

(* parse_arg: raises unless affine (raw, before zeros are removed); then zero-free, sorted by id *)
Definition parse_arg (e : sexpr) : res aff :=
  if is_affine_raw e then
    ROk (fold_right insert_zq [] (map (fun a => (var_id a, coeff_of a e)) (live_keys e)), Qred (off e))
  else RErr.

Fixpoint parse_args (es : list sexpr) : res (list aff) :=
  match es with
  | [] => ROk []
  | e :: es' => match parse_arg e, parse_args es' with
                | ROk a, ROk l => ROk (a :: l)
                | _, _ => RErr
                end
  end.

Definition mk_atom (k : nlkind) (es : list sexpr) : res sexpr :=
  match parse_args es with ROk args => ROk (satom (ANl k args)) | RErr => RErr end.

(* scalar variables an expression depends on (ScalarExpression.scalar_variables: after remove_zeros;
   variables inside nonlinear atoms' arguments included), as a duplicate-free id list *)
Definition atom_var_ids (a : atom) : list Z :=
  match a with
  | AVar i => [i]
  | ANl _ args => flat_map (fun af => map fst (fst af)) args
  end.
Fixpoint dedupZ (l : list Z) : list Z :=
  match l with
  | [] => []
  | x :: l' => if existsb (Z.eqb x) l' then dedupZ l' else x :: dedupZ l'
  end.
Definition scalar_variable_ids (e : sexpr) : list Z := dedupZ (flat_map atom_var_ids (live_keys e)).
Definition scalar_atoms (e : sexpr) : list atom := live_keys e.

(* semantic equality of two scalar expressions as dicts with zeros removed *)
Definition sexpr_eqb (a b : sexpr) : bool :=
  Qeq_bool (off a) (off b) &&
  forallb (fun k => Qeq_bool (coeff_of k a) (coeff_of k b)) (keys a ++ keys b).

(* ---- arrays: shape + row-major cells; GENERIC in the element type X with a zero, an addition
   and a scaling by rationals.  Instantiated at sexpr (the model of Expression arrays) and, in the
   specifications, at R (numpy arrays of values). ---- *)
Definition size_of (sh : list nat) : nat := fold_right Nat.mul 1%nat sh.
Definition list_nat_eqb := (fix go (a b : list nat) : bool :=
  match a, b with [], [] => true | x :: a', y :: b' => Nat.eqb x y && go a' b' | _, _ => false end).

(* numpy broadcasting of two shapes (left-padded with 1s); None = shapes not broadcastable *)
Definition pad_shape (k : nat) (sh : list nat) : list nat := repeat 1%nat (k - length sh) ++ sh.
Fixpoint bshape (a b : list nat) : option (list nat) :=
  match a, b with
  | [], [] => Some []
  | x :: a', y :: b' =>
      match bshape a' b' with
      | Some r => if Nat.eqb x y then Some (x :: r)
                  else if Nat.eqb x 1 then Some (y :: r)
                  else if Nat.eqb y 1 then Some (x :: r) else None
      | None => None
      end
  | _, _ => None
  end.
(* multi-index of flat position i in a row-major array of shape sh *)
Fixpoint unravel (sh : list nat) (i : nat) : list nat :=
  match sh with
  | [] => []
  | d :: sh' => let s := size_of sh' in (i / s) :: unravel sh' (i mod s)
  end.
(* flat position, in an operand of (padded) shape sh, of result multi-index idx (size-1 axes broadcast) *)
Fixpoint bravel (sh idx : list nat) : nat :=
  match sh, idx with
  | d :: sh', j :: idx' => (if Nat.eqb d 1 then 0 else j) * size_of sh' + bravel sh' idx'
  | _, _ => 0
  end.

Fixpoint chunks {X} (n : nat) (k : nat) (l : list X) : list (list X) :=
  match k with O => [] | S k' => firstn n l :: chunks n k' (skipn n l) end.
Definition column {X} (j : nat) (rows : list (list X)) (d : X) : list X := map (fun r => nth j r d) rows.

Record garr (X : Type) := { shape : list nat; cells : list X }.
Arguments shape {X} g.
Arguments cells {X} g.

Section Arr.
  Context {X : Type} (xzero : X) (xadd : X -> X -> X) (xscale : Q -> X -> X).

  Definition amap (f : X -> X) (a : garr X) : garr X := {| shape := shape a; cells := map f (cells a) |}.

  Definition broadcast_cells (sh_out sh_in : list nat) (cs : list X) : list X :=
    map (fun i => nth (bravel sh_in (unravel sh_out i)) cs xzero) (seq 0 (size_of sh_out)).

  (* elementwise binary operation with numpy broadcasting *)
  Definition azip (f : X -> X -> X) (a b : garr X) : res (garr X) :=
    let k := Nat.max (length (shape a)) (length (shape b)) in
    let sa := pad_shape k (shape a) in let sb := pad_shape k (shape b) in
    match bshape sa sb with
    | Some sh =>
        let ca := broadcast_cells sh sa (cells a) in
        let cb := broadcast_cells sh sb (cells b) in
        ROk {| shape := sh; cells := map (fun p => f (fst p) (snd p)) (combine ca cb) |}
    | None => RErr
    end.

  Definition aadd := azip xadd.
  Definition asub := azip (fun a b => xadd a (xscale (-1)%Q b)).
  Definition ascale (q : Q) := amap (xscale q).
  Definition aneg := amap (xscale (-1)%Q).
  Definition adivq (a : garr X) (q : Q) : res (garr X) :=
    if Qeq_bool q 0%Q then RErr else ROk (amap (xscale (Qred (/ q)%Q)) a).

  (* sum of a list: np.sum / python sum start from 0 *)
  Definition xsum (l : list X) : X := fold_left xadd l xzero.
  Definition lincomb (coefs : list Q) (es : list X) : X :=
    xsum (map (fun ce => xscale (fst ce) (snd ce)) (combine coefs es)).

  (* numeric matrix M (r x k, or a k-vector when [mvec]) times E with shape [k] or [k; c] *)
  Definition rmatmul (M : list (list Q)) (mvec : bool) (e : garr X) : res (garr X) :=
    match shape e with
    | [k] =>
        if forallb (fun r => Nat.eqb (length r) k) M then
          ROk {| shape := if mvec then [] else [length M];
                 cells := map (fun r => lincomb r (cells e)) M |}
        else RErr
    | [k; c] =>
        if forallb (fun r => Nat.eqb (length r) k) M then
          let rows := chunks c k (cells e) in
          ROk {| shape := if mvec then [c] else [length M; c];
                 cells := flat_map (fun r => map (fun j => lincomb r (column j rows xzero)) (seq 0 c)) M |}
        else RErr
    | _ => RErr
    end.

  (* E (shape [k] or [r; k]) @ numeric matrix N (k x c) or k-vector *)
  Definition matmul (e : garr X) (N : list (list Q)) (nvec : bool) : res (garr X) :=
    let kN := length N in
    let c := match N with [] => 0%nat | r :: _ => length r end in
    match shape e with
    | [k] =>
        if Nat.eqb k kN then
          ROk {| shape := if nvec then [] else [c];
                 cells := map (fun j => lincomb (column j N 0%Q) (cells e)) (seq 0 c) |}
        else RErr
    | [r; k] =>
        if Nat.eqb k kN then
          let rows := chunks k r (cells e) in
          ROk {| shape := if nvec then [r] else [r; c];
                 cells := flat_map (fun row => map (fun j => lincomb (column j N 0%Q) row) (seq 0 c)) rows |}
        else RErr
    | _ => RErr
    end.

  Definition asum_all (a : garr X) : X := xsum (cells a).
  Definition asum_axis (ax : nat) (a : garr X) : res (garr X) :=
    match shape a with
    | [r; c] =>
        let rows := chunks c r (cells a) in
        match ax with
        | 0%nat => ROk {| shape := [c]; cells := map (fun j => xsum (column j rows xzero)) (seq 0 c) |}
        | 1%nat => ROk {| shape := [r]; cells := map xsum rows |}
        | _ => RErr
        end
    | [n] => match ax with 0%nat => ROk {| shape := []; cells := [xsum (cells a)] |} | _ => RErr end
    | _ => RErr
    end.

  (* structural operators on 1-d / 2-d arrays *)
  Definition aconcat1 (xs : list (garr X)) : res (garr X) :=
    if forallb (fun a => Nat.eqb (length (shape a)) 1) xs then
      ROk {| shape := [length (flat_map cells xs)]; cells := flat_map cells xs |}
    else RErr.
  Definition avstack (xs : list (garr X)) : res (garr X) :=
    match xs with
    | [] => RErr
    | a0 :: _ =>
        match shape a0 with
        | [n] => if forallb (fun a => list_nat_eqb (shape a) [n]) xs
                 then ROk {| shape := [length xs; n]; cells := flat_map cells xs |} else RErr
        | _ => RErr
        end
    end.
  Definition aindex (a : garr X) (i : nat) : res X :=
    match shape a with
    | [n] => if Nat.ltb i n then ROk (nth i (cells a) xzero) else RErr
    | _ => RErr
    end.
  Definition aslice (a : garr X) (lo hi : nat) : res (garr X) :=
    match shape a with
    | [n] => let hi' := Nat.min hi n in let lo' := Nat.min lo hi' in
             ROk {| shape := [hi' - lo']; cells := firstn (hi' - lo') (skipn lo' (cells a)) |}
    | _ => RErr
    end.
  Definition atile (a : garr X) (reps : nat) : res (garr X) :=
    match shape a with
    | [n] => ROk {| shape := [n * reps]; cells := concat (repeat (cells a) reps) |}
    | _ => RErr
    end.
  Definition arepeat (a : garr X) (reps : nat) : res (garr X) :=
    match shape a with
    | [n] => ROk {| shape := [n * reps]; cells := flat_map (fun x => repeat x reps) (cells a) |}
    | _ => RErr
    end.
  Definition atrace (a : garr X) : res X :=
    match shape a with
    | [r; c] => let rows := chunks c r (cells a) in
                ROk (xsum (map (fun i => nth i (nth i rows []) xzero) (seq 0 (Nat.min r c))))
    | _ => RErr
    end.
  Definition adiag (a : garr X) : res (garr X) :=
    match shape a with
    | [r; c] => let rows := chunks c r (cells a) in
                ROk {| shape := [Nat.min r c];
                       cells := map (fun i => nth i (nth i rows []) xzero) (seq 0 (Nat.min r c)) |}
    | [n] => ROk {| shape := [n; n];
                    cells := flat_map (fun i => map (fun j => if Nat.eqb i j then nth i (cells a) xzero else xzero)
                                                    (seq 0 n)) (seq 0 n) |}
    | _ => RErr
    end.
  Definition atranspose (a : garr X) : res (garr X) :=
    match shape a with
    | [r; c] => let rows := chunks c r (cells a) in
                ROk {| shape := [c; r]; cells := flat_map (fun j => column j rows xzero) (seq 0 c) |}
    | [n] => ROk a
    | _ => RErr
    end.
  Definition adotq (coefs : list Q) (a : garr X) : res X :=
    match shape a with
    | [n] => if Nat.eqb n (length coefs) then ROk (lincomb coefs (cells a)) else RErr
    | _ => RErr
    end.
  Definition aouterq (coefs : list Q) (a : garr X) : res (garr X) :=
    match shape a with
    | [n] => ROk {| shape := [length coefs; n]; cells := flat_map (fun q => map (xscale q) (cells a)) coefs |}
    | _ => RErr
    end.
  Definition akronq (coefs : list Q) (a : garr X) : res (garr X) :=
    match shape a with
    | [n] => ROk {| shape := [length coefs * n]; cells := flat_map (fun q => map (xscale q) (cells a)) coefs |}
    | _ => RErr
    end.
  Definition asetitem (a : garr X) (i : nat) (v : X) : res (garr X) :=
    match shape a with
    | [n] => if Nat.ltb i n
             then ROk {| shape := [n]; cells := firstn i (cells a) ++ v :: skipn (S i) (cells a) |} else RErr
    | _ => RErr
    end.
End Arr.

(* ---- the Expression instance ---- *)
Definition arr := garr sexpr.
Definition szero : sexpr := sconst 0%Q.
Definition ssum (l : list sexpr) : sexpr := xsum szero sadd l.
Definition e_aadd := aadd szero sadd.
Definition e_asub := asub szero sadd sscale.
Definition e_ascale := ascale (X:=sexpr) sscale.
Definition e_aneg := aneg (X:=sexpr) sscale.
Definition e_adivq := adivq (X:=sexpr) sscale.
Definition e_aaddq (a : arr) (q : Q) : arr := amap (fun e => sadd e (sconst q)) a.
Definition e_rmatmul := rmatmul szero sadd sscale.
Definition e_matmul := matmul szero sadd sscale.
Definition e_asum_all := asum_all szero sadd.
Definition e_asum_axis := asum_axis szero sadd.
Definition e_aindex := aindex szero.
Definition e_atrace := atrace szero sadd.
Definition e_adiag := adiag szero.
Definition e_atranspose := atranspose szero.
Definition e_adotq := adotq szero sadd sscale.
Definition e_aouterq := aouterq (X:=sexpr) sscale.
Definition e_akronq := akronq (X:=sexpr) sscale.
