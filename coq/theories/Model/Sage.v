(* Model/Sage.v — executable model of the rows emitted by PrimalSageCone.conic_form and
   DualSageCone.conic_form (sage_cones.py) through the precompiled helpers
   (precompiled/relent.py: sum_relent, elementwise_relent, _fast_elemwise_data, _compact_elemwise_data;
    precompiled/affine.py: matvec, matvec_plus_matvec, matvec_minus_vec, matvec_plus_vec_times_scalar,
    columns_sum_leq_vec) and DualProductCone.conic_form.
   Covers are an INPUT (observed from con.ech.covers): soundness holds for every cover.
   The ids of the auxiliary Variables are inputs too.  kernel_basis=True is not modelled (its basis
   comes from a floating-point SVD).  Rows are id-indexed raw rows as in Model/Compile.v. *)
From Coq Require Import List Bool Arith ZArith QArith.
From SageVerif Require Import Model.Expr Model.SolverForms Model.Compile.
Import ListNotations.
Close Scope Q_scope.

Definition block := (list cone * list rrow)%type.

(* domain X = { x : exists w, A [x;w] + b in K } given with rows of width lifted_n *)
Record domain := { dA : list (list Q); db : list Q; dK : list cone }.

(* ---- ExpCoverHelper classification of the entries of c ---- *)
Definition in_UI (ci : sexpr) : bool := negb (is_constant ci) || (match Qcompare (off ci) 0%Q with Lt => true | _ => false end).
Definition in_NI (ci : sexpr) : bool := is_constant ci && (match Qcompare (off ci) 0%Q with Lt => true | _ => false end).
Definition in_PI (ci : sexpr) : bool := is_constant ci && (match Qcompare (off ci) 0%Q with Gt => true | _ => false end).
Definition indices_where {X} (f : X -> bool) (l : list X) : list nat :=
  map fst (filter (fun ix => f (snd ix)) (combine (seq 0 (length l)) l)).

Definition cover_idx (cov : list bool) : list nat := indices_where (fun b => b) cov.

(* ---- auxiliary variables of the i-th AGE cone (ids observed from the implementation) ---- *)
Record age_ids := { a_nu : list Z; a_epi : list Z; a_eta : list Z; a_c : list Z }.

Definition qzero := qe_of 0%Q.
Definition qone := qe_of 1%Q.
Definition qmone := qe_of (-1)%Q.

(* entries of an affine scalar expression (all dict keys), optionally negated / scaled by e *)
Definition entries (neg : bool) (e : sexpr) : list (Z * qe) :=
  map (fun a => (var_id a, qe_of (if neg then - coeff_of a e else coeff_of a e)%Q)) (keys e).
Definition entries_e (e : sexpr) : list (Z * qe) :=
  map (fun a => (var_id a, qe_e (coeff_of a e))) (keys e).

(* sum_relent(x, y, z, aux, y_scale = e) with x = Variables nu (ids), y = scalar expressions,
   z = scalar expression: K = [+1] ++ [e3]*k *)
Definition sum_relent_rows (nu : list Z) (y : list sexpr) (z : sexpr) (epi : list Z) : block :=
  ((TPos, 1) :: repeat (TExp, 3) (length nu),
   (entries true z ++ map (fun t => (t, qmone)) epi, qe_of (- off z)%Q)
   :: flat_map (fun nye => let '(n_j, y_j, e_j) := nye in
                           [ ([(e_j, qmone)], qzero);
                             (entries_e y_j, qe_e (off y_j));
                             ([(n_j, qone)], qzero) ])
               (combine (combine nu y) epi)).

(* mat @ vars as raw rows: every entry of mat is emitted (zeros included) *)
Definition matvec_rows (mat : list (list Q)) (ids : list Z) : list rrow :=
  map (fun r => (map (fun ci => (snd ci, qe_of (fst ci))) (combine r ids), qzero)) mat.

Fixpoint transposeQ (width : nat) (rows : list (list Q)) : list (list Q) :=
  match width with
  | O => []
  | S w => map (fun r => hd 0%Q r) rows :: transposeQ w (map (fun r => tl r) rows)
  end.

Definition vsubQ (a b : list Q) : list Q := map (fun p => Qred (fst p - snd p)%Q) (combine a b).
Definition pad (k : nat) (r : list Q) : list Q := r ++ repeat 0%Q (k - length r).

(* age_vectors[i] as a list of m scalar expressions *)
Definition age_vector (m : nat) (i : nat) (ci : sexpr) (isN : bool) (cov : list nat) (cvars : list Z) : list sexpr :=
  map (fun j =>
         if Nat.eqb j i then (if isN then ci else svar (last cvars 0%Z))
         else match indices_where (Nat.eqb j) cov with
              | p :: _ => svar (nth p cvars 0%Z)
              | [] => sconst 0%Q
              end) (seq 0 m).

Record psettings := { force_equality : bool }.

Definition nth_sexpr (l : list sexpr) (i : nat) : sexpr := nth i l (sconst 0%Q).

(* rows of the i-th AGE cone *)
Definition age_blocks (n lifted_n : nat) (alpha : list (list Q)) (X : option domain) (dummy : Z)
           (i : nat) (cov : list nat) (ids : age_ids) (av : list sexpr) : option (list block) :=
  match cov with
  | [] =>
      (* con = 0 <= age_vectors[i][i] *)
      Some [ ([(TPos, 1)], [row_of dummy false (nth_sexpr av i)]) ]
  | _ =>
      let y := map (nth_sexpr av) cov in
      let alpha_l := map (pad lifted_n) alpha in
      let ai := nth i alpha_l [] in
      let mat := transposeQ lifted_n (map (fun j => vsubQ (nth j alpha_l []) ai) cov) in
      match X with
      | None =>
          let z := sneg (nth_sexpr av i) in
          Some [ sum_relent_rows (a_nu ids) y z (a_epi ids);
                 ([(T0, n)], matvec_rows (transposeQ n (map (fun j => vsubQ (nth j alpha []) (nth i alpha [])) cov)) (a_nu ids)) ]
      | Some D =>
          (* z = -age_vectors[i][i] + eta @ b ; zero entries of b are dropped by the matmul *)
          let etab := {| terms := map (fun p => (AVar (fst p), snd p))
                                      (filter (fun p => negb (Qeq_bool (snd p) 0%Q)) (combine (a_eta ids) (db D)));
                         off := 0%Q |} in
          let z := sadd (sneg (nth_sexpr av i)) etab in
          let mat2 := map (map (fun q => Qred (- q)%Q)) (transposeQ lifted_n (dA D)) in
          match dual_rows dummy (map svar (a_eta ids)) (dK D) with
          | None => None
          | Some dualblk =>
              Some [ sum_relent_rows (a_nu ids) y z (a_epi ids);
                     ([(T0, lifted_n)],
                      map (fun rr => (fst (fst rr) ++ fst (snd rr), qzero))
                          (combine (matvec_rows mat (a_nu ids)) (matvec_rows mat2 (a_eta ids))));
                     dualblk ]
          end
      end
  end.

(* columns_sum_leq_vec(aux, c, mat_offsets=True): row j = c[j] - sum_i age_vectors[i][j]; every scalar
   variable of row j of the AGE matrix enters with coefficient -1 (once) *)
Definition dedup_ids (l : list Z) : list Z :=
  fold_right (fun x acc => if existsb (Z.eqb x) acc then acc else x :: acc) [] l.

Definition sum_block (dummy : Z) (st : psettings) (m : nat) (c : list sexpr) (avs : list (list sexpr)) : block :=
  ([(if force_equality st then T0 else TPos, m)],
   map (fun j =>
          let cells := map (fun av => nth_sexpr av j) avs in
          let svs := dedup_ids (flat_map (fun e => map var_id (live_keys e)) cells) in
          let cj := nth_sexpr c j in
          let ents := map (fun t => (t, qmone)) svs ++ entries false cj in
          let b := qe_of (off cj - fold_left (fun acc e => acc + off e) cells 0)%Q in
          match ents with
          | [] => ([(dummy, qzero)], b)
          | _ => (ents, b)
          end) (seq 0 m)).

(* PrimalSageCone.conic_form.  [covers i] for i in U_I; [ids i] likewise. *)
Definition primal_blocks (n lifted_n : nat) (alpha : list (list Q)) (c : list sexpr) (X : option domain)
           (covers : nat -> list bool) (ids : nat -> age_ids) (st : psettings) (dummy : Z) : option (list block) :=
  let m := length alpha in
  let UI := indices_where in_UI c in
  if Nat.leb m 1 || forallb (fun i => match cover_idx (covers i) with [] => true | _ => false end) UI then
    (* len(self._nus) == 0 : c >= 0 *)
    Some [ ([(TPos, m)], map (row_of dummy false) c) ]
  else
    let avs := map (fun i => age_vector m i (nth_sexpr c i) (in_NI (nth_sexpr c i)) (cover_idx (covers i)) (a_c (ids i))) UI in
    let per := map (fun iv => age_blocks n lifted_n alpha X dummy (fst iv) (cover_idx (covers (fst iv))) (ids (fst iv)) (snd iv))
                   (combine UI avs) in
    (fix all (l : list (option (list block))) : option (list block) :=
       match l with
       | [] => Some [sum_block dummy st m c avs]
       | Some b :: l' => match all l' with Some r => Some (b ++ r) | None => None end
       | None :: _ => None
       end) per.

(* ---- DualSageCone.conic_form ---- *)
Record dual_ids := { d_mu : list Z (* lifted_n ids *); d_epi : list Z }.
Record dsettings := { compact_dual : bool }.

(* the rows of  mat @ mu  as scalar expressions (zero coefficients dropped by the matmul) *)
Definition matvec_sexprs (mat : list (list Q)) (ids : list Z) : list sexpr :=
  map (fun r => {| terms := map (fun p => (AVar (snd p), fst p))
                                (filter (fun p => negb (Qeq_bool (fst p) 0%Q)) (combine r ids));
                   off := 0%Q |}) mat.

Definition dual_age_blocks (n lifted_n : nat) (alpha : list (list Q)) (v : list sexpr) (X : option domain)
           (st : dsettings) (dummy : Z) (i : nat) (cov : list nat) (ids : dual_ids) : list block :=
  match cov with
  | [] => []
  | _ =>
      let vi := nth_sexpr v i in
      let mat := map (fun j => vsubQ (nth i alpha []) (nth j alpha [])) cov in
      let mu_n := firstn n (d_mu ids) in
      let relent :=
          if compact_dual st then
            (* _compact_elemwise_data: first entries are -(mat @ mu) (offset kept), then v_i, v_j *)
            [ (repeat (TExp, 3) (length cov),
               flat_map (fun zj => [ (entries true (fst zj), qe_of (off (fst zj)));
                                     (entries false (snd zj), qe_of (off (snd zj)));
                                     (entries false vi, qe_of (off vi)) ])
                        (combine (matvec_sexprs mat mu_n) (map (nth_sexpr v) cov))) ]
          else
            [ (repeat (TExp, 3) (length cov),
               flat_map (fun ej => [ ([(fst ej, qmone)], qzero);
                                     (entries false (snd ej), qe_of (off (snd ej)));
                                     (entries false vi, qe_of (off vi)) ])
                        (combine (d_epi ids) (map (nth_sexpr v) cov)));
              ([(TPos, length cov)],
               map (fun re => (fst (fst re) ++ [(snd re, qmone)], qzero))
                   (combine (matvec_rows mat mu_n) (d_epi ids))) ] in
      let dom :=
          match X with
          | None => []
          | Some D =>
              [ (dK D,
                 map (fun rb => (fst (fst rb) ++ map (fun a => (var_id a, qe_of (snd rb * coeff_of a vi)%Q)) (keys vi),
                                 qe_of (off vi * snd rb)%Q))
                     (combine (matvec_rows (dA D) (d_mu ids)) (db D))) ]
          end in
      relent ++ dom
  end.

Definition dual_blocks (n lifted_n : nat) (alpha : list (list Q)) (v : list sexpr) (c : option (list sexpr))
           (X : option domain) (covers : nat -> list bool) (ids : nat -> dual_ids) (st : dsettings) (dummy : Z)
  : list block :=
  let m := length alpha in
  if Nat.leb m 1 then [ ([(TPos, m)], map (row_of dummy false) v) ]
  else
    let UI := match c with Some cc => indices_where in_UI cc | None => seq 0 m end in
    let PI := match c with Some cc => indices_where in_PI cc | None => [] end in
    let nontrivial := filter (fun i => existsb (Nat.eqb i) UI || existsb (Nat.eqb i) PI) (seq 0 m) in
    ([(TPos, length nontrivial)], map (fun i => row_of dummy false (nth_sexpr v i)) nontrivial)
    :: flat_map (fun i => dual_age_blocks n lifted_n alpha v X st dummy i (cover_idx (covers i)) (ids i)) UI.
