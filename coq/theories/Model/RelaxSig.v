(* Model/RelaxSig.v — the data of the SAGE relaxations built by sage_sigs.py
   (sig_primal, sig_dual, make_sig_lagrangian, hierarchy_e_k), obtained by COMPOSING the models of the
   functions they call: Model/Signomial.v, Model/SymSig.v, Model/SymCorr.v.  No re-specification. *)
From Coq Require Import List Bool Arith ZArith QArith.
From SageVerif Require Import Model.Expr Model.Signomial Model.SymSig Model.SolverForms Model.SymCorr.
Import ListNotations.
Close Scope Q_scope.

Definition ones_sig (rows : list qrow) : qsig := q_mk (map (fun r => (r, 1%Q)) rows).

(* lagrangian = f - gamma, gamma a 0-d Variable with scalar id g *)
Definition lagrangian0 (n : nat) (f : qsig) (g : Z) : ssig :=
  s_add n (s_mk (of_numeric f)) (const_ssig n (sscale (-1)%Q (svar g))).

Definition modulator (n : nat) (f : qsig) (g : Z) (mod_supp : option (list qrow)) (ell : nat) : qsig :=
  let supp := match mod_supp with Some r => r | None => map fst (lagrangian0 n f g) end in
  q_pow_nat n (ones_sig supp) ell.

(* sig_primal: the SAGE constraint is on the coefficients of (f - gamma) * t^ell; objective: max gamma *)
Definition sig_primal_m (n : nat) (f0 : qsig) (ell : nat) (g : Z) (mod_supp : option (list qrow)) : ssig :=
  let f := q_without_zeros n f0 in
  s_mul_sig n (lagrangian0 n f g) (of_numeric (modulator n f g mod_supp ell)).

(* sig_dual: exponents of the modulated Lagrangian, its coefficient cells (given to the dual cone as
   sign information), the normalisation vector a and the objective vector *)
Definition sig_dual_m (n : nat) (f0 : qsig) (ell : nat) (g : Z) (mod_supp : option (list qrow))
  : ssig * list Q * list Q :=
  let f := q_without_zeros n f0 in
  let t := modulator n f g mod_supp ell in
  let L := s_mul_sig n (lagrangian0 n f g) (of_numeric t) in
  (L, relative_coeff_vector t (map fst L), relative_coeff_vector (q_mul n f t) (map fst L)).

(* hierarchy_e_k(sigs, k): exponents of (sum over the distinct exponents of the given functions)^k *)
Definition hierarchy_e_k (n : nat) (alphas : list (list qrow)) (k : nat) : list qrow :=
  map fst (q_pow_nat n (q_mk (map (fun r => (r, 1%Q)) (sort_unique (concat alphas)))) k).

(* containment checks under which the dual-form theorems are stated (see Proofs/RelaxSpec.v) *)
Definition rows_contained (f : qsig) (rows : list qrow) : bool :=
  forallb (fun t => qiszero (snd t) || mem_row (fst t) rows) f.
