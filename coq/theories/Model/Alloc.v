(* Model/Alloc.v — executable model of Variable identity in coniclifts/base.py:
   the global allocators (ScalarVariable._SCALAR_VARIABLE_COUNTER, Variable._VARIABLE_GENERATION,
   Variable._UNNAMED_VARIABLE_CALL_COUNT), __unstructured_populate__ / __symmetric_populate__,
   clear_variable_indices, and the custom pickling protocol (Variable.__reduce__/__setstate__,
   ScalarVariable.__getstate__/__setstate__, _relink_scalar_variables).  Definitions only. *)
From Coq Require Import List Bool Arith ZArith.
Import ListNotations.

Record gstate := { counter : Z; generation : Z; unnamed : nat }.
Definition g0 : gstate := {| counter := 0; generation := 0; unnamed := 0 |}.

Definition size_of (sh : list nat) : nat := fold_right Nat.mul 1 sh.

(* a name is either given by the user (an index into the harness' name table) or generated:
   'unnamed_var_{k}' *)
Inductive vname := Named (k : nat) | Unnamed (k : nat).
Definition vname_eqb (a b : vname) : bool :=
  match a, b with
  | Named i, Named j => Nat.eqb i j
  | Unnamed i, Unnamed j => Nat.eqb i j
  | _, _ => false
  end.

(* a proper Variable as coniclifts sees it *)
Record var := { v_name : vname; v_shape : list nat; v_sym : bool; v_gen : Z;
                v_ids : list Z (* row-major scalar_variable_ids *) }.

(* ids of a symmetric n x n Variable: allocation order (0,0),(0,1),..,(0,n-1),(1,1),(1,2),...;
   entry (i,j) with j < i mirrors (j,i) *)
Definition tri_offset (n i : nat) : nat :=           (* number of ids allocated before row i *)
  fold_right Nat.add 0 (map (fun r => n - r) (seq 0 i)).
Definition sym_id (base : Z) (n i j : nat) : Z :=
  let lo := Nat.min i j in let hi := Nat.max i j in
  (base + Z.of_nat (tri_offset n lo + (hi - lo)))%Z.
Definition sym_ids (base : Z) (n : nat) : list Z :=
  flat_map (fun i => map (fun j => sym_id base n i j) (seq 0 n)) (seq 0 n).
Definition sym_count (n : nat) : nat := tri_offset n n.

Inductive res (X : Type) := ROk (x : X) | RErr.
Arguments ROk {X} x.
Arguments RErr {X}.

(* Variable.__new__ *)
Definition new_var (g : gstate) (sh : list nat) (sym : bool) (name : option nat) : res (gstate * var) :=
  let nm := match name with Some k => Named k | None => Unnamed (unnamed g) end in
  let un := match name with Some _ => unnamed g | None => S (unnamed g) end in
  if sym then
    match sh with
    | [n; m] =>
        if Nat.eqb n m && negb (Nat.eqb n 0) then
          ROk ({| counter := (counter g + Z.of_nat (sym_count n))%Z; generation := generation g; unnamed := un |},
               {| v_name := nm; v_shape := sh; v_sym := true; v_gen := generation g; v_ids := sym_ids (counter g) n |})
        else RErr
    | _ => RErr
    end
  else
    let k := size_of sh in
    if Nat.eqb k 0 then RErr   (* 'Cannot declare Variables with zero components' *)
    else ROk ({| counter := (counter g + Z.of_nat k)%Z; generation := generation g; unnamed := un |},
              {| v_name := nm; v_shape := sh; v_sym := false; v_gen := generation g;
                 v_ids := map (fun i => (counter g + Z.of_nat i)%Z) (seq 0 k) |}).

(* coniclifts.clear_variable_indices *)
Definition clear (g : gstate) : gstate :=
  {| counter := 0; generation := (generation g + 1)%Z; unnamed := unnamed g |}.

(* ---- histories ---- *)
Inductive op :=
| ONew (sh : list nat) (sym : bool) (name : option nat)
| OClear.

Definition step (st : gstate * list var) (o : op) : gstate * list var :=
  match o with
  | ONew sh sym name =>
      match new_var (fst st) sh sym name with
      | ROk (g', v) => (g', snd st ++ [v])
      | RErr => st           (* constructor raised: the unnamed-name counter may still have advanced *)
      end
  | OClear => (clear (fst st), snd st)
  end.

(* a failing constructor call still increments the unnamed counter when no name was given,
   because the name is generated before the shape is validated *)
Definition step_faithful (st : gstate * list var) (o : op) : gstate * list var :=
  match o with
  | ONew sh sym name =>
      match new_var (fst st) sh sym name with
      | ROk (g', v) => (g', snd st ++ [v])
      | RErr =>
          let g := fst st in
          ({| counter := counter g; generation := generation g;
              unnamed := match name with Some _ => unnamed g | None => S (unnamed g) end |}, snd st)
      end
  | OClear => (clear (fst st), snd st)
  end.

Definition run (ops : list op) : gstate * list var := fold_left step_faithful ops (g0, []).

(* ---- pickling protocol ---- *)
(* Variable.__reduce__: ndarray state ++ (is_proper, name, var_properties, scalar_variable_ids, generation);
   fields are abstract values of a sum type *)
Inductive field :=
| FBool (b : bool) | FName (n : vname) | FProps (sym : bool) | FIds (l : list Z) | FGen (g : Z)
| FOpaque (k : nat).            (* numpy's own state entries *)

Definition reduce_state (base : list field) (v : var) : list field :=
  base ++ [FBool true; FName (v_name v); FProps (v_sym v); FIds (v_ids v); FGen (v_gen v)].

(* Variable.__setstate__: reads state[-1], state[-2], state[-3], state[-4], state[-5]; the rest goes to numpy *)
Definition from_end (l : list field) (k : nat) : option field := nth_error (rev l) (k - 1).

Definition setstate (sh : list nat) (state : list field) : option (list field * bool * var) :=
  match from_end state 1, from_end state 2, from_end state 3, from_end state 4, from_end state 5 with
  | Some (FGen g), Some (FIds ids), Some (FProps s), Some (FName n), Some (FBool p) =>
      Some (firstn (length state - 5) state, p,
            {| v_name := n; v_shape := sh; v_sym := s; v_gen := g; v_ids := ids |})
  | _, _, _, _, _ => None
  end.

(* ScalarVariable.__getstate__ / __setstate__: a dict with the five slots, parent replaced by None *)
Record svar := { sv_id : Z; sv_gen : Z; sv_val : option Z (* None = nan *); sv_index : list nat;
                 sv_parent : option vname }.
Inductive skey := KId | KGen | KVal | KIndex | KParent.
Inductive sval := SVZ (z : Z) | SVV (v : option Z) | SVI (i : list nat) | SVP (p : option vname).

Definition sv_getstate (s : svar) : list (skey * sval) :=
  [(KId, SVZ (sv_id s)); (KGen, SVZ (sv_gen s)); (KVal, SVV (sv_val s)); (KIndex, SVI (sv_index s)); (KParent, SVP None)].

Definition sv_setstate (st : list (skey * sval)) (s0 : svar) : svar :=
  fold_left (fun s kv =>
    match kv with
    | (KId, SVZ z) => {| sv_id := z; sv_gen := sv_gen s; sv_val := sv_val s; sv_index := sv_index s; sv_parent := sv_parent s |}
    | (KGen, SVZ z) => {| sv_id := sv_id s; sv_gen := z; sv_val := sv_val s; sv_index := sv_index s; sv_parent := sv_parent s |}
    | (KVal, SVV v) => {| sv_id := sv_id s; sv_gen := sv_gen s; sv_val := v; sv_index := sv_index s; sv_parent := sv_parent s |}
    | (KIndex, SVI i) => {| sv_id := sv_id s; sv_gen := sv_gen s; sv_val := sv_val s; sv_index := i; sv_parent := sv_parent s |}
    | (KParent, SVP p) => {| sv_id := sv_id s; sv_gen := sv_gen s; sv_val := sv_val s; sv_index := sv_index s; sv_parent := p |}
    | _ => s
    end) st s0.

(* _relink_scalar_variables: every scalar variable of a proper Variable gets it as parent again *)
Definition relink (n : vname) (s : svar) : svar :=
  {| sv_id := sv_id s; sv_gen := sv_gen s; sv_val := sv_val s; sv_index := sv_index s; sv_parent := Some n |}.

Definition sv_roundtrip (n : vname) (s : svar) : svar :=
  relink n (sv_setstate (sv_getstate s)
                        {| sv_id := 0; sv_gen := 0; sv_val := None; sv_index := []; sv_parent := None |}).
