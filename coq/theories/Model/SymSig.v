(* Model/SymSig.v — Signomials / Polynomials whose coefficient vectors are coniclifts Expressions:
   the instance of the generic model Model/Signomial.v at C := sexpr (Model/Expr.v), and expression
   trees mixing numeric and symbolic operands.  None of these functions takes the Variables' current
   values as an argument: term dropping (find_zero_entries) looks only at is_constant and the offset. *)
From Coq Require Import List Bool Arith ZArith QArith.
From SageVerif Require Import Model.Expr Model.Signomial.
Import ListNotations.
Close Scope Q_scope.

Definition ssig := list (qrow * sexpr).

(* find_zero_entries on an Expression: is_constant() and value == 0 *)
Definition s_iszero (e : sexpr) : bool := is_constant e && Qeq_bool (off e) 0%Q.

(* elementwise product of coefficient arrays: ScalarExpression.__mul__; a product of two
   non-constant coefficients raises.  [poison] marks that case. *)
Definition s_mul_ok (a b : sexpr) : bool := is_constant a || is_constant b.
Definition s_mul (a b : sexpr) : sexpr := match smul a b with ROk r => r | RErr => sconst 0%Q end.

Definition s_mk := mk (C:=sexpr) (sconst 0%Q) sadd.
Definition s_sum := sig_sum (C:=sexpr) (sconst 0%Q) sadd.
Definition s_without_zeros := without_zeros (C:=sexpr) (sconst 0%Q) sadd sconst s_iszero.
Definition s_add := sig_add (C:=sexpr) (sconst 0%Q) sadd sconst s_iszero.
Definition s_product := sig_product (C:=sexpr) (sconst 0%Q) sadd s_mul.
Definition s_mul_sig := sig_mul (C:=sexpr) (sconst 0%Q) sadd s_mul sconst s_iszero.
Definition s_scale := sig_scale (C:=sexpr) (sconst 0%Q) sadd s_mul sconst s_iszero.
Definition s_sub := sig_sub (C:=sexpr) (sconst 0%Q) sadd s_mul sconst s_iszero.

Definition of_numeric (f : qsig) : ssig := map (fun t => (fst t, sconst (snd t))) f.

(* all coefficient products that Signomial.product forms are defined *)
Definition product_defined (f g : ssig) : bool :=
  forallb (fun t1 => forallb (fun t2 => s_mul_ok (snd t1) (snd t2)) g) f.

Inductive symexp :=
| YNum (rows : list (qrow * Q))                 (* Signomial(alpha, numeric c) *)
| YSym (rows : list (qrow * sexpr))             (* Signomial(alpha, Expression c) *)
| YAdd (a b : symexp) | YSub (a b : symexp) | YMul (a b : symexp)
| YScale (a : symexp) (q : Q)                   (* a * q, q * a *)
| YAddE (a : symexp) (e : sexpr)                (* a + ScalarExpression (upcast) *)
| YSubE (a : symexp) (e : sexpr)                (* a - ScalarExpression *)
| YMulE (a : symexp) (e : sexpr)                (* a * ScalarExpression *)
| YSum (l : list symexp)                        (* Signomial.sum([...]) : no zero removal *)
| YWithoutZeros (a : symexp).

Definition obind {A B} (o : option A) (f : A -> option B) : option B :=
  match o with Some x => f x | None => None end.

Fixpoint all_some {X} (l : list (option X)) : option (list X) :=
  match l with
  | [] => Some []
  | Some x :: l' => match all_some l' with Some r => Some (x :: r) | None => None end
  | None :: _ => None
  end.

Definition const_ssig (n : nat) (e : sexpr) : ssig := s_mk [(repeat 0%Q n, e)].

(* without_zeros replaces a function all of whose (>= 2) terms vanish by upcast_to_signomial(0),
   whose coefficient array is numeric *)
Definition all_dropped (f : ssig) : bool :=
  Nat.ltb 1 (length f) && forallb (fun t => s_iszero (snd t)) f.

(* the interpreter tracks whether the coefficient array is an Expression (object dtype): Polynomial.__mul__
   refuses to multiply two polynomials that both have non-numeric coefficient arrays, even constant ones *)
Fixpoint seval' (poly : bool) (n : nat) (t : symexp) : option (bool * ssig) :=
  match t with
  | YNum rows => Some (false, s_mk (of_numeric rows))
  | YSym rows => Some (true, s_mk rows)
  | YAdd a b => obind (seval' poly n a) (fun fa => obind (seval' poly n b) (fun fb =>
                  Some ((fst fa || fst fb) && negb (all_dropped (s_sum [snd fa; snd fb])), s_add n (snd fa) (snd fb))))
  | YSub a b => obind (seval' poly n a) (fun fa => obind (seval' poly n b) (fun fb =>
                  Some ((fst fa || fst fb) && negb (all_dropped (s_sum [snd fa; s_scale n (-1)%Q (snd fb)])), s_sub n (snd fa) (snd fb))))
  | YMul a b => obind (seval' poly n a) (fun fa => obind (seval' poly n b) (fun fb =>
                  if poly && fst fa && fst fb then None
                  else if product_defined (snd fa) (snd fb) then Some ((fst fa || fst fb) && negb (all_dropped (s_product (snd fa) (snd fb))), s_mul_sig n (snd fa) (snd fb)) else None))
  | YScale a q => obind (seval' poly n a) (fun fa => Some (fst fa && negb (all_dropped (s_product (snd fa) (s_mk [(repeat 0%Q n, sconst q)]))), s_scale n q (snd fa)))
  | YAddE a e => obind (seval' poly n a) (fun fa => Some (negb (all_dropped (s_sum [snd fa; const_ssig n e])), s_add n (snd fa) (const_ssig n e)))
  | YSubE a e => obind (seval' poly n a) (fun fa => Some (negb (all_dropped (s_sum [snd fa; const_ssig n (sscale (-1)%Q e)])), s_add n (snd fa) (const_ssig n (sscale (-1)%Q e))))
  | YMulE a e => obind (seval' poly n a) (fun fa =>
                   let ce := const_ssig n e in
                   if poly && fst fa then None
                   else if product_defined (snd fa) ce then Some (negb (all_dropped (s_product (snd fa) ce)), s_mul_sig n (snd fa) ce) else None)
  | YSum l => obind (all_some (map (seval' poly n) l)) (fun fs =>
                match fs with
                | [] => None
                | _ => Some (existsb fst fs, s_sum (map snd fs))
                end)
  | YWithoutZeros a => obind (seval' poly n a) (fun fa => Some (fst fa && negb (all_dropped (snd fa)), s_without_zeros n (snd fa)))
  end.
Definition seval (poly : bool) (n : nat) (t : symexp) : option ssig := option_map snd (seval' poly n t).

Definition ssig_eqb (a b : option ssig) : bool :=
  match a, b with
  | None, None => true
  | Some f, Some g =>
      (fix go (f g : ssig) : bool :=
         match f, g with
         | [], [] => true
         | (r1, c1) :: f', (r2, c2) :: g' => qrow_eqb r1 r2 && sexpr_eqb c1 c2 && go f' g'
         | _, _ => false
         end) f g
  | _, _ => false
  end.
