(* Model/History.v — state machine for repeated compilation of the same constraint objects
   (compilers.epigraph_substitution with its record of already-substituted atoms, after the repair of
   finding F5), the generation check of compile_constrained_system, and the settings snapshot taken
   by SAGE constraints at construction (sage_cones.SETTINGS vs constraint.settings). *)
From Coq Require Import List Bool Arith ZArith QArith.
From SageVerif Require Import Model.Expr Model.SolverForms Model.Compile Gen.GenSettings.
Import ListNotations.
Close Scope Q_scope.

(* an ElementwiseConstraint object: its current (possibly already linearised) expression and the
   atoms that earlier compilations replaced by epigraph variables *)
Record ccon := { cc_op : cop; cc_cells : list sexpr; cc_subst : list atom }.

Definition fresh_con (c : econ) : ccon := {| cc_op := e_op c; cc_cells := e_cells c; cc_subst := [] |}.

Definition nl_keys (cells : list sexpr) : list atom := filter is_nl (flat_map keys cells).

Definition dedup_atoms (l : list atom) : list atom :=
  rev (fold_left (fun acc a => if mem_atom a acc then acc else a :: acc) l []).

(* atoms whose epigraph cones are emitted, in dict-insertion order: per constraint first the
   previously substituted atoms, then the nonlinear atoms still present in its expression *)
Definition step_atoms (cs : list ccon) : list atom :=
  dedup_atoms (flat_map (fun c => cc_subst c ++ nl_keys (cc_cells c)) cs).

Definition step_con (epi : atom -> Z) (c : ccon) : ccon :=
  {| cc_op := cc_op c;
     cc_cells := map (subst_cell epi) (cc_cells c);
     cc_subst := cc_subst c ++ nl_keys (cc_cells c) |}.

(* one call of conify_constraints on a list of (shared) elementwise constraint objects *)
Definition compile_step (epi : atom -> Z) (dummy : Z) (cs : list ccon)
  : list ccon * list (list cone * list rrow) :=
  let cs' := map (step_con epi) cs in
  (cs',
   map (fun c => econ_block dummy {| e_op := cc_op c; e_cells := cc_cells c |}) cs'
   ++ map (fun a => epi_block dummy (epi a) a) (step_atoms cs)).

(* the behaviour before the repair: no record of substituted atoms *)
Definition compile_step_old (epi : atom -> Z) (dummy : Z) (cs : list ccon)
  : list ccon * list (list cone * list rrow) :=
  let cs' := map (fun c => {| cc_op := cc_op c; cc_cells := map (subst_cell epi) (cc_cells c); cc_subst := [] |}) cs in
  (cs',
   map (fun c => econ_block dummy {| e_op := cc_op c; e_cells := cc_cells c |}) cs'
   ++ map (fun a => epi_block dummy (epi a) a) (dedup_atoms (flat_map (fun c => nl_keys (cc_cells c)) cs))).

(* n-fold recompilation with possibly different dummy ids (unrelated Variables created in between) *)
Fixpoint recompile (epi : atom -> Z) (dummies : list Z) (cs : list ccon) : list (list (list cone * list rrow)) :=
  match dummies with
  | [] => []
  | d :: ds => let '(cs', bs) := compile_step epi d cs in bs :: recompile epi ds cs'
  end.

(* ---- generation check ---- *)
Definition generations_ok (gens : list Z) : bool :=
  match gens with
  | [] => true       (* no variables: the implementation indexes var_gens[0] and raises IndexError *)
  | g :: rest => forallb (Z.eqb g) rest
  end.

(* ---- settings snapshot ---- *)
Inductive skey := KHeur | KPresolve | KForceEq | KCompact | KKernel.
Definition set_key (s : settings) (k : skey) (v : bool) : settings :=
  match k with
  | KHeur => {| heuristic_reduction := v; presolve_trivial_age_cones := presolve_trivial_age_cones s;
                sum_age_force_equality := sum_age_force_equality s; compact_dual := compact_dual s; kernel_basis := kernel_basis s |}
  | KPresolve => {| heuristic_reduction := heuristic_reduction s; presolve_trivial_age_cones := v;
                    sum_age_force_equality := sum_age_force_equality s; compact_dual := compact_dual s; kernel_basis := kernel_basis s |}
  | KForceEq => {| heuristic_reduction := heuristic_reduction s; presolve_trivial_age_cones := presolve_trivial_age_cones s;
                   sum_age_force_equality := v; compact_dual := compact_dual s; kernel_basis := kernel_basis s |}
  | KCompact => {| heuristic_reduction := heuristic_reduction s; presolve_trivial_age_cones := presolve_trivial_age_cones s;
                   sum_age_force_equality := sum_age_force_equality s; compact_dual := v; kernel_basis := kernel_basis s |}
  | KKernel => {| heuristic_reduction := heuristic_reduction s; presolve_trivial_age_cones := presolve_trivial_age_cones s;
                  sum_age_force_equality := sum_age_force_equality s; compact_dual := compact_dual s; kernel_basis := v |}
  end.

Inductive sop :=
| SSetDefault (k : skey) (v : bool)                (* the setter functions of coniclifts/__init__.py *)
| SMkSage (override : list (skey * bool)).          (* PrimalSageCone / DualSageCone (settings=...) *)

(* state: the global defaults and the settings held by the constraints constructed so far *)
Definition sstate := (settings * list settings)%type.
Definition sstep (st : sstate) (o : sop) : sstate :=
  match o with
  | SSetDefault k v => (set_key (fst st) k v, snd st)
  | SMkSage ov => (fst st, snd st ++ [fold_left (fun s kv => set_key s (fst kv) (snd kv)) ov (fst st)])
  end.
Definition srun (ops : list sop) : sstate := fold_left sstep ops (default_settings, []).

Definition settings_eqb (a b : settings) : bool :=
  Bool.eqb (heuristic_reduction a) (heuristic_reduction b) &&
  Bool.eqb (presolve_trivial_age_cones a) (presolve_trivial_age_cones b) &&
  Bool.eqb (sum_age_force_equality a) (sum_age_force_equality b) &&
  Bool.eqb (compact_dual a) (compact_dual b) && Bool.eqb (kernel_basis a) (kernel_basis b).
