(* Model/RelaxCon.v — constrained signomial relaxations (sage_sigs.make_sig_lagrangian,
   constraint_generators.up_to_q_fold_cons): the Lagrangian is built as an EXPRESSION TREE of the
   symbolic algebra of Model/SymSig.v, so that the theorems about trees (C13) apply to it verbatim. *)
From Coq Require Import List Bool Arith ZArith QArith.
From SageVerif Require Import Model.Expr Model.Signomial Model.SymSig Model.RelaxSig.
Import ListNotations.
Close Scope Q_scope.

(* combinations with replacement of size k, as lists of indices in nondecreasing order *)
Fixpoint combos (m : nat) (lo : nat) (k : nat) : list (list nat) :=
  match k with
  | O => [[]]
  | S k' => flat_map (fun i => map (fun c => i :: c) (combos m i k')) (seq lo (m - lo))
  end.

(* np.prod(comb): left-to-right product of Signomials *)
Definition prod_sigs (n : nat) (gs : list qsig) : option qsig :=
  match gs with
  | [] => None
  | g :: gs' => Some (fold_left (fun acc h => q_mul n acc h) gs' g)
  end.

Definition count_nonzero (f : qsig) : nat := length (filter (fun t => negb (qiszero (snd t))) f).

(* up_to_q_fold_cons(cons, q): for q = 1 or no constraints the list itself; otherwise the SET of all
   products of 1..q constraints having more than one nonzero coefficient (set semantics: duplicates by
   Signomial.__eq__ merged; the order of the resulting list is unspecified) *)
Definition q_fold (n : nat) (cons : list qsig) (q : nat) : list qsig :=
  match cons with
  | [] => []
  | _ =>
      if Nat.eqb q 1 then cons
      else
        let all := flat_map (fun qq => map (fun idx => prod_sigs n (map (fun i => nth i cons []) idx))
                                           (combos (length cons) 0 qq)) (seq 1 q) in
        fold_left (fun acc o => match o with
                                | Some g => if Nat.ltb 1 (count_nonzero g) && negb (existsb (q_eqb g) acc)
                                            then acc ++ [g] else acc
                                | None => acc
                                end) all []
  end.

(* multiplier s with Variable coefficients (ids) over the exponents E *)
Definition multiplier (E : list qrow) (ids : list Z) : list (qrow * sexpr) :=
  map (fun ri => (fst ri, svar (snd ri))) (combine E ids).

(* the Lagrangian  f - gamma - sum_g s_g * g - sum_h z_h * h  as a tree:
   Signomial.sum([f - gamma, (-g) * s_g, ..., (-h) * z_h, ...]) *)
Definition lagrangian_tree (f : qsig) (g : Z) (E : list qrow)
           (gts : list (qsig * list Z)) (eqs : list (qsig * list Z)) : symexp :=
  YSum (YSubE (YNum f) (svar g)
        :: map (fun gi => YMul (YScale (YNum (fst gi)) (-1)%Q) (YSym (multiplier E (snd gi)))) (gts ++ eqs)).

Definition make_sig_lagrangian (n : nat) (f : qsig) (g : Z) (E : list qrow)
           (gts : list (qsig * list Z)) (eqs : list (qsig * list Z)) : option ssig :=
  seval false n (lagrangian_tree f g E gts eqs).
