(* Model/Solrec.v — the glue of solution recovery (sig_solution_recovery.sig_solrec / is_feasible,
   poly_solution_recovery.poly_solrec): whatever candidate points the numerical generators propose
   (least squares, dual AGE cones, magnitude x sign products — ORACLES), the returned list is the
   feasibility filter of the candidates, stably sorted by objective value.
   A candidate is represented by the values the implementation computes at it:
   (objective value, values of the inequality functions, values of the equality functions). *)
From Coq Require Import List Bool Arith ZArith QArith Qabs.
Import ListNotations.
Close Scope Q_scope.

Record cand := { c_id : nat; c_f : Q; c_gts : list Q; c_eqs : list Q }.

(* is_feasible(x, gts, eqs, ineq_tol, eq_tol): no g(x) < -ineq_tol and no |h(x)| > eq_tol *)
Definition is_feasible (itol etol : Q) (c : cand) : bool :=
  forallb (fun g => negb (match Qcompare g (- itol)%Q with Lt => true | _ => false end)) (c_gts c) &&
  forallb (fun h => negb (match Qcompare (Qabs h) etol with Gt => true | _ => false end)) (c_eqs c).

(* list.sort(key=f): stable insertion sort by objective value *)
Fixpoint insert_sorted (c : cand) (l : list cand) : list cand :=
  match l with
  | [] => [c]
  | d :: l' => match Qcompare (c_f c) (c_f d) with
               | Lt => c :: l
               | _ => d :: insert_sorted c l'
               end
  end.
Definition sort_by_f (l : list cand) : list cand := fold_left (fun acc c => insert_sorted c acc) l [].

Definition solrec (itol etol : Q) (cands : list cand) : list cand :=
  sort_by_f (filter (is_feasible itol etol) cands).
