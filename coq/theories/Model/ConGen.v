(* Model/ConGen.v — executable model of domain inference for signomials
   (constraint_generators.valid_posynomial_inequalities / valid_monomial_equations /
    clcons_from_standard_gprep, sage_sigs.infer_domain).  Right-hand sides that are logarithms are kept
   symbolic: LinLe a q means  a . x <= ln q. *)
From Coq Require Import List Bool Arith ZArith QArith Qabs.
From SageVerif Require Import Model.Signomial Model.SolverForms.
Import ListNotations.
Close Scope Q_scope.

Definition is_pos (q : Q) : bool := match Qcompare q 0%Q with Gt => true | _ => false end.
Definition is_neg (q : Q) : bool := match Qcompare q 0%Q with Lt => true | _ => false end.
Definition count {X} (f : X -> bool) (l : list X) : nat := length (filter f l).

Definition inverse_term (a : qrow) : qsig := q_mk [(map (fun q => Qred (- q)%Q) a, 1%Q)].

(* valid_posynomial_inequalities: keep g with exactly one positive coefficient, normalised by the inverse
   of that monomial; >= 2 positives: skipped; none positive but some negative: RuntimeError (Err 1);
   all coefficients zero: IndexError in the implementation (Err 2) *)
Fixpoint valid_posy (n : nat) (gs : list qsig) : result (list qsig) :=
  match gs with
  | [] => Ok []
  | g :: gs' =>
      let np := count (fun t => is_pos (snd t)) g in
      if Nat.leb 2 np then valid_posy n gs'
      else if Nat.eqb np 0 then (if Nat.ltb 0 (count (fun t => is_neg (snd t)) g) then Err 1 else Err 2)
      else match filter (fun t => is_pos (snd t)) g, valid_posy n gs' with
           | (a, _) :: _, Ok r => Ok (q_mul n g (inverse_term a) :: r)
           | _, Err e => Err e
           | [], _ => Err 2
           end
  end.

(* valid_monomial_equations: at most two nonzero coefficients and exactly one positive *)
Definition valid_mono_eqs (n : nat) (eqs : list qsig) : list qsig :=
  flat_map (fun g =>
              if Nat.ltb 2 (count (fun t => negb (qiszero (snd t))) g) then []
              else match filter (fun t => is_pos (snd t)) g with
                   | [(a, _)] => [q_mul n g (inverse_term a)]
                   | _ => []
                   end) eqs.

(* the log-space constraints emitted by clcons_from_standard_gprep *)
Inductive lcon :=
| WseLe (c : list Q) (alpha : list qrow) (cst : Q)   (* sum_j c_j exp(alpha_j . x) <= cst *)
| LinLe (a : qrow) (q : Q)                           (* a . x <= ln q *)
| LinEq (a : qrow) (q : Q).                          (* a . x == ln q *)

Definition is_zero_row (a : qrow) : bool := forallb (fun q => Qeq_bool q 0%Q) a.

(* constant_location: index of the first all-zero exponent row *)
Definition const_loc (g : qsig) : option nat :=
  match filter (fun it => is_zero_row (fst (snd it))) (combine (seq 0 (length g)) g) with
  | (i, _) :: _ => Some i
  | [] => None
  end.

Definition remove_nth {X} (i : nat) (l : list X) : list X := firstn i l ++ skipn (S i) l.

Definition gt_con (g : qsig) : option (option lcon) :=   (* None = the implementation misbehaves (no constant term) *)
  match const_loc g with
  | None => None
  | Some k =>
      let cst := snd (nth k g ([], 0%Q)) in
      let rest := remove_nth k g in
      match rest with
      | [] => Some None                                   (* m = 1: no constraint *)
      | [(a, c1)] => Some (Some (LinLe a (Qred (cst / Qabs c1)%Q)))
      | _ => Some (Some (WseLe (map (fun t => Qred (- snd t)%Q) rest) (map fst rest) cst))
      end
  end.

Definition eq_con (g : qsig) : option lcon :=
  match const_loc g, g with
  | Some 0%nat, [(_, c0); (a, c1)] => Some (LinEq a (Qred (c0 / Qabs c1)%Q))
  | Some 1%nat, [(a, c1); (_, c0)] => Some (LinEq a (Qred (c0 / Qabs c1)%Q))
  | _, _ => None
  end.

(* infer_domain(f, gts, eqs): the normalised constraints kept and the constraints emitted *)
Definition infer_domain (n : nat) (gts eqs : list qsig) : result (list qsig * list qsig * list lcon) :=
  match valid_posy n gts with
  | Err e => Err e
  | Ok cg =>
      let ce := valid_mono_eqs n eqs in
      let lc := flat_map (fun g => match gt_con g with Some (Some c) => [c] | _ => [] end) cg
                ++ flat_map (fun g => match eq_con g with Some c => [c] | None => [] end) ce in
      Ok (cg, ce, lc)
  end.
