(* Model/SymCorr.v — executable model of sageopt/relaxations/symbolic_correspondences.py:
   row_correspondence, relative_coeff_vector, moment_reduction_array (numeric coefficients;
   [symbolic = true] models the builders' case where s_h has Variable coefficients, so that the
   containment test ranges over all pairwise exponent sums). *)
From Coq Require Import List Bool Arith ZArith QArith Qabs.
From SageVerif Require Import Model.Signomial Model.SolverForms.
Import ListNotations.

(* __EXPONENT_VECTOR_TOLERANCE__ = 10 ** -(7 + 1) *)
Definition etol : Q := 1 # 100000000.

Fixpoint rows_close (a b : qrow) : bool :=
  match a, b with
  | [], [] => true
  | x :: a', y :: b' =>
      (match Qcompare (Qabs (y - x)) etol with Lt => true | _ => false end) && rows_close a' b'
  | _, _ => false
  end.

Fixpoint find_close (r : qrow) (rows : list qrow) (k : nat) : option nat :=
  match rows with
  | [] => None
  | x :: rows' => if rows_close r x then Some k else find_close r rows' (S k)
  end.

(* (common, alpha1_to_alpha2) *)
Definition row_correspondence (alpha1 alpha2 : list qrow) : list nat * list nat :=
  fold_right (fun ir acc =>
                match find_close (snd ir) alpha2 0 with
                | Some loc => (fst ir :: fst acc, loc :: snd acc)
                | None => acc
                end) ([], []) (combine (seq 0 (length alpha1)) alpha1).

Fixpoint set_nthQ (k : nat) (v : Q) (l : list Q) : list Q :=
  match l, k with
  | [], _ => []
  | _ :: l', O => v :: l'
  | y :: l', S k' => y :: set_nthQ k' v l'
  end.

(* c = zeros(len ref); c[corr] = s.c[common]  (later assignments overwrite earlier ones) *)
Definition relative_coeff_vector (f : qsig) (ref : list qrow) : list Q :=
  let '(common, corr) := row_correspondence (map fst f) ref in
  fold_left (fun c ij => set_nthQ (snd ij) (snd (nth (fst ij) f ([], 0%Q))) c)
            (combine common corr) (repeat 0%Q (length ref)).

Definition shift_sig (h : qsig) (a : qrow) : qsig :=
  q_mk (map (fun t => (vaddq (fst t) a, snd t)) h).

(* exponent rows of s_h * h as the implementation computes them *)
Definition product_rows (symbolic : bool) (n : nat) (s h : qsig) : list qrow :=
  if symbolic then
    (* Variable coefficients: a term v_i*h_j disappears only if h's coefficient is exactly 0
       (and never when the product has a single term).  Only membership in L is tested, so
       order and repetitions of the rows are immaterial. *)
    let pairs := flat_map (fun t2 => map (fun t1 => (round_row (vaddq (fst t1) (fst t2)), snd t2)) s) h in
    match pairs with
    | [p] => [fst p]
    | _ =>
      let keep := filter (fun r => existsb (fun p => qrow_eqb (fst p) r && negb (qiszero (snd p))) pairs)
                         (map fst pairs) in
      match keep with [] => [repeat 0%Q n] | _ => keep end
    end
  else map fst (q_mul n s h).

Definition moment_reduction_array (symbolic : bool) (n : nat) (s h L : qsig) : result (list (list Q)) :=
  let need := product_rows symbolic n s h in
  if forallb (fun r => mem_row r (map fst L)) need then
    Ok (map (fun t => relative_coeff_vector (shift_sig h (fst t)) (map fst L)) s)
  else Err 1.
