(* Model/SolverForms.v — executable model of the solver standard forms:
     cones.build_cone_type_selectors, utilities.contiguous_selector_lengths,
     ECOS.apply, reformulators.separate_cone_constraints / dualize_problem,
     Mosek._primal_apply / _dual_apply / decide_primal_vs_dual.
   Polymorphic in the scalar type T (zero, one, opp): instantiated at Q for the
   correspondence check and at R for the theorems.  Matrices are dense row lists. *)
From Coq Require Import List Bool Arith.
Import ListNotations.

Inductive ctag := T0 | TPos | TSoc | TExp | TDExp | TFree | TPsd | TPow.
Definition ctag_eqb (a b : ctag) : bool :=
  match a, b with
  | T0, T0 | TPos, TPos | TSoc, TSoc | TExp, TExp | TDExp, TDExp | TFree, TFree | TPsd, TPsd | TPow, TPow => true
  | _, _ => false
  end.
Definition cone := (ctag * nat)%type.

(* build_cone_type_selectors(K)[t] *)
Fixpoint selector (K : list cone) (t : ctag) : list bool :=
  match K with
  | [] => []
  | (t', n) :: K' => repeat (ctag_eqb t t') n ++ selector K' t
  end.

Fixpoint mask {X} (sel : list bool) (l : list X) : list X :=
  match sel, l with
  | s :: sel', x :: l' => if s then x :: mask sel' l' else mask sel' l'
  | _, _ => []
  end.

Definition count_true (sel : list bool) : nat := length (filter (fun b => b) sel).

(* utilities.contiguous_selector_lengths: lengths of the maximal runs of True *)
Fixpoint csl_aux (sel : list bool) (run : nat) : list nat :=
  match sel with
  | [] => match run with O => [] | S _ => [run] end
  | true :: sel' => csl_aux sel' (S run)
  | false :: sel' => match run with O => csl_aux sel' O | S _ => run :: csl_aux sel' O end
  end.
Definition contiguous_selector_lengths (sel : list bool) : list nat := csl_aux sel 0.

Definition Ksize (K : list cone) : nat := fold_right (fun c acc => snd c + acc) 0 K.

Inductive result (X : Type) := Ok (x : X) | Err (msg : nat).
Arguments Ok {X} x.
Arguments Err {X} msg.

Section Forms.
  Context {T : Type} (tzero tone : T) (topp : T -> T).

  Definition rowT := list T.
  Definition matT := list rowT.
  Definition negm (A : matT) : matT := map (map topp) A.

  (* ---------------- ECOS.apply ---------------- *)
  Record ecos_data := { eG : matT; eh : list T; el : nat; ee : nat; eq_ : list nat;
                        eA : matT; eb : list T; ec : list T }.

  Definition ecos_allowed (t : ctag) : bool :=
    match t with T0 | TPos | TSoc | TExp => true | _ => false end.

  Definition ecos_apply (c : list T) (A : matT) (b : list T) (K : list cone) : result ecos_data :=
    if forallb (fun co => ecos_allowed (fst co)) K then
      let s0 := selector K T0 in let sp := selector K TPos in
      let ss := selector K TSoc in let se := selector K TExp in
      Ok {| eA := mask s0 A; eb := map topp (mask s0 b);
            eG := negm (mask sp A) ++ negm (mask ss A) ++ negm (mask se A);
            eh := mask sp b ++ mask ss b ++ mask se b;
            el := count_true sp; ee := Nat.div (count_true se) 3;
            eq_ := map snd (filter (fun co => ctag_eqb (fst co) TSoc) K);
            ec := c |}
    else Err 1.

  (* ---------------- separate_cone_constraints ---------------- *)
  (* a separated cone: type, length, 'col mapping' (absolute column indices) *)
  Definition sepcone := (ctag * nat * list nat)%type.

  (* returns K' (separated cones replaced by '0'), the slack cones, and for each row
     of A the optional slack column (relative index) it receives a -1 in *)
  Fixpoint sep_scan (K : list cone) (allowed : ctag -> bool) (ncols : nat) (next : nat)
    : list cone * list sepcone * list (option nat) :=
    match K with
    | [] => ([], [], [])
    | (t, n) :: K' =>
        if allowed t then
          let '(K2, sl, rows) := sep_scan K' allowed ncols next in
          ((t, n) :: K2, sl, repeat None n ++ rows)
        else
          let '(K2, sl, rows) := sep_scan K' allowed ncols (next + n) in
          ((T0, n) :: K2, (t, n, map (fun j => ncols + j) (seq next n)) :: sl,
           map Some (seq next n) ++ rows)
    end.

  Definition unit_neg_row (width : nat) (j : option nat) : rowT :=
    match j with
    | None => repeat tzero width
    | Some k => repeat tzero k ++ [topp tone] ++ repeat tzero (width - k - 1)
    end.

  Definition ncolsT (A : matT) (dflt : nat) : nat := match A with [] => dflt | r :: _ => length r end.

  (* [n] = A.shape[1] (needed when A has no rows) *)
  Definition separate (n : nat) (A : matT) (b : list T) (K : list cone) (dont_sep : ctag -> bool)
    : matT * list T * list cone * list sepcone :=
    let allowed := fun t => ctag_eqb t T0 || dont_sep t in
    let '(K2, sl, rows) := sep_scan K allowed n 0 in
    let nslack := fold_right (fun s acc => snd (fst s) + acc) 0 sl in
    let A2 := if Nat.eqb nslack 0 then A
              else map (fun rj => fst rj ++ unit_neg_row nslack (snd rj)) (combine A rows) in
    (A2, b, K2, sl).

  (* ---------------- Mosek._primal_apply ---------------- *)
  Record mosek_primal := { mpA : matT; mpb : list T; mpK : list cone; mpsep : list sepcone;
                           mpc : list T; mpn : nat }.

  Definition dont_sep_mosek (t : ctag) : bool := match t with T0 | TPos => true | _ => false end.

  Definition mosek_primal_apply (n : nat) (c : list T) (A : matT) (b : list T) (K : list cone) : mosek_primal :=
    let '(A2, b2, K2, sl) := separate n A b K dont_sep_mosek in
    let n2 := n + fold_right (fun s acc => snd (fst s) + acc) 0 sl in
    let c2 := c ++ repeat tzero (n2 - length c) in
    let sp := selector K2 TPos in let s0 := selector K2 T0 in
    let Ai := mask sp A2 in let Az := mask s0 A2 in
    {| mpA := negm (Ai ++ Az); mpb := mask sp b2 ++ mask s0 b2;
       mpK := [(TPos, length Ai); (T0, length Az)]; mpsep := sl; mpc := c2; mpn := n |}.

  (* ---------------- dualize_problem / Mosek._dual_apply ---------------- *)
  Definition dual_cone (co : cone) : cone :=
    match fst co with
    | TExp => (TDExp, 3)
    | T0 => (TFree, snd co)
    | _ => co
    end.

  Fixpoint transpose_aux (width : nat) (A : matT) : matT :=
    match A with
    | [] => repeat [] width
    | r :: A' => map (fun p => fst p :: snd p) (combine r (transpose_aux width A'))
    end.
  Definition transpose (n : nat) (A : matT) : matT := transpose_aux n A.

  (* f, G, h, Kd  with  max{ f.y : G y = h, y in Kd } *)
  Definition dualize (n : nat) (c : list T) (A : matT) (b : list T) (K : list cone)
    : list T * matT * list T * list cone :=
    (map topp b, transpose n A, c, map dual_cone K).

  Record mosek_dual := { mdf : list T; mdG : matT; mdh : list T;
                         md_pos : nat; md_soc : list nat; md_de : nat; md_fr : nat }.

  (* column selection G[:, sel] on a dense row list *)
  Definition cols (sel : list bool) (G : matT) : matT := map (mask sel) G.
  Definition hcat (Gs : list matT) : matT :=
    match Gs with
    | [] => []
    | G0 :: _ => map (fun i => concat (map (fun G => nth i G []) Gs)) (seq 0 (length G0))
    end.

  Definition mosek_dual_apply (n : nat) (c : list T) (A : matT) (b : list T) (K : list cone) : mosek_dual :=
    let '(f, G, h, Kd) := dualize n c A b K in
    let sp := selector Kd TPos in let sf := selector Kd TFree in
    let sd := selector Kd TDExp in let ss := selector Kd TSoc in
    {| mdf := mask sp f ++ mask ss f ++ mask sd f ++ mask sf f;
       mdG := hcat [cols sp G; cols ss G; cols sd G; cols sf G];
       mdh := h;
       md_pos := count_true sp;
       md_soc := map snd (filter (fun co => ctag_eqb (fst co) TSoc) Kd);
       md_de := length (filter (fun co => ctag_eqb (fst co) TDExp) Kd);
       md_fr := count_true sf |}.

  (* decide_primal_vs_dual without user parameters *)
  Definition decide_dual (n : nat) (K : list cone) : bool :=
    let slack_dim := fold_right (fun co acc => (if ctag_eqb (fst co) TExp || ctag_eqb (fst co) TSoc then snd co else 0) + acc) 0 K in
    Nat.ltb n slack_dim.
End Forms.
