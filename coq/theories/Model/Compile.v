(* Model/Compile.v — executable model of coniclifts compilation
   (compilers.py: conify_constraints, epigraph_substitution, make_variable_map;
    elementwise.py: conic_form; operators/*.py: epigraph_conic_form;
    product_cone.py: Primal/DualProductCone.conic_form; utilities.sparse_matrix_data_to_csc).
   Rows are kept sparse over scalar-variable IDS; the column of an id is its rank among the sorted
   distinct ids seen.  Coefficients are pairs (a, b) meaning a + b*e, because DualProductCone scales
   by np.exp(1).  The id of every epigraph variable and the dummy column id (counter - 1) are INPUTS
   observed from the implementation (their uniqueness is C20's invariant). *)
From Coq Require Import List Bool Arith ZArith QArith.
From SageVerif Require Import Model.Expr Model.SolverForms.
Import ListNotations.
Close Scope Q_scope.

Definition qe := (Q * Q)%type.                       (* a + b*e *)
Definition qe_of (q : Q) : qe := (Qred q, 0%Q).
Definition qe_e (q : Q) : qe := (0%Q, Qred q).
Definition qe_add (x y : qe) : qe := (Qred (fst x + fst y)%Q, Qred (snd x + snd y)%Q).
Definition qe_iszero (x : qe) : bool := Qeq_bool (fst x) 0%Q && Qeq_bool (snd x) 0%Q.
Definition qe_eqb (x y : qe) : bool := Qeq_bool (fst x) (fst y) && Qeq_bool (snd x) (snd y).

(* raw triplets of one row: (id, coefficient) entries (zeros and duplicates allowed) and offset b *)
Definition rrow := (list (Z * qe) * qe)%type.

Inductive cop := OpEq | OpLe.
Record econ := { e_op : cop; e_cells : list sexpr }.      (* ElementwiseConstraint: expr op 0 *)
Inductive smem :=
| SPrimal (y : list sexpr) (K : list cone)
| SDual (y : list sexpr) (K : list cone).

(* ---- epigraph substitution ---- *)
Definition is_nl (a : atom) : bool := match a with ANl _ _ => true | _ => false end.

(* distinct nonlinear atoms in first-encounter order over constraints, cells and dict keys *)
Definition nl_atoms (cs : list econ) : list atom :=
  rev (fold_left (fun acc a => if is_nl a && negb (mem_atom a acc) then a :: acc else acc)
                 (flat_map (fun c => flat_map keys (e_cells c)) cs) []).

(* replace every nonlinear key by its epigraph variable (same coefficient) *)
Definition subst_cell (epi : atom -> Z) (e : sexpr) : sexpr :=
  {| terms := map (fun t => if is_nl (fst t) then (AVar (epi (fst t)), snd t) else t) (terms e);
     off := off e |}.

(* ---- rows ---- *)
(* a scalar expression as a raw row with sign s (+1 / -1): entries over its dict keys; an expression
   with an EMPTY dict contributes the zero entry at the dummy column *)
Definition row_of (dummy : Z) (neg : bool) (e : sexpr) : rrow :=
  let sgn := if neg then (-1)%Q else 1%Q in
  match keys e with
  | [] => ([(dummy, qe_of 0%Q)], qe_of (sgn * off e)%Q)
  | ks => (map (fun a => (var_id a, qe_of (sgn * coeff_of a e)%Q)) ks, qe_of (sgn * off e)%Q)
  end.

(* ElementwiseConstraint.conic_form: rows are -expr *)
Definition econ_block (dummy : Z) (c : econ) : list cone * list rrow :=
  ([(match e_op c with OpEq => T0 | OpLe => TPos end, length (e_cells c))],
   map (row_of dummy true) (e_cells c)).

Definition aff_entries (neg : bool) (a : aff) : list (Z * qe) :=
  map (fun ic => (fst ic, qe_of (if neg then - snd ic else snd ic)%Q)) (fst a).

(* an affine argument as a row; a constant argument contributes the dummy entry where the code does so *)
Definition aff_row_dummy (dummy : Z) (a : aff) : rrow :=
  match fst a with
  | [] => ([(dummy, qe_of 0%Q)], qe_of (snd a))
  | _ => (aff_entries false a, qe_of (snd a))
  end.

(* epigraph_conic_form of one atom with epigraph variable t *)
Definition epi_block (dummy : Z) (t : Z) (a : atom) : list cone * list rrow :=
  match a with
  | ANl KAbs [x] =>
      ([(TPos, 2)],
       [ ((t, qe_of 1%Q) :: aff_entries false x, qe_of (snd x));
         ((t, qe_of 1%Q) :: aff_entries true x, qe_of (- snd x)%Q) ])
  | ANl KPos [x] =>
      ([(TPos, 2)],
       [ ([(t, qe_of 1%Q)], qe_of 0%Q);
         ((t, qe_of 1%Q) :: aff_entries true x, qe_of (- snd x)%Q) ])
  | ANl KExp [x] =>
      ([(TExp, 3)],
       [ aff_row_dummy dummy x;
         ([(t, qe_of 1%Q)], qe_of 0%Q);
         ([(dummy, qe_of 0%Q)], qe_of 1%Q) ])
  | ANl KRelEnt [x; y] =>
      ([(TExp, 3)],
       [ ([(t, qe_of (-1)%Q)], qe_of 0%Q);
         aff_row_dummy dummy y;
         aff_row_dummy dummy x ])
  | ANl KNorm2 args =>
      ([(TSoc, S (length args))],
       ([(t, qe_of 1%Q)], qe_of 0%Q) :: map (aff_row_dummy dummy) args)
  | _ => ([], [])
  end.

(* product cones *)
Definition prow (dummy : Z) (e : sexpr) : rrow := row_of dummy false e.
Definition scale_rrow_e (r : rrow) : rrow :=      (* multiply a rational row by e *)
  (map (fun ic => (fst ic, (0%Q, fst (snd ic)))) (fst r), (0%Q, fst (snd r))).
Definition neg_rrow (dummy : Z) (e : sexpr) : rrow := row_of dummy true e.

Fixpoint dual_rows (dummy : Z) (y : list sexpr) (K : list cone) : option (list cone * list rrow) :=
  match K with
  | [] => Some ([], [])
  | (t, n) :: K' =>
      let blk := firstn n y in let rest := skipn n y in
      match dual_rows dummy rest K' with
      | None => None
      | Some (Ks, rs) =>
          match t with
          | TPos | TSoc | TPsd => Some ((t, n) :: Ks, map (prow dummy) blk ++ rs)
          | TExp => match blk with
                    | [y0; y1; y2] =>
                        Some ((TExp, 3) :: Ks,
                              [neg_rrow dummy y2; scale_rrow_e (prow dummy y1); neg_rrow dummy y0] ++ rs)
                    | _ => None
                    end
          | T0 => Some (Ks, rs)
          | _ => None
          end
      end
  end.

Definition smem_block (dummy : Z) (s : smem) : option (list cone * list rrow) :=
  match s with
  | SPrimal y K => Some (K, map (prow dummy) y)
  | SDual y K => dual_rows dummy y K
  end.

(* ---- assembly ---- *)
Fixpoint insertZ (x : Z) (l : list Z) : list Z :=
  match l with
  | [] => [x]
  | y :: l' => if Z.eqb x y then l else if (x <? y)%Z then x :: l else y :: insertZ x l'
  end.
Definition sorted_ids (rows : list rrow) : list Z :=
  fold_left (fun acc r => fold_left (fun acc2 ic => insertZ (fst ic) acc2) (fst r) acc) rows [].

(* canonical row: duplicates summed, zeros eliminated, ascending ids *)
Definition canon_row (r : rrow) : rrow :=
  let ids := fold_left (fun acc ic => insertZ (fst ic) acc) (fst r) [] in
  (filter (fun ic => negb (qe_iszero (snd ic)))
          (map (fun i => (i, fold_left (fun s ic => if Z.eqb (fst ic) i then qe_add s (snd ic) else s) (fst r) (qe_of 0%Q))) ids),
   snd r).

Fixpoint index_of (x : Z) (l : list Z) (k : Z) : Z :=
  match l with
  | [] => (-1)%Z
  | y :: l' => if Z.eqb x y then k else index_of x l' (k + 1)%Z
  end.

Record compiled := { c_K : list cone; c_rows : list rrow; c_cols : list Z;
                     c_varmap : list (nat * list Z) }.

(* [epi]: epigraph variable id of each distinct atom; [dummy]: counter - 1 at compile time;
   [vars]: the proper Variables found in the constraints (name index, scalar ids row-major) *)
Fixpoint smem_blocks (dummy : Z) (l : list smem) : option (list (list cone * list rrow)) :=
  match l with
  | [] => Some []
  | s :: l' => match smem_block dummy s, smem_blocks dummy l' with
               | Some b, Some bs => Some (b :: bs)
               | _, _ => None
               end
  end.

Definition subst_econ (epi : atom -> Z) (c : econ) : econ :=
  {| e_op := e_op c; e_cells := map (subst_cell epi) (e_cells c) |}.

(* the blocks in the order conify_constraints emits them: elementwise constraints, epigraph cones of
   the distinct atoms (first-encounter order), set-membership constraints *)
Definition all_blocks (epi : atom -> Z) (dummy : Z) (cs : list econ) (ss : list smem)
  : option (list (list cone * list rrow)) :=
  match smem_blocks dummy ss with
  | None => None
  | Some sblocks =>
      Some (map (econ_block dummy) (map (subst_econ epi) cs)
            ++ map (fun a => epi_block dummy (epi a) a) (nl_atoms cs)
            ++ sblocks)
  end.

Definition compile (epi : atom -> Z) (dummy : Z) (cs : list econ) (ss : list smem)
                   (vars : list (nat * list Z)) : option compiled :=
  match all_blocks epi dummy cs ss with
  | None => None
  | Some blocks =>
      let rows := flat_map snd blocks in
      let cols := sorted_ids rows in
      Some {| c_K := flat_map fst blocks;
              c_rows := map canon_row rows;
              c_cols := cols;
              c_varmap := map (fun v => (fst v, map (fun i => index_of i cols 0%Z) (snd v))) vars |}
  end.

(* comparison of compiled systems (rows are already canonical on both sides) *)
Definition cone_eqb (a b : cone) : bool := ctag_eqb (fst a) (fst b) && Nat.eqb (snd a) (snd b).
Fixpoint list_eqb' {A} (f : A -> A -> bool) (a b : list A) : bool :=
  match a, b with [], [] => true | x :: a', y :: b' => f x y && list_eqb' f a' b' | _, _ => false end.
Definition rrow_eqb (r s : rrow) : bool :=
  list_eqb' (fun x y => Z.eqb (fst x) (fst y) && qe_eqb (snd x) (snd y)) (fst r) (fst s) && qe_eqb (snd r) (snd s).
Definition compiled_eqb (a b : option compiled) : bool :=
  match a, b with
  | None, None => true
  | Some x, Some y =>
      list_eqb' cone_eqb (c_K x) (c_K y) && list_eqb' rrow_eqb (c_rows x) (c_rows y) &&
      list_eqb' Z.eqb (c_cols x) (c_cols y) &&
      list_eqb' (fun u v => Nat.eqb (fst u) (fst v) && list_eqb' Z.eqb (snd u) (snd v)) (c_varmap x) (c_varmap y)
  | _, _ => false
  end.
