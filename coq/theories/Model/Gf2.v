(* Model/Gf2.v — executable model of the GF(2) routines of
   sageopt/relaxations/poly_solution_recovery.py:
     mod2rref, mod2linsolve, mod2nullspace_basis, mod2nullspace,
     linear_system_negatives, variable_sign_patterns (non-heuristic paths).
   Definitions only (no proofs) so the model still runs when a proof breaks.
   A matrix is a list of rows; a row is a list of bits.  Entry-level arithmetic
   mod 2 of the Python code (np.mod(a - b, 2)) is xorb on bits. *)
From Coq Require Import List Bool Arith ZArith.
Import ListNotations.

Definition row := list bool.
Definition mat := list row.

Fixpoint xorrow (a b : row) : row :=
  match a, b with
  | x :: a', y :: b' => xorb x y :: xorrow a' b'
  | _, _ => []
  end.

Definition bit (k : nat) (r : row) : bool := nth k r false.

(* A[h:, k] argmax: first row (from the top of [rows]) whose bit k is set.
   Returns the rows before it, the row itself and the rows after it. *)
Fixpoint split_first_one (k : nat) (rows : mat) : option (mat * row * mat) :=
  match rows with
  | [] => None
  | r :: rs =>
      if bit k r then Some ([], r, rs)
      else match split_first_one k rs with
           | None => None
           | Some (pre, p, post) => Some (r :: pre, p, post)
           end
  end.

(* for i in range(h+1, m): if A[i,k] > 0: A[i,:] = (A[i,:] - A[h,:]) mod 2 *)
Definition elim_below (k : nat) (p : row) (rows : mat) : mat :=
  map (fun r => if bit k r then xorrow r p else r) rows.

(* Forward elimination.  [top] = rows 0..h-1 (finished pivot rows, in order),
   [rest] = rows h..m-1, [k] = current column, [fuel] = n - k. *)
Fixpoint fwd (fuel k : nat) (top rest : mat) (piv : list nat) : mat * list nat :=
  match fuel with
  | O => (top ++ rest, piv)
  | S f =>
      match rest with
      | [] => (top, piv)
      | _ :: _ =>
          match split_first_one k rest with
          | None => fwd f (S k) top rest piv
          | Some (pre, p, post) =>
              (* swap rows h and i_max *)
              let others := match pre with
                            | [] => post
                            | r0 :: pre' => pre' ++ r0 :: post
                            end in
              fwd f (S k) (top ++ [p]) (elim_below k p others) (piv ++ [k])
          end
      end
  end.

Definition ncols (A : mat) : nat := match A with [] => 0 | r :: _ => length r end.

(* A[row, pc:] = (A[row, pc:] - A[pr, pc:]) mod 2 *)
Definition xor_from (pc : nat) (a b : row) : row :=
  firstn pc a ++ xorrow (skipn pc a) (skipn pc b).

Fixpoint mapi_aux {A B} (f : nat -> A -> B) (i : nat) (l : list A) : list B :=
  match l with [] => [] | x :: l' => f i x :: mapi_aux f (S i) l' end.
Definition mapi {A B} (f : nat -> A -> B) (l : list A) : list B := mapi_aux f 0 l.

Definition back_step (A : mat) (pr pc : nat) : mat :=
  let prow := nth pr A [] in
  mapi (fun i r => if (i <? pr) && bit pc r then xor_from pc r prow else r) A.

Fixpoint back_subst_aux (A : mat) (pr : nat) (piv : list nat) : mat :=
  match piv with
  | [] => A
  | pc :: piv' => back_subst_aux (back_step A pr pc) (S pr) piv'
  end.
Definition back_subst (A : mat) (piv : list nat) : mat := back_subst_aux A 0 piv.

Definition mod2rref (forward_only : bool) (A : mat) : mat * list nat :=
  let '(A1, piv) := fwd (ncols A) 0 [] A [] in
  if forward_only then (A1, piv) else (back_subst A1 piv, piv).

(* ---------- mod2linsolve ---------- *)
Fixpoint dotb (a b : row) : bool :=
  match a, b with
  | x :: a', y :: b' => xorb (x && y) (dotb a' b')
  | _, _ => false
  end.

Definition augment (A : mat) (b : row) : mat :=
  map (fun rb => fst rb ++ [snd rb]) (combine A b).

Fixpoint set_nth (k : nat) (v : bool) (x : row) : row :=
  match x, k with
  | [], _ => []
  | _ :: x', O => v :: x'
  | y :: x', S k' => y :: set_nth k' v x'
  end.

(* the loop `for pc in reversed(pivcols)`; [rp] lists (row index, pivot col)
   already reversed. *)
Fixpoint backsolve (A1 : mat) (b1 : row) (rp : list (nat * nat)) (x : row) : row :=
  match rp with
  | [] => x
  | (r, pc) :: rp' =>
      let v := xorb (nth r b1 false)
                    (dotb (skipn (S pc) (nth r A1 [])) (skipn (S pc) x)) in
      backsolve A1 b1 rp' (set_nth pc v x)
  end.

Fixpoint enumerate_from {A} (i : nat) (l : list A) : list (nat * A) :=
  match l with [] => [] | x :: l' => (i, x) :: enumerate_from (S i) l' end.

(* [n] is the number of columns of A (A.shape[1]); rows may be [] only when m = 0 *)
Definition mod2linsolve (n : nat) (A : mat) (b : row) : option row :=
  let A0 := augment A b in
  let '(A1, piv) := fwd (S n) 0 [] A0 [] in
  if (match rev piv with last :: _ => last =? n | [] => false end) then None
  else
    let A1n := firstn n A1 in
    let b1 := map (fun r => nth n r false) A1n in
    let A1' := map (firstn n) A1n in
    Some (backsolve A1' b1 (rev (enumerate_from 0 piv)) (repeat false n)).

(* ---------- null space ---------- *)
Definition free_cols (n : nat) (piv : list nat) : list nat :=
  filter (fun j => negb (existsb (Nat.eqb j) piv)) (seq 0 n).

(* basis vector for free column f: 1 at f, arref[i][f] at piv[i] *)
Definition basis_vec (n : nat) (arref : mat) (piv : list nat) (f : nat) : row :=
  fold_left (fun v ip => set_nth (snd ip) (bit f (nth (fst ip) arref [])) v)
            (enumerate_from 0 piv) (set_nth f true (repeat false n)).

Definition mod2nullspace_basis (n : nat) (arref : mat) (piv : list nat) : list row :=
  map (basis_vec n arref piv) (free_cols n piv).

(* all sums of subsets of the basis (as a list; the implementation returns a set) *)
Definition span (n : nat) (basis : list row) : list row :=
  fold_left (fun acc v => acc ++ map (fun w => xorrow w v) acc) basis [repeat false n].

Definition mod2nullspace (n : nat) (arref : mat) (piv : list nat) : list row :=
  span n (mod2nullspace_basis n arref piv).

(* ---------- sign patterns ---------- *)
(* alpha: m x n integers; moments: m signs as Z (only sign and zero-ness used) *)
Definition zmat := list (list Z).
Definition par (z : Z) : bool := Z.odd z.
Definition parmat (alpha : zmat) : mat := map (map par) alpha.

Definition select {A} (idx : list nat) (l : list A) (d : A) : list A :=
  map (fun i => nth i l d) idx.

(* scatter x_W into a length-n zero vector at positions W *)
Definition scatter (n : nat) (W : list nat) (xw : row) : row :=
  fold_left (fun v jw => set_nth (fst jw) (snd jw) v) (combine W xw) (repeat false n).

Inductive lsn_result :=
| LsnTrivial (x : row)                                   (* (zeros, None, None, None) *)
| LsnInconsistent (alpha1 : mat) (U W : list nat)          (* (None, alpha, U, W) *)
| LsnSolved (x : row) (alpha1 : mat) (U W : list nat).

Definition linear_system_negatives (n : nat) (alpha : zmat) (moments : list Z) : lsn_result :=
  let a := parmat alpha in
  let m := length a in
  let U := filter (fun i => negb (Z.eqb (nth i moments 0%Z) 0) && existsb (fun b => b) (nth i a []))
                  (seq 0 m) in
  match U with
  | [] => LsnTrivial (repeat false n)
  | _ =>
    let aU := select U a [] in
    let W := filter (fun j => existsb (fun r => bit j r) aU) (seq 0 n) in
    match W with
    | [] => LsnTrivial (repeat false n)
    | _ =>
      let a1 := map (fun r => select W r false) aU in
      let b := map (fun i => Z.ltb (nth i moments 0%Z) 0) U in
      match mod2linsolve (length W) a1 b with
      | None => LsnInconsistent a1 U W
      | Some xw => LsnSolved (scatter n W xw) a1 U W
      end
    end
  end.

(* Result of variable_sign_patterns: each pattern is a row of bits, true = -1.
   The heuristic branch calls a real-valued greedy routine that is not modelled:
   it is reported as [SpHeuristic]. *)
Inductive sp_result :=
| SpList (ys : list row)
| SpHeuristic.

Definition variable_sign_patterns (n : nat) (alpha : zmat) (moments : list Z)
           (heuristic all_signs : bool) : sp_result :=
  match linear_system_negatives n alpha moments with
  | LsnInconsistent _ _ _ => if heuristic then SpHeuristic else SpList []
  | LsnTrivial _ => SpList [repeat false n]
  | LsnSolved x0 a1 U W =>
      let k := length W in
      let N0 := if all_signs
                then let '(arref, p) := mod2rref false a1 in mod2nullspace k arref p
                else [repeat false k] in
      SpList (map (fun v0 => xorrow (scatter n W v0) x0) N0)
  end.
