(* Model/Calculus.v — executable model of the calculus methods of Signomial / Polynomial
   (signomials.py: _partial, grad, hess, grad_val, hess_val, shift_coordinates, as_polynomial;
    polynomials.py: _partial, grad_val, hess_val, __call__ on numbers and on Polynomials, as_signomial).
   Numeric coefficients.  Transcendental values are kept symbolic: a shifted coefficient is the pair
   (c, q) meaning c * exp(q). *)
From Coq Require Import List Bool Arith ZArith QArith.
From SageVerif Require Import Model.Signomial Model.SigExpr.
Import ListNotations.
Close Scope Q_scope.

Definition nthq (l : list Q) (i : nat) : Q := nth i l 0%Q.
Definition zero_sig (n : nat) : qsig := q_mk [(repeat 0%Q n, 0%Q)].

(* Signomial._partial(i): a dict keyed by the exponent tuple; entries with zero derivative
   coefficient are skipped; an empty dict becomes the zero function; then from_dict *)
Definition sig_partial (n i : nat) (f : qsig) : qsig :=
  let d := filter (fun t => negb (Qeq_bool (snd t) 0%Q))
                  (map (fun t => (fst t, Qred (snd t * nthq (fst t) i)%Q)) f) in
  match d with
  | [] => zero_sig n
  | _ => q_mk d
  end.

(* dict update d[tup] += c preserving first-insertion order *)
Fixpoint dict_add (k : qrow) (v : Q) (d : list (qrow * Q)) : list (qrow * Q) :=
  match d with
  | [] => [(k, v)]
  | (k', v') :: d' => if qrow_eqb k k' then (k', Qred (v' + v)%Q) :: d' else (k', v') :: dict_add k v d'
  end.

Fixpoint dec_at (i : nat) (r : qrow) : qrow :=
  match r, i with
  | [], _ => []
  | x :: r', O => Qred (x - 1)%Q :: r'
  | x :: r', S i' => x :: dec_at i' r'
  end.

(* Polynomial._partial(i): only monomials with positive power in x_i survive; equal keys merge *)
Definition poly_partial (n i : nat) (f : qsig) : qsig :=
  let d := fold_left (fun d t => match Qcompare (nthq (fst t) i) 0%Q with
                                 | Gt => dict_add (dec_at i (fst t)) (Qred (snd t * nthq (fst t) i)%Q) d
                                 | _ => d
                                 end) f [] in
  match d with
  | [] => zero_sig n
  | _ => q_mk d
  end.

(* closed forms of Signomial.grad_val / hess_val as symbolic sums  sum_j w_j * exp(alpha_j . x):
   the weight of term j in component i (resp. (i,k)) *)
Definition grad_weights (n : nat) (f : qsig) : list (list (qrow * Q)) :=
  map (fun i => map (fun t => (fst t, Qred (snd t * nthq (fst t) i)%Q)) f) (seq 0 n).
Definition hess_weights (n : nat) (f : qsig) : list (list (list (qrow * Q))) :=
  map (fun i => map (fun k => map (fun t => (fst t, Qred (snd t * nthq (fst t) i * nthq (fst t) k)%Q)) f) (seq 0 n)) (seq 0 n).

(* shift_coordinates(x0): coefficient c_j * exp(alpha_j . x0), exponent rows unchanged (constructor) *)
Definition qdotq (a b : list Q) : Q := Qred (fold_left (fun acc p => (acc + fst p * snd p)%Q) (combine a b) 0%Q).
Definition shift (f : qsig) (x0 : list Q) : list (qrow * (Q * Q)) :=
  map (fun t => (fst t, (snd t, qdotq (fst t) x0))) f.

(* as_polynomial / as_signomial: same data; Polynomial's constructor rejects non-natural exponents *)
Definition as_polynomial (f : qsig) : option qsig := chk true (q_mk f).
Definition as_signomial (f : qsig) : qsig := q_mk f.

(* Polynomial.__call__ at a rational point: exact *)
Definition poly_call (f : qsig) (x : list Q) : Q := poly_eval f x.

(* Polynomial.__call__ on a vector of Polynomials (all over k variables):
   sum_j c_j * prod_i z_i ** alpha_ji, with the implementation's association order *)
Definition poly_pow (k : nat) (z : qsig) (e : Q) : option qsig :=
  chk true (q_pow_nat k z (Z.to_nat (Qnum (Qred e)))).

Definition oprod (k : nat) (l : list (option qsig)) : option qsig :=
  match l with
  | [] => None
  | o :: l' => fold_left (fun acc o' => match acc, o' with
                                        | Some a, Some b => chk true (q_mul k a b)
                                        | _, _ => None
                                        end) l' o
  end.

Definition poly_compose (k : nat) (p : qsig) (zs : list qsig) : option qsig :=
  let terms := map (fun t => match oprod k (map (fun ze => poly_pow k (fst ze) (snd ze)) (combine zs (fst t))) with
                             | Some m => chk true (q_scale k (snd t) m)
                             | None => None
                             end) p in
  (fix all (l : list (option qsig)) (acc : list qsig) : option qsig :=
     match l with
     | [] => match rev acc with [] => None | [f] => Some f | fs => chk true (q_sum fs) end
     | Some f :: l' => all l' (f :: acc)
     | None :: _ => None
     end) terms [].
