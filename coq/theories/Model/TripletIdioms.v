(* Model/TripletIdioms.v — the fixed idiom table of the translation of the atoms' epigraph_conic_form functions (operators/abs.py, pos.py, exp.py,
   relent.py, norms.py; harness/translator/epi_tr.py -> Gen/GenEpi.v).  Those functions build three parallel lists (A_vals, A_rows, A_cols), a dense
   offset array b and a cone list; list and index manipulation is translated structurally, the argument tuples through the table below.
   An atom argument `x` (the tuple ((var, co), ..., ('OFFSET', off)) built by NonlinearScalarAtom.parse_arg) is an [aff]:
     x[:-1] -> fst x,  x[-1][1] -> snd x,  len(x) - 1 -> length (fst x),  [var.id for var, co in x[:-1]] -> map fst (fst x),
     [co for var, co in x[:-1]] -> map snd (fst x),  [-co for ...] -> map (fun p => - snd p) (fst x).
   [trip_rows] is the reading of the triplets as the model's raw rows: row r holds the entries whose row index is r, in list order (duplicates and
   zeros kept, as in Model/Compile.v: rrow), and offset b[r].  Validated on every run by the suite epi_generated of C07. *)
From Coq Require Import List Bool Arith ZArith QArith.
From SageVerif Require Import Model.Expr Model.SolverForms Model.Compile.
Import ListNotations.
Close Scope Q_scope.

Fixpoint set_nthQ' (k : nat) (v : Q) (l : list Q) : list Q :=
  match l, k with
  | [], _ => []
  | _ :: l', O => v :: l'
  | y :: l', S k' => y :: set_nthQ' k' v l'
  end.

Definition trip_entries (r : nat) (vals : list Q) (rows : list nat) (cols : list Z) : list (Z * qe) :=
  map (fun e => (snd (fst e), qe_of (snd e))) (filter (fun e => Nat.eqb (fst (fst e)) r) (combine (combine rows cols) vals)).

Definition trip_rows (vals : list Q) (rows : list nat) (cols : list Z) (b : list Q) : list rrow :=
  map (fun r => (trip_entries r vals rows cols, qe_of (nth r b 0%Q))) (seq 0 (length b)).
