(* Model/PolyDom.v — domain inference for polynomials (sage_polys.infer_domain):
   constraint_generators.valid_gp_representable_poly_inequalities / valid_gp_representable_poly_eqs select the
   polynomial constraints all of whose exponents are even naturals (so that g(x) = g(|x|)) and that have the right sign
   pattern; their (alpha, c) data are then treated as signomials in y = log|x| and passed to the signomial machinery of
   Model/ConGen.v. *)
From Coq Require Import List Bool Arith ZArith QArith.
From SageVerif Require Import Model.Signomial Model.SolverForms Model.ConGen.
Import ListNotations.
Close Scope Q_scope.

(* an exponent that is an even natural number *)
Definition is_even_q (q : Q) : bool :=
  Pos.eqb (Qden (Qred q)) 1 && Z.leb 0 (Qnum (Qred q)) && Z.even (Qnum (Qred q)).
Definition even_row (a : qrow) : bool := forallb is_even_q a.
Definition all_even (g : qsig) : bool := forallb (fun t => even_row (fst t)) g.

(* g(0): coefficients of the rows whose exponents are all zero (0^0 = 1) *)
Definition value_at_zero (g : qsig) : Q :=
  fold_right (fun t acc => if is_zero_row (fst t) then Qplus (snd t) acc else acc) 0%Q g.

(* valid_gp_representable_poly_inequalities: keep even g with exactly one positive coefficient; an even g without a
   positive coefficient is infeasible (RuntimeError, Err 1) unless it vanishes at the origin (warning, skipped) *)
Fixpoint valid_gp_poly_ineqs (gs : list qsig) : result (list qsig) :=
  match gs with
  | [] => Ok []
  | g :: gs' =>
      let np := count (fun t => is_pos (snd t)) g in
      if all_even g && Nat.eqb np 1 then
        match valid_gp_poly_ineqs gs' with Ok r => Ok (g :: r) | Err e => Err e end
      else if all_even g && Nat.eqb np 0 && negb (Qeq_bool (value_at_zero g) 0%Q) then Err 1
      else valid_gp_poly_ineqs gs'
  end.

(* valid_gp_representable_poly_eqs: even, exactly two nonzero coefficients, exactly one of them positive *)
Definition valid_gp_poly_eqs (eqs : list qsig) : list qsig :=
  filter (fun g => all_even g && Nat.eqb (count (fun t => negb (qiszero (snd t))) g) 2
                   && Nat.eqb (count (fun t => is_pos (snd t)) g) 1) eqs.

(* sage_polys.infer_domain: the kept polynomial constraints, and the signomial inference on their (alpha, c) data *)
Definition poly_infer_domain (n : nat) (gts eqs : list qsig)
  : result (list qsig * list qsig * (list qsig * list qsig * list lcon)) :=
  match valid_gp_poly_ineqs gts with
  | Err e => Err e
  | Ok gg =>
      let ge := valid_gp_poly_eqs eqs in
      match infer_domain n gg ge with
      | Err e => Err e
      | Ok r => Ok (gg, ge, r)
      end
  end.
