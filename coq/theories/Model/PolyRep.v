(* Model/PolyRep.v — executable model of the polynomial-specific parts of the SAGE relaxations:
   Polynomial._compute_sig_rep / even_locations / standard_multiplier (polynomials.py) and
   create_covers / relative_dual_sage_poly_cone (sage_polys.py). *)
From Coq Require Import List Bool Arith ZArith QArith Qabs.
From SageVerif Require Import Model.Expr Model.Signomial Model.SymSig.
Import ListNotations.
Close Scope Q_scope.

Definition is_even_q (q : Q) : bool := Z.even (Qnum (Qred q)).
Definition row_even (a : qrow) : bool := forallb is_even_q a.

(* even_locations *)
Definition even_locations (p : list (qrow * sexpr)) : list nat :=
  map fst (filter (fun it => row_even (fst (snd it))) (combine (seq 0 (length p)) p)).

(* standard_multiplier: exponents of the even monomials, coefficients one *)
Definition standard_multiplier (rows : list qrow) : qsig :=
  q_mk (map (fun r => (r, 1%Q)) (filter row_even rows)).

(* _compute_sig_rep.  Coefficients are scalar expressions (constants for numeric polynomials).
   For a monomial with an odd exponent: a constant coefficient c becomes -|c|; a non-constant one is
   replaced by a fresh variable c_hat (ids supplied in order) with the side constraints
   c_hat <= c and c_hat <= -c.  Even monomials keep their coefficient. *)
Definition qabs_neg (q : Q) : Q := Qred (- Qabs q)%Q.

Fixpoint sig_rep_aux (p : list (qrow * sexpr)) (hats : list Z)
  : list (qrow * sexpr) * list (Z * sexpr) :=
  match p with
  | [] => ([], [])
  | (a, c) :: p' =>
      if row_even a then
        let '(r, s) := sig_rep_aux p' hats in ((a, c) :: r, s)
      else if is_constant c then
        let '(r, s) := sig_rep_aux p' hats in ((a, sconst (qabs_neg (off c))) :: r, s)
      else
        match hats with
        | h :: hats' => let '(r, s) := sig_rep_aux p' hats' in ((a, svar h) :: r, (h, c) :: s)
        | [] => let '(r, s) := sig_rep_aux p' [] in ((a, c) :: r, s)   (* not enough ids: unreachable *)
        end
  end.

(* (signomial representative, side constraints as pairs (c_hat id, original coefficient)) *)
Definition sig_rep (p : list (qrow * sexpr)) (hats : list Z) : ssig * list (Z * sexpr) :=
  let '(r, s) := sig_rep_aux p hats in (s_mk r, s).

(* create_covers(s): AGE cones only for terms that are not (constant, nonnegative, even); non-even
   monomials never participate in a cover *)
Definition create_covers (s : ssig) : list (option (list bool)) :=
  let m := length s in
  let odd := map (fun t => negb (row_even (fst t))) s in
  map (fun it =>
         let i := fst it in let t := snd it in
         if is_constant (snd t) && negb (match Qcompare (off (snd t)) 0%Q with Lt => true | _ => false end) && row_even (fst t)
         then None
         else Some (map (fun jo => negb (Nat.eqb (fst jo) i) && negb (snd jo)) (combine (seq 0 m) odd)))
      (combine (seq 0 m) s).

(* relative_dual_sage_poly_cone: which entries of the dual variable are tied to the auxiliary one by
   equality (even monomials) and which by |v| <= aux (the others); None when all monomials are even *)
Definition dual_poly_links (s : ssig) : option (list bool) :=
  let ev := map (fun t => row_even (fst t)) s in
  if forallb (fun b => b) ev then None else Some ev.
