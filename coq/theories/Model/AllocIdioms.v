(* Model/AllocIdioms.v — the fixed table used by the translation of Variable.__new__ / __unstructured_populate__ / __symmetric_populate__,
   ScalarVariable.__init__ and clear_variable_indices (harness/translator/alloc_tr.py).  Loops, ranges, the order of the statements, the
   guards and every read / write of the three global counters are translated structurally; this table only says how the two numpy objects
   those methods touch are represented:
     - array_index_iterator(shape) = the itertools product of range(d) for d in shape: the index tuples in row-major order;
     - temp_id_array = np.zeros(shape=obj.shape, dtype=int), a 2-d integer array written with temp_id_array[i, j] = v and read with
       temp_id_array[tup]: a total function of two indices (index errors are outside the table: the loops of the source stay in range). *)
From Coq Require Import List Bool Arith ZArith.
Import ListNotations.

Fixpoint index_tuples (sh : list nat) : list (list nat) :=
  match sh with
  | [] => [[]]
  | d :: rest => flat_map (fun i => map (cons i) (index_tuples rest)) (seq 0 d)
  end.

Definition arr2 := nat -> nat -> Z.
Definition zeros2 : arr2 := fun _ _ => 0%Z.
Definition upd2 (a : arr2) (i j : nat) (v : Z) : arr2 := fun r s => if (Nat.eqb r i && Nat.eqb s j)%bool then v else a r s.
Definition get_tup (a : arr2) (tup : list nat) : Z := match tup with [r; s] => a r s | _ => 0%Z end.

(* arrays indexed by index tuples (temp = np.zeros(v.shape); temp[tup] = value): total functions of the tuple *)
Fixpoint tup_eqb (a b : list nat) : bool :=
  match a, b with
  | [], [] => true
  | x :: a', y :: b' => (Nat.eqb x y && tup_eqb a' b')%bool
  | _, _ => false
  end.
Definition arrT := list nat -> Z.
Definition zerosT : arrT := fun _ => 0%Z.
Definition updT (a : arrT) (tup : list nat) (v : Z) : arrT := fun t => if tup_eqb t tup then v else a t.
