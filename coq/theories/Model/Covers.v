(* Model/Covers.v — the optimisation-free part of ExpCoverHelper._default_covers (sage_cones.py):
   sign-based exclusion of N_I, _simplify_age_cone for nonnegative exponents with a zero row, and the
   removal of one-element covers for X = R^n.  (presolve_trivial_age_cones solves LPs and is an oracle.) *)
From Coq Require Import List Bool Arith ZArith QArith.
From SageVerif Require Import Model.Expr Model.Sage.
Import ListNotations.
Close Scope Q_scope.

Definition qdot (a b : list Q) : Q := fold_left (fun acc p => (acc + fst p * snd p)%Q) (combine a b) 0%Q.
Definition qsumrow (a : list Q) : Q := fold_left Qplus a 0%Q.

Definition default_covers (alpha : list (list Q)) (c : list sexpr) (has_X heuristic : bool) : list (option (list bool)) :=
  let m := length alpha in
  let ui := indices_where in_UI c in
  let ni := indices_where in_NI c in
  let base (i : nat) : list bool :=
      map (fun j => negb (existsb (Nat.eqb j) ni) && negb (Nat.eqb j i)) (seq 0 m) in
  let nonneg := forallb (fun r => forallb (fun q => Qle_bool 0%Q q) r) alpha in
  let zero_loc := match filter (fun ir => Qeq_bool (qsumrow (snd ir)) 0%Q) (combine (seq 0 m) alpha) with
                  | (k, _) :: _ => Some k | [] => None end in
  let simplify (i : nat) (cov : list bool) : list bool :=
      if (negb has_X || heuristic) && nonneg then
        match zero_loc with
        | Some z =>
            if Nat.eqb i z then cov
            else map (fun jc => if snd jc && negb (Nat.eqb (fst jc) z)
                                   && Qeq_bool (qdot (nth i alpha []) (nth (fst jc) alpha [])) 0%Q
                                then false else snd jc) (combine (seq 0 m) cov)
        | None => cov
        end
      else cov in
  let single (cov : list bool) : list bool :=
      if negb has_X && Nat.eqb (length (filter (fun b => b) cov)) 1 then map (fun _ => false) cov else cov in
  map (fun i => if existsb (Nat.eqb i) ui then Some (single (simplify i (base i))) else None) (seq 0 m).
