(* Base/Corr.v — helpers for the correspondence check: boolean equalities on
   canonical outputs and the [mism] driver that compares, inside Coq, the model's
   output with the implementation's recorded output for a list of cases. *)
From Coq Require Import List Bool Arith ZArith QArith.
Import ListNotations.

Fixpoint list_eqb {A} (eqb : A -> A -> bool) (l1 l2 : list A) : bool :=
  match l1, l2 with
  | [], [] => true
  | x :: l1', y :: l2' => eqb x y && list_eqb eqb l1' l2'
  | _, _ => false
  end.

Definition option_eqb {A} (eqb : A -> A -> bool) (o1 o2 : option A) : bool :=
  match o1, o2 with
  | None, None => true
  | Some x, Some y => eqb x y
  | _, _ => false
  end.

Definition pair_eqb {A B} (ea : A -> A -> bool) (eb : B -> B -> bool) (p q : A * B) : bool :=
  ea (fst p) (fst q) && eb (snd p) (snd q).

Definition unit_eqb (_ _ : unit) : bool := true.

Fixpoint mism_aux {I O P} (f : I -> O) (eqb : O -> P -> bool) (i : nat) (cs : list (I * P)) : list nat :=
  match cs with
  | [] => []
  | (x, y) :: cs' =>
      if eqb (f x) y then mism_aux f eqb (S i) cs' else i :: mism_aux f eqb (S i) cs'
  end.

(* indices of the cases on which model and implementation disagree *)
Definition mism {I O P} (f : I -> O) (eqb : O -> P -> bool) (cs : list (I * P)) : list nat :=
  mism_aux f eqb 0 cs.

(* sorting for set-valued outputs: insertion sort with a boolean order *)
Fixpoint insert_by {A} (leb : A -> A -> bool) (x : A) (l : list A) : list A :=
  match l with
  | [] => [x]
  | y :: l' => if leb x y then x :: l else y :: insert_by leb x l'
  end.
Definition sort_by {A} (leb : A -> A -> bool) (l : list A) : list A :=
  fold_right (insert_by leb) [] l.

Fixpoint row_leb (a b : list bool) : bool :=
  match a, b with
  | [], _ => true
  | _ :: _, [] => false
  | x :: a', y :: b' =>
      if Bool.eqb x y then row_leb a' b' else negb x
  end.

Definition Qeqb (a b : Q) : bool := Qeq_bool a b.
