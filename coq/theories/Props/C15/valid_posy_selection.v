From SageVerif Require Import Proofs.ConGenSpec Proofs.ConGenProofs.
Theorem valid_posy_selection : valid_posy_selection_stmt.
Proof. exact ConGenBase.valid_posy_selection. Qed.
Print Assumptions valid_posy_selection.
