(* Non-vacuity for the polynomial half of C15: 4 - x0^2 - x1^4 >= 0 is kept, 1 - x0*x1 >= 0 (not even) and
   -x0^2 - 3 x1^2 >= 0 (no positive coefficient, vanishes at the origin) are skipped, x0^2 x1^2 = 1 is kept; an even constraint
   without a positive coefficient that does not vanish at the origin is an error. *)
From Coq Require Import List Bool Arith ZArith QArith.
From SageVerif Require Import Model.Signomial Model.SolverForms Model.ConGen Model.PolyDom.
Import ListNotations.
Definition pg1 : qsig := [([0%Q; 0%Q], 4%Q); ([2%Q; 0%Q], (-1)%Q); ([0%Q; 4%Q], (-1)%Q)].
Definition pg2 : qsig := [([0%Q; 0%Q], 1%Q); ([1%Q; 1%Q], (-1)%Q)].
Definition pg3 : qsig := [([2%Q; 0%Q], (-1)%Q); ([0%Q; 2%Q], (-3)%Q)].
Definition ph1 : qsig := [([2%Q; 2%Q], 1%Q); ([0%Q; 0%Q], (-1)%Q)].
Example poly_infer_runs :
  match poly_infer_domain 2 [pg1; pg2; pg3] [ph1] with
  | Ok (gg, ge, (cg, ce, lc)) =>
      gg = [pg1] /\ ge = [ph1] /\
      lc = [WseLe [1%Q; 1%Q] [[2%Q; 0%Q]; [0%Q; 4%Q]] 4%Q; LinEq [(-2)%Q; (-2)%Q] 1%Q]
  | Err _ => False
  end.
Proof. vm_compute. repeat split; reflexivity. Qed.
Example poly_infeasible_is_error : valid_gp_poly_ineqs [[([0%Q; 0%Q], (-1)%Q); ([2%Q; 0%Q], (-1)%Q)]] = Err 1.
Proof. vm_compute. reflexivity. Qed.
Print Assumptions poly_infer_runs.
