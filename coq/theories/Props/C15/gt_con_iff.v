From SageVerif Require Import Proofs.ConGenSpec Proofs.ConGenProofs.
Theorem gt_con_iff : gt_con_iff_stmt.
Proof. exact ConGenCons.gt_con_iff. Qed.
Print Assumptions gt_con_iff.
