From SageVerif Require Import Proofs.ConGenSpec Proofs.ConGenProofs.
Theorem posy_normalise_iff : posy_normalise_iff_stmt.
Proof. exact ConGenBase.posy_normalise_iff. Qed.
Print Assumptions posy_normalise_iff.
