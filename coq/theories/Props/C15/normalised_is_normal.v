From SageVerif Require Import Proofs.ConGenSpec Proofs.ConGenProofs.
Theorem normalised_is_normal : normalised_is_normal_stmt.
Proof. exact ConGenNorm.normalised_is_normal. Qed.
Print Assumptions normalised_is_normal.
