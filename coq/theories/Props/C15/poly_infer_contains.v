From SageVerif Require Import Proofs.PolyDomSpec Proofs.PolyDomProofs.
Theorem poly_infer_contains : poly_infer_contains_stmt.
Proof. exact PolyDomProofs.poly_infer_contains. Qed.
Print Assumptions poly_infer_contains.
