From SageVerif Require Import Proofs.PolyDomSpec Proofs.PolyDomProofs.
Theorem gp_poly_error_sound : gp_poly_error_sound_stmt.
Proof. exact PolyDomProofs.gp_poly_error_sound. Qed.
Print Assumptions gp_poly_error_sound.
