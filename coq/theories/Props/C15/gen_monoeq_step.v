From SageVerif Require Import Proofs.GenConGenSpec Proofs.GenConGenProofs.
Theorem gen_monoeq_step : gen_monoeq_step_stmt.
Proof. exact GenConGenProofs.gen_monoeq_step. Qed.
Print Assumptions gen_monoeq_step.
