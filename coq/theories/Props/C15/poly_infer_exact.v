From SageVerif Require Import Proofs.PolyDomSpec Proofs.PolyDomProofs.
Theorem poly_infer_exact : poly_infer_exact_stmt.
Proof. exact PolyDomProofs.poly_infer_exact. Qed.
Print Assumptions poly_infer_exact.
