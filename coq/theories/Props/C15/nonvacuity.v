(* Non-vacuity for C15: 4 - y0 - y1 - y0*y1 >= 0 (one positive term) is kept and becomes a weighted_sum_exp
   constraint; y0*y1 - 2 = 0 becomes a linear equality with right-hand side ln 2; y0 + y1 - 1 >= 0 (two
   positive terms) is skipped. *)
From Coq Require Import List Bool Arith ZArith QArith.
From SageVerif Require Import Model.Signomial Model.SolverForms Model.ConGen.
Import ListNotations.
Definition g1 : qsig := [([0%Q; 0%Q], 4%Q); ([1%Q; 0%Q], (-1)%Q); ([0%Q; 1%Q], (-1)%Q); ([1%Q; 1%Q], (-1)%Q)].
Definition g2 : qsig := [([1%Q; 0%Q], 1%Q); ([0%Q; 1%Q], 1%Q); ([0%Q; 0%Q], (-1)%Q)].
Definition h1 : qsig := [([1%Q; 1%Q], 1%Q); ([0%Q; 0%Q], (-2)%Q)].
Example infer_runs :
  match infer_domain 2 [g1; g2] [h1] with
  | Ok (cg, ce, lc) => length cg = 1%nat /\ length ce = 1%nat /\
      lc = [WseLe [1%Q; 1%Q; 1%Q] [[1%Q; 0%Q]; [0%Q; 1%Q]; [1%Q; 1%Q]] 4%Q; LinEq [(-1)%Q; (-1)%Q] (1 # 2)%Q]
  | Err _ => False
  end.
Proof. vm_compute. repeat split; reflexivity. Qed.
Example infeasible_is_error : valid_posy 1 [[([1%Q], (-1)%Q)]] = Err 1.
Proof. vm_compute. reflexivity. Qed.
Print Assumptions infer_runs.
