From SageVerif Require Import Proofs.GenConGenSpec Proofs.GenConGenProofs.
Theorem gen_polyineq_step : gen_polyineq_step_stmt.
Proof. exact GenConGenProofs.gen_polyineq_step. Qed.
Print Assumptions gen_polyineq_step.
