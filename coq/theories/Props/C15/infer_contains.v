From SageVerif Require Import Proofs.ConGenSpec Proofs.ConGenProofs.
Theorem infer_contains : infer_contains_stmt.
Proof. exact ConGenInfer.infer_contains. Qed.
Print Assumptions infer_contains.
