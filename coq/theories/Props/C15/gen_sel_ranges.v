From SageVerif Require Import Proofs.GenConGenSpec Proofs.GenConGenProofs.
Theorem gen_sel_ranges : gen_sel_ranges_stmt.
Proof. exact GenConGenProofs.gen_sel_ranges. Qed.
Print Assumptions gen_sel_ranges.
