From SageVerif Require Import Proofs.ConGenSpec Proofs.ConGenProofs.
Theorem eq_con_iff : eq_con_iff_stmt.
Proof. exact ConGenCons.eq_con_iff. Qed.
Print Assumptions eq_con_iff.
