From SageVerif Require Import Proofs.PolyDomSpec Proofs.PolyDomProofs.
Theorem gp_poly_selection : gp_poly_selection_stmt.
Proof. exact PolyDomProofs.gp_poly_selection. Qed.
Print Assumptions gp_poly_selection.
