From SageVerif Require Import Proofs.GenConGenSpec Proofs.GenConGenProofs.
Theorem gen_polyeq_step : gen_polyeq_step_stmt.
Proof. exact GenConGenProofs.gen_polyeq_step. Qed.
Print Assumptions gen_polyeq_step.
