From SageVerif Require Import Proofs.PolyDomSpec Proofs.PolyDomProofs.
Theorem even_mono_logabs : even_mono_logabs_stmt.
Proof. exact PolyDomProofs.even_mono_logabs. Qed.
Print Assumptions even_mono_logabs.
