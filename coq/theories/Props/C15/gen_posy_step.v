From SageVerif Require Import Proofs.GenConGenSpec Proofs.GenConGenProofs.
Theorem gen_posy_step : gen_posy_step_stmt.
Proof. exact GenConGenProofs.gen_posy_step. Qed.
Print Assumptions gen_posy_step.
