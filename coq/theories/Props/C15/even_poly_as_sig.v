From SageVerif Require Import Proofs.PolyDomSpec Proofs.PolyDomProofs.
Theorem even_poly_as_sig : even_poly_as_sig_stmt.
Proof. exact PolyDomProofs.even_poly_as_sig. Qed.
Print Assumptions even_poly_as_sig.
