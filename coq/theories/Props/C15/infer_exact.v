From SageVerif Require Import Proofs.ConGenSpec Proofs.ConGenProofs.
Theorem infer_exact : infer_exact_stmt.
Proof. exact ConGenInfer.infer_exact. Qed.
Print Assumptions infer_exact.
