From SageVerif Require Import Model.Gf2 Proofs.Gf2Spec Proofs.Gf2Proofs.
Theorem linsolve_sound : linsolve_sound_stmt.
Proof. exact Gf2Proofs.linsolve_sound. Qed.
Print Assumptions linsolve_sound.
