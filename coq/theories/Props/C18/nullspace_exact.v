From SageVerif Require Import Model.Gf2 Proofs.Gf2Spec Proofs.Gf2Proofs.
Theorem nullspace_exact : nullspace_exact_stmt.
Proof. exact Gf2Proofs.nullspace_exact. Qed.
Print Assumptions nullspace_exact.
