From SageVerif Require Import Model.Gf2 Proofs.Gf2Spec Proofs.Gf2Proofs.
Theorem rref_echelon : rref_echelon_stmt.
Proof. exact Gf2Proofs.rref_echelon. Qed.
Print Assumptions rref_echelon.
