From SageVerif Require Import Model.Gf2 Proofs.Gf2Spec Proofs.Gf2Proofs.
Theorem signs_none_iff : signs_none_iff_stmt.
Proof. exact Gf2Proofs.signs_none_iff. Qed.
Print Assumptions signs_none_iff.
