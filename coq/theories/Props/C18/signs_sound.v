From SageVerif Require Import Model.Gf2 Proofs.Gf2Spec Proofs.Gf2Proofs.
Theorem signs_sound : signs_sound_stmt.
Proof. exact Gf2Proofs.signs_sound. Qed.
Print Assumptions signs_sound.
