From SageVerif Require Import Model.Gf2 Proofs.Gf2Spec Proofs.Gf2Proofs.
Theorem signs_complete : signs_complete_stmt.
Proof. exact Gf2Proofs.signs_complete. Qed.
Print Assumptions signs_complete.
