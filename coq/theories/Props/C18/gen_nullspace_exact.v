From SageVerif Require Import Proofs.GenGf2Spec Proofs.GenGf2Proofs.
Theorem gen_nullspace_exact : gen_nullspace_exact_stmt.
Proof. exact GenGf2Proofs.gen_nullspace_exact. Qed.
Print Assumptions gen_nullspace_exact.
