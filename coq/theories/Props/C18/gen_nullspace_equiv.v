From SageVerif Require Import Proofs.GenGf2Spec Proofs.GenGf2Proofs.
Theorem gen_nullspace_equiv : gen_nullspace_equiv_stmt.
Proof. exact GenGf2Proofs.gen_nullspace_equiv. Qed.
Print Assumptions gen_nullspace_equiv.
