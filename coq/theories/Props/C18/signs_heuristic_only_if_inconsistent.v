From SageVerif Require Import Model.Gf2 Proofs.Gf2Spec Proofs.Gf2Proofs.
Theorem signs_heuristic_only_if_inconsistent : signs_heuristic_only_if_inconsistent_stmt.
Proof. exact Gf2Proofs.signs_heuristic_only_if_inconsistent. Qed.
Print Assumptions signs_heuristic_only_if_inconsistent.
