From SageVerif Require Import Proofs.GenGf2Spec Proofs.GenGf2Proofs.
Theorem gen_signs_equiv : gen_signs_equiv_stmt.
Proof. exact GenGf2Proofs.gen_signs_equiv. Qed.
Print Assumptions gen_signs_equiv.
