From SageVerif Require Import Model.Gf2 Proofs.Gf2Spec Proofs.Gf2Proofs.
Theorem linsolve_complete : linsolve_complete_stmt.
Proof. exact Gf2Proofs.linsolve_complete. Qed.
Print Assumptions linsolve_complete.
