From SageVerif Require Import Model.Gf2 Proofs.Gf2Spec Proofs.Gf2Proofs.
Theorem rref_reduced : rref_reduced_stmt.
Proof. exact Gf2Proofs.rref_reduced. Qed.
Print Assumptions rref_reduced.
