From SageVerif Require Import Proofs.GenGf2Spec Proofs.GenGf2Proofs.
Theorem gen_linsolve_sound_complete : gen_linsolve_sound_complete_stmt.
Proof. exact GenGf2Proofs.gen_linsolve_sound_complete. Qed.
Print Assumptions gen_linsolve_sound_complete.
