From SageVerif Require Import Proofs.GenGf2Spec Proofs.GenGf2Proofs.
Theorem gen_rref_equiv : gen_rref_equiv_stmt.
Proof. exact GenGf2Proofs.gen_rref_equiv. Qed.
Print Assumptions gen_rref_equiv.
