(* Props/C18/nonvacuity.v — concrete, non-trivial inputs meet the hypotheses of the
   C18 theorems and exercise every modelled function. *)
From Coq Require Import List Bool Arith ZArith Lia.
From SageVerif Require Import Model.Gf2 Proofs.Gf2Spec Proofs.Gf2Proofs.
Import ListNotations.

(* a 3 x 4 matrix of rank 2 (row 3 = row 1 + row 2) *)
Definition A34 : mat :=
  [[true; true; false; true]; [false; true; true; false]; [true; false; true; true]].

Example A34_hyps : wf 4 A34 /\ A34 <> [].
Proof. split. repeat constructor. discriminate. Qed.

Example A34_fwd :
  mod2rref true A34 =
  ([[true; true; false; true]; [false; true; true; false]; [false; false; false; false]], [0; 1]).
Proof. vm_compute. reflexivity. Qed.

Example A34_rref :
  mod2rref false A34 =
  ([[true; false; true; true]; [false; true; true; false]; [false; false; false; false]], [0; 1]).
Proof. vm_compute. reflexivity. Qed.

(* instantiating the theorems on it gives non-trivial facts *)
Example A34_echelon_instance :
  let '(R, piv) := mod2rref false A34 in
  strictly_increasing piv /\ length piv = 2 /\ nth 2 R [] = zeros 4.
Proof.
  pose proof (rref_echelon false 4 A34 _ _ (proj1 A34_hyps) (proj2 A34_hyps) A34_rref)
    as [H1 [_ [_ [_ [_ [H6 _]]]]]].
  rewrite A34_rref. split. exact H1. split. reflexivity. apply H6; simpl; lia.
Qed.

(* solvable and unsolvable right-hand sides *)
Example A34_solvable : mod2linsolve 4 A34 [true; true; false] = Some [false; true; false; false].
Proof. vm_compute. reflexivity. Qed.

Example A34_solution_checks : mulmv A34 [false; true; false; false] = [true; true; false].
Proof.
  exact (proj2 (linsolve_sound 4 A34 [true; true; false] _ (proj1 A34_hyps) (proj2 A34_hyps)
                  eq_refl A34_solvable)).
Qed.

Example A34_unsolvable : mod2linsolve 4 A34 [true; true; true] = None.
Proof. vm_compute. reflexivity. Qed.

Example A34_unsolvable_instance : mulmv A34 [false; true; true; false] <> [true; true; true].
Proof.
  apply (linsolve_complete 4 A34 [true; true; true] (proj1 A34_hyps) (proj2 A34_hyps)
           eq_refl A34_unsolvable). reflexivity.
Qed.

(* the null space has 2^(4-2) = 4 elements, one of them non-zero in a free column *)
Example A34_nullspace :
  let '(R, piv) := mod2rref false A34 in
  length (mod2nullspace 4 R piv) = 4 /\
  In [true; true; true; false] (mod2nullspace 4 R piv) /\
  mulmv A34 [true; true; true; false] = zeros 3.
Proof. vm_compute. repeat split. right. left. reflexivity. Qed.

(* sign patterns: x*y has a negative moment, x^2 a positive one: two patterns *)
Definition alpha2 : zmat := [[1; 1]; [2; 0]]%Z.
Definition mom2 : list Z := [-1; 3]%Z.

Example signs_hyps :
  wfz 2 alpha2 /\ length mom2 = length alpha2 /\ even_moments_nonneg alpha2 mom2.
Proof.
  split. repeat constructor. split. reflexivity.
  intros i Hi He. destruct i as [|[|i]]; simpl in *; try discriminate; try lia.
Qed.

Example signs_two_patterns :
  variable_sign_patterns 2 alpha2 mom2 false true = SpList [[true; false]; [false; true]].
Proof. vm_compute. reflexivity. Qed.

Example signs_one_pattern :
  variable_sign_patterns 2 alpha2 mom2 false false = SpList [[true; false]].
Proof. vm_compute. reflexivity. Qed.

Example signs_pattern_consistent : consistent alpha2 mom2 [false; true].
Proof.
  destruct signs_hyps as [H1 [H2 H3]].
  apply (signs_sound 2 alpha2 mom2 true _ H1 H2 H3 signs_two_patterns).
  right. left. reflexivity.
Qed.

(* an inconsistent system: x*y < 0 and x*y > 0 *)
Definition alpha3 : zmat := [[1; 1]; [1; 1]]%Z.
Definition mom3 : list Z := [-1; 1]%Z.

Example signs3_hyps :
  wfz 2 alpha3 /\ length mom3 = length alpha3 /\ even_moments_nonneg alpha3 mom3.
Proof.
  split. repeat constructor. split. reflexivity.
  intros i Hi He. destruct i as [|[|i]]; simpl in *; try discriminate; try lia.
Qed.

Example signs3_none : variable_sign_patterns 2 alpha3 mom3 false true = SpList [].
Proof. vm_compute. reflexivity. Qed.

Example signs3_heuristic : variable_sign_patterns 2 alpha3 mom3 true true = SpHeuristic.
Proof. vm_compute. reflexivity. Qed.

Example signs3_no_pattern : forall y, length y = 2 -> ~ consistent alpha3 mom3 y.
Proof.
  destruct signs3_hyps as [H1 [H2 H3]].
  apply (proj1 (signs_none_iff 2 alpha3 mom3 true H1 H2 H3)). exact signs3_none.
Qed.
