From SageVerif Require Import Proofs.GenGf2Spec Proofs.GenGf2Proofs.
Theorem gen_linsolve_equiv : gen_linsolve_equiv_stmt.
Proof. exact GenGf2Proofs.gen_linsolve_equiv. Qed.
Print Assumptions gen_linsolve_equiv.
