From SageVerif Require Import Proofs.GenGf2Spec Proofs.GenGf2Proofs.
Theorem gen_lsn_equiv : gen_lsn_equiv_stmt.
Proof. exact GenGf2Proofs.gen_lsn_equiv. Qed.
Print Assumptions gen_lsn_equiv.
