From SageVerif Require Import Proofs.GenGf2Spec Proofs.GenGf2Proofs.
Theorem gen_rref_kernel : gen_rref_kernel_stmt.
Proof. exact GenGf2Proofs.gen_rref_kernel. Qed.
Print Assumptions gen_rref_kernel.
