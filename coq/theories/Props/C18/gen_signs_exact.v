From SageVerif Require Import Proofs.GenGf2Spec Proofs.GenGf2Proofs.
Theorem gen_signs_exact : gen_signs_exact_stmt.
Proof. exact GenGf2Proofs.gen_signs_exact. Qed.
Print Assumptions gen_signs_exact.
