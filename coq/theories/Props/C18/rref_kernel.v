From SageVerif Require Import Model.Gf2 Proofs.Gf2Spec Proofs.Gf2Proofs.
Theorem rref_kernel : rref_kernel_stmt.
Proof. exact Gf2Proofs.rref_kernel. Qed.
Print Assumptions rref_kernel.
