From SageVerif Require Import Model.Gf2 Proofs.Gf2Spec Proofs.Gf2Proofs.
Theorem rref_rowspace : rref_rowspace_stmt.
Proof. exact Gf2Proofs.rref_rowspace. Qed.
Print Assumptions rref_rowspace.
