From SageVerif Require Import Model.Gf2 Proofs.Gf2Spec Proofs.Gf2Proofs.
Theorem rref_shape : rref_shape_stmt.
Proof. exact Gf2Proofs.rref_shape. Qed.
Print Assumptions rref_shape.
