From SageVerif Require Import Proofs.SymCorrSpec Proofs.SymCorrProofs.
Theorem rcv_placement : rcv_placement_stmt.
Proof. exact SymCorrProofs.rcv_placement. Qed.
Print Assumptions rcv_placement.
