From SageVerif Require Import Proofs.SymCorrSpec Proofs.SymCorrProofs.
Theorem missing_exponent_is_error : missing_exponent_is_error_stmt.
Proof. exact SymCorrProofs.missing_exponent_is_error. Qed.
Print Assumptions missing_exponent_is_error.
