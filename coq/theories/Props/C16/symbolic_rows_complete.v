From SageVerif Require Import Proofs.SymCorrSpec Proofs.SymCorrProofs.
Theorem symbolic_rows_complete : symbolic_rows_complete_stmt.
Proof. exact SymCorrProofs.symbolic_rows_complete. Qed.
Print Assumptions symbolic_rows_complete.
