From SageVerif Require Import Proofs.GenSymCorrSpec Proofs.GenSymCorrProofs.
Theorem gen_moment_reduction_identity : gen_moment_reduction_identity_stmt.
Proof. exact GenSymCorrProofs.gen_moment_reduction_identity. Qed.
Print Assumptions gen_moment_reduction_identity.
