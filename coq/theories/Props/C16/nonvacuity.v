(* Non-vacuity for C16: s = y + 1, h = y - 1 over L = {y^2, y, 1} and the missing-exponent error. *)
From Coq Require Import List Bool Arith ZArith QArith.
From SageVerif Require Import Model.Signomial Model.SolverForms Model.SymCorr.
Import ListNotations.
Definition s1 : qsig := [([1%Q], 1%Q); ([0%Q], 1%Q)].
Definition h1 : qsig := [([1%Q], 1%Q); ([0%Q], (-1)%Q)].
Definition L1 : qsig := [([2%Q], 1%Q); ([1%Q], 1%Q); ([0%Q], 1%Q)].
Example mra_builders_case :
  moment_reduction_array true 1 s1 h1 L1 = Ok [[1%Q; (-1)%Q; 0%Q]; [0%Q; 1%Q; (-1)%Q]].
Proof. vm_compute. reflexivity. Qed.
Example mra_missing_exponent_is_error :
  moment_reduction_array true 1 s1 h1 [([2%Q], 1%Q); ([0%Q], 1%Q)] = Err 1.
Proof. vm_compute. reflexivity. Qed.
(* numeric s_h whose product cancels the y term: accepted, and the identity holds for s's own coefficients *)
Example mra_numeric_cancellation :
  moment_reduction_array false 1 s1 h1 [([2%Q], 1%Q); ([0%Q], 1%Q)] = Ok [[1%Q; 0%Q]; [0%Q; (-1)%Q]].
Proof. vm_compute. reflexivity. Qed.
Print Assumptions mra_builders_case.
