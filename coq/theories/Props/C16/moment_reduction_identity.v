From SageVerif Require Import Proofs.SymCorrSpec Proofs.SymCorrProofs.
Theorem moment_reduction_identity : moment_reduction_identity_stmt.
Proof. exact SymCorrProofs.moment_reduction_identity. Qed.
Print Assumptions moment_reduction_identity.
