From SageVerif Require Import Proofs.SymCorrSpec Proofs.SymCorrProofs.
Theorem moment_reduction_own : moment_reduction_own_stmt.
Proof. exact SymCorrProofs.moment_reduction_own. Qed.
Print Assumptions moment_reduction_own.
