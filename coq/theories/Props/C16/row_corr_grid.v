From SageVerif Require Import Proofs.SymCorrSpec Proofs.SymCorrProofs.
Theorem row_corr_grid : row_corr_grid_stmt.
Proof. exact SymCorrProofs.row_corr_grid. Qed.
Print Assumptions row_corr_grid.
