From SageVerif Require Import Proofs.GenSymCorrSpec Proofs.GenSymCorrProofs.
Theorem gen_mra_equiv : gen_mra_equiv_stmt.
Proof. exact GenSymCorrProofs.gen_mra_equiv. Qed.
Print Assumptions gen_mra_equiv.
