From SageVerif Require Import Proofs.GenSymCorrSpec Proofs.GenSymCorrProofs.
Theorem gen_etol_is_model : gen_etol_is_model_stmt.
Proof. exact GenSymCorrProofs.gen_etol_is_model. Qed.
Print Assumptions gen_etol_is_model.
