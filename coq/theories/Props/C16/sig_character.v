From SageVerif Require Import Proofs.SymCorrSpec Proofs.SymCorrProofs.
Theorem sig_character : sig_character_stmt.
Proof. exact SymCorrProofs.sig_character. Qed.
Print Assumptions sig_character.
