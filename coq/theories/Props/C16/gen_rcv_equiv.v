From SageVerif Require Import Proofs.GenSymCorrSpec Proofs.GenSymCorrProofs.
Theorem gen_rcv_equiv : gen_rcv_equiv_stmt.
Proof. exact GenSymCorrProofs.gen_rcv_equiv. Qed.
Print Assumptions gen_rcv_equiv.
