From SageVerif Require Import Proofs.GenSymCorrSpec Proofs.GenSymCorrProofs.
Theorem gen_row_correspondence_equiv : gen_row_correspondence_equiv_stmt.
Proof. exact GenSymCorrProofs.gen_row_correspondence_equiv. Qed.
Print Assumptions gen_row_correspondence_equiv.
