From SageVerif Require Import Proofs.GenSymCorrSpec Proofs.GenSymCorrProofs.
Theorem gen_missing_exponent_is_error : gen_missing_exponent_is_error_stmt.
Proof. exact GenSymCorrProofs.gen_missing_exponent_is_error. Qed.
Print Assumptions gen_missing_exponent_is_error.
