From SageVerif Require Import Proofs.SageSpec Proofs.SagePrimalProofs.
(* forcing equality of the AGE sum can only shrink the feasible set (never certifies more) *)
Theorem force_equality_restricts : force_equality_restricts_stmt.
Proof. exact SagePrimalProofs.force_equality_restricts. Qed.
Print Assumptions force_equality_restricts.
