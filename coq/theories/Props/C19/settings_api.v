From SageVerif Require Import Proofs.HistorySpec Proofs.HistoryProofs.
(* per-constraint settings= overrides and the global setters select the same options *)
Theorem override_beats_default : override_beats_default_stmt.
Proof. exact HistoryProofs.override_beats_default. Qed.
Theorem settings_snapshot : settings_snapshot_stmt.
Proof. exact HistoryProofs.settings_snapshot. Qed.
Print Assumptions override_beats_default.
