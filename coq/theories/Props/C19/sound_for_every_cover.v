From SageVerif Require Import Proofs.SageSpec Proofs.SagePrimalProofs Proofs.SageDualProofs.
(* whatever covers the presolve options produce (trivial-AGE presolve, heuristic reduction, user covers),
   primal rows certify nonnegativity and dual rows admit all moment vectors: options can only lower a
   bound, never push it above the true minimum *)
Theorem primal_sound_every_cover : primal_rows_sound_stmt.
Proof. exact SagePrimalProofs.primal_rows_sound. Qed.
Theorem dual_complete_every_cover : dual_rows_admit_moments_stmt.
Proof. exact SageDualProofs.dual_rows_admit_moments. Qed.
Print Assumptions primal_sound_every_cover.
