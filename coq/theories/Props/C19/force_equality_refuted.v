(* Known finding F7 (C19), as a machine-checked statement about the faithful model:
   for f = 1 + e^{2x} + e^{2y} - e^{x} with the covers the implementation computes (its presolve removes
   e^{2y} from the only AGE cone), forcing the AGE vectors to sum to c EXACTLY makes the rows
   unsatisfiable (the row of e^{2y} reads 1 = 0), although the constraint is feasible with "<=". *)
From Coq Require Import Reals List Bool Arith ZArith QArith Lra.
From SageVerif Require Import Math.RVec Model.Expr Model.SolverForms Model.Compile Model.Sage
                              Proofs.ExprSpec Proofs.FormsSpec Proofs.CompileSpec.
Import ListNotations.
Definition alpha4 : list (list Q) := [[0%Q; 0%Q]; [2%Q; 0%Q]; [0%Q; 2%Q]; [1%Q; 0%Q]].
Definition c4 : list sexpr := [sconst 1%Q; sconst 1%Q; sconst 1%Q; sconst (-1)%Q].
Definition cov4 (i : nat) : list bool := [true; true; false; false].
Definition ids4 (i : nat) : age_ids := {| a_nu := [10%Z; 11%Z]; a_epi := [12%Z; 13%Z]; a_eta := []; a_c := [14%Z; 15%Z] |}.

Theorem force_equality_refuted :
  forall bs, primal_blocks 2 2 alpha4 c4 None cov4 ids4 {| force_equality := true |} 99%Z = Some bs ->
  forall rho, ~ blocks_sat rho bs.
Proof.
  intros bs Hbs rho Hsat.
  vm_compute in Hbs. injection Hbs as <-.
  unfold blocks_sat in Hsat.
  repeat match goal with H : Forall _ (_ :: _) |- _ => inversion H; subst; clear H end.
  match goal with H : block_sat rho ([(T0, 4%nat)], _) |- _ => rename H into Hz end.
  unfold block_sat in Hz. cbn [fst snd semK map sem_tag in_K firstn skipn length] in Hz.
  destruct Hz as [_ [Hz _]].
  cbn [in_cone] in Hz.
  inversion Hz as [|? ? _ Hz1]; subst. inversion Hz1 as [|? ? _ Hz2]; subst.
  inversion Hz2 as [|? ? Hrow _]; subst.
  unfold rrow_val, qe_val in Hrow. cbn in Hrow.
  unfold Q2R in Hrow. cbn in Hrow. lra.
Qed.
Print Assumptions force_equality_refuted.
