From SageVerif Require Import Proofs.SageSpec Proofs.SageDualProofs.
(* compact_dual is exact: both row formats have the same projection onto (v, mu), for every X *)
Theorem compact_iff_epigraph : compact_iff_epigraph_stmt.
Proof. exact SageDualProofs.compact_iff_epigraph. Qed.
Print Assumptions compact_iff_epigraph.
