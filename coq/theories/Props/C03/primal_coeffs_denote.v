From SageVerif Require Import Proofs.RelaxSpec Proofs.RelaxProofs.
Theorem primal_coeffs_denote : primal_coeffs_denote_stmt.
Proof. exact RelaxBase.primal_coeffs_denote. Qed.
Print Assumptions primal_coeffs_denote.
