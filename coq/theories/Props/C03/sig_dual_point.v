From SageVerif Require Import Proofs.RelaxSpec Proofs.RelaxProofs.
Theorem sig_dual_point : sig_dual_point_stmt.
Proof. exact RelaxDual.sig_dual_point. Qed.
Print Assumptions sig_dual_point.
