From SageVerif Require Import Proofs.SageSpec Proofs.SagePairingProofs.
(* weak duality between the rows of a primal and of a dual SAGE constraint over the same (alpha, X) *)
Theorem sage_pairing : sage_pairing_stmt.
Proof. exact SagePairingProofs.sage_pairing. Qed.
Print Assumptions sage_pairing.
