(* Non-vacuity for C03: the data of sig_primal / sig_dual for f = e^{2x} - 2e^{x} + 3 at ell = 1. *)
From Coq Require Import List Bool Arith ZArith QArith.
From SageVerif Require Import Model.Expr Model.Signomial Model.SymSig Model.SolverForms Model.SymCorr Model.RelaxSig.
Import ListNotations.
Definition f1 : qsig := [([2%Q], 1%Q); ([1%Q], (-2)%Q); ([0%Q], 3%Q)].
Example primal_data : map fst (sig_primal_m 1 f1 1 0%Z None) = [[0%Q]; [1%Q]; [2%Q]; [3%Q]; [4%Q]].
Proof. vm_compute. reflexivity. Qed.
Example dual_data :
  let '(L, a, obj) := sig_dual_m 1 f1 1 0%Z None in
  length L = 5%nat /\ a = [1%Q; 1%Q; 1%Q; 0%Q; 0%Q] /\ obj = [3%Q; 1%Q; 2%Q; (-1)%Q; 1%Q].
Proof. vm_compute. repeat split; reflexivity. Qed.
Print Assumptions primal_data.
