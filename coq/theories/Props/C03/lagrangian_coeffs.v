From SageVerif Require Import Proofs.RelaxSpec Proofs.RelaxProofs.
Theorem lagrangian_coeffs : lagrangian_coeffs_stmt.
Proof. exact RelaxCoef.lagrangian_coeffs. Qed.
Print Assumptions lagrangian_coeffs.
