From SageVerif Require Import Proofs.RelaxSpec Proofs.RelaxProofs.
Theorem modulator_pos : modulator_pos_stmt.
Proof. exact RelaxBase.modulator_pos. Qed.
Print Assumptions modulator_pos.
