(* a primal (MAX) problem deemed infeasible by the solver is reported as the bound -infinity; a dual (MIN)
   problem deemed infeasible as +infinity: from the tables regenerated from ecos.py / problem.py *)
From Coq Require Import ZArith.
From SageVerif Require Import Gen.GenEcosParse Gen.GenProblemSolve Model.ProblemSM Proofs.ProblemSpec Proofs.ProblemProofs.
Theorem infeasible_primal_is_minus_inf :
  forall x pc, expected_outcome false {| a_flag := 1%Z; a_x := x; a_pcost := pc |} = Out Solved NInf /\
               expected_outcome true {| a_flag := 1%Z; a_x := x; a_pcost := pc |} = Out Solved PInf.
Proof. intros; split; reflexivity. Qed.
Print Assumptions infeasible_primal_is_minus_inf.
