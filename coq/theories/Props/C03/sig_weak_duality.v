From SageVerif Require Import Proofs.RelaxSpec Proofs.RelaxProofs.
Theorem sig_weak_duality : sig_weak_duality_stmt.
Proof. exact RelaxDual.sig_weak_duality. Qed.
Print Assumptions sig_weak_duality.
