From SageVerif Require Import Proofs.RelaxSpec Proofs.RelaxProofs.
Theorem sig_primal_sound : sig_primal_sound_stmt.
Proof. exact RelaxBase.sig_primal_sound. Qed.
Print Assumptions sig_primal_sound.
