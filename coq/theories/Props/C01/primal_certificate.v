From SageVerif Require Import Proofs.SageSpec Proofs.SagePrimalProofs.
Theorem primal_certificate : primal_certificate_stmt.
Proof. exact SagePrimalProofs.primal_certificate. Qed.
Print Assumptions primal_certificate.
