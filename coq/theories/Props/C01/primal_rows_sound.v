From SageVerif Require Import Proofs.SageSpec Proofs.SagePrimalProofs.
Theorem primal_rows_sound : primal_rows_sound_stmt.
Proof. exact SagePrimalProofs.primal_rows_sound. Qed.
Print Assumptions primal_rows_sound.
