(* Non-vacuity for C01: the primal rows of f = 1 + e^{2x} - 2e^{x} (the AM/GM certificate), ordinary SAGE. *)
From Coq Require Import List Bool Arith ZArith QArith.
From SageVerif Require Import Model.Expr Model.SolverForms Model.Compile Model.Sage.
Import ListNotations.
Definition alpha3 : list (list Q) := [[0%Q]; [2%Q]; [1%Q]].
Definition c3 : list sexpr := [sconst 1%Q; sconst 1%Q; sconst (-2)%Q].
Definition cov (i : nat) : list bool := [true; true; false].
Definition pids (i : nat) : age_ids := {| a_nu := [10%Z; 11%Z]; a_epi := [12%Z; 13%Z]; a_eta := []; a_c := [14%Z; 15%Z] |}.
Example primal_blocks_shape :
  match primal_blocks 1 1 alpha3 c3 None cov pids {| force_equality := false |} 99%Z with
  | Some bs => map fst bs = [[(TPos, 1%nat); (TExp, 3%nat); (TExp, 3%nat)]; [(T0, 1%nat)]; [(TPos, 3%nat)]]
  | None => False
  end.
Proof. vm_compute. reflexivity. Qed.
Example classification : indices_where in_UI c3 = [2%nat] /\ indices_where in_NI c3 = [2%nat] /\ indices_where in_PI c3 = [0%nat; 1%nat].
Proof. vm_compute. repeat split; reflexivity. Qed.
Print Assumptions primal_blocks_shape.
