From SageVerif Require Import Proofs.PolySpec Proofs.PolyProofs.
Theorem sigrep_even_unchanged : sigrep_even_unchanged_stmt.
Proof. exact PolyRepProofs.sigrep_even_unchanged. Qed.
Print Assumptions sigrep_even_unchanged.
