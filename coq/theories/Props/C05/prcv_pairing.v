From SageVerif Require Import Proofs.PolyConDualSpec Proofs.PolyConDualProofs.
Theorem prcv_pairing : prcv_pairing_stmt.
Proof. exact PolyConDualProofs.prcv_pairing. Qed.
Print Assumptions prcv_pairing.
