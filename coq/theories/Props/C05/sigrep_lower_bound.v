From SageVerif Require Import Proofs.PolySpec Proofs.PolyProofs.
Theorem sigrep_lower_bound : sigrep_lower_bound_stmt.
Proof. exact PolyRepProofs.sigrep_lower_bound. Qed.
Print Assumptions sigrep_lower_bound.
