From SageVerif Require Import Proofs.PolySpec Proofs.PolyProofs.
Theorem create_covers_valid : create_covers_valid_stmt.
Proof. exact PolyRepProofs.create_covers_valid. Qed.
Print Assumptions create_covers_valid.
