From SageVerif Require Import Proofs.PolyConDualSpec Proofs.PolyConDualProofs.
Theorem poly_pcharacter : poly_pcharacter_stmt.
Proof. exact PolyConDualProofs.poly_pcharacter. Qed.
Print Assumptions poly_pcharacter.
