From SageVerif Require Import Proofs.PolySpec Proofs.PolyProofs.
Theorem poly_primal_sound : poly_primal_sound_stmt.
Proof. exact PolyRelax.poly_primal_sound. Qed.
Print Assumptions poly_primal_sound.
