(* Non-vacuity for C05: p = x^2 y + 3 x y^2 - 2 x^2 + c*x (c symbolic): representative, covers, links. *)
From Coq Require Import List Bool Arith ZArith QArith.
From SageVerif Require Import Model.Expr Model.Signomial Model.SymSig Model.PolyRep.
Import ListNotations.
Definition p1 : list (qrow * sexpr) :=
  [([2%Q; 1%Q], sconst 1%Q); ([1%Q; 2%Q], sconst 3%Q); ([2%Q; 0%Q], sconst (-2)%Q); ([1%Q; 0%Q], svar 7)].
Example sigrep_runs :
  let '(sr, side) := sig_rep p1 [50%Z] in
  map (fun t => off (snd t)) sr = [(-1)%Q; (-3)%Q; (-2)%Q; 0%Q] /\ map fst side = [50%Z] /\
  create_covers sr = [Some [false; false; true; false]; Some [false; false; true; false];
                      Some [false; false; false; false]; Some [false; false; true; false]] /\
  dual_poly_links sr = Some [false; false; true; false].
Proof. vm_compute. repeat split; reflexivity. Qed.
Print Assumptions sigrep_runs.
