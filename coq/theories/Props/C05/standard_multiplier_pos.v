From SageVerif Require Import Proofs.PolySpec Proofs.PolyProofs.
Theorem standard_multiplier_pos : standard_multiplier_pos_stmt.
Proof. exact PolyRepProofs.standard_multiplier_pos. Qed.
Print Assumptions standard_multiplier_pos.
