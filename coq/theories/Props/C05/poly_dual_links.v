From SageVerif Require Import Proofs.PolySpec Proofs.PolyProofs.
Theorem poly_dual_links : poly_dual_links_stmt.
Proof. exact PolyRepProofs.poly_dual_links. Qed.
Print Assumptions poly_dual_links.
