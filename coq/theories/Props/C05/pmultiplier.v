From SageVerif Require Import Proofs.PolyConDualSpec Proofs.PolyConDualProofs.
Theorem pmultiplier : pmultiplier_stmt.
Proof. exact PolyConDualProofs.pmultiplier. Qed.
Print Assumptions pmultiplier.
