From SageVerif Require Import Proofs.PolyConDualSpec Proofs.PolyConDualProofs.
Theorem poly_constrained_dual_point : poly_constrained_dual_point_stmt.
Proof. exact PolyConDualProofs.poly_constrained_dual_point. Qed.
Print Assumptions poly_constrained_dual_point.
