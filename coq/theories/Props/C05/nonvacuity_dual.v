(* Non-vacuity for the dual-form theorems of C05: min x^2 - x s.t. 1 - x^2 >= 0 with a constant multiplier: the Lagrangian's basis
   {1, x, x^2} contains the rows of t = 1 and of f*t, and the moment-reduction array of the multiplier exists. *)
From Coq Require Import List Bool Arith ZArith QArith.
From SageVerif Require Import Model.Signomial Model.SolverForms Model.SymCorr Model.RelaxSig.
Import ListNotations.
Definition one1 : qsig := [([0%Q], 1%Q)].
Definition g1 : qsig := [([0%Q], 1%Q); ([2%Q], (-1)%Q)].
Definition f1 : qsig := [([2%Q], 1%Q); ([1%Q], (-1)%Q)].
Definition L1 : qsig := [([0%Q], 1%Q); ([1%Q], 1%Q); ([2%Q], 1%Q)].
Example poly_dual_data_exists :
  moment_reduction_array true 1 one1 (q_mul 1 g1 one1) L1 = Ok [[1%Q; 0%Q; (-1)%Q]] /\
  relative_coeff_vector one1 (map fst L1) = [1%Q; 0%Q; 0%Q] /\
  relative_coeff_vector (q_mul 1 f1 one1) (map fst L1) = [0%Q; (-1)%Q; 1%Q] /\
  rows_contained one1 (map fst L1) = true /\ rows_contained (q_mul 1 f1 one1) (map fst L1) = true.
Proof. vm_compute. repeat split; reflexivity. Qed.
Print Assumptions poly_dual_data_exists.
