From SageVerif Require Import Proofs.PolySpec Proofs.PolyProofs.
Theorem bound_extends_by_continuity : bound_extends_by_continuity_stmt.
Proof. exact PolyRelax.bound_extends_by_continuity. Qed.
Print Assumptions bound_extends_by_continuity.
