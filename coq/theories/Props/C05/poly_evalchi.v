From SageVerif Require Import Proofs.PolyConDualSpec Proofs.PolyConDualProofs.
Theorem poly_evalchi : poly_evalchi_stmt.
Proof. exact PolyConDualProofs.poly_evalchi. Qed.
Print Assumptions poly_evalchi.
