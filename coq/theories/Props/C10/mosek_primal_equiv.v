From SageVerif Require Import Proofs.FormsSpec Proofs.FormsProofs.
Theorem mosek_primal_equiv : mosek_primal_equiv_stmt.
Proof. exact FormsMosek.mosek_primal_equiv. Qed.
Print Assumptions mosek_primal_equiv.
