From SageVerif Require Import Proofs.GenMFormsSpec Proofs.GenMFormsProofs.
Theorem gen_separate_equiv : gen_separate_equiv_stmt.
Proof. exact GenMFormsProofs.gen_separate_equiv. Qed.
Print Assumptions gen_separate_equiv.
