From SageVerif Require Import Proofs.FormsSpec Proofs.FormsProofs.
Theorem ecos_error_iff : ecos_error_iff_stmt.
Proof. exact FormsEcos.ecos_error_iff. Qed.
Print Assumptions ecos_error_iff.
