From SageVerif Require Import Proofs.GenMFormsSpec Proofs.GenMFormsProofs.
Theorem gen_mosek_primal_equiv : gen_mosek_primal_equiv_stmt.
Proof. exact GenMFormsProofs.gen_mosek_primal_equiv. Qed.
Print Assumptions gen_mosek_primal_equiv.
