From SageVerif Require Import Proofs.GenFormsSpec Proofs.GenFormsProofs.
Theorem gen_ecos_feasible_iff : gen_ecos_feasible_iff_stmt.
Proof. exact GenFormsProofs.gen_ecos_feasible_iff. Qed.
Print Assumptions gen_ecos_feasible_iff.
