From SageVerif Require Import Proofs.GenMFormsSpec Proofs.GenMFormsProofs.
Theorem gen_mosek_dual_reorder : gen_mosek_dual_reorder_stmt.
Proof. exact GenMFormsProofs.gen_mosek_dual_reorder. Qed.
Print Assumptions gen_mosek_dual_reorder.
