From SageVerif Require Import Proofs.FormsSpec Proofs.FormsProofs.
Theorem ecos_feasible_iff : ecos_feasible_iff_stmt.
Proof. exact FormsEcos.ecos_feasible_iff. Qed.
Print Assumptions ecos_feasible_iff.
