From SageVerif Require Import Proofs.FormsSpec Proofs.FormsProofs.
Theorem dualize_shape : dualize_shape_stmt.
Proof. exact FormsDual.dualize_shape. Qed.
Print Assumptions dualize_shape.
