From SageVerif Require Import Proofs.MosekSpec Proofs.MosekProofs.
Theorem mosek_decide : mosek_decide_stmt.
Proof. exact MosekProofs.mosek_decide. Qed.
Print Assumptions mosek_decide.
