From SageVerif Require Import Proofs.FormsSpec Proofs.FormsProofs.
Theorem separate_projection : separate_projection_stmt.
Proof. exact FormsSeparate.separate_projection. Qed.
Print Assumptions separate_projection.
