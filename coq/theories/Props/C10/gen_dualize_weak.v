From SageVerif Require Import Proofs.GenMFormsSpec Proofs.GenMFormsProofs.
Theorem gen_dualize_weak : gen_dualize_weak_stmt.
Proof. exact GenMFormsProofs.gen_dualize_weak. Qed.
Print Assumptions gen_dualize_weak.
