From SageVerif Require Import Proofs.GenMFormsSpec Proofs.GenMFormsProofs.
Theorem gen_separate_projection : gen_separate_projection_stmt.
Proof. exact GenMFormsProofs.gen_separate_projection. Qed.
Print Assumptions gen_separate_projection.
