From SageVerif Require Import Proofs.FormsSpec Proofs.FormsProofs.
Theorem separate_structure : separate_structure_stmt.
Proof. exact FormsSeparate.separate_structure. Qed.
Print Assumptions separate_structure.
