From SageVerif Require Import Proofs.GenMFormsSpec Proofs.GenMFormsProofs.
Theorem gen_mosek_dual_apply_equiv : gen_mosek_dual_apply_equiv_stmt.
Proof. exact GenMFormsProofs.gen_mosek_dual_apply_equiv. Qed.
Print Assumptions gen_mosek_dual_apply_equiv.
