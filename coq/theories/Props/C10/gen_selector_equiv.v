From SageVerif Require Import Proofs.GenFormsSpec Proofs.GenFormsProofs.
Theorem gen_selector_equiv : gen_selector_equiv_stmt.
Proof. exact GenFormsProofs.gen_selector_equiv. Qed.
Print Assumptions gen_selector_equiv.
