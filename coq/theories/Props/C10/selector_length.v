From SageVerif Require Import Proofs.FormsSpec Proofs.FormsProofs.
Theorem selector_length : selector_length_stmt.
Proof. exact FormsLemmas.selector_length. Qed.
Print Assumptions selector_length.
