From SageVerif Require Import Proofs.GenMFormsSpec Proofs.GenMFormsProofs.
Theorem gen_dualize_equiv : gen_dualize_equiv_stmt.
Proof. exact GenMFormsProofs.gen_dualize_equiv. Qed.
Print Assumptions gen_dualize_equiv.
