From SageVerif Require Import Proofs.GenFormsSpec Proofs.GenFormsProofs.
Theorem gen_ecos_apply_equiv : gen_ecos_apply_equiv_stmt.
Proof. exact GenFormsProofs.gen_ecos_apply_equiv. Qed.
Print Assumptions gen_ecos_apply_equiv.
