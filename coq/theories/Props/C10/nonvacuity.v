(* Non-vacuity and the repaired defect F1: on two adjacent second-order cones the run-length
   helper contiguous_selector_lengths merges the cones ([6%nat]) whereas ECOS.apply (after the fix,
   and the model) reports the lengths of K ([3;3]). *)
From Coq Require Import List Bool Arith QArith.
From SageVerif Require Import Model.SolverForms Model.SolverFormsQ.
Import ListNotations.
Example csl_merges_adjacent_soc :
  contiguous_selector_lengths (selector [(TSoc, 3%nat); (TSoc, 3%nat)] TSoc) = [6%nat].
Proof. vm_compute. reflexivity. Qed.
Example ecos_apply_keeps_adjacent_soc :
  match ecos_apply qopp [1%Q] (repeat [1%Q] 6) (repeat 0%Q 6) [(TSoc, 3%nat); (TSoc, 3%nat)] with
  | Ok d => eq_ d = [3%nat; 3%nat] /\ el d = 0%nat /\ ee d = 0%nat
  | Err _ => False
  end.
Proof. vm_compute. repeat split; reflexivity. Qed.
Example separate_example :
  let '(A2, b2, K2, sl) := separate 0%Q 1%Q qopp 1%nat [[1%Q]; [2%Q]; [3%Q]; [1%Q]] [0%Q; 0%Q; 0%Q; 1%Q]
                                     [(TSoc, 3%nat); (TPos, 1%nat)] (fun t => ctag_eqb t TPos) in
  K2 = [(T0, 3%nat); (TPos, 1%nat)] /\ map snd sl = [[1%nat; 2%nat; 3%nat]] /\ length (hd [] A2) = 4%nat.
Proof. vm_compute. repeat split; reflexivity. Qed.
Print Assumptions csl_merges_adjacent_soc.
(* the hypotheses of gen_separate_equiv are met by a concrete instance with a separated second-order cone and a kept orthant *)
From SageVerif Require Import Model.FormIdioms Gen.GenForms Gen.GenMosekForms.
Example gen_separate_example :
  let A := [[1%Q]; [2%Q]; [3%Q]; [1%Q]] in let K := [(TSoc, 3%nat); (TPos, 1%nat)] in
  length A = Ksize K /\
  gen_separate 0%Q 1%Q qopp (fun a b => Qred (a + b)) 1%nat A [0%Q; 0%Q; 0%Q; 1%Q] K (Some [TPos])
  = separate 0%Q 1%Q qopp 1%nat A [0%Q; 0%Q; 0%Q; 1%Q] K (fun t => existsb (ctag_eqb t) [TPos]).
Proof. vm_compute. split; reflexivity. Qed.
