From SageVerif Require Import Proofs.FormsSpec Proofs.FormsProofs.
Theorem transpose_mv : transpose_mv_stmt.
Proof. exact FormsDual.transpose_mv. Qed.
Print Assumptions transpose_mv.
