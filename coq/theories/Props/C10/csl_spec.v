From SageVerif Require Import Proofs.FormsSpec Proofs.FormsProofs.
Theorem csl_spec : csl_spec_stmt.
Proof. exact FormsEcos.csl_spec. Qed.
Print Assumptions csl_spec.
