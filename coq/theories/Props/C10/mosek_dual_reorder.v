From SageVerif Require Import Proofs.FormsSpec Proofs.FormsProofs.
Theorem mosek_dual_reorder : mosek_dual_reorder_stmt.
Proof. exact FormsDual.mosek_dual_reorder. Qed.
Print Assumptions mosek_dual_reorder.
