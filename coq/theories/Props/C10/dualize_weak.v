From SageVerif Require Import Proofs.FormsSpec Proofs.FormsProofs.
Theorem dualize_weak : dualize_weak_stmt.
Proof. exact FormsDual.dualize_weak. Qed.
Print Assumptions dualize_weak.
