From SageVerif Require Import Proofs.MosekSpec Proofs.MosekProofs.
Theorem mosek_forms_agree : mosek_forms_agree_stmt.
Proof. exact MosekProofs.mosek_forms_agree. Qed.
Print Assumptions mosek_forms_agree.
