(* Non-vacuity for C14 and a refuted loose formulation (exponents not in lowest terms). *)
From Coq Require Import List Bool Arith ZArith QArith.
From SageVerif Require Import Model.Signomial Model.SigExpr Model.Calculus Proofs.CalcSpec Proofs.CalcProofs.
Import ListNotations.
Theorem poly_call_exact_loose_refuted : ~ poly_call_exact_loose_stmt.
Proof. exact CalcPoly.poly_call_exact_counterexample. Qed.
(* d/dx (x^2 y + 3x) = 2xy + 3 ; d/dy = x^2 ; the zero function for a constant *)
Definition p1 : qsig := [([2%Q; 1%Q], 1%Q); ([1%Q; 0%Q], 3%Q)].
Example poly_partials :
  poly_partial 2 0 p1 = [([1%Q; 1%Q], 2%Q); ([0%Q; 0%Q], 3%Q)] /\ poly_partial 2 1 p1 = [([2%Q; 0%Q], 1%Q)] /\
  poly_partial 2 1 [([1%Q; 0%Q], 3%Q)] = [([0%Q; 0%Q], 0%Q)].
Proof. vm_compute. repeat split; reflexivity. Qed.
Print Assumptions poly_call_exact_loose_refuted.
