From SageVerif Require Import Proofs.CalcSpec Proofs.CalcProofs.
Theorem as_poly_correct : as_poly_correct_stmt.
Proof. exact CalcPoly.as_poly_correct. Qed.
Print Assumptions as_poly_correct.
