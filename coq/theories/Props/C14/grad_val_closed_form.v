From SageVerif Require Import Proofs.CalcSpec Proofs.CalcProofs.
Theorem grad_val_closed_form : grad_val_closed_form_stmt.
Proof. exact CalcSig.grad_val_closed_form. Qed.
Print Assumptions grad_val_closed_form.
