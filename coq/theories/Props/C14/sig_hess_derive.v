From SageVerif Require Import Proofs.CalcSpec Proofs.CalcProofs.
Theorem sig_hess_derive : sig_hess_derive_stmt.
Proof. exact CalcSig.sig_hess_derive. Qed.
Print Assumptions sig_hess_derive.
