From SageVerif Require Import Proofs.CalcSpec Proofs.CalcProofs.
Theorem shift_correct : shift_correct_stmt.
Proof. exact CalcSig.shift_correct. Qed.
Print Assumptions shift_correct.
