From SageVerif Require Import Proofs.CalcSpec Proofs.CalcProofs.
Theorem hess_val_closed_form : hess_val_closed_form_stmt.
Proof. exact CalcSig.hess_val_closed_form. Qed.
Print Assumptions hess_val_closed_form.
