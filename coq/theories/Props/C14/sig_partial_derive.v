From SageVerif Require Import Proofs.CalcSpec Proofs.CalcProofs.
Theorem sig_partial_derive : sig_partial_derive_stmt.
Proof. exact CalcSig.sig_partial_derive. Qed.
Print Assumptions sig_partial_derive.
