From SageVerif Require Import Proofs.CalcSpec Proofs.CalcProofs.
Theorem poly_partial_derive : poly_partial_derive_stmt.
Proof. exact CalcPoly.poly_partial_derive. Qed.
Print Assumptions poly_partial_derive.
