From SageVerif Require Import Proofs.CalcSpec Proofs.CalcProofs.
Theorem sig_partial_wf : sig_partial_wf_stmt.
Proof. exact CalcSig.sig_partial_wf. Qed.
Print Assumptions sig_partial_wf.
