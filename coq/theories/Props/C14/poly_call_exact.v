From SageVerif Require Import Proofs.CalcSpec Proofs.CalcProofs.
Theorem poly_call_exact : poly_call_exact_stmt.
Proof. exact CalcPoly.poly_call_exact. Qed.
Print Assumptions poly_call_exact.
