From SageVerif Require Import Proofs.CompileSpec Proofs.CompileProofs.
Theorem compile_dims : compile_dims_stmt.
Proof. exact CompileBlocks.compile_dims. Qed.
Print Assumptions compile_dims.
