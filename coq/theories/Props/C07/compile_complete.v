From SageVerif Require Import Proofs.CompileSpec Proofs.CompileProofs.
Theorem compile_complete : compile_complete_stmt.
Proof. exact CompileMain.compile_complete. Qed.
Print Assumptions compile_complete.
