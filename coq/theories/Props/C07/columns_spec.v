From SageVerif Require Import Proofs.CompileSpec Proofs.CompileProofs.
Theorem columns_spec : columns_spec_stmt.
Proof. exact CompileBlocks.columns_spec. Qed.
Print Assumptions columns_spec.
