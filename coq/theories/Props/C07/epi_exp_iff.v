From SageVerif Require Import Proofs.CompileSpec Proofs.CompileProofs.
Theorem epi_exp_iff : epi_exp_iff_stmt.
Proof. exact CompileBlocks.epi_exp_iff. Qed.
Print Assumptions epi_exp_iff.
