From SageVerif Require Import Proofs.GenEpiSpec Proofs.GenEpiProofs.
Theorem gen_epi_block_equiv : gen_epi_block_equiv_stmt.
Proof. exact GenEpiProofs.gen_epi_block_equiv. Qed.
Print Assumptions gen_epi_block_equiv.
