From SageVerif Require Import Proofs.CompileSpec Proofs.CompileProofs.
Theorem epi_pos_iff : epi_pos_iff_stmt.
Proof. exact CompileBlocks.epi_pos_iff. Qed.
Print Assumptions epi_pos_iff.
