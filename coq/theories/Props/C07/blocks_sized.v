From SageVerif Require Import Proofs.CompileSpec Proofs.CompileProofs.
Theorem blocks_sized : blocks_sized_stmt.
Proof. exact CompileBlocks.blocks_sized. Qed.
Print Assumptions blocks_sized.
