From SageVerif Require Import Proofs.GenEpiSpec Proofs.GenEpiProofs.
Theorem gen_epi_exp_equiv : gen_epi_exp_equiv_stmt.
Proof. exact GenEpiProofs.gen_epi_exp_equiv. Qed.
Print Assumptions gen_epi_exp_equiv.
