From SageVerif Require Import Proofs.CompileSpec Proofs.CompileProofs.
Theorem compile_sound : compile_sound_stmt.
Proof. exact CompileMain.compile_sound. Qed.
Print Assumptions compile_sound.
