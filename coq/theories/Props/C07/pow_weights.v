From SageVerif Require Import Proofs.PowConeSpec Proofs.PowConeProofs.
Theorem pow_weights : pow_weights_stmt.
Proof. exact PowConeProofs.pow_weights. Qed.
Print Assumptions pow_weights.
