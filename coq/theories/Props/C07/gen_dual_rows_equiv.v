From SageVerif Require Import Proofs.GenProdConeSpec Proofs.GenProdConeProofs.
Theorem gen_dual_rows_equiv : gen_dual_rows_equiv_stmt.
Proof. exact GenProdConeProofs.gen_dual_rows_equiv. Qed.
Print Assumptions gen_dual_rows_equiv.
