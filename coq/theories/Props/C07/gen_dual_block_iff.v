From SageVerif Require Import Proofs.GenProdConeSpec Proofs.GenProdConeProofs.
Theorem gen_dual_block_iff : gen_dual_block_iff_stmt.
Proof. exact GenProdConeProofs.gen_dual_block_iff. Qed.
Print Assumptions gen_dual_block_iff.
