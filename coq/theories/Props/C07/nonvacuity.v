(* Non-vacuity for C07: a model with a shared atom, a constant row and a dual product cone compiles. *)
From Coq Require Import List Bool Arith ZArith QArith.
From SageVerif Require Import Model.Expr Model.SolverForms Model.Compile.
Import ListNotations.
Definition absx : atom := ANl KAbs [([(0%Z, 1%Q)], 0%Q)].
Definition cs1 : list econ :=
  [ {| e_op := OpLe; e_cells := [ {| terms := [(absx, 1%Q); (AVar 1, (-1)%Q)]; off := 0%Q |};
                                  {| terms := []; off := (-3)%Q |} ] |};
    {| e_op := OpEq; e_cells := [ {| terms := [(AVar 0, 1%Q); (AVar 1, 1%Q)]; off := (-2)%Q |} ] |} ].
Example compiles :
  match compile (fun _ => 5%Z) 9%Z cs1 [SDual [svar 0; svar 1; svar 1] [(TExp, 3%nat)]] [(0%nat, [0%Z; 1%Z])] with
  | Some c => c_K c = [(TPos, 2%nat); (T0, 1%nat); (TPos, 2%nat); (TExp, 3%nat)] /\ c_cols c = [0%Z; 1%Z; 5%Z; 9%Z] /\
              length (c_rows c) = 8%nat
  | None => False
  end.
Proof. vm_compute. repeat split; reflexivity. Qed.
Print Assumptions compiles.
