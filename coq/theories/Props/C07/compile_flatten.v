From SageVerif Require Import Proofs.CompileSpec Proofs.CompileProofs.
Theorem compile_flatten : compile_flatten_stmt.
Proof. exact CompileBlocks.compile_flatten. Qed.
Print Assumptions compile_flatten.
