From SageVerif Require Import Proofs.GenRowsSpec Proofs.GenRowsProofs.
Theorem gen_row_product_equiv : gen_row_product_equiv_stmt.
Proof. exact GenRowsProofs.gen_row_product_equiv. Qed.
Print Assumptions gen_row_product_equiv.
