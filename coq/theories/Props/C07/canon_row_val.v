From SageVerif Require Import Proofs.CompileSpec Proofs.CompileProofs.
Theorem canon_row_val : canon_row_val_stmt.
Proof. exact CompileRows.canon_row_val. Qed.
Print Assumptions canon_row_val.
