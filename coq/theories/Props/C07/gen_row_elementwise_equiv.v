From SageVerif Require Import Proofs.GenRowsSpec Proofs.GenRowsProofs.
Theorem gen_row_elementwise_equiv : gen_row_elementwise_equiv_stmt.
Proof. exact GenRowsProofs.gen_row_elementwise_equiv. Qed.
Print Assumptions gen_row_elementwise_equiv.
