From SageVerif Require Import Proofs.CompileSpec Proofs.CompileProofs.
Theorem primal_block_iff : primal_block_iff_stmt.
Proof. exact CompileBlocks.primal_block_iff. Qed.
Print Assumptions primal_block_iff.
