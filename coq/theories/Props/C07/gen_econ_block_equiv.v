From SageVerif Require Import Proofs.GenRowsSpec Proofs.GenRowsProofs.
Theorem gen_econ_block_equiv : gen_econ_block_equiv_stmt.
Proof. exact GenRowsProofs.gen_econ_block_equiv. Qed.
Print Assumptions gen_econ_block_equiv.
