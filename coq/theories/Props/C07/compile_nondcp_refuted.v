From SageVerif Require Import Proofs.CompileSpec Proofs.CompileProofs.
Theorem compile_nondcp_refuted : compile_nondcp_refuted_stmt.
Proof. exact CompileMain.compile_nondcp_refuted. Qed.
Print Assumptions compile_nondcp_refuted.
