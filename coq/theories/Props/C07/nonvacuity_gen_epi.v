(* Non-vacuity for the GenEpi tie of C07: the regenerated epigraph_conic_form evaluated on concrete atoms — a 2-norm with one non-constant and one
   constant argument (the constant argument gets the zero entry at the dummy column 9) and a relative entropy with a constant second argument
   (rows in the order epigraph / second argument / first argument). *)
From Coq Require Import List Bool Arith ZArith QArith.
From SageVerif Require Import Model.Expr Model.SolverForms Model.Compile Model.TripletIdioms Gen.GenEpi Proofs.GenEpiSpec.
Import ListNotations.
Example gen_epi_concrete :
  gen_epi_block 9%Z 7%Z (ANl KNorm2 [([(3%Z, (2#1)%Q); (4%Z, (-1#2)%Q)], (1#2)%Q); ([], (5#1)%Q)])
  = ([(TSoc, 3%nat)],
     [([(7%Z, (1%Q, 0%Q))], (0%Q, 0%Q));
      ([(3%Z, (2%Q, 0%Q)); (4%Z, ((-1 # 2)%Q, 0%Q))], ((1 # 2)%Q, 0%Q));
      ([(9%Z, (0%Q, 0%Q))], (5%Q, 0%Q))])
  /\ gen_epi_block 9%Z 7%Z (ANl KRelEnt [([(3%Z, (2#1)%Q)], (0#1)%Q); ([], (5#1)%Q)])
  = ([(TExp, 3%nat)],
     [([(7%Z, ((-1)%Q, 0%Q))], (0%Q, 0%Q)); ([(9%Z, (0%Q, 0%Q))], (5%Q, 0%Q)); ([(3%Z, (2%Q, 0%Q))], (0%Q, 0%Q))])
  /\ atom_wf (ANl KRelEnt [([(3%Z, (2#1)%Q)], (0#1)%Q); ([], (5#1)%Q)]) = true.
Proof. vm_compute. repeat split; reflexivity. Qed.
Print Assumptions gen_epi_concrete.
