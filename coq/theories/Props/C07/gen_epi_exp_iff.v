From SageVerif Require Import Proofs.GenEpiSemSpec Proofs.GenEpiSemProofs.
Theorem gen_epi_exp_iff : gen_epi_exp_iff_stmt.
Proof. exact GenEpiSemProofs.gen_epi_exp_iff. Qed.
Print Assumptions gen_epi_exp_iff.
