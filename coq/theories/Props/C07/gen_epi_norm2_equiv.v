From SageVerif Require Import Proofs.GenEpiSpec Proofs.GenEpiProofs.
Theorem gen_epi_norm2_equiv : gen_epi_norm2_equiv_stmt.
Proof. exact GenEpiProofs.gen_epi_norm2_equiv. Qed.
Print Assumptions gen_epi_norm2_equiv.
