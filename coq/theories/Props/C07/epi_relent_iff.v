From SageVerif Require Import Proofs.CompileSpec Proofs.CompileProofs.
Theorem epi_relent_iff : epi_relent_iff_stmt.
Proof. exact CompileBlocks.epi_relent_iff. Qed.
Print Assumptions epi_relent_iff.
