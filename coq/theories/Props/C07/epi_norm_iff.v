From SageVerif Require Import Proofs.CompileSpec Proofs.CompileProofs.
Theorem epi_norm_iff : epi_norm_iff_stmt.
Proof. exact CompileBlocks.epi_norm_iff. Qed.
Print Assumptions epi_norm_iff.
