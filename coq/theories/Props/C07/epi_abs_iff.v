From SageVerif Require Import Proofs.CompileSpec Proofs.CompileProofs.
Theorem epi_abs_iff : epi_abs_iff_stmt.
Proof. exact CompileBlocks.epi_abs_iff. Qed.
Print Assumptions epi_abs_iff.
