From SageVerif Require Import Proofs.PowConeSpec Proofs.PowConeProofs.
Theorem pow_block_iff : pow_block_iff_stmt.
Proof. exact PowConeProofs.pow_block_iff. Qed.
Print Assumptions pow_block_iff.
