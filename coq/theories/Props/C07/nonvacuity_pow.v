(* Non-vacuity for the PowCone theorems: PowCone(w, lamb) with lamb = (1, -4, 3), w = (x0 + 1, 2 x1, x2): the hypotheses of
   pow_block_iff hold and the model emits the w rows in order, then the z row, with weights (1/4, 3/4). *)
From Coq Require Import List Bool Arith ZArith QArith Qabs.
From SageVerif Require Import Model.Expr Model.SolverForms Model.Compile Model.PowCone Proofs.CompileSpec.
Import ListNotations.
Definition w1 : list sexpr := [ {| terms := [(AVar 0, 1%Q)]; off := 1%Q |} ].
Definition wk : sexpr := {| terms := [(AVar 1, 2%Q)]; off := 0%Q |}.
Definition w2 : list sexpr := [ svar 2 ].
Example pow_hypotheses_hold :
  length w1 = length [1%Q] /\ length w2 = length [3%Q] /\ Forall (fun l => (0 < l)%Q) [1%Q] /\ Forall (fun l => (0 < l)%Q) [3%Q] /\
  ((-4)%Q < 0)%Q /\ (Qabs (qsum ([1%Q] ++ (-4)%Q :: [3%Q])) <= pow_tol)%Q /\ Forall affine_cell (w1 ++ wk :: w2) /\
  pow_conic_form 9%Z (w1 ++ wk :: w2) ([1%Q] ++ (-4)%Q :: [3%Q]) =
    PowOk [(TPow, 3%nat)] (map (prow 9%Z) (w1 ++ w2 ++ [wk])) [(1 # 4)%Q; (3 # 4)%Q].
Proof.
  repeat split; try reflexivity; try (repeat constructor; reflexivity).
  - vm_compute. discriminate.
Qed.
Print Assumptions pow_hypotheses_hold.
