From SageVerif Require Import Proofs.GenEpiSpec Proofs.GenEpiProofs.
Theorem gen_epi_pos_equiv : gen_epi_pos_equiv_stmt.
Proof. exact GenEpiProofs.gen_epi_pos_equiv. Qed.
Print Assumptions gen_epi_pos_equiv.
