From SageVerif Require Import Proofs.GenEpiSemSpec Proofs.GenEpiSemProofs.
Theorem gen_epi_relent_iff : gen_epi_relent_iff_stmt.
Proof. exact GenEpiSemProofs.gen_epi_relent_iff. Qed.
Print Assumptions gen_epi_relent_iff.
