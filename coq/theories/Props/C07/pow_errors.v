From SageVerif Require Import Proofs.PowConeSpec Proofs.PowConeProofs.
Theorem pow_errors : pow_errors_stmt.
Proof. exact PowConeProofs.pow_errors. Qed.
Print Assumptions pow_errors.
