From SageVerif Require Import Proofs.CompileSpec Proofs.CompileProofs.
Theorem dual_block_iff : dual_block_iff_stmt.
Proof. exact CompileBlocks.dual_block_iff. Qed.
Print Assumptions dual_block_iff.
