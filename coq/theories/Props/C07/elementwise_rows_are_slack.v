From SageVerif Require Import Proofs.CompileSpec Proofs.CompileProofs.
Theorem elementwise_rows_are_slack : elementwise_rows_are_slack_stmt.
Proof. exact CompileBlocks.elementwise_rows_are_slack. Qed.
Print Assumptions elementwise_rows_are_slack.
