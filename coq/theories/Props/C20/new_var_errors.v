From SageVerif Require Import Proofs.AllocSpec Proofs.AllocProofs.
Theorem new_var_errors : new_var_errors_stmt.
Proof. exact AllocProofs.new_var_errors. Qed.
Print Assumptions new_var_errors.
