From SageVerif Require Import Proofs.GenAllocSpec Proofs.GenAllocProofs.
Theorem gen_symmetric_equiv : gen_symmetric_equiv_stmt.
Proof. exact GenAllocProofs.gen_symmetric_equiv. Qed.
Print Assumptions gen_symmetric_equiv.
