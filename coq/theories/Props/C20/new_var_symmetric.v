From SageVerif Require Import Proofs.AllocSpec Proofs.AllocProofs.
Theorem new_var_symmetric : new_var_symmetric_stmt.
Proof. exact AllocProofs.new_var_symmetric. Qed.
Print Assumptions new_var_symmetric.
