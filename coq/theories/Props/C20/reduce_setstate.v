From SageVerif Require Import Proofs.AllocSpec Proofs.AllocProofs.
Theorem reduce_setstate : reduce_setstate_stmt.
Proof. exact AllocProofs.reduce_setstate. Qed.
Print Assumptions reduce_setstate.
