From SageVerif Require Import Proofs.AllocSpec Proofs.AllocProofs.
Theorem ids_unique : ids_unique_stmt.
Proof. exact AllocProofs.ids_unique. Qed.
Print Assumptions ids_unique.
