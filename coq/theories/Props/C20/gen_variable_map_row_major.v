From SageVerif Require Import Proofs.GenVarMapSpec Proofs.GenVarMapProofs.
Theorem gen_variable_map_row_major : gen_variable_map_row_major_stmt.
Proof. exact GenVarMapProofs.gen_variable_map_row_major. Qed.
Print Assumptions gen_variable_map_row_major.
