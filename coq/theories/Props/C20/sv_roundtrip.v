From SageVerif Require Import Proofs.AllocSpec Proofs.AllocProofs.
Theorem sv_roundtrip : sv_roundtrip_stmt.
Proof. exact AllocProofs.sv_roundtrip. Qed.
Print Assumptions sv_roundtrip.
