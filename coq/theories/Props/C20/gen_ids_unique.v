From SageVerif Require Import Proofs.GenAllocSpec Proofs.GenAllocProofs.
Theorem gen_ids_unique : gen_ids_unique_stmt.
Proof. exact GenAllocProofs.gen_ids_unique. Qed.
Print Assumptions gen_ids_unique.
