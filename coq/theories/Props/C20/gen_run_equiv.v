From SageVerif Require Import Proofs.GenAllocSpec Proofs.GenAllocProofs.
Theorem gen_run_equiv : gen_run_equiv_stmt.
Proof. exact GenAllocProofs.gen_run_equiv. Qed.
Print Assumptions gen_run_equiv.
