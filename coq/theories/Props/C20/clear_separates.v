From SageVerif Require Import Proofs.AllocSpec Proofs.AllocProofs.
Theorem clear_separates : clear_separates_stmt.
Proof. exact AllocProofs.clear_separates. Qed.
Print Assumptions clear_separates.
