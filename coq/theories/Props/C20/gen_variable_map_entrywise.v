From SageVerif Require Import Proofs.GenVarMapSpec Proofs.GenVarMapProofs.
Theorem gen_variable_map_entrywise : gen_variable_map_entrywise_stmt.
Proof. exact GenVarMapProofs.gen_variable_map_entrywise. Qed.
Print Assumptions gen_variable_map_entrywise.
