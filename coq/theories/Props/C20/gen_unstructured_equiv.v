From SageVerif Require Import Proofs.GenAllocSpec Proofs.GenAllocProofs.
Theorem gen_unstructured_equiv : gen_unstructured_equiv_stmt.
Proof. exact GenAllocProofs.gen_unstructured_equiv. Qed.
Print Assumptions gen_unstructured_equiv.
