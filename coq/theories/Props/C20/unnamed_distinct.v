From SageVerif Require Import Proofs.AllocSpec Proofs.AllocProofs.
Theorem unnamed_distinct : unnamed_distinct_stmt.
Proof. exact AllocProofs.unnamed_distinct. Qed.
Print Assumptions unnamed_distinct.
