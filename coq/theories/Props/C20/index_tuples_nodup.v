From SageVerif Require Import Proofs.GenVarMapSpec Proofs.GenVarMapProofs.
Theorem index_tuples_nodup : index_tuples_nodup_stmt.
Proof. exact GenVarMapProofs.index_tuples_nodup. Qed.
Print Assumptions index_tuples_nodup.
