From SageVerif Require Import Proofs.AllocSpec Proofs.AllocProofs.
Theorem sv_getstate_drops_parent : sv_getstate_drops_parent_stmt.
Proof. exact AllocProofs.sv_getstate_drops_parent. Qed.
Print Assumptions sv_getstate_drops_parent.
