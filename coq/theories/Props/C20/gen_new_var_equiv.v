From SageVerif Require Import Proofs.GenAllocSpec Proofs.GenAllocProofs.
Theorem gen_new_var_equiv : gen_new_var_equiv_stmt.
Proof. exact GenAllocProofs.gen_new_var_equiv. Qed.
Print Assumptions gen_new_var_equiv.
