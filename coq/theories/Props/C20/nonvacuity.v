(* Non-vacuity for C20: a history with a symmetric Variable, a failing constructor and a clear. *)
From Coq Require Import List Bool Arith ZArith.
From SageVerif Require Import Model.Alloc.
Import ListNotations.
Definition hist : list op :=
  [ONew [3] false (Some 0); ONew [2; 2] true None; ONew [0] false None; OClear; ONew [] false None].
Example history_runs :
  let '(g, vs) := run hist in
  counter g = 1%Z /\ generation g = 1%Z /\ unnamed g = 3 /\
  map v_ids vs = [[0; 1; 2]%Z; [3; 4; 4; 5]%Z; [0%Z]] /\ map v_gen vs = [0; 0; 1]%Z.
Proof. vm_compute. repeat split; reflexivity. Qed.
Print Assumptions history_runs.
