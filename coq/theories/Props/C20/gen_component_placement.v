From SageVerif Require Import Proofs.GenVarMapSpec Proofs.GenVarMapProofs.
Theorem gen_component_placement : gen_component_placement_stmt.
Proof. exact GenVarMapProofs.gen_component_placement. Qed.
Print Assumptions gen_component_placement.
