From SageVerif Require Import Proofs.AllocSpec Proofs.AllocProofs.
Theorem new_var_unstructured : new_var_unstructured_stmt.
Proof. exact AllocProofs.new_var_unstructured. Qed.
Print Assumptions new_var_unstructured.
