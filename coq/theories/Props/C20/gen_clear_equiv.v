From SageVerif Require Import Proofs.GenAllocSpec Proofs.GenAllocProofs.
Theorem gen_clear_equiv : gen_clear_equiv_stmt.
Proof. exact GenAllocProofs.gen_clear_equiv. Qed.
Print Assumptions gen_clear_equiv.
