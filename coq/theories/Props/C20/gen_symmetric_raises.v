From SageVerif Require Import Proofs.GenAllocSpec Proofs.GenAllocProofs.
Theorem gen_symmetric_raises : gen_symmetric_raises_stmt.
Proof. exact GenAllocProofs.gen_symmetric_raises. Qed.
Print Assumptions gen_symmetric_raises.
