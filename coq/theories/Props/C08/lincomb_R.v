From SageVerif Require Import Proofs.ExprSpec Proofs.ExprProofs.
Theorem lincomb_R : lincomb_R_stmt.
Proof. exact ExprArrays.lincomb_R. Qed.
Print Assumptions lincomb_R.
