From SageVerif Require Import Proofs.ExprSpec Proofs.ExprProofs.
Theorem scalar_errors : scalar_errors_stmt.
Proof. exact ExprScalar.scalar_errors. Qed.
Print Assumptions scalar_errors.
