From SageVerif Require Import Proofs.ExprSpec Proofs.ExprProofs.
Theorem array_naturality : array_naturality_stmt.
Proof. exact ExprArrays.array_naturality. Qed.
Print Assumptions array_naturality.
