From SageVerif Require Import Proofs.ExprSpec Proofs.ExprProofs.
Theorem broadcast_add_R : broadcast_add_R_stmt.
Proof. exact ExprArrays.broadcast_add_R. Qed.
Print Assumptions broadcast_add_R.
