From SageVerif Require Import Proofs.ExprSpec Proofs.ExprProofs.
Theorem atom_eqb_value : atom_eqb_value_stmt.
Proof. exact ExprAtoms.atom_eqb_value. Qed.
Print Assumptions atom_eqb_value.
