From SageVerif Require Import Proofs.ExprSpec Proofs.ExprProofs.
Theorem sexpr_eqb_sound : sexpr_eqb_sound_stmt.
Proof. exact ExprScalar.sexpr_eqb_sound. Qed.
Print Assumptions sexpr_eqb_sound.
