From SageVerif Require Import Proofs.ExprSpec Proofs.ExprProofs.
Theorem parse_arg_value : parse_arg_value_stmt.
Proof. exact ExprScalar.parse_arg_value. Qed.
Print Assumptions parse_arg_value.
