(* Non-vacuity for C08: a concrete program (matmul, cancellation, nonlinear atom with repeated
   arguments) runs in the model, and the repaired defect F9: weighted_sum_exp([1,2],[z,z]) has
   coefficient 3 on the single atom exp(z). *)
From Coq Require Import List Bool Arith ZArith QArith.
From SageVerif Require Import Model.Expr Model.ExprProg.
Import ListNotations.
Definition prog : list instr :=
  [IVar [2%nat] [5%Z; 6%Z]; IRMatmul [[1%Q; 2%Q]; [0%Q; (-1)%Q]] false 0; ISub 1 1; IWse [1%Q; 2%Q] 0; IIndex 0 0;
   IVstack [0%nat; 0%nat]; IIndex 5 0].
Example program_runs :
  map (fun r => match r with Some _ => true | None => false end) (run [] prog) = [true; true; true; true; true; true; false].
Proof. vm_compute. reflexivity. Qed.
Definition zz : list instr := [IVar [2%nat] [7%Z; 7%Z]; IWse [1%Q; 2%Q] 0].
Example wse_repeated_arguments_add_up :
  match nth 1 (run [] zz) None with
  | Some (_, a) => match cells a with
                   | [e] => Qeq_bool (coeff_of (ANl KExp [([(7%Z, 1%Q)], 0%Q)]) e) 3%Q = true
                   | _ => False
                   end
  | None => False
  end.
Proof. vm_compute. reflexivity. Qed.
Example cancellation_keeps_explicit_zero_key :
  let e := ssub (svar 1) (svar 1) in keys e = [AVar 1] /\ live_keys e = [] /\ is_constant e = true.
Proof. vm_compute. repeat split; reflexivity. Qed.
Print Assumptions program_runs.
