From SageVerif Require Import Proofs.ExprSpec Proofs.ExprProofs.
Theorem program_sound : program_sound_stmt.
Proof. exact ExprProgram.program_sound. Qed.
Print Assumptions program_sound.
