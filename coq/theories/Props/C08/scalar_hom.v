From SageVerif Require Import Proofs.ExprSpec Proofs.ExprProofs.
Theorem scalar_hom : scalar_hom_stmt.
Proof. exact ExprScalar.scalar_hom. Qed.
Print Assumptions scalar_hom.
