From SageVerif Require Import Proofs.ExprSpec Proofs.ExprProofs.
Theorem is_affine_exact : is_affine_exact_stmt.
Proof. exact ExprScalar.is_affine_exact. Qed.
Print Assumptions is_affine_exact.
