From SageVerif Require Import Proofs.ExprSpec Proofs.ExprProofs.
Theorem step_sound : step_sound_stmt.
Proof. exact ExprProgram.step_sound. Qed.
Print Assumptions step_sound.
