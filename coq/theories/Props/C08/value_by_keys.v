From SageVerif Require Import Proofs.ExprSpec Proofs.ExprProofs.
Theorem value_by_keys : value_by_keys_stmt.
Proof. exact ExprAtoms.value_by_keys. Qed.
Print Assumptions value_by_keys.
