From SageVerif Require Import Proofs.ExprSpec Proofs.ExprProofs.
Theorem is_constant_sound : is_constant_sound_stmt.
Proof. exact ExprScalar.is_constant_sound. Qed.
Print Assumptions is_constant_sound.
