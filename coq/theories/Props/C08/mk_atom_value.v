From SageVerif Require Import Proofs.ExprSpec Proofs.ExprProofs.
Theorem mk_atom_value : mk_atom_value_stmt.
Proof. exact ExprScalar.mk_atom_value. Qed.
Print Assumptions mk_atom_value.
