From SageVerif Require Import Proofs.ExprSpec Proofs.ExprProofs.
Theorem introspection_sound : introspection_sound_stmt.
Proof. exact ExprScalar.introspection_sound. Qed.
Print Assumptions introspection_sound.
