From SageVerif Require Import Proofs.ExprSpec Proofs.ExprProofs.
Theorem value_is_hom : value_is_hom_stmt.
Proof. exact ExprScalar.value_is_hom. Qed.
Print Assumptions value_is_hom.
