From SageVerif Require Import Proofs.SageSpec Proofs.SageDualProofs.
Theorem dual_rows_v_nonneg : dual_rows_v_nonneg_stmt.
Proof. exact SageDualProofs.dual_rows_v_nonneg. Qed.
Print Assumptions dual_rows_v_nonneg.
