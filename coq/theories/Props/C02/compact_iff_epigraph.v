From SageVerif Require Import Proofs.SageSpec Proofs.SageDualProofs.
Theorem compact_iff_epigraph : compact_iff_epigraph_stmt.
Proof. exact SageDualProofs.compact_iff_epigraph. Qed.
Print Assumptions compact_iff_epigraph.
