(* Non-vacuity for C02: the dual rows of alpha = {0, 1, 2} (n = 1) over X = [-1, 2], compact form. *)
From Coq Require Import List Bool Arith ZArith QArith.
From SageVerif Require Import Model.Expr Model.SolverForms Model.Compile Model.Sage.
Import ListNotations.
Definition alpha3 : list (list Q) := [[0%Q]; [1%Q]; [2%Q]].
Definition box : domain := {| dA := [[1%Q]; [(-1)%Q]]; db := [1%Q; 2%Q]; dK := [(TPos, 2%nat)] |}.
Definition dids (i : nat) : dual_ids := {| d_mu := [Z.of_nat (10 + i)]; d_epi := [] |}.
Definition full (i : nat) : list bool := map (fun j => negb (Nat.eqb i j)) (seq 0 3).
Example dual_blocks_shape :
  map (fun b => fst b) (dual_blocks 1 1 alpha3 [svar 0; svar 1; svar 2] None (Some box) full dids {| compact_dual := true |} 99%Z)
  = [[(TPos, 3%nat)]; [(TExp, 3%nat); (TExp, 3%nat)]; [(TPos, 2%nat)];
     [(TExp, 3%nat); (TExp, 3%nat)]; [(TPos, 2%nat)]; [(TExp, 3%nat); (TExp, 3%nat)]; [(TPos, 2%nat)]].
Proof. vm_compute. reflexivity. Qed.
Print Assumptions dual_blocks_shape.
