From SageVerif Require Import Proofs.SageSpec Proofs.SageDualProofs.
Theorem dual_rows_admit_moments : dual_rows_admit_moments_stmt.
Proof. exact SageDualProofs.dual_rows_admit_moments. Qed.
Print Assumptions dual_rows_admit_moments.
