From SageVerif Require Import Proofs.RelaxConEllSpec Proofs.RelaxConEllProofs.
Theorem ones_pow_pos : ones_pow_pos_stmt.
Proof. exact RelaxConEllProofs.ones_pow_pos. Qed.
Print Assumptions ones_pow_pos.
