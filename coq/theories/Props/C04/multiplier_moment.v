From SageVerif Require Import Proofs.RelaxConDualSpec Proofs.RelaxConDualProofs.
Theorem multiplier_moment : multiplier_moment_stmt.
Proof. exact RelaxConDualProofs.multiplier_moment. Qed.
Print Assumptions multiplier_moment.
