From SageVerif Require Import Proofs.RelaxConDualSpec Proofs.RelaxConDualProofs.
Theorem constrained_dual_point : constrained_dual_point_stmt.
Proof. exact RelaxConDualProofs.constrained_dual_point. Qed.
Print Assumptions constrained_dual_point.
