From SageVerif Require Import Proofs.RelaxConEllSpec Proofs.RelaxConEllProofs.
Theorem constrained_primal_sound_ell : constrained_primal_sound_ell_stmt.
Proof. exact RelaxConEllProofs.constrained_primal_sound_ell. Qed.
Print Assumptions constrained_primal_sound_ell.
