From SageVerif Require Import Proofs.RelaxConSpec Proofs.RelaxConProofs.
Theorem lagrangian_identity : lagrangian_identity_stmt.
Proof. exact RelaxConProofs.lagrangian_identity. Qed.
Print Assumptions lagrangian_identity.
