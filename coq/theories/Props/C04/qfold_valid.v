From SageVerif Require Import Proofs.RelaxConSpec Proofs.RelaxConProofs.
Theorem qfold_valid : qfold_valid_stmt.
Proof. exact RelaxConProofs.qfold_valid. Qed.
Print Assumptions qfold_valid.
