From SageVerif Require Import Proofs.RelaxConSpec Proofs.RelaxConProofs.
Theorem constrained_primal_sound : constrained_primal_sound_stmt.
Proof. exact RelaxConProofs.constrained_primal_sound. Qed.
Print Assumptions constrained_primal_sound.
