From SageVerif Require Import Proofs.RelaxConDualSpec Proofs.RelaxConDualProofs.
Theorem rcv_moment_pairing : rcv_moment_pairing_stmt.
Proof. exact RelaxConDualProofs.rcv_moment_pairing. Qed.
Print Assumptions rcv_moment_pairing.
