(* Non-vacuity for C04: the Lagrangian of min e^{x} s.t. e^{x} - 1 >= 0 with a constant multiplier (p = 0),
   and the 2-fold products of two constraints. *)
From Coq Require Import List Bool Arith ZArith QArith.
From SageVerif Require Import Model.Expr Model.Signomial Model.SymSig Model.RelaxSig Model.RelaxCon.
Import ListNotations.
Definition f1 : qsig := [([1%Q], 1%Q)].
Definition g1 : qsig := [([1%Q], 1%Q); ([0%Q], (-1)%Q)].
Example lagrangian_runs :
  match make_sig_lagrangian 1 f1 0%Z [[0%Q]] [(g1, [5%Z])] [] with
  | Some L => map fst L = [[1%Q]; [0%Q]]
  | None => False
  end.
Proof. vm_compute. reflexivity. Qed.
Example two_fold : length (q_fold 1 [g1; [([2%Q], 1%Q); ([0%Q], (-4)%Q)]] 2) = 5%nat.
Proof. vm_compute. reflexivity. Qed.
Print Assumptions lagrangian_runs.
