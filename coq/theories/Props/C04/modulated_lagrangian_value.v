From SageVerif Require Import Proofs.RelaxConEllSpec Proofs.RelaxConEllProofs.
Theorem modulated_lagrangian_value : modulated_lagrangian_value_stmt.
Proof. exact RelaxConEllProofs.modulated_lagrangian_value. Qed.
Print Assumptions modulated_lagrangian_value.
