From SageVerif Require Import Proofs.AgeInvSpec Proofs.AgeInvProofs.
Theorem circuit_amgm : circuit_amgm_stmt.
Proof. exact AgeInvProofs.circuit_amgm. Qed.
Print Assumptions circuit_amgm.
