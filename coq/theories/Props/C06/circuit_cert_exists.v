From SageVerif Require Import Proofs.AgeInvSpec Proofs.AgeInvProofs.
Theorem circuit_cert_exists : circuit_cert_exists_stmt.
Proof. exact AgeInvProofs.circuit_cert_exists. Qed.
Print Assumptions circuit_cert_exists.
