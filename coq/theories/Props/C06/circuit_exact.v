From SageVerif Require Import Proofs.AgeInvSpec Proofs.AgeInvProofs.
Theorem circuit_exact : circuit_exact_stmt.
Proof. exact AgeInvProofs.circuit_exact. Qed.
Print Assumptions circuit_exact.
