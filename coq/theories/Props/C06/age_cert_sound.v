From SageVerif Require Import Proofs.AgeInvSpec Proofs.AgeInvProofs.
Theorem age_cert_sound : age_cert_sound_stmt.
Proof. exact AgeInvProofs.age_cert_sound. Qed.
Print Assumptions age_cert_sound.
