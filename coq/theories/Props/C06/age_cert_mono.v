From SageVerif Require Import Proofs.AgeInvSpec Proofs.AgeInvProofs.
Theorem age_cert_mono : age_cert_mono_stmt.
Proof. exact AgeInvProofs.age_cert_mono. Qed.
Print Assumptions age_cert_mono.
