From SageVerif Require Import Proofs.AgeInvSpec Proofs.AgeInvProofs.
Theorem age_cert_linear : age_cert_linear_stmt.
Proof. exact AgeInvProofs.age_cert_linear. Qed.
Print Assumptions age_cert_linear.
