From SageVerif Require Import Proofs.AgeInvSpec Proofs.AgeInvProofs.
Theorem age_cert_scale : age_cert_scale_stmt.
Proof. exact AgeInvProofs.age_cert_scale. Qed.
Print Assumptions age_cert_scale.
