From SageVerif Require Import Proofs.AgeInvSpec Proofs.AgeInvProofs.
Theorem age_cert_translate : age_cert_translate_stmt.
Proof. exact AgeInvProofs.age_cert_translate. Qed.
Print Assumptions age_cert_translate.
