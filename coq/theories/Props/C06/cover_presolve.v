From Coq Require Import Reals List.
From SageVerif Require Import Math.RVec Proofs.MathSpec Proofs.CoverLemmas.
Import ListNotations.
Open Scope R_scope.
(* the provable part of the cover presolve: Farkas-certified and one-element covers force nu = 0 *)
Theorem farkas_cover_trivial :
  forall n (D : list (list R)) (nu x : list R),
    wfm n D -> length x = n -> length nu = length D -> Forall (fun v => 0 <= v) nu ->
    tmv n D nu = vzero n -> Forall (fun r => dot r x <= -1) D -> Forall (fun v => v = 0) nu.
Proof. exact CoverLemmas.farkas_cover_trivial. Qed.
Theorem singleton_cover_trivial :
  forall n (d : list R) (nu : R),
    length d = n -> tmv n [d] [nu] = vzero n -> (exists k, nth k d 0 <> 0) -> nu = 0.
Proof. exact CoverLemmas.singleton_cover_trivial. Qed.
Print Assumptions farkas_cover_trivial.
