From SageVerif Require Import Proofs.AgeInvSpec Proofs.AgeInvProofs.
Theorem age_cert_swap : age_cert_swap_stmt.
Proof. exact AgeInvProofs.age_cert_swap. Qed.
Print Assumptions age_cert_swap.
