From Coq Require Import List QArith Qabs.
From SageVerif Require Import Model.Solrec Proofs.SolrecProofs.
(* the boolean test is exactly: every inequality value >= -ineq_tol and every |equality value| <= eq_tol *)
Theorem is_feasible_iff : forall itol etol c,
  is_feasible itol etol c = true <->
  Forall (fun g => (- itol <= g)%Q) (c_gts c) /\ Forall (fun h => (Qabs h <= etol)%Q) (c_eqs c).
Proof. exact SolrecProofs.is_feasible_iff. Qed.
Print Assumptions is_feasible_iff.
