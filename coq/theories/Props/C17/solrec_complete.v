From Coq Require Import List QArith Permutation.
From SageVerif Require Import Model.Solrec Proofs.SolrecProofs.
(* nothing feasible is lost and nothing is invented: the returned list is a rearrangement of exactly the
   candidates that pass the feasibility test *)
Theorem solrec_complete : forall itol etol cands,
  Permutation (filter (is_feasible itol etol) cands) (solrec itol etol cands).
Proof. exact SolrecProofs.solrec_complete. Qed.
Print Assumptions solrec_complete.
