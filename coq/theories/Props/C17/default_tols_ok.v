From SageVerif Require Import Proofs.GenSolrecSpec Proofs.GenSolrecProofs.
Theorem default_tols_ok : default_tols_ok_stmt.
Proof. exact GenSolrecProofs.default_tols_ok. Qed.
Print Assumptions default_tols_ok.
