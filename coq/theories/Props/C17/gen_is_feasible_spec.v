From SageVerif Require Import Proofs.GenSolrecSpec Proofs.GenSolrecProofs.
Theorem gen_is_feasible_spec : gen_is_feasible_spec_stmt.
Proof. exact GenSolrecProofs.gen_is_feasible_spec. Qed.
Print Assumptions gen_is_feasible_spec.
