From Coq Require Import List QArith.
From SageVerif Require Import Model.Solrec Proofs.SolrecProofs Proofs.SolrecStable.
(* the sort is stable: for every objective value, the returned candidates with that value are exactly the feasible
   candidates with that value in the order in which they were proposed; with solrec_sorted and solrec_complete this
   determines the returned list *)
Theorem solrec_stable : forall itol etol cands v,
  filter (fun c => Qeq_bool (c_f c) v) (solrec itol etol cands) =
  filter (fun c => Qeq_bool (c_f c) v) (filter (is_feasible itol etol) cands).
Proof. exact SolrecStable.solrec_stable. Qed.
Print Assumptions solrec_stable.
