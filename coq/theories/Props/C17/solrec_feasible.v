From Coq Require Import List QArith.
From SageVerif Require Import Model.Solrec Proofs.SolrecProofs.
(* every returned point satisfies every inequality to ineq_tol and every equality to eq_tol, whatever
   candidates the numerical generators proposed *)
Theorem solrec_feasible : forall itol etol cands c,
  In c (solrec itol etol cands) -> feasible_spec itol etol c /\ In c cands.
Proof. exact SolrecProofs.solrec_feasible. Qed.
Print Assumptions solrec_feasible.
