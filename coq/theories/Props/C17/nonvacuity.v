From Coq Require Import List QArith.
From SageVerif Require Import Model.Solrec.
Import ListNotations.
(* a candidate list on which the filter rejects one point and the sort reorders the rest *)
Example solrec_nonvacuous :
  map c_id (solrec (1#100)%Q (1#100)%Q
    [ {| c_id := 0; c_f := 3%Q; c_gts := [1%Q]; c_eqs := [0%Q] |};
      {| c_id := 1; c_f := 1%Q; c_gts := [(-1#2)%Q]; c_eqs := [] |};
      {| c_id := 2; c_f := 2%Q; c_gts := [(-1#1000)%Q]; c_eqs := [(1#1000)%Q] |};
      {| c_id := 3; c_f := 2%Q; c_gts := []; c_eqs := [] |} ]) = [2%nat; 3%nat; 0%nat].
Proof. vm_compute. reflexivity. Qed.
