From Coq Require Import List QArith Permutation.
From SageVerif Require Import Model.Solrec Proofs.SolrecProofs.
(* the list is sorted by nondecreasing objective value and loses no feasible candidate *)
Theorem solrec_sorted : forall itol etol cands, sortedf (solrec itol etol cands).
Proof. exact SolrecProofs.solrec_sorted. Qed.
Theorem solrec_complete : forall itol etol cands,
  Permutation (filter (is_feasible itol etol) cands) (solrec itol etol cands).
Proof. exact SolrecProofs.solrec_complete. Qed.
Theorem is_feasible_iff : forall itol etol c, is_feasible itol etol c = true <-> feasible_spec itol etol c.
Proof. exact SolrecProofs.is_feasible_iff. Qed.
Print Assumptions solrec_sorted.
Print Assumptions solrec_complete.
