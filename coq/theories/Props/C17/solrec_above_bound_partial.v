From Coq Require Import List QArith.
Import ListNotations.
From SageVerif Require Import Model.Solrec Proofs.SolrecProofs.
(* PARTIAL: consistency with the bound is proved for returned points that are EXACTLY feasible (then the
   bound theorems C03/C04/C05 apply); for points feasible only up to the tolerances the slack depends on
   moduli of continuity of the constraint functions and is checked by the oracle (solver tolerance) *)
Theorem solrec_above_bound_partial : forall itol etol cands (bound : Q) (exactly_feasible : cand -> Prop),
  (forall c, exactly_feasible c -> (bound <= c_f c)%Q) ->
  forall c, In c (solrec itol etol cands) -> exactly_feasible c -> (bound <= c_f c)%Q.
Proof. exact SolrecProofs.solrec_above_bound_partial. Qed.
Example nonvacuous :
  map c_id (solrec (1#100)%Q (1#100)%Q
              [ {| c_id := 0; c_f := 3%Q; c_gts := [1%Q]; c_eqs := [0%Q] |};
                {| c_id := 1; c_f := 1%Q; c_gts := [(-1)%Q]; c_eqs := [] |};
                {| c_id := 2; c_f := 2%Q; c_gts := [(-1#1000)%Q]; c_eqs := [(1#1000)%Q] |};
                {| c_id := 3; c_f := 2%Q; c_gts := []; c_eqs := [] |} ]) = [2%nat; 3%nat; 0%nat].
Proof. vm_compute. reflexivity. Qed.
Print Assumptions solrec_above_bound_partial.
