From SageVerif Require Import Proofs.GenSolrecSpec Proofs.GenSolrecProofs.
Theorem gen_is_feasible_model : gen_is_feasible_model_stmt.
Proof. exact GenSolrecProofs.gen_is_feasible_model. Qed.
Print Assumptions gen_is_feasible_model.
