From SageVerif Require Import Proofs.HistorySpec Proofs.HistoryProofs.
Theorem recompile_old_refuted : recompile_old_refuted_stmt.
Proof. exact HistoryProofs.recompile_old_refuted. Qed.
Print Assumptions recompile_old_refuted.
