From SageVerif Require Import Proofs.HistorySpec Proofs.HistoryProofs.
Theorem first_compile_is_compile : first_compile_is_compile_stmt.
Proof. exact HistoryProofs.first_compile_is_compile. Qed.
Print Assumptions first_compile_is_compile.
