From SageVerif Require Import Proofs.HistorySpec Proofs.HistoryProofs.
Theorem recompile_stable : recompile_stable_stmt.
Proof. exact HistoryProofs.recompile_stable. Qed.
Print Assumptions recompile_stable.
