From SageVerif Require Import Proofs.HistorySpec Proofs.HistoryProofs.
Theorem settings_snapshot : settings_snapshot_stmt.
Proof. exact HistoryProofs.settings_snapshot. Qed.
Print Assumptions settings_snapshot.
