From SageVerif Require Import Proofs.HistorySpec Proofs.HistoryProofs.
Theorem recompile_all_equal : recompile_all_equal_stmt.
Proof. exact HistoryProofs.recompile_all_equal. Qed.
Print Assumptions recompile_all_equal.
