From SageVerif Require Import Proofs.HistorySpec Proofs.HistoryProofs.
Theorem generations_ok_iff : generations_ok_iff_stmt.
Proof. exact HistoryProofs.generations_ok_iff. Qed.
Print Assumptions generations_ok_iff.
