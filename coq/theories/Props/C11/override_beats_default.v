From SageVerif Require Import Proofs.HistorySpec Proofs.HistoryProofs.
Theorem override_beats_default : override_beats_default_stmt.
Proof. exact HistoryProofs.override_beats_default. Qed.
Print Assumptions override_beats_default.
