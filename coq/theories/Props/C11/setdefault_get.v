From SageVerif Require Import Proofs.HistorySpec Proofs.HistoryProofs.
Theorem setdefault_get : setdefault_get_stmt.
Proof. exact HistoryProofs.setdefault_get. Qed.
Print Assumptions setdefault_get.
