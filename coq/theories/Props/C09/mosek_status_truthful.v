From SageVerif Require Import Proofs.MosekSpec Proofs.MosekProofs.
Theorem mosek_status_truthful : mosek_status_truthful_stmt.
Proof. exact MosekProofs.mosek_status_truthful. Qed.
Print Assumptions mosek_status_truthful.
