From SageVerif Require Import Proofs.ProblemSpec Proofs.ProblemProofs.
Theorem solve_history : solve_history_stmt.
Proof. exact ProblemProofs.solve_history. Qed.
Print Assumptions solve_history.
