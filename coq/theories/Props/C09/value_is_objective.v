From SageVerif Require Import Proofs.ProblemSpec Proofs.ProblemProofs.
Theorem value_is_objective : value_is_objective_stmt.
Proof. exact ProblemProofs.value_is_objective. Qed.
Print Assumptions value_is_objective.
