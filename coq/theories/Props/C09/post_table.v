From SageVerif Require Import Proofs.ProblemSpec Proofs.ProblemProofs.
Theorem post_table : post_table_stmt.
Proof. exact ProblemProofs.post_table. Qed.
Print Assumptions post_table.
