From SageVerif Require Import Proofs.ProblemSpec Proofs.ProblemProofs.
Theorem solve_spec : solve_spec_stmt.
Proof. exact ProblemProofs.solve_spec. Qed.
Print Assumptions solve_spec.
