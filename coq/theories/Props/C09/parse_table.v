From SageVerif Require Import Proofs.ProblemSpec Proofs.ProblemProofs.
Theorem parse_table : parse_table_stmt.
Proof. exact ProblemProofs.parse_table. Qed.
Print Assumptions parse_table.
