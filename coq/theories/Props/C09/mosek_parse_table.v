From SageVerif Require Import Proofs.MosekSpec Proofs.MosekProofs.
Theorem mosek_parse_table : mosek_parse_table_stmt.
Proof. exact MosekProofs.mosek_parse_table. Qed.
Print Assumptions mosek_parse_table.
