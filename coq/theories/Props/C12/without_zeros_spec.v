From SageVerif Require Import Proofs.SigSpec Proofs.SigProofs.
Theorem without_zeros_spec : without_zeros_spec_stmt.
Proof. exact SigOps.without_zeros_spec. Qed.
Print Assumptions without_zeros_spec.
