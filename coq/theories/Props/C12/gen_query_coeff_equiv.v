From SageVerif Require Import Proofs.GenSigEqSpec Proofs.GenSigEqProofs.
Theorem gen_query_coeff_equiv : gen_query_coeff_equiv_stmt.
Proof. exact GenSigEqProofs.gen_query_coeff_equiv. Qed.
Print Assumptions gen_query_coeff_equiv.
