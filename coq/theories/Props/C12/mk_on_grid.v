From SageVerif Require Import Proofs.SigSpec Proofs.SigProofs.
Theorem mk_on_grid : mk_on_grid_stmt.
Proof. exact SigMk.mk_on_grid. Qed.
Print Assumptions mk_on_grid.
