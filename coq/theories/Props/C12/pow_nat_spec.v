From SageVerif Require Import Proofs.SigSpec Proofs.SigProofs.
Theorem pow_nat_spec : pow_nat_spec_stmt.
Proof. exact SigPow.pow_nat_spec. Qed.
Print Assumptions pow_nat_spec.
