From SageVerif Require Import Proofs.SigSpec Proofs.SigProofs.
Theorem eq_sym : eq_sym_stmt.
Proof. exact SigEq.eq_sym. Qed.
Print Assumptions eq_sym.
