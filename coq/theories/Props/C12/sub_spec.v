From SageVerif Require Import Proofs.SigSpec Proofs.SigProofs.
Theorem sub_spec : sub_spec_stmt.
Proof. exact SigOps.sub_spec. Qed.
Print Assumptions sub_spec.
