From SageVerif Require Import Proofs.SigSpec Proofs.SigProofs.
Theorem pow_neg_spec : pow_neg_spec_stmt.
Proof. exact SigPow.pow_neg_spec. Qed.
Print Assumptions pow_neg_spec.
