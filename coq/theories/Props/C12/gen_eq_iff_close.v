From SageVerif Require Import Proofs.GenSigEqSpec Proofs.GenSigEqProofs.
Theorem gen_eq_iff_close : gen_eq_iff_close_stmt.
Proof. exact GenSigEqProofs.gen_eq_iff_close. Qed.
Print Assumptions gen_eq_iff_close.
