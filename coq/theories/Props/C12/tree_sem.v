From SageVerif Require Import Proofs.SigSpec Proofs.SigProofs.
Theorem tree_sem : tree_sem_stmt.
Proof. exact SigTree.tree_sem. Qed.
Print Assumptions tree_sem.
