From SageVerif Require Import Proofs.SigSpec Proofs.SigProofs.
Theorem add_scalar_spec : add_scalar_spec_stmt.
Proof. exact SigOps.add_scalar_spec. Qed.
Print Assumptions add_scalar_spec.
