From SageVerif Require Import Proofs.SigSpec Proofs.SigProofs.
Theorem add_spec : add_spec_stmt.
Proof. exact SigOps.add_spec. Qed.
Print Assumptions add_spec.
