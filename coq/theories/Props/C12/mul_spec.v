From SageVerif Require Import Proofs.SigSpec Proofs.SigProofs.
Theorem mul_spec : mul_spec_stmt.
Proof. exact SigOps.mul_spec. Qed.
Print Assumptions mul_spec.
