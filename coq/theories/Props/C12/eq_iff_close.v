From SageVerif Require Import Proofs.SigSpec Proofs.SigProofs.
Theorem eq_iff_close : eq_iff_close_stmt.
Proof. exact SigEq.eq_iff_close. Qed.
Print Assumptions eq_iff_close.
