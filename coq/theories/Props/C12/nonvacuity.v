(* Non-vacuity for C12 and the repaired defect F4: concrete signomials meet the hypotheses, and
   the one-sided comparison that Signomial.__eq__ used before the repair is asymmetric. *)
From Coq Require Import List Bool Arith ZArith QArith.
From SageVerif Require Import Model.Signomial Model.SigExpr.
Import ListNotations.
Definition fa : qsig := [([0%Q], 0%Q); ([1%Q], 1%Q)].
Definition fb : qsig := [([2%Q], 5%Q); ([1%Q], 1%Q)].
Example one_sided_eq_asymmetric : one_sided_eq fa fb = true /\ one_sided_eq fb fa = false.
Proof. vm_compute. split; reflexivity. Qed.
Example q_eqb_symmetric_here : q_eqb fa fb = false /\ q_eqb fb fa = false.
Proof. vm_compute. split; reflexivity. Qed.
(* (y0 - y1)^2 + 1/y0 evaluates through the interpreter to a 4-term signomial *)
Example tree_runs :
  match eval false 2 (SAdd (SPow (SSub (SMono 0) (SMono 1)) 2) (SRDivQ 1 (SMono 0))) with
  | Some f => length f = 4%nat
  | None => False
  end.
Proof. vm_compute. reflexivity. Qed.
(* repeated rows are consolidated and a cancellation yields the single-term zero function *)
Example cancel_to_zero :
  eval false 1 (SSub (SLit [([1%Q], 2%Q); ([1%Q], 1%Q)]) (SLit [([1%Q], 3%Q)])) = Some [([1%Q], 0%Q)].
Proof. vm_compute. reflexivity. Qed.
Print Assumptions one_sided_eq_asymmetric.
