From SageVerif Require Import Proofs.SigSpec Proofs.SigProofs.
Theorem mk_spec : mk_spec_stmt.
Proof. exact SigMk.mk_spec. Qed.
Print Assumptions mk_spec.
