From SageVerif Require Import Proofs.SigSpec Proofs.SigProofs.
Theorem scale_spec : scale_spec_stmt.
Proof. exact SigOps.scale_spec. Qed.
Print Assumptions scale_spec.
