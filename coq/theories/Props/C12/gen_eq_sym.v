From SageVerif Require Import Proofs.GenSigEqSpec Proofs.GenSigEqProofs.
Theorem gen_eq_sym : gen_eq_sym_stmt.
Proof. exact GenSigEqProofs.gen_eq_sym. Qed.
Print Assumptions gen_eq_sym.
