From SageVerif Require Import Proofs.SigSpec Proofs.SigProofs.
Theorem eq_refl : eq_refl_stmt.
Proof. exact SigEq.eq_refl. Qed.
Print Assumptions eq_refl.
