From SageVerif Require Import Proofs.SigSpec Proofs.SigProofs.
Theorem round7_idem : round7_idem_stmt.
Proof. exact SigRound.round7_idem. Qed.
Print Assumptions round7_idem.
