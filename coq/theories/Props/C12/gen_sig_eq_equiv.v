From SageVerif Require Import Proofs.GenSigEqSpec Proofs.GenSigEqProofs.
Theorem gen_sig_eq_equiv : gen_sig_eq_equiv_stmt.
Proof. exact GenSigEqProofs.gen_sig_eq_equiv. Qed.
Print Assumptions gen_sig_eq_equiv.
