From SageVerif Require Import Proofs.SymSigSpec Proofs.SymSigProofs.
Theorem s_mk_eval : s_mk_eval_stmt.
Proof. exact SymSigOps.s_mk_eval. Qed.
Print Assumptions s_mk_eval.
