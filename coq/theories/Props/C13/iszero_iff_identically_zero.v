From SageVerif Require Import Proofs.SymSigSpec Proofs.SymSigProofs.
Theorem iszero_iff_identically_zero : iszero_iff_identically_zero_stmt.
Proof. exact SymSigOps.iszero_iff_identically_zero. Qed.
Print Assumptions iszero_iff_identically_zero.
