From SageVerif Require Import Proofs.SymSigSpec Proofs.SymSigProofs.
Theorem subst_commutes : subst_commutes_stmt.
Proof. exact SymSigTree.subst_commutes. Qed.
Print Assumptions subst_commutes.
