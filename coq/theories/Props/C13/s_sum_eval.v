From SageVerif Require Import Proofs.SymSigSpec Proofs.SymSigProofs.
Theorem s_sum_eval : s_sum_eval_stmt.
Proof. exact SymSigOps.s_sum_eval. Qed.
Print Assumptions s_sum_eval.
