From SageVerif Require Import Proofs.SymSigSpec Proofs.SymSigProofs.
Theorem without_zeros_spec_s : without_zeros_spec_s_stmt.
Proof. exact SymSigOps.without_zeros_spec_s. Qed.
Print Assumptions without_zeros_spec_s.
