From SageVerif Require Import Proofs.SymSigSpec Proofs.SymSigProofs.
Theorem s_mul_eval : s_mul_eval_stmt.
Proof. exact SymSigOps.s_mul_eval. Qed.
Print Assumptions s_mul_eval.
