From SageVerif Require Import Proofs.SymSigSpec Proofs.SymSigProofs.
Theorem s_add_eval : s_add_eval_stmt.
Proof. exact SymSigOps.s_add_eval. Qed.
Print Assumptions s_add_eval.
