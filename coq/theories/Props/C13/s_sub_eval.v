From SageVerif Require Import Proofs.SymSigSpec Proofs.SymSigProofs.
Theorem s_sub_eval : s_sub_eval_stmt.
Proof. exact SymSigOps.s_sub_eval. Qed.
Print Assumptions s_sub_eval.
