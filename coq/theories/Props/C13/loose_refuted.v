(* A first, looser formulation of the without_zeros specification is false of the model (rows only
   on the grid up to Qeq, possibly repeated): kept as a machine-checked refutation. *)
From SageVerif Require Import Proofs.SymSigSpec Proofs.SymSigProofs.
Theorem without_zeros_spec_s_loose_refuted : ~ without_zeros_spec_s_loose_stmt.
Proof. exact SymSigOps.without_zeros_spec_s_loose_refuted. Qed.
Print Assumptions without_zeros_spec_s_loose_refuted.
