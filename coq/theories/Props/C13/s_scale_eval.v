From SageVerif Require Import Proofs.SymSigSpec Proofs.SymSigProofs.
Theorem s_scale_eval : s_scale_eval_stmt.
Proof. exact SymSigOps.s_scale_eval. Qed.
Print Assumptions s_scale_eval.
