(* Math/RVec.v — real vectors as lists; cones of the coniclifts standard
   (sageopt/coniclifts/standards/cone_standards.txt).  Definitions only. *)
From Coq Require Import Reals List.
Import ListNotations.
Open Scope R_scope.

Fixpoint dot (a b : list R) : R :=
  match a, b with
  | x :: a', y :: b' => x * y + dot a' b'
  | _, _ => 0
  end.

Fixpoint vadd (a b : list R) : list R :=
  match a, b with
  | x :: a', y :: b' => (x + y) :: vadd a' b'
  | _, _ => []
  end.

Fixpoint vsub (a b : list R) : list R :=
  match a, b with
  | x :: a', y :: b' => (x - y) :: vsub a' b'
  | _, _ => []
  end.

Definition vscale (s : R) (a : list R) : list R := map (Rmult s) a.
Definition rsum (l : list R) : R := fold_right Rplus 0 l.
Definition sumsq (l : list R) : R := rsum (map (fun x => x * x) l).
Definition vzero (n : nat) : list R := repeat 0 n.

(* A x, rows of A given as lists *)
Definition mv (A : list (list R)) (x : list R) : list R := map (fun r => dot r x) A.

(* A^T eta for A with rows of width n *)
Fixpoint tmv (n : nat) (A : list (list R)) (eta : list R) : list R :=
  match A, eta with
  | r :: A', e :: eta' => vadd (vscale e r) (tmv n A' eta')
  | _, _ => vzero n
  end.

(* exponential cone, ECOS/coniclifts convention, closure included:
   K_exp = cl { (x,y,z) : y >= z exp(x/z), z > 0 } *)
Definition Kexp (x y z : R) : Prop :=
  (0 < z /\ z * exp (x / z) <= y) \/ (z = 0 /\ x <= 0 /\ 0 <= y).

(* (u,v,w) in the dual exponential cone, as DualProductCone.conic_form encodes it:
   (-w, e*v, -u) in K_exp *)
Definition KexpDual (u v w : R) : Prop := Kexp (- w) (exp 1 * v) (- u).

Inductive ctype := CZero | CPos | CSoc | CExp.

Definition in_cone (t : ctype) (v : list R) : Prop :=
  match t with
  | CZero => Forall (fun x => x = 0) v
  | CPos => Forall (fun x => 0 <= x) v
  | CSoc => match v with
            | [] => True
            | t0 :: xs => 0 <= t0 /\ sumsq xs <= t0 * t0
            end
  | CExp => match v with
            | [x; y; z] => Kexp x y z
            | _ => False
            end
  end.

Definition in_dual_cone (t : ctype) (v : list R) : Prop :=
  match t with
  | CZero => True
  | CPos => Forall (fun x => 0 <= x) v
  | CSoc => match v with
            | [] => True
            | t0 :: xs => 0 <= t0 /\ sumsq xs <= t0 * t0
            end
  | CExp => match v with
            | [u; v0; w] => KexpDual u v0 w
            | _ => False
            end
  end.

(* product cone: K is a list of (type, length); the vector is split by lengths *)
Fixpoint in_K (K : list (ctype * nat)) (v : list R) : Prop :=
  match K with
  | [] => v = []
  | (t, n) :: K' => length (firstn n v) = n /\ in_cone t (firstn n v) /\ in_K K' (skipn n v)
  end.

Fixpoint in_Kdual (K : list (ctype * nat)) (v : list R) : Prop :=
  match K with
  | [] => v = []
  | (t, n) :: K' => length (firstn n v) = n /\ in_dual_cone t (firstn n v) /\ in_Kdual K' (skipn n v)
  end.

Definition Ksize (K : list (ctype * nat)) : nat := fold_right (fun tn acc => snd tn + acc)%nat 0%nat K.

(* signomial evaluation: sum_j c_j exp(alpha_j . x) *)
Fixpoint sigeval (alpha : list (list R)) (c : list R) (x : list R) : R :=
  match alpha, c with
  | a :: alpha', cj :: c' => cj * exp (dot a x) + sigeval alpha' c' x
  | _, _ => 0
  end.

Inductive Forall3 {A B C} (P : A -> B -> C -> Prop) : list A -> list B -> list C -> Prop :=
| Forall3_nil : Forall3 P [] [] []
| Forall3_cons : forall a b c la lb lc, P a b c -> Forall3 P la lb lc -> Forall3 P (a :: la) (b :: lb) (c :: lc).
