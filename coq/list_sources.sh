#!/bin/sh
# regenerate the source list of _CoqProject (all .v under theories/)
cd "$(dirname "$0")"
{ echo "-R theories SageVerif"; echo "-arg -w -arg -notation-overridden,-deprecated-hint-without-locality,-deprecated-instance-without-locality,-ambiguous-paths"; find theories -name '*.v' | sort; } > _CoqProject
