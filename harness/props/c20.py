"""C20 — Variables keep their identity: unique indices, faithful pickling.
Tie: Model/Alloc.v vs coniclifts on random histories of Variable creation (all shapes incl. 0-d, symmetric, named and
unnamed, failing constructors), atom creation (which allocates epigraph Variables) and clear_variable_indices.
Oracle: uniqueness of ids per generation, slices refer to their parent, pickle round trips of Variables, constraints
and Problems (before/after solving, after clear_variable_indices) keep ids, names, values, links, compiled system and
optimal value; every Variable of a compiled Problem from the relaxation builders has a distinct name."""
import pickle
import warnings
from fractions import Fraction

import numpy as np

from harness import vlib
from harness.vlib import Nat, cq, Raw

RULE = ('case = prefix of a random history of {new Variable (shape, symmetric?, named?), new nonlinear atom, '
        'clear_variable_indices}; observed: ids, generation, name of every Variable created so far and the three global '
        'counters; non-trivial = history containing a symmetric Variable or a clear; distinct by history hash.  Second '
        'stream: pickle round trips and builder-name checks (oracle).')
TRUSTED = ['correspondence harness harness/props/c20.py', 'translator harness/translator/alloc_tr.py (Gen/GenAlloc.v; arrays per Model/AllocIdioms.v; what a cell of the Variable contains is outside the allocation state)', 'ORACLE: Python pickle memoisation and CPython object identity '
           '(names that embed str(obj) of live objects are distinct because the objects are distinct)']
ASSUMPTIONS = ['Model/Alloc.v is hand written; tied by correspondence and, since the sixth session, by the translator: Variable.__new__, the two populate methods, ScalarVariable.__init__ and clear_variable_indices are regenerated (Gen/GenAlloc.v) and proved equal to it on every input; pickling is tied by correspondence only',
               'user-supplied duplicate names are the caller\'s responsibility (API contract); builder-generated names are checked '
               'by the oracle stream on every run']
HEADER = ('From Coq Require Import List Bool Arith ZArith.\n'
          'From SageVerif Require Import Model.Alloc Base.Corr.\nImport ListNotations.\n'
          'Definition mk_op (x : option (list nat * bool * option nat)) : op :=\n'
          "  match x with Some (sh, sy, nm) => ONew sh sy nm | None => OClear end.\n"
          'Definition name_code (n : vname) : bool * nat := match n with Named k => (true, k) | Unnamed k => (false, k) end.\n'
          'Definition model (ops : list (option (list nat * bool * option nat))) :=\n'
          "  let '(g, vs) := run (map mk_op ops) in\n"
          '  ((counter g, generation g, unnamed g), map (fun v => (name_code (v_name v), v_shape v, v_gen v, v_ids v)) vs).\n'
          'Definition out_eqb := pair_eqb (pair_eqb (pair_eqb Z.eqb Z.eqb) Nat.eqb)\n'
          '  (list_eqb (pair_eqb (pair_eqb (pair_eqb (pair_eqb Bool.eqb Nat.eqb) (list_eqb Nat.eqb)) Z.eqb) (list_eqb Z.eqb))).')


DUP_NAMES = []
EPI_NAMES = set()      # names of the epigraph Variables of all atoms created in this process (class counters: unique over the session)


GEN_HEADER = (HEADER.replace('Model.Alloc Base.Corr.', 'Model.Alloc Model.AllocIdioms Gen.GenAlloc Proofs.GenAllocSpec Base.Corr.') +
              '\nDefinition gen_model (ops : list (option (list nat * bool * option nat))) :=\n'
              "  let '(g, vs) := gen_run (map mk_op ops) in\n"
              '  ((counter g, generation g, unnamed g), map (fun v => (name_code (v_name v), v_shape v, v_gen v, v_ids v)) vs).')
USES_TRANSLATOR = True


def reset_globals():
    """the model starts from (0,0,0): bring the implementation's allocators to a known state and remember the offsets"""
    from sageopt.coniclifts.base import ScalarVariable, Variable
    return ScalarVariable._SCALAR_VARIABLE_COUNTER, Variable._VARIABLE_GENERATION, Variable._UNNAMED_VARIABLE_CALL_COUNT


def run_history(rng, length):
    import sageopt.coniclifts as cl
    from sageopt.coniclifts.base import ScalarVariable, Variable
    from sageopt.coniclifts.operators.abs import abs as clabs
    cl.clear_variable_indices()
    gen0 = Variable._VARIABLE_GENERATION
    un0 = Variable._UNNAMED_VARIABLE_CALL_COUNT
    ops, created, names = [], [], []
    cases = []
    meta = {'sym': False, 'clear': False}
    for _ in range(length):
        r = rng.random()
        if r < 0.12:
            cl.clear_variable_indices()
            ops.append(None)
            meta['clear'] = True
        elif r < 0.25 and created and created[-1][0].generation == Variable._VARIABLE_GENERATION:
            # a nonlinear atom allocates a 0-d epigraph Variable with a class-counter name
            v0 = created[-1][0]
            arg = v0.ravel()[:1]
            which = rng.choice(['abs', 'abs', 'pos', 'norm', 'exp', 'relent'])
            if which == 'abs':
                a = clabs(arg)
            elif which == 'pos':
                from sageopt.coniclifts.operators.pos import pos as clpos
                a = clpos(arg)
            elif which == 'norm':
                a = cl.vector2norm(cl.hstack((arg, 1.0 + arg))).ravel()
            elif which == 'exp':
                a = cl.weighted_sum_exp(np.array([1.0]), arg).ravel()
            else:
                a = cl.relent(arg + 1.0, arg + 2.0).ravel()
            atom = [t for t in a[0].atoms_to_coeffs if hasattr(t, 'epigraph_variable')][0]
            ev = atom.epigraph_variable.parent
            seen_before = ev.name in EPI_NAMES
            EPI_NAMES.add(ev.name)
            if ev.name in names or seen_before:
                DUP_NAMES.append('two distinct nonlinear atoms (the second a %s atom) have epigraph Variables with the same name %s' % (which, ev.name))
            names.append(ev.name)
            ops.append(vlib.Some(([], False, vlib.Some(Nat(len(names) - 1)))))
            created.append((ev, (True, len(names) - 1)))
        else:
            sym = rng.random() < 0.25
            if sym:
                n = rng.choice([1, 2, 3, 0]) if rng.random() < 0.85 else None
                sh = (n, n) if n is not None else rng.choice([(2, 3), (3,), ()])
            else:
                sh = rng.choice([(), (1,), (3,), (2, 2), (2, 3), (1, 2, 2), (0,), (2, 0)])
            named = rng.random() < 0.6
            nm = None
            if named:
                names.append('v%d' % len(names))
                nm = names[-1]
            ops.append(vlib.Some(([Nat(d) for d in sh], sym, vlib.Some(Nat(len(names) - 1)) if named else None)))
            meta['sym'] = meta['sym'] or (sym and len(sh) == 2 and sh[0] == sh[1] and sh[0] > 1)
            try:
                with warnings.catch_warnings():
                    warnings.simplefilter('ignore')
                    v = cl.Variable(shape=sh, name=nm, var_properties=(['symmetric'] if sym else None))
                created.append((v, (True, len(names) - 1) if named else (False, Variable._UNNAMED_VARIABLE_CALL_COUNT - 1 - un0)))
            except Exception:
                pass
        if created and rng.random() < 0.15:
            # a pickle round trip of a Variable of the CURRENT generation (alone, a slice with it, or inside a Problem) is not an allocation:
            # the allocator state the model predicts below is the state without it
            import pickle
            cur = [v for v, _ in created if v.generation == Variable._VARIABLE_GENERATION and v.size > 0 and v.is_proper()]
            if cur:
                v0 = rng.choice(cur)
                meta['pickle'] = meta.get('pickle', 0) + 1
                with warnings.catch_warnings():
                    warnings.simplefilter('ignore')
                    kind = rng.choice(['var', 'pair', 'problem'])
                    if kind == 'var':
                        pickle.loads(pickle.dumps(v0))
                    elif kind == 'pair':
                        pickle.loads(pickle.dumps((v0, v0.ravel()[:1])))
                    else:
                        pickle.loads(pickle.dumps(cl.Problem(cl.MIN, v0.ravel()[0], [v0 >= 1])))
        obs_g = (int(ScalarVariable._SCALAR_VARIABLE_COUNTER), int(Variable._VARIABLE_GENERATION - gen0),
                 Nat(int(Variable._UNNAMED_VARIABLE_CALL_COUNT - un0)))
        obs_v = []
        for v, code in created:
            nm_ok = (v.name == names[code[1]]) if code[0] else (v.name == 'unnamed_var_{%d}' % (code[1] + un0))
            obs_v.append((((code[0] if nm_ok else (not code[0])), Nat(code[1])), [Nat(d) for d in v.shape], int(v.generation - gen0),
                          [int(i) for i in v.scalar_variable_ids]))
        cases.append((list(ops), cq(list(ops)), cq((obs_g, obs_v))))
    return cases, meta, created


def oracle_unique(created):
    """ids distinct within a generation except mirrored entries of one symmetric Variable; slices refer to the parent"""
    seen = {}
    for v, _ in created:
        ids = np.array(v.scalar_variable_ids).reshape(v.shape) if v.shape else np.array(v.scalar_variable_ids)
        for idx, i in np.ndenumerate(ids) if v.shape else [((), int(ids[0]))]:
            key = (int(v.generation), int(i))
            owner = seen.get(key)
            if owner is not None and owner[0] is not v:
                return 'id %d of generation %d is used by two Variables (%s and %s)' % (key[1], key[0], owner[0].name, v.name)
            if owner is not None and owner[0] is v:
                if not (getattr(v, '_var_properties', None) and 'symmetric' in v._var_properties and len(idx) == 2
                        and tuple(sorted(idx)) == tuple(sorted(owner[1]))):
                    return 'id %d repeated inside Variable %s at non-mirrored entries %s / %s' % (key[1], v.name, owner[1], idx)
            else:
                seen[key] = (v, idx)
        if v.shape and v.size > 1:
            sl = v.ravel()[1:]
            if [int(i) for i in sl.scalar_variable_ids] != [int(i) for i in np.array(v.scalar_variable_ids).ravel()[1:]]:
                return 'slice of %s refers to other components than its parent' % v.name
            if sl.name != v.name or sl.generation != v.generation or sl.is_proper():
                return 'slice of %s has wrong name/generation/properness' % v.name
    return None


def oracle_pickle(rng):
    import sageopt.coniclifts as cl
    import sageopt as so
    with warnings.catch_warnings():
        warnings.simplefilter('ignore')
        # 1. a Variable together with an expression using it: links survive
        x = cl.Variable(shape=(2, 2), name='px', var_properties=['symmetric'])
        e = 2 * x[0, 1] + x[1, 1]
        x.value = np.array([[1.0, 2.0], [2.0, 3.0]])
        # values that are exactly zero are values
        xz = cl.Variable(shape=(3,), name='pzero')
        xz.value = np.array([0.0, -1.5, 0.0])
        xz2 = pickle.loads(pickle.dumps(xz))
        if not np.array_equal(np.asarray(xz2.value, dtype=float), np.array([0.0, -1.5, 0.0])):
            return 'the stored value [0, -1.5, 0] of a Variable came back from a pickle round trip as %s' % np.asarray(xz2.value).tolist()
        # assigning values through views reaches the components the view refers to
        xv = cl.Variable(shape=(4,), name='pview')
        xv.value = np.zeros(4)
        xv[::-1].value = np.array([1.0, 2.0, 3.0, 4.0])
        if not np.array_equal(np.asarray(xv.value, dtype=float), np.array([4.0, 3.0, 2.0, 1.0])):
            return 'x[::-1].value = [1,2,3,4] left x.value = %s' % np.asarray(xv.value).tolist()
        xv[2:].value = np.array([7.0, 8.0])
        if not np.array_equal(np.asarray(xv.value, dtype=float), np.array([4.0, 3.0, 7.0, 8.0])):
            return 'x[2:].value = [7,8] left x.value = %s' % np.asarray(xv.value).tolist()
        zm = cl.Variable(shape=(2, 3), name='pviewm')
        zm.value = np.zeros((2, 3))
        zm.T.value = np.arange(6.0).reshape(3, 2)
        if not np.array_equal(np.asarray(zm.value, dtype=float), np.arange(6.0).reshape(3, 2).T):
            return 'Z.T.value = M left Z.value = %s, expected M.T' % np.asarray(zm.value).tolist()
        x2, e2 = pickle.loads(pickle.dumps((x, e)))
        if x2.name != x.name or list(x2.scalar_variable_ids) != list(x.scalar_variable_ids) or x2.generation != x.generation \
                or not x2.is_proper() or x2.shape != x.shape:
            return 'Variable changed identity in a pickle round trip'
        if not np.array_equal(x2.value, x.value):
            return 'stored values lost in a pickle round trip'
        x2.value = np.array([[0.0, 5.0], [5.0, 1.0]])
        if float(e2.value) != 11.0:
            return 'expression no longer linked to its Variable after a pickle round trip (value %r, expected 11)' % (e2.value,)
        if any(sv.parent is not x2 for sv in x2.scalar_variables()):
            return 'ScalarVariable.parent not relinked after unpickling'
        # 2. Problems: unpickle then solve / solve then pickle / clear in between
        for when in ('before', 'after', 'clear'):
            y = cl.Variable(shape=(3,), name='py')
            t = cl.Variable(shape=(1,), name='pt')
            cons = [cl.vector2norm(y) <= t, y[0] >= 1, y[1] + y[2] == 2]
            prob = cl.Problem(cl.MIN, t[0] + 0.5 * y[0], cons)
            if when == 'after':
                prob.solve(verbose=False)
            blob = pickle.dumps(prob)
            ref = prob.solve(verbose=False)
            if when == 'clear':
                cl.clear_variable_indices()
            p2 = pickle.loads(blob)
            if (p2.A != prob.A).nnz != 0 or not np.array_equal(p2.b, prob.b) or [(c.type, c.len) for c in p2.K] != [(c.type, c.len) for c in prob.K]:
                return 'compiled system changed in a pickle round trip (%s)' % when
            if sorted(p2.variable_map) != sorted(prob.variable_map) or any(not np.array_equal(p2.variable_map[k], prob.variable_map[k]) for k in prob.variable_map):
                return 'variable_map changed in a pickle round trip (%s)' % when
            if when == 'after' and abs(p2.value - ref[1]) > 1e-9:
                return 'stored value lost in a pickle round trip'
            got = p2.solve(verbose=False)
            if got[0] != ref[0] or abs(got[1] - ref[1]) > 1e-6:
                return 'unpickled Problem solves to %r, original to %r (%s)' % (got, ref, when)
            # values are loaded into the unpickled Problem's own Variables, which its constraints see
            if max(c.violation() for c in p2.constraints) > 1e-5:
                return 'constraints of the unpickled Problem do not see the loaded values (%s)' % when
            byname = {v.name: v for v in p2.all_variables}
            if len(byname) != len(p2.all_variables):
                return 'duplicate Variable names in a compiled Problem'
        # 2b. a Variable loaded after clear_variable_indices() keeps the generation it was dumped with: it must not be
        #     mistaken for a Variable of the new generation (their indices coincide)
        cl.clear_variable_indices()
        old = cl.Variable(shape=(2,), name='pg_old')
        blob = pickle.dumps(old)
        cl.clear_variable_indices()
        new = cl.Variable(shape=(2,), name='pg_new')
        old2 = pickle.loads(blob)
        if old2.generation != old.generation or list(old2.scalar_variable_ids) != list(old.scalar_variable_ids):
            return ('a Variable dumped in generation %r was loaded after clear_variable_indices() with generation %r'
                    % (old.generation, old2.generation))
        # components of different generations are different objects of the algebra even when their indices coincide
        old2.value = np.array([1.0, 2.0])
        new.value = np.array([10.0, 20.0])
        ssum, sdiff = old2 + new, old2 - new
        if [float(t_) for t_ in np.asarray(ssum.value).tolist()] != [11.0, 22.0] or [float(t_) for t_ in np.asarray(sdiff.value).tolist()] != [-9.0, -18.0] \
                or any(len(se.atoms_to_coeffs) != 2 for se in ssum.flat):
            return ('x (loaded from an earlier generation) and y (current generation) carry the same indices; x + y evaluates to %s and x - y to %s '
                    'with x = [1,2], y = [10,20]' % (np.asarray(ssum.value).tolist(), np.asarray(sdiff.value).tolist()))
        try:
            pr = cl.Problem(cl.MIN, old2[0] + old2[1] + new[0] + new[1], [old2 >= 1, new >= 2])
            return ('a model mixing a Variable loaded from an earlier generation with a Variable of the current one (same indices %s) was '
                    'compiled (%d columns) instead of rejected' % (list(new.scalar_variable_ids), pr.A.shape[1]))
        except RuntimeError:
            pass
        # 2c. dumped AFTER the clear: the Variable still belongs to the generation it was declared in
        cl.clear_variable_indices()
        old = cl.Variable(shape=(2,), name='pg_old2')
        cl.clear_variable_indices()
        blob = pickle.dumps(old)
        old2 = pickle.loads(blob)
        new = cl.Variable(shape=(2,), name='pg_new2')
        if old2.generation != old.generation:
            return ('a Variable declared in generation %r and pickled after clear_variable_indices() was loaded with generation %r'
                    % (old.generation, old2.generation))
        try:
            pr = cl.Problem(cl.MIN, old2[0] + old2[1] + new[0] + new[1], [old2 >= 1, new >= 2])
            return ('a model mixing a Variable of an earlier generation (pickled after the clear) with a Variable of the current one was '
                    'compiled (%d columns) instead of rejected' % pr.A.shape[1])
        except RuntimeError:
            pass
        # 2d. a Problem with nonlinear atoms: the loaded constraints compile again to the same model, and every Variable the
        #     constraints mention (epigraph Variables included) is one of the Problem's Variables
        yv = cl.Variable(shape=(3,), name='pnl_y')
        tv = cl.Variable(shape=(1,), name='pnl_t')
        pnl = cl.Problem(cl.MIN, tv[0] + 0.5 * yv[0], [cl.vector2norm(yv) <= tv, yv[0] >= 1, yv[1] + yv[2] == 2,
                                                        cl.weighted_sum_exp(np.array([1.0]), yv[:1]) <= 4])
        ref = pnl.solve(verbose=False)
        for label, pp in (('original', pnl), ('unpickled', pickle.loads(pickle.dumps(pnl)))):
            known = {id(v_) for v_ in pp.all_variables}
            for con in pp.constraints:
                for v_ in con.variables():
                    if v_ is None or id(v_) not in known:
                        return 'a constraint of the %s Problem mentions a Variable (%s) that is not among the Problem\'s Variables' % (
                            label, getattr(v_, 'name', v_))
            try:
                got = cl.Problem(pp.objective_sense, pp.objective_expr, pp.constraints).solve(verbose=False)
            except Exception as e:
                return 'the constraints of the %s Problem (nonlinear atoms) cannot be compiled again: %s %s' % (label, type(e).__name__, ' '.join(str(e).split())[:120])
            if got[0] != ref[0] or abs(got[1] - ref[1]) > 1e-6:
                return 'the constraints of the %s Problem recompile to a model that solves to %r, the original to %r' % (label, got, ref)
        # 3. graphs that contain slices (improper Variables) in any order relative to their parent: the components stay
        #    linked to the proper Variable and a model over the loaded objects still compiles (fixed in /repo f0e3c75)
        for trial in range(6):
            z = cl.Variable(shape=(3,), name='pz%d' % trial)
            sl = z[1:] if trial % 2 == 0 else z[::2]
            objs = [z, sl, 2 * sl + 1]
            rng.shuffle(objs)
            loaded = pickle.loads(pickle.dumps(tuple(objs)))
            z2 = [o for o in loaded if isinstance(o, cl.Variable) and o.is_proper()][0]
            s2 = [o for o in loaded if isinstance(o, cl.Variable) and not o.is_proper()][0]
            if any(sv.parent is not z2 for sv in z2.scalar_variables()) or any(sv.parent is not z2 for sv in s2.scalar_variables()):
                return ('after unpickling a Variable and a slice of it (order %s) the components are linked to the slice, not to the Variable'
                        % [type(o).__name__ + ('' if not isinstance(o, cl.Variable) else ('(proper)' if o.is_proper() else '(slice)')) for o in objs])
            try:
                got = cl.Problem(cl.MIN, z2[0] + z2[1] + z2[2], [z2 >= 1, s2 >= 2]).solve(verbose=False)
            except RuntimeError as e:
                return 'a model over an unpickled Variable and its slice cannot be compiled: %s' % ' '.join(str(e).split())[:160]
            want = 5.0
            if got[0] != 'solved' or abs(got[1] - want) > 1e-6:
                return 'a model over an unpickled Variable and its slice solves to %r, expected %r' % (got, want)
        for order in (0, 1):
            w = cl.Variable(shape=(3,), name='pw%d' % order)
            cons = [w >= 1, w[1:] >= 2]
            if order:
                cons.reverse()
            p2 = pickle.loads(pickle.dumps(cl.Problem(cl.MIN, w[0] + w[1] + w[2], cons)))
            try:
                got = cl.Problem(p2.objective_sense, p2.objective_expr, p2.constraints).solve(verbose=False)
            except RuntimeError as e:
                return 'the constraints of an unpickled Problem (one of them on a slice) cannot be compiled again: %s' % ' '.join(str(e).split())[:160]
            if got[0] != 'solved' or abs(got[1] - 5.0) > 1e-6:
                return 'the constraints of an unpickled Problem recompile to a model that solves to %r, expected 5' % (got,)
    return None


def oracle_builder_names(rng):
    import sageopt as so
    from sageopt.relaxations import sage_sigs as ss, sage_polys as sp
    import sageopt.coniclifts as cl
    probs = []
    with warnings.catch_warnings():
        warnings.simplefilter('ignore')
        y = so.standard_sig_monomials(2)
        f = y[0] ** 2 + y[1] ** 2 - 3 * y[0] * y[1] + y[0] ** -1 + 1
        g = [4 - y[0] - y[1], y[0] - 0.5]
        h = [y[0] * y[1] - 1]
        X = ss.infer_domain(f, g, [])
        for form in ('primal', 'dual'):
            probs.append(('sig_relaxation/' + form, ss.sig_relaxation(f, X=X, form=form, ell=1)))
            probs.append(('sig_constrained/' + form, ss.sig_constrained_relaxation(f, g, h, form=form, p=1, q=2, ell=1)))
            probs.append(('sig_constrained_X/' + form, ss.sig_constrained_relaxation(f, g, h, X=X, form=form, p=0, q=1, ell=0)))
        x = so.standard_poly_monomials(2)
        p = x[0] ** 4 + x[1] ** 4 - x[0] * x[1] + 1 + x[0] ** 2 * x[1]
        pg = [1 - x[0] ** 2 - x[1] ** 2, x[0] ** 2 * x[1] ** 2 * 3 - 0.1 * x[0] ** 2]
        for form in ('primal', 'dual'):
            probs.append(('poly_relaxation/' + form, sp.poly_relaxation(p, form=form, poly_ell=1)))
            probs.append(('poly_constrained/' + form, sp.poly_constrained_relaxation(p, pg, [], form=form, p=1, q=2, ell=0)))
        # every kind of nonlinear atom at once: each epigraph Variable has its own name
        from sageopt.coniclifts.operators.abs import abs as clabs
        from sageopt.coniclifts.operators.pos import pos as clpos
        from harness.props.c11 import align_atom_counters
        align_atom_counters()        # as in a fresh process: the first atom of every class carries the same serial number
        za = cl.Variable(shape=(2,), name='atoms_z')
        mixed = cl.Problem(cl.MIN, za[0] + za[1], [clabs(za[:1] - 3.0) <= 2, clpos(za[1:] + 1.0) <= 5, cl.vector2norm(za) <= 10,
                                                    cl.weighted_sum_exp(np.array([1.0, 1.0]), za) <= 200, za >= -4,
                                                    cl.relent(cl.Expression([1.0]), za[:1] + 6.0) <= 1])
        probs.append(('all_atom_kinds', mixed))
        probs.append(('sage_feasibility', ss.sage_feasibility(f + 10)))
        probs.append(('sage_multiplier_search', ss.sage_multiplier_search(f + 10, level=1)))
        # two constraints that differ only in one coefficient (-1 / -2: these two floats have equal hashes), and two equal-valued but
        # separately built constraints next to a third one: every multiplier has its own name
        for form in ('primal', 'dual'):
            probs.append(('sig_constrained/%s, gts = [1 - y0, 1 - 2 y0]' % form,
                          ss.sig_constrained_relaxation(f, [1 - y[0], 1 - 2 * y[0]], [], form=form, p=0, q=1, ell=0)))
            probs.append(('sig_constrained/%s, eqs = [1 - y0 y1, 1 - 2 y0 y1] (p = 1)' % form,
                          ss.sig_constrained_relaxation(f, [4 - y[0]], [1 - y[0] * y[1], 1 - 2 * y[0] * y[1]], form=form, p=1, q=1, ell=0)))
        # repeated calls on the SAME function object (polynomials cache their signomial representative and its side constraints), and a
        # user's list of additional constraints handed over twice: every Problem has its own, uniquely named Variables
        pf = x[0] ** 4 + x[1] ** 4 - x[0] * x[1] ** 2 + 2
        probs.append(('poly sage_feasibility, first call', sp.sage_feasibility(pf)))
        probs.append(('poly sage_feasibility, second call on the same Polynomial', sp.sage_feasibility(pf)))
        probs.append(('poly sage_multiplier_search after sage_feasibility on the same Polynomial', sp.sage_multiplier_search(pf, level=1)))
        probs.append(('poly_relaxation (primal) after sage_feasibility on the same Polynomial', sp.poly_relaxation(pf, form='primal')))
        tt = cl.Variable(shape=(1,), name='user_extra')
        user_cons = [tt >= 1]
        n_user = len(user_cons)
        probs.append(('sig sage_feasibility with additional_cons, first call', ss.sage_feasibility(f + 10, additional_cons=user_cons)))
        probs.append(('sig sage_feasibility with additional_cons, second call', ss.sage_feasibility(f + 10, additional_cons=user_cons)))
        if len(user_cons) != n_user:
            return 'sage_feasibility changed the caller\'s list of additional constraints (%d -> %d entries)' % (n_user, len(user_cons))
    for name, prob in probs:
        ncons = [type(c_).__name__ for c_ in prob.constraints]
        if 'second call' in name and ncons.count('PrimalSageCone') != 1:
            return '%s: the Problem holds %d primal SAGE constraints (one was asked for)' % (name, ncons.count('PrimalSageCone'))
        seen_ids = {}
        for v in prob.all_variables:
            ids_ = [int(i) for i in np.asarray(v.scalar_variable_ids).ravel().tolist()]
            if len(ids_) != int(np.prod(v.shape)) if v.shape else len(ids_) != 1:
                return '%s: after compilation the Variable %s of size %s reports %d indices' % (name, v.name, v.shape, len(ids_))
            for i_ in set(ids_):
                if i_ in seen_ids and seen_ids[i_] != v.name:
                    return '%s: the index %d belongs to the Variables %s and %s' % (name, i_, seen_ids[i_], v.name)
                seen_ids[i_] = v.name
        names = [v.name for v in prob.all_variables]
        if len(set(names)) != len(names):
            dup = sorted(n for n in set(names) if names.count(n) > 1)
            return '%s: Variables of the compiled Problem share the names %r' % (name, dup[:3])
        if sorted(prob.variable_map) != sorted(names):
            return '%s: variable_map keys differ from the Variables\' names' % name
    return None


def oracle_component_placement(rng):
    """a component keeps its identity through compilation, solving and pickling: variable_map[name][idx] is the column that carries the coefficients
    of component idx, so after a solve M[idx] holds the value of M[idx] (2-d non-square, 3-d, symmetric and sliced Variables), also for an unpickled Problem"""
    import pickle
    import sageopt.coniclifts as cl
    with warnings.catch_warnings():
        warnings.simplefilter('ignore')
        for sh, sym in (((2, 3), False), ((3, 2), False), ((2, 2, 2), False), ((1, 3, 2), False), ((3, 3), True), ((4,), False)):
            M = cl.Variable(shape=sh, name='place_%s_%d' % ('x'.join(map(str, sh)), sym), var_properties=(['symmetric'] if sym else None))
            target = np.arange(1.0, 1.0 + int(np.prod(sh))).reshape(sh)
            if sym:
                target = (target + target.T) / 2.0
            w = rng.choice([1.0, 2.0])
            prob = cl.Problem(cl.MIN, w * cl.sum(M), [M >= target, M <= target + 5.0])
            for label, pr in (('the Problem', prob), ('the Problem after a pickle round trip', None)):
                if pr is None:
                    pr = pickle.loads(pickle.dumps(prob))
                st, val = pr.solve(verbose=False)
                Mv = [v for v in pr.all_variables if v.name == M.name][0]
                got = np.asarray(Mv.value, dtype=float)
                if st != 'solved' or got.shape != target.shape or not np.allclose(got, target, atol=1e-5):
                    return ('min %g * sum(M) s.t. T <= M <= T + 5 with M of shape %s%s: after solving %s, M.value is %s; every component M[idx] has the optimum T[idx] = %s'
                            % (w, sh, ' (symmetric)' if sym else '', label, got.tolist(), target.tolist()))
                vm = np.asarray(pr.variable_map[M.name])
                A = pr.A.toarray()
                for idx in np.ndindex(*sh):
                    col = int(vm[idx])
                    rows = [r for r in range(A.shape[0]) if A[r, col] != 0]
                    want_rows = 2 if not (sym and idx[0] != idx[1]) else 4
                    if len(rows) != want_rows:
                        return 'variable_map[%s]%s = %d is a column with %d nonzero rows (expected %d: the two bounds on that component)' % (M.name, idx, col, len(rows), want_rows)
        # an array that numpy stacks from several Variables keeps the Python type Variable; every Variable with a component in it stays a Variable of the
        # Problem (all_variables, variable_map, values after a solve), before and after a pickle round trip
        for how in ('concatenate', 'hstack', 'stack'):
            pa = cl.Variable(shape=(2,), name='c20mix_a_' + how)
            pb = cl.Variable(shape=(2,), name='c20mix_b_' + how)
            arr = {'concatenate': lambda: np.concatenate((pa, pb)), 'hstack': lambda: np.hstack((pa, pb)), 'stack': lambda: np.stack((pa, pb)).ravel()}[how]()
            # the stacked array itself is the argument (arr >= 0), the shifts come from a second constraint on a plain Expression of pa only
            prob = cl.Problem(cl.MIN, pa[0] + pa[1] + pb[0] + 2 * pb[1], [cl.PrimalProductCone(arr, [cl.Cone('+', 4)]), pa >= np.array([1.0, 2.0])])
            for label, pr in (('the Problem', prob), ('the Problem after a pickle round trip', None)):
                if pr is None:
                    pr = pickle.loads(pickle.dumps(prob))
                names = sorted(v.name for v in pr.all_variables)
                if names != sorted([pa.name, pb.name]) or sorted(pr.variable_map) != names:
                    return ('np.%s of two Variables as the argument of a product cone: %s has Variables %s and variable_map keys %s; both %s and %s have components in it'
                            % (how, label, names, sorted(pr.variable_map), pa.name, pb.name))
                st, val = pr.solve(verbose=False)
                vals_ = {v.name: np.asarray(v.value, dtype=float).tolist() for v in pr.all_variables}
                if st != 'solved' or abs(val - 3.0) > 1e-5 or not np.allclose(vals_.get(pa.name, [np.nan]), [1.0, 2.0], atol=1e-4) or not np.allclose(vals_.get(pb.name, [np.nan]), [0.0, 0.0], atol=1e-4):
                    return 'np.%s of two Variables in a product cone: %s solves to (%s, %r) with values %s; expected 3 at (1, 2), (0, 0)' % (how, label, st, val, vals_)
                for con_ in pr.constraints:
                    for v_ in con_.variables():
                        if any(sv.parent is None for sv in v_.scalar_variables()):
                            return 'np.%s of two Variables in a product cone: in %s a component of %s has no parent Variable' % (how, label, v_.name)
    return None


def run(ctx):
    why = oracle_component_placement(ctx.rng)
    ctx.evaluations += 12
    ctx.suites['component_placement'] = {'cases': 12, 'failure': why}
    if why:
        ctx.problem('oracle', 'property fails on the implementation: ' + why, inputs={'suite': 'component_placement'}, failing_input_found=True)
    cases = []
    for _ in range(ctx.n(80, 800)):
        hc, meta, created = run_history(ctx.rng, ctx.rng.randint(3, 10))
        why = oracle_unique(created)
        if not why and DUP_NAMES:
            why = DUP_NAMES[0]
        del DUP_NAMES[:]
        if why:
            ctx.problem('oracle', 'property fails on the implementation: ' + why, inputs={'history': str(hc[-1][0])}, failing_input_found=True)
            break
        ctx.count('history.sym', meta['sym'])
        ctx.count('history.pickle_steps', min(meta.get('pickle', 0), 3))
        ctx.count('history.clear', meta['clear'])
        if meta['sym'] or meta['clear']:
            ctx.nontrivial.add(vlib.sha(str(hc[-1][0])))
        cases += hc
    ctx.evaluations += len(cases)
    T_in = 'list (option (list nat * bool * option nat))'
    T_out = '(Z * Z * nat) * list ((bool * nat) * list nat * Z * list Z)'
    mism, err = vlib.run_suite_in_coq(ctx.pid, 'alloc', HEADER, 'model', 'out_eqb', T_in, T_out, [(c[1], c[2]) for c in cases], shard=150)
    ctx.suites['alloc'] = {'cases': len(cases), 'mismatches': None if mism is None else len(mism)}
    if err:
        ctx.problem('correspondence', 'suite alloc: ' + err)
    else:
        if cases:
            ctx.samples.append({'suite': 'alloc', 'history': str(cases[len(cases) // 2][0])[:600], 'impl': cases[len(cases) // 2][2][:400]})
        for idx in mism[:3]:
            model_out = vlib.coq_show(HEADER, 'model %s' % cases[idx][1])
            ctx.problem('correspondence', 'suite alloc: model and implementation disagree after history %s; impl=%s model=%s'
                        % (cases[idx][1][:800], cases[idx][2][:800], model_out[:800]), inputs={'history': cases[idx][1]}, failing_input_found=False)
    # the same histories through the allocation code GENERATED from base.py / __init__.py (Gen/GenAlloc.v)
    mism, err = vlib.run_suite_in_coq(ctx.pid, 'alloc_generated', GEN_HEADER, 'gen_model', 'out_eqb', T_in, T_out, [(c[1], c[2]) for c in cases], shard=150)
    ctx.suites['alloc_generated'] = {'cases': len(cases), 'mismatches': None if mism is None else len(mism)}
    if err:
        ctx.problem('correspondence', 'suite alloc_generated: ' + err)
    else:
        for idx in mism[:2]:
            ctx.problem('correspondence', 'suite alloc_generated: the allocation code generated from base.py and the implementation disagree after history %s; impl=%s'
                        % (cases[idx][1][:800], cases[idx][2][:800]), inputs={'history': cases[idx][1]}, failing_input_found=False)
    # make_variable_map GENERATED from compilers.py (Gen/GenVarMap.v) against the implementation on random shapes and column lists
    import sageopt.coniclifts as cl_
    from sageopt.coniclifts.compilers import make_variable_map
    vmc = []
    for _ in range(ctx.n(40, 300)):
        sh = ctx.rng.choice([(3,), (2, 3), (3, 2), (2, 2, 2), (1, 3, 2), (4, 1), (2, 1, 2, 2), (1,)])
        k = int(np.prod(sh))
        cols = [ctx.rng.randint(-1, 40) for _ in range(k)]
        with warnings.catch_warnings():
            warnings.simplefilter('ignore')
            vv = cl_.Variable(shape=sh, name='vmgen')
            got = make_variable_map([vv], [np.array(cols)])['vmgen']
        vmc.append(({'shape': list(sh), 'cols': cols}, cq(([Nat(d) for d in sh], cols)), cq([int(t) for t in np.asarray(got).ravel().tolist()])))
    gh = HEADER.replace('Model.Alloc Base.Corr.', 'Model.Alloc Model.AllocIdioms Gen.GenVarMap Base.Corr.')
    mism, err = vlib.run_suite_in_coq(ctx.pid, 'variable_map_generated', gh, 'fun x => map (gen_variable_map_entry (fst x) (snd x)) (index_tuples (fst x))',
                                      'list_eqb Z.eqb', 'list nat * list Z', 'list Z', [(c[1], c[2]) for c in vmc], shard=150)
    ctx.suites['variable_map_generated'] = {'cases': len(vmc), 'mismatches': None if mism is None else len(mism)}
    ctx.evaluations += len(vmc)
    if err:
        ctx.problem('correspondence', 'suite variable_map_generated: ' + err)
    else:
        for idx in mism[:2]:
            ctx.problem('correspondence', 'suite variable_map_generated: make_variable_map generated from compilers.py and the implementation disagree on %s; impl (row-major)=%s'
                        % (vmc[idx][0], vmc[idx][2][:300]), inputs={'case': vmc[idx][0]}, failing_input_found=False)
    for name, f in (('pickle_roundtrips', oracle_pickle), ('builder_names', oracle_builder_names)):
        why = f(ctx.rng)
        ctx.suites[name] = {'cases': 1, 'failure': why}
        ctx.evaluations += 1
        if why:
            ctx.problem('oracle', '%s: %s' % (name, why), inputs={'suite': name}, failing_input_found=True)


def search(ctx):
    for _ in range(300):
        hc, meta, created = run_history(ctx.rng, ctx.rng.randint(3, 10))
        why = oracle_unique(created)
        if why:
            return {'history': hc[-1][1], 'property_failure': why}
    for name, f in (('pickle_roundtrips', oracle_pickle), ('builder_names', oracle_builder_names)):
        why = f(ctx.rng)
        if why:
            return {'suite': name, 'property_failure': why}
    return None


def replay(payload):
    ctx = vlib.Ctx('C20', 'quick', int(payload.get('seed', 0)))
    found = search(ctx)
    print(found or 'property holds on the regenerated histories')
    return 1 if found else 0
