"""Systematic option/level lattice for the relaxation builders (used by C03, C04, C05).

A handful of tiny fixed instances whose minimum over the feasible set is known from a dense grid is pushed through EVERY combination
of entry point, form, level and option that is cheap to solve.  For each combination the reported value must be a lower bound; values
that the property says are equal (primal/dual, options that are without loss of generality, slacks) must agree; a higher level must
not give a lower bound.  This is a test layer (it samples the lattice on fixed instances), complementing the theorems: its job is to
notice an entry point, branch or option that the random generators of the correspondence suites never reach."""
import itertools
import math
import warnings

import numpy as np

TOL_BOUND = 1e-4
TOL_AGREE = 1e-3


def _settings_guard():
    import sageopt.coniclifts.constraints.set_membership.sage_cones as sc

    class G:
        def __enter__(self):
            self.sc = sc
            self.saved = dict(sc.SETTINGS)
            return self

        def reset(self):
            self.sc.SETTINGS.clear()
            self.sc.SETTINGS.update(self.saved)

        def __exit__(self, *a):
            self.reset()
    return G()


def _solve(build):
    try:
        prob = build()
        st, val = prob.solve(verbose=False)
        # solving the same Problem object again is the same question: same status, same value (to solver tolerance)
        st2, val2 = prob.solve(verbose=False)
        same = st2 == st and ((isinstance(val, float) and isinstance(val2, float) and (val2 == val or (math.isnan(val) and math.isnan(val2)) or
                              (math.isfinite(val) and math.isfinite(val2) and abs(val2 - val) <= 1e-6 * (1 + abs(val))))) or val2 == val)
        if not same:
            return 'error', 'a second solve() of the same Problem gives (%s, %r) after (%s, %r)' % (st2, val2, st, val)
        return st, val
    except RuntimeError as e:
        msg = ' '.join(str(e).split())
        if 'infeasible' in msg:
            return 'refused', -math.inf
        return 'error', msg[:80]
    except Exception as e:       # noqa
        return 'error', '%s %s' % (type(e).__name__, ' '.join(str(e).split())[:60])


def _finite(v):
    return v[0] == 'solved' and isinstance(v[1], float) and math.isfinite(v[1])


def _judge(vals, ub, desc, groups, chains):
    """vals: key -> (status, value); groups: lists of keys whose values must agree; chains: lists of keys along which the value must
    not decrease"""
    for k, v in vals.items():
        if v[0] == 'error' and isinstance(v[1], str) and v[1].startswith('a second solve()'):
            return '%s: %s: %s' % (desc, k, v[1])
        if v[0] == 'solved' and isinstance(v[1], float):
            if v[1] == math.inf and math.isfinite(ub):
                return '%s: %s reports +inf although the feasible set is non-empty (f = %r at a feasible point)' % (desc, k, ub)
            if math.isfinite(v[1]) and v[1] > ub + TOL_BOUND * (1 + abs(ub)):
                return '%s: %s reports %r, above f at a feasible point (%r)' % (desc, k, v[1], ub)
    for grp in groups:
        fin = [(k, vals[k][1]) for k in grp if k in vals and _finite(vals[k])]
        neg = [k for k in grp if k in vals and vals[k][0] in ('solved', 'refused') and vals[k][1] == -math.inf]
        if fin and neg:
            return '%s: %s gives %r but %s gives -inf (these must agree)' % (desc, fin[0][0], fin[0][1], neg[0])
        for (k1, v1), (k2, v2) in itertools.combinations(fin, 2):
            if abs(v1 - v2) > TOL_AGREE * (1 + abs(v1)):
                return '%s: %s gives %r but %s gives %r (these must agree)' % (desc, k1, v1, k2, v2)
    for ch in chains:
        fin = [(k, vals[k][1]) for k in ch if k in vals and _finite(vals[k])]
        for (k1, v1), (k2, v2) in zip(fin, fin[1:]):
            if v2 < v1 - TOL_AGREE * (1 + abs(v1)):
                return '%s: the bound decreases from %r (%s) to %r at the higher level (%s)' % (desc, v1, k1, v2, k2)
    return None


# ------------------------------------------------------------------------------------------------ C03
def lattice_c03(ctx):
    import sageopt as so
    import sageopt.coniclifts as cl
    from sageopt.relaxations import sage_sigs as ss
    warnings.simplefilter('ignore')
    insts = []
    y = so.standard_sig_monomials(1)
    f1 = y[0] ** 2 - 3 * y[0] + 4 + y[0] ** -1
    g1 = np.linspace(-4, 3, 14001)
    insts.append(('e^{2x}-3e^x+4+e^{-x}', f1, 1, [(float(f1(np.array([t]))), np.array([t])) for t in g1], [2 - y[0], y[0] - 0.25], (0, 1, 2)))
    # the domain is ACTIVE here: the minimum over the box [log 3, log 8] (6, at the left end) is far above the minimum over R (-1/4)
    fa = y[0] ** 2 - y[0]
    ga = np.linspace(math.log(3.0), math.log(8.0), 4001)
    insts.append(('e^{2x}-e^x (box active)', fa, 1, [(float(fa(np.array([t]))), np.array([t])) for t in np.linspace(-4, 3, 7001)], [8 - y[0], y[0] - 3], (0, 1)))
    y2 = so.standard_sig_monomials(2)
    f2 = y2[0] ** 2 + y2[1] ** 2 - y2[0] * y2[1] + y2[0] ** -1 + 0.5 * y2[1] ** -1
    g2 = np.linspace(-2.5, 2.0, 181)
    insts.append(('y0^2+y1^2-y0y1+1/y0+.5/y1', f2, 2, [(float(f2(np.array([a, b]))), np.array([a, b])) for a in g2 for b in g2],
                  [3 - y2[0], y2[0] - 0.2, 3 - y2[1], y2[1] - 0.2], (0, 1)))
    # degenerate signomials: every term positive, so every AGE cone of f - gamma is trivial and the constraint reduces to c >= 0
    fp = 3 + 2 * y2[0] * y2[1] ** -1
    gp = np.linspace(-3.0, 3.0, 61)
    insts.append(('3 + 2 y0/y1 (posynomial)', fp, 2, [(float(fp(np.array([a, b]))), np.array([a, b])) for a in gp for b in gp],
                  [3 - y2[0], y2[0] - 0.2, 3 - y2[1], y2[1] - 0.2], (0,)))
    fm = 2 * y[0]
    insts.append(('2 e^x (one term)', fm, 1, [(float(fm(np.array([t]))), np.array([t])) for t in np.linspace(-12, 3, 1501)], [2 - y[0], y[0] - 0.25], (0,)))
    nsolves = 0
    with _settings_guard() as G:
        for name, f, n, pts, bounds, ells in insts:
            for dom in ('R^n', 'box'):
                X = None
                feas = pts
                if dom == 'box':
                    X = ss.infer_domain(f, bounds, [])
                    feas = [(v, x) for v, x in pts if all(float(g(x)) >= 0 for g in bounds)]
                ub = min(v for v, _ in feas)
                vals, groups, chains = {}, [], {'primal': [], 'dual': []}
                for ell in ells:
                    grp = []
                    for pre in (False, True):
                        for ker in ((False, True) if X is None else (False,)):
                            G.reset()
                            cl.presolve_trivial_age_cones(pre)
                            cl.kernel_basis_age_witnesses(ker)
                            k = ('primal', 'ell=%d' % ell, 'presolve=%s' % pre, 'kernel_basis=%s' % ker)
                            vals[k] = _solve(lambda: ss.sig_relaxation(f, X, 'primal', ell=ell))
                            nsolves += 1
                            if X is None or not pre:
                                grp.append(k)       # the optimisation-based presolve of conditional cones is a heuristic
                        for comp in (True, False):
                            G.reset()
                            cl.presolve_trivial_age_cones(pre)
                            cl.compact_sage_duals(comp)
                            k = ('dual', 'ell=%d' % ell, 'presolve=%s' % pre, 'compact_dual=%s' % comp)
                            vals[k] = _solve(lambda: ss.sig_relaxation(f, X, 'dual', ell=ell))
                            nsolves += 1
                            if X is None or not pre:
                                grp.append(k)
                    groups.append(grp)
                    chains['primal'].append(grp[0])
                    chains['dual'].append([k for k in grp if k[0] == 'dual'][0])
                why = _judge(vals, ub, 'sig_relaxation of %s over %s' % (name, dom), groups, list(chains.values()))
                if why:
                    return why, nsolves
        # ill-scaled exponents with kernel_basis on/off: a posynomial with infimum 1 (x1 -> -inf, x2 -> -inf)
        G.reset()
        fi = so.Signomial(np.array([[50.0, 0.0], [0.0, 0.00002], [0.0, 0.0]]), np.array([1.0, 1.0, 1.0]))
        ubi = float(fi(np.array([-1.0, -1.0e6])))
        vals = {}
        for ker in (False, True):
            G.reset()
            cl.kernel_basis_age_witnesses(ker)
            vals[('primal', 'kernel_basis=%s' % ker)] = _solve(lambda: ss.sig_relaxation(fi, None, 'primal'))
            vals[('dual', 'kernel_basis=%s' % ker)] = _solve(lambda: ss.sig_relaxation(fi, None, 'dual'))
            nsolves += 2
        G.reset()
        why = _judge(vals, ubi, 'sig_relaxation of exp(50 x1) + exp(2e-5 x2) + 1', [list(vals)], [])
        if why:
            return why, nsolves
        # a domain described by two norm constraints (two second-order cones next to each other in X.K): the lens |x| <= 1, |x - (1,0)| <= 1
        from sageopt.symbolic.signomials import SigDomain
        xl = cl.Variable(shape=(2,), name='lat_lens_x')
        ctr = np.array([1.0, 0.0])
        Xl = SigDomain(2, coniclifts_cons=[cl.vector2norm(xl) <= 1, cl.vector2norm(xl - ctr) <= 1],
                       gts=[lambda z: 1 - float(np.linalg.norm(z)), lambda z: 1 - float(np.linalg.norm(np.asarray(z) - ctr))], eqs=[])
        fl = y2[1] + 0.1 * y2[1] ** -1 + 0.5 * y2[0]
        gl = np.linspace(-1.0, 1.0, 201)
        ptsl = [np.array([a, b]) for a in np.linspace(0.0, 1.0, 101) for b in gl if a * a + b * b <= 1 and (a - 1) ** 2 + b * b <= 1]
        ubl = min(float(fl(p_)) for p_ in ptsl)
        vals = {('primal', 'lens'): _solve(lambda: ss.sig_relaxation(fl, Xl, 'primal')), ('dual', 'lens'): _solve(lambda: ss.sig_relaxation(fl, Xl, 'dual'))}
        nsolves += 2
        why = _judge(vals, ubl, 'sig_relaxation of e^x2 + .1 e^-x2 + .5 e^x1 over the lens {|x| <= 1, |x - (1,0)| <= 1}', [list(vals)], [])
        if why:
            return why, nsolves
        # ONE set written in the ways a user writes it (number on the left of a minus sign, array minus matrix product, reversed comparison,
        # exponents with constant shifts against rescaled weights): every description gives the same bound, below f at points of the set
        ft = y2[0] ** -1 + y2[1] ** -1 + 0.25 * y2[0] * y2[1]
        Am = np.array([[1.0, 1.0]])
        def tri_dom(form):
            xt = cl.Variable(shape=(2,), name='lat_tri_x_' + form)
            c_ = {'x0 + x1 <= 1': lambda: [xt[0] + xt[1] <= 1], '1 - x0 - x1 >= 0': lambda: [1 - xt[0] - xt[1] >= 0],
                  'b - A @ x >= 0': lambda: [np.array([1.0]) - Am @ xt >= 0], '1.0 >= x0 + x1': lambda: [1.0 >= xt[0] + xt[1]],
                  '0 <= 1 - (x0 + x1)': lambda: [0 <= 1.0 - (xt[0] + xt[1])]}[form]()
            return SigDomain(2, coniclifts_cons=c_ + [xt >= -1])
        ptt = [np.array([a, b]) for a in np.linspace(-1, 2, 61) for b in np.linspace(-1, 2, 61) if a + b <= 1]
        ubt = min(float(ft(p_)) for p_ in ptt)
        vals = {}
        for form in ('x0 + x1 <= 1', '1 - x0 - x1 >= 0', 'b - A @ x >= 0', '1.0 >= x0 + x1', '0 <= 1 - (x0 + x1)'):
            vals[('dual', form)] = _solve(lambda: ss.sig_relaxation(ft, tri_dom(form), 'dual'))
            nsolves += 1
        vals[('primal', 'x0 + x1 <= 1')] = _solve(lambda: ss.sig_relaxation(ft, tri_dom('x0 + x1 <= 1'), 'primal'))
        vals[('primal', '1 - x0 - x1 >= 0')] = _solve(lambda: ss.sig_relaxation(ft, tri_dom('1 - x0 - x1 >= 0'), 'primal'))
        nsolves += 2
        why = _judge(vals, ubt, 'sig_relaxation of e^-x1 + e^-x2 + .25 e^(x1+x2) over {x1 + x2 <= 1, x >= -1} written in five ways', [list(vals)], [])
        if why:
            return why, nsolves
        # a box with a shifted centre written with abs(x - centre) <= radius against the same box written with bounds
        from sageopt.coniclifts.operators.abs import abs as cl_abs_
        ctrb, radb = np.array([1.0, 0.5]), np.array([1.0, 1.0])
        def box_dom(form):
            xb = cl.Variable(shape=(2,), name='lat_absbox_x_' + form)
            if form == 'abs(x - c) <= r':
                c_ = [cl_abs_(xb - ctrb) <= radb]
            elif form == 'abs(c - x) <= r':
                c_ = [cl_abs_(ctrb - xb) <= radb]
            else:
                c_ = [xb <= ctrb + radb, xb >= ctrb - radb]
            return SigDomain(2, coniclifts_cons=c_)
        fb = y2[0] ** -1 + y2[1] + y2[1] ** -1
        ubb = min(float(fb(np.array([a, b]))) for a in np.linspace(0, 2, 41) for b in np.linspace(-0.5, 1.5, 41))
        vals = {(fm, form): _solve(lambda: ss.sig_relaxation(fb, box_dom(form), fm)) for fm in ('primal', 'dual') for form in ('abs(x - c) <= r', 'abs(c - x) <= r', 'bounds')}
        nsolves += 6
        why = _judge(vals, ubb, 'sig_relaxation of e^-x1 + e^x2 + e^-x2 over the box [0,2] x [-.5,1.5] written with abs and with bounds', [list(vals)], [])
        if why:
            return why, nsolves
        def exp_dom(form):
            xe_ = cl.Variable(shape=(2,), name='lat_exps_x_' + form)
            if form == 'shifted exponents':
                c_ = [cl.weighted_sum_exp(np.array([1.0, 1.0]), xe_ + np.array([0.5, -1.0])) <= 3]
            else:
                c_ = [cl.weighted_sum_exp(np.array([math.exp(0.5), math.exp(-1.0)]), xe_) <= 3]
            return SigDomain(2, coniclifts_cons=c_ + [xe_ >= -2])
        pte = [np.array([a, b]) for a in np.linspace(-2, 1, 61) for b in np.linspace(-2, 3, 101) if math.exp(a + 0.5) + math.exp(b - 1.0) <= 3]
        fe = y2[0] ** -1 + y2[1] ** -1 + 0.1 * y2[0] + 0.1 * y2[1]
        ube = min(float(fe(p_)) for p_ in pte)
        vals = {(fm, form): _solve(lambda: ss.sig_relaxation(fe, exp_dom(form), fm)) for fm in ('primal', 'dual') for form in ('shifted exponents', 'rescaled weights')}
        nsolves += 4
        why = _judge(vals, ube, 'sig_relaxation over {exp(x1 + .5) + exp(x2 - 1) <= 3, x >= -2} written with shifted exponents / rescaled weights', [list(vals)], [])
        if why:
            return why, nsolves
    return None, nsolves


# ------------------------------------------------------------------------------------------------ C04
def lattice_c04(ctx):
    import sageopt as so
    from sageopt.relaxations import sage_sigs as ss
    warnings.simplefilter('ignore')
    insts = []
    y = so.standard_sig_monomials(1)
    f1 = y[0] + y[0] ** -2
    gts1 = [y[0] - 1.5, 3 - y[0]]
    g1 = np.linspace(-1, 2, 6001)
    insts.append(('min e^x + e^{-2x} s.t. 1.5 <= e^x <= 3', f1, gts1, [], [np.array([t]) for t in g1],
                  [(0, 1, 0), (1, 1, 0), (0, 2, 0), (0, 1, 1), (1, 2, 0), (1, 1, 1), (0, 1, 2)]))
    fq = y[0] ** 2 - 3 * y[0] + 3
    insts.append(('min e^{2x} - 3e^x + 3 s.t. 0.5 <= e^x <= 2', fq, [y[0] - 0.5, 2 - y[0]], [], [np.array([t]) for t in np.linspace(math.log(0.5), math.log(2.0), 4001)],
                  [(0, 1, 0), (0, 1, 1), (0, 1, 2), (1, 1, 0)]))
    y2 = so.standard_sig_monomials(2)
    f2 = y2[0] + y2[1] - 0.3 * y2[0] * y2[1]
    gts2 = [y2[0] - 0.2, y2[1] - 0.2, 4 - y2[0] ** 2 - y2[1] ** 2]
    g2 = np.linspace(math.log(0.2), math.log(2.0), 161)
    insts.append(('min y0+y1-.3y0y1 s.t. y>=.2, y0^2+y1^2<=4', f2, gts2, [], [np.array([a, b]) for a in g2 for b in g2],
                  [(0, 1, 0), (1, 1, 0), (0, 2, 0), (0, 1, 1)]))
    # an equation, in both orientations (the multiplier of an equation is free: h == 0 and -h == 0 are the same problem); the grid lies on
    # the manifold y0 y1 = 1
    man = [np.array([t, -t]) for t in np.linspace(-1.5, 1.5, 3001)]
    fe = y2[0] + 2 * y2[1] + 0.5 * y2[0] ** 2
    for nm, h in (('1 - y0 y1 == 0', 1 - y2[0] * y2[1]), ('y0 y1 - 1 == 0', y2[0] * y2[1] - 1)):
        insts.append(('min y0+2y1+.5y0^2 s.t. %s, y <= 5' % nm, fe, [5 - y2[0], 5 - y2[1]], [h], man, [(0, 1, 0), (1, 1, 0)]))
    # the inferred domain's cone list has its zero cone BEFORE exponential cones: a monomial equation together with a three-term
    # posynomial inequality (K = [+, 0, e, e]); same grid on the manifold y0 y1 = 1
    insts.append(('min y0+2y1+.5y0^2 s.t. y0 y1 == 1, y0 + y1 <= 3', fe, [3 - y2[0] - y2[1]], [1 - y2[0] * y2[1]], man, [(0, 1, 0)]))
    # cube-root exponents: after products the Lagrangian carries 0.6666666 (= 2 * 0.3333333) next to 0.6666667 (= 2/3 rounded)
    fc = y[0] ** (2.0 / 3.0) - 4 * y[0] ** (1.0 / 3.0) + y[0] ** -1 + 1
    insts.append(('min y^(2/3) - 4 y^(1/3) + 1/y + 1 s.t. 1 <= y <= 27', fc, [y[0] ** (1.0 / 3.0) - 1, 27 - y[0]], [],
                  [np.array([t]) for t in np.linspace(0.0, math.log(27.0), 6001)], [(0, 1, 0), (0, 1, 1)]))
    # exponents that are not binary fractions (0.1, 0.3, 0.6): sums of exponent rows computed in floating point need not be bit-identical
    # to the rounded rows of the Lagrangian
    fd = y[0] ** 0.6 + y[0] ** -0.3
    insts.append(('min e^{.6x} + e^{-.3x} s.t. e^{.3x} >= 1.2, e^{.1x} <= 1.3', fd, [y[0] ** 0.3 - 1.2, 1.3 - y[0] ** 0.1], [],
                  [np.array([t]) for t in np.linspace(0.0, 3.0, 6001)], [(0, 1, 0), (1, 1, 0), (1, 2, 0)]))
    nsolves = 0
    for name, f, gts, eqs, pts, levels in insts:
        feas = [x for x in pts if all(float(g(x)) >= -1e-12 for g in gts)]
        ub = min(float(f(x)) for x in feas)
        for dom in ('R^n', 'inferred'):
            X = ss.infer_domain(f, gts, eqs) if dom == 'inferred' else None
            vals, groups = {}, []
            for lev in levels:
                kw = dict(p=lev[0], q=lev[1], ell=lev[2])
                grp = []
                for form, extra in (('primal', {}), ('dual', {}), ('dual', {'slacks': True})):
                    k = (form + ('+slacks' if extra else ''), 'p,q,ell=%s' % (lev,))
                    vals[k] = _solve(lambda: ss.sig_constrained_relaxation(f, gts, eqs, X, form=form, **kw, **extra))
                    nsolves += 1
                    grp.append(k)
                groups.append(grp)
            chains = []
            for form in ('primal', 'dual'):
                for lo, hi in itertools.permutations(levels, 2):
                    if all(a <= b for a, b in zip(lo, hi)) and lo != hi:
                        chains.append([(form, 'p,q,ell=%s' % (lo,)), (form, 'p,q,ell=%s' % (hi,))])
            why = _judge(vals, ub, 'sig_constrained_relaxation, %s, X = %s' % (name, dom), groups, chains)
            if why:
                return why, nsolves
    return None, nsolves


# ------------------------------------------------------------------------------------------------ C05
def lattice_c05(ctx):
    import sageopt as so
    from sageopt.relaxations import sage_polys as sp
    warnings.simplefilter('ignore')
    nsolves = 0
    x = so.standard_poly_monomials(1)
    x2 = so.standard_poly_monomials(2)
    # unconstrained
    for name, p, pts, combos in (
            ('x^4-3x^2+x', x[0] ** 4 - 3 * x[0] ** 2 + x[0], [np.array([t]) for t in np.linspace(-3, 3, 6001)],
             [(0, 0), (1, 0), (0, 1), (1, 1), (2, 0)]),
            ('x0^4+x1^4-x0x1+x0', x2[0] ** 4 + x2[1] ** 4 - x2[0] * x2[1] + x2[0], [np.array([a, b]) for a in np.linspace(-2, 2, 161) for b in np.linspace(-2, 2, 161)],
             [(0, 0), (1, 0), (0, 1)])):
        ub = min(float(p(pt)) for pt in pts)
        vals, groups = {}, []
        for pe, se in combos:
            grp = []
            for form in ('primal', 'dual'):
                k = (form, 'poly_ell=%d' % pe, 'sigrep_ell=%d' % se)
                vals[k] = _solve(lambda: sp.poly_relaxation(p, form=form, poly_ell=pe, sigrep_ell=se))
                nsolves += 1
                grp.append(k)
            groups.append(grp)
        chains = [[('primal', 'poly_ell=0', 'sigrep_ell=0'), ('primal', 'poly_ell=1', 'sigrep_ell=0')],
                  [('primal', 'poly_ell=0', 'sigrep_ell=0'), ('primal', 'poly_ell=0', 'sigrep_ell=1')]]
        why = _judge(vals, ub, 'poly_relaxation of %s' % name, groups, chains)
        if why:
            return why, nsolves
    # a constraint with a cross term of even total degree but odd exponents (1 - x0 x1 >= 0) is NOT sign-symmetric: it must not be
    # absorbed into the PolyDomain; the minimum of x0 x1 over the feasible set is -4 at (2, -2)
    pc = x2[0] * x2[1]
    gc = [1 - x2[0] * x2[1], 4 - x2[0] ** 2, 4 - x2[1] ** 2]
    Xc = sp.infer_domain(pc, gc, [])
    vals = {}
    for form in ('primal', 'dual'):
        vals[(form, 'poly_relaxation over X')] = _solve(lambda: sp.poly_relaxation(pc, X=Xc, form=form))
        vals[(form, 'poly_constrained_relaxation over X')] = _solve(lambda: sp.poly_constrained_relaxation(pc, gc, [], Xc, form=form))
        vals[(form, 'poly_constrained_relaxation')] = _solve(lambda: sp.poly_constrained_relaxation(pc, gc, [], form=form))
        nsolves += 3
    why = _judge(vals, -4.0, 'min x0 x1 s.t. 1 - x0 x1 >= 0, |x0| <= 2, |x1| <= 2', [], [])
    if why:
        return why, nsolves
    # a user-specified PolyDomain whose conic description starts with an equality block: |x0 x1| = 1, 1/2 <= |x0| <= 2
    import sageopt.coniclifts as cl
    from sageopt.symbolic.polynomials import PolyDomain
    yl = cl.Variable(shape=(2,), name='lat_logabs')
    Xu = PolyDomain(2, logspace_cons=[yl[0] + yl[1] == 0, yl[0] <= math.log(2.0), yl[0] >= -math.log(2.0)],
                    gts=[lambda z: 2.0 - abs(z[0]), lambda z: abs(z[0]) - 0.5], eqs=[lambda z: abs(z[0] * z[1]) - 1.0])
    pu = x2[0] ** 2 + x2[1] ** 2 - x2[0] * x2[1] + 0.5 * x2[0]
    ubu = min(float(pu(np.array([sa * t, sb / t]))) for t in np.linspace(0.5, 2.0, 3001) for sa in (1.0, -1.0) for sb in (1.0, -1.0))
    vals = {}
    for form in ('primal', 'dual'):
        vals[(form, 'poly_relaxation over user X')] = _solve(lambda: sp.poly_relaxation(pu, X=Xu, form=form))
        vals[(form, 'poly_constrained_relaxation over user X')] = _solve(lambda: sp.poly_constrained_relaxation(pu, [], [], Xu, form=form))
        nsolves += 2
    why = _judge(vals, ubu, 'min x0^2+x1^2-x0x1+.5x0 over {|x0 x1| = 1, 1/2 <= |x0| <= 2} (equality block first)',
                 [[('primal', 'poly_relaxation over user X'), ('dual', 'poly_relaxation over user X')]], [])
    if why:
        return why, nsolves
    # a PolyDomain given as conic data with AUXILIARY columns (log_AbK from compiling abs(y) <= 1: X = {1/e <= |x_i| <= e}), and the
    # modulated dual (poly_ell >= 1) over a domain that matters
    from sageopt.coniclifts.operators.abs import abs as cl_abs
    ya = cl.Variable(shape=(2,), name='lat_abs_y')
    Aa, ba, Ka = cl.compile_constrained_system([cl_abs(ya) <= 1])[:3]
    Xa = PolyDomain(2, log_AbK=(Aa.toarray(), ba, Ka))
    pa = x2[0] ** 2 + x2[1] ** 2 - x2[0] * x2[1] + x2[0]
    mags = np.exp(np.linspace(-1, 1, 41))
    uba = min(float(pa(np.array([sa * u, sb * w]))) for u in mags for w in mags for sa in (1.0, -1.0) for sb in (1.0, -1.0))
    vals = {}
    for form in ('primal', 'dual'):
        for pe in (0, 1):
            vals[(form, 'poly_relaxation over log_AbK domain', 'poly_ell=%d' % pe)] = _solve(lambda: sp.poly_relaxation(pa, X=Xa, form=form, poly_ell=pe))
        vals[(form, 'poly_constrained_relaxation over log_AbK domain')] = _solve(lambda: sp.poly_constrained_relaxation(pa, [], [], Xa, form=form))
        nsolves += 3
    why = _judge(vals, uba, 'min x0^2+x1^2-x0x1+x0 over {1/e <= |x_i| <= e} given as log_AbK with auxiliary columns',
                 [[('primal', 'poly_relaxation over log_AbK domain', 'poly_ell=0'), ('dual', 'poly_relaxation over log_AbK domain', 'poly_ell=0')],
                  [('primal', 'poly_relaxation over log_AbK domain', 'poly_ell=1'), ('dual', 'poly_relaxation over log_AbK domain', 'poly_ell=1')]], [])
    if why:
        return why, nsolves
    # the domain matters: the minimum of x^4 - 4x^2 + x over |x| <= 1 (-4 at x = -1) is far above its global minimum; every level and both forms see the domain
    pd = x[0] ** 4 - 4 * x[0] ** 2 + x[0]
    Xd = sp.infer_domain(pd, [1 - x[0] ** 2], [])
    ubd = min(float(pd(np.array([t]))) for t in np.linspace(-1, 1, 4001))
    vals = {}
    for form in ('primal', 'dual'):
        for pe in (0, 1, 2):
            vals[(form, 'poly_ell=%d' % pe)] = _solve(lambda: sp.poly_relaxation(pd, X=Xd, form=form, poly_ell=pe))
            nsolves += 1
    why = _judge(vals, ubd, 'min x^4 - 4x^2 + x over |x| <= 1', [[('primal', 'poly_ell=%d' % pe), ('dual', 'poly_ell=%d' % pe)] for pe in (0, 1, 2)],
                 [[(form, 'poly_ell=0'), (form, 'poly_ell=1'), (form, 'poly_ell=2')] for form in ('primal', 'dual')])
    if why:
        return why, nsolves
    # objective and constraints with EVEN exponents only (the all-even branch of the dual polynomial cone hands affine images of the dual
    # variable straight to a conditional dual SAGE cone), a user domain |x| <= 2, p = 0 and p = 1: concave objectives, minimum on the boundary
    for name, pe_, ge_, true_min in (('-0.4x^4 - 3.4 s.t. 1.2 - 1.2x^2 >= 0 over |x| <= 2', -0.4 * x[0] ** 4 - 3.4, [1.2 - 1.2 * x[0] ** 2], -3.8),
                                     ('0.2 - 1.5x^4 s.t. 1 - x^2 >= 0 over |x| <= 2', 0.2 - 1.5 * x[0] ** 4, [1 - x[0] ** 2], -1.3)):
        Xe = sp.infer_domain(pe_, [4 - x[0] ** 2], [])
        vals, groups = {}, []
        for lev_p in (0, 1):
            grp = []
            for form in ('primal', 'dual'):
                k = (form, 'p=%d' % lev_p)
                vals[k] = _solve(lambda: sp.poly_constrained_relaxation(pe_, ge_, [], Xe, form=form, p=lev_p, q=1, ell=0))
                nsolves += 1
                grp.append(k)
            groups.append(grp)
        why = _judge(vals, true_min, 'min %s (even exponents only)' % name, groups, [[(f_, 'p=0'), (f_, 'p=1')] for f_ in ('primal', 'dual')])
        if why:
            return why, nsolves
    # polynomials built with the constructor that STORE an explicit zero coefficient (3 + 0 x - x^2; 1 + 0 xy - 2x^2 - y^2 + x/2): both forms, constrained entry point
    from sageopt.symbolic.polynomials import Polynomial as Poly_
    fz1 = Poly_(np.array([[0], [1], [2]]), np.array([3.0, 0.0, -1.0]))
    fz2 = Poly_(np.array([[0, 0], [1, 1], [2, 0], [0, 2], [1, 0]]), np.array([1.0, 0.0, -2.0, -1.0, 0.5]))
    for name, pzc, gz, ubzc in (('3 + 0x - x^2 s.t. 1 - x^2 >= 0', fz1, [1 - x[0] ** 2], 2.0),
                                ('1 + 0xy - 2x^2 - y^2 + x/2 on the unit box', fz2, [1 - x2[0] ** 2, 1 - x2[1] ** 2], -2.5)):
        vals = {}
        for form in ('primal', 'dual'):
            vals[(form, 'p=0')] = _solve(lambda: sp.poly_constrained_relaxation(pzc, gz, [], form=form, p=0, q=1, ell=0))
            nsolves += 1
        vals[('dual', 'zero stored in a constraint')] = _solve(lambda: sp.poly_constrained_relaxation(pzc.without_zeros(), [Poly_(g_.alpha, g_.c) + Poly_(np.zeros((1, pzc.n)), np.array([0.0])) for g_ in gz], [], form='dual', p=0, q=1, ell=0))
        nsolves += 1
        why = _judge(vals, ubzc, 'min %s (a zero coefficient is stored)' % name, [list(vals)], [])
        if why:
            return why, nsolves
    # the dual encodings (compact / epigraph) over a domain that is ACTIVE, both entry points: the domain rows are part of every encoding
    import sageopt.coniclifts as cl_
    pz = x2[0] ** 4 + x2[1] ** 4 - 3 * x2[0] ** 2 - 2 * x2[1] ** 2 + x2[0] * x2[1] + x2[0]
    Xz = sp.infer_domain(pz, [0.25 - x2[0] ** 2, 0.25 - x2[1] ** 2], [])
    ubz = min(float(pz(np.array([a, b]))) for a in np.linspace(-0.5, 0.5, 41) for b in np.linspace(-0.5, 0.5, 41))
    vals = {}
    with _settings_guard() as Gz:
        for comp in (True, False):
            Gz.reset()
            cl_.compact_sage_duals(comp)
            vals[('dual', 'poly_relaxation', 'compact_dual=%s' % comp)] = _solve(lambda: sp.poly_relaxation(pz, X=Xz, form='dual'))
            vals[('dual', 'poly_constrained_relaxation', 'compact_dual=%s' % comp)] = _solve(lambda: sp.poly_constrained_relaxation(pz, [], [], Xz, form='dual'))
            nsolves += 2
        Gz.reset()
        vals[('primal', 'poly_relaxation')] = _solve(lambda: sp.poly_relaxation(pz, X=Xz, form='primal'))
        nsolves += 1
    why = _judge(vals, ubz, 'min x0^4 + x1^4 - 3x0^2 - 2x1^2 + x0x1 + x0 over |x_i| <= 1/2 (the domain is active), dual encodings', [list(vals)], [])
    if why:
        return why, nsolves
    # constrained, both reflections (the minimiser lies in different orthants)
    for sg in (1.0, -1.0):
        for name, p, gts, pts, levels in (
                ('%+g(x^3-2x) on [-1,1]' % sg, sg * (x[0] ** 3 - 2 * x[0]), [1 - x[0] ** 2], [np.array([t]) for t in np.linspace(-1, 1, 4001)],
                 [(0, 1, 0), (1, 1, 0), (0, 2, 0), (0, 1, 1)]),
                ('x0x1%+gx0-x1^2 on the unit box' % sg, x2[0] * x2[1] + sg * x2[0] - x2[1] ** 2, [1 - x2[0] ** 2, 1 - x2[1] ** 2],
                 [np.array([a, b]) for a in np.linspace(-1, 1, 81) for b in np.linspace(-1, 1, 81)], [(0, 1, 0), (1, 1, 0)])):
            ub = min(float(p(pt)) for pt in pts)
            for dom in ('R^n', 'inferred'):
                X = sp.infer_domain(p, gts, []) if dom == 'inferred' else None
                vals, groups = {}, []
                for lev in levels:
                    grp = []
                    for form in ('primal', 'dual'):
                        k = (form, 'p,q,ell=%s' % (lev,))
                        vals[k] = _solve(lambda: sp.poly_constrained_relaxation(p, gts, [], X, form=form, p=lev[0], q=lev[1], ell=lev[2]))
                        nsolves += 1
                        grp.append(k)
                    # the slack form of the dual (an option of poly_constrained_dual, documented for the wrapper as well)
                    k = ('dual+slacks', 'p,q,ell=%s' % (lev,))
                    vals[k] = _solve(lambda: sp.poly_constrained_dual(p, gts, [], lev[0], lev[1], lev[2], X, slacks=True))
                    k2 = ('dual+slacks via wrapper', 'p,q,ell=%s' % (lev,))
                    vals[k2] = _solve(lambda: sp.poly_constrained_relaxation(p, gts, [], X, form='dual', p=lev[0], q=lev[1], ell=lev[2], slacks=True))
                    nsolves += 2
                    grp += [k, k2]
                    groups.append(grp)
                chains = []
                for form in ('primal', 'dual'):
                    for lo, hi in itertools.permutations(levels, 2):
                        if all(a <= b for a, b in zip(lo, hi)) and lo != hi:
                            chains.append([(form, 'p,q,ell=%s' % (lo,)), (form, 'p,q,ell=%s' % (hi,))])
                why = _judge(vals, ub, 'poly_constrained_relaxation, %s, X = %s' % (name, dom), groups, chains)
                if why:
                    return why, nsolves
    return None, nsolves


def scripted_no_certificate(builders, rng):
    """what a relaxation reports when the solver says its conic program is (likely) infeasible or (likely) unbounded, for the outcomes that are
    consistent with a feasible problem: the primal form (a maximisation) found infeasible and the dual form (a minimisation) found unbounded both
    mean 'no certificate', so the reported bound is -inf, never +inf, whether the solver is sure (ECOS exit flags 1, 2) or not (11, 12).  The real
    ECOS.apply / parse_result and Problem.solve run; only the numerical solve is scripted.  builders: [(description, form, zero-argument builder)]"""
    from sageopt.coniclifts.problems.problem import Problem
    from harness.props.c09 import Stub
    saved = Problem._SOLVERS_['ECOS']
    n = 0
    try:
        with warnings.catch_warnings():
            warnings.simplefilter('ignore')
            for desc, form, build in builders:
                prob = build()
                ncol = prob.A.shape[1]
                for flag in ((1, 11) if form == 'primal' else (2, 12)):
                    Problem._SOLVERS_['ECOS'] = Stub
                    Stub.answer = (flag, [0.0] * ncol, float(rng.choice([0.0, 1.5, -2.0])))
                    st, val = prob.solve(solver='ECOS', verbose=False)
                    Problem._SOLVERS_['ECOS'] = saved
                    n += 1
                    if not (val == -math.inf):
                        return ('the %s form of %s, whose conic program the solver reports as %s (ECOS exit flag %d), reports (%s, %r); without a '
                                'certificate the bound is -inf' % (form, desc, 'infeasible' if form == 'primal' else 'unbounded', flag, st, val)), n
    finally:
        Problem._SOLVERS_['ECOS'] = saved
    return None, n
