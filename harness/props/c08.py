"""C08 — Expressions behave exactly like numpy arrays of affine functions.
Tie: Model/Expr.v + Model/ExprProg.v (interpreter of straight-line programs) vs coniclifts on random programs; every
register is re-observed after the whole program ran (aliasing / in-place mutation would show up as a late mismatch).
Oracle: the same program on plain numpy arrays of assigned values (that is the property statement), plus introspection
and are_equivalent checks."""
import math
import warnings
from fractions import Fraction

import numpy as np

from harness import vlib
from harness.vlib import Nat, cq, Raw

RULE = ('case = random straight-line program (6-14 instructions) over Variables (1-d, 2-d, 0-d, symmetric), constants, '
        '+,-,*,/,@,neg, sum/dot/outer/kron/trace/diag/tile/repeat/concatenate/vstack/index/slice/setitem/transpose and the '
        'nonlinear atoms abs,pos,weighted_sum_exp,relent,vector2norm; non-trivial = program with >=3 arithmetic instructions '
        'and at least one of {matmul, nonlinear atom, cancellation}; distinct by program hash')
TRUSTED = ['correspondence harness harness/props/c08.py (program generator, cell canonicalisation to formal linear combinations)',
           'numpy object-array broadcasting and structural functions (the affine operator library is numpy applied to object arrays); '
           'operators not in the modelled subset (tensordot, block, split family, dstack, tril/triu, multi_dot) are covered by the '
           'numpy-differential oracle stream only, labelled as a test',
           'float arithmetic exact on the generated domain (small integers / dyadic rationals)']
ASSUMPTIONS = ['Model/Expr.v is hand written; tied by correspondence only',
               'in-place remove_zeros of explicit zero coefficients is value-preserving and is not modelled as mutation: '
               'observations are canonical (zero coefficients dropped)']
HEADER = ('From Coq Require Import List Bool Arith ZArith QArith.\n'
          'From SageVerif Require Import Model.Expr Model.ExprProg Base.Corr.\n'
          'Definition intro_eqb (a b : option (list (bool * bool * list Z))) : bool :=\n'
          '  option_eqb (list_eqb (pair_eqb (pair_eqb Bool.eqb Bool.eqb) (list_eqb Z.eqb))) a b.\n'
          'Definition model (p : list instr) := let t := run nil p in (map observe t, map introspect t).\n'
          'Definition out_eqb := pair_eqb (list_eqb obs_eqb) (list_eqb intro_eqb).')

KIND = {'Exponential': 'KExp', 'Abs': 'KAbs', 'Pos': 'KPos', 'RelEnt': 'KRelEnt', 'Vector2Norm': 'KNorm2'}


def cl():
    import sageopt.coniclifts as c
    return c


def base():
    from sageopt.coniclifts import base as b
    return b


def Qf(x):
    return Fraction(float(x))


def atom_desc(a):
    b = base()
    if isinstance(a, b.ScalarVariable):
        return Raw('(AVar %s)' % cq(int(a.id)))
    kind = KIND[type(a).__name__]
    args = []
    for arg in a.args:
        lin = [(int(sv.id), Qf(co)) for sv, co in arg[:-1]]
        args.append((lin, Qf(arg[-1][1])))
    return Raw('(ANl %s %s)' % (kind, cq(args)))


def cell_desc(se):
    terms = [(atom_desc(a), Qf(c)) for a, c in se.atoms_to_coeffs.items()]
    return Raw('{| terms := %s; off := %s |}' % (cq(terms), cq(Qf(se.offset))))


def reg_obs(obj):
    b = base()
    if isinstance(obj, b.ScalarExpression):
        return vlib.Some((True, [], [cell_desc(obj)]))
    arr = np.asarray(obj, dtype=object)
    return vlib.Some((False, [Nat(int(d)) for d in arr.shape], [cell_desc(se) for se in arr.ravel().tolist()]))


def reg_intro(obj):
    b = base()
    cells = [obj] if isinstance(obj, b.ScalarExpression) else np.asarray(obj, dtype=object).ravel().tolist()
    out = []
    for se in cells:
        const = bool(se.is_constant())      # removes explicit zeros first (canonical view)
        out.append((bool(se.is_affine()), const, sorted(int(sv.id) for sv in se.scalar_variables())))
    return vlib.Some(out)


# ------------------------------------------------------------------ program generation / execution
class World:
    def __init__(self, rng):
        c = cl()
        self.rng = rng
        self.vars = [c.Variable(shape=(3,), name='x'), c.Variable(shape=(2, 2), name='Y'),
                     c.Variable(shape=(), name='s'), c.Variable(shape=(2, 3), name='Z'),
                     c.Variable(shape=(2, 2), name='S', var_properties=['symmetric'])]
        self.values = {}
        for v in self.vars:
            val = np.array([rng.randint(-6, 6) / 2.0 for _ in range(max(v.size, 1))]).reshape(v.shape)
            if v.name == 'S':
                val = (val + val.T) / 2.0
                val = np.round(val * 2) / 2.0
            self.values[v.name] = val
            v.value = val


def q(rng):
    return Fraction(rng.choice([1, -1, 2, -2, 3, 0, 1, 4, -3, 5]), rng.choice([1, 1, 2]))


def qvec(rng, n):
    return [q(rng) for _ in range(n)]


def shp(o):
    return () if isinstance(o, base().ScalarExpression) else tuple(np.asarray(o, dtype=object).shape)


def gen_program(rng, length):
    """returns (instrs_coq, instrs_json, regs (expr objects or None), numeric regs, meta)"""
    c = cl()
    from sageopt.coniclifts.operators.abs import abs as clabs
    from sageopt.coniclifts.operators.pos import pos as clpos
    b = base()
    w = World(rng)
    regs, nums, coq, js = [], [], [], []
    meta = {'matmul': 0, 'nl': 0, 'arith': 0, 'cancel': 0, 'errors': 0}

    def emit(ctext, jtext, fe, fn):
        coq.append(ctext)
        js.append(jtext)
        try:
            with warnings.catch_warnings():
                warnings.simplefilter('ignore')
                r = fe()
            if not isinstance(r, (b.ScalarExpression, b.Expression)):
                if isinstance(r, np.ndarray) and r.dtype == object:
                    r = b.Expression(r)
                else:
                    raise TypeError('non-expression result %r' % type(r))
            regs.append(r)
            try:
                nums.append(fn())
            except Exception:
                nums.append(None)
        except Exception:
            regs.append(None)
            nums.append(None)
            meta['errors'] += 1

    def pick(pred=lambda o: True):
        idx = [i for i, o in enumerate(regs) if o is not None and pred(o)]
        return rng.choice(idx) if idx else None

    # seed registers: variables (and slices), a constant
    for v in rng.sample(w.vars, rng.randint(2, 4)):
        ids = [int(i) for i in v.scalar_variable_ids]
        vv = v
        emit('(IVar %s %s)' % (cq([Nat(d) for d in v.shape]), cq(ids)), ['var', v.name], lambda vv=vv: vv,
             lambda vv=vv: np.array(w.values[vv.name]))
    sh = rng.choice([(3,), (2, 2), (2,), (2, 3)])
    vals = [q(rng) for _ in range(int(np.prod(sh)))]
    emit('(IConst %s %s)' % (cq([Nat(d) for d in sh]), cq(vals)), ['const', list(sh), [str(v) for v in vals]],
         lambda: c.Expression(np.array([float(v) for v in vals]).reshape(sh)),
         lambda: np.array([float(v) for v in vals]).reshape(sh))
    ops = ['add', 'sub', 'mulq', 'divq', 'addq', 'rsubq', 'neg', 'rmatmul', 'matmul', 'sumall', 'sumaxis', 'concat', 'vstack',
           'index', 'slice', 'tile', 'repeat', 'trace', 'diag', 'transpose', 'dotq', 'outerq', 'kronq', 'setitem', 'mule',
           'abs', 'pos', 'wse', 'relent', 'norm', 'cancel', 'add', 'sub', 'mulq', 'rmatmul', 'matmul']
    for _ in range(length):
        op = rng.choice(ops)
        a = pick()
        if a is None:
            break
        A, NA = regs[a], nums[a]
        sa = shp(A)
        if op in ('add', 'sub', 'cancel'):
            meta['arith'] += 1
            if op == 'cancel':
                bidx = a
                meta['cancel'] += 1
                op2 = 'sub'
            else:
                same = [i for i, o in enumerate(regs) if o is not None and (shp(o) == sa or shp(o) == () or sa == ())]
                bidx = rng.choice(same) if rng.random() < 0.9 else pick()
                op2 = op
            B, NB = regs[bidx], nums[bidx]
            if op2 == 'add':
                emit('(IAdd %d %d)' % (a, bidx), ['add', a, bidx], lambda: A + B, lambda: NA + NB)
            else:
                emit('(ISub %d %d)' % (a, bidx), ['sub', a, bidx], lambda: A - B, lambda: NA - NB)
        elif op == 'mule':
            bidx = pick(lambda o: (shp(o) == sa or shp(o) == ()) and all(se.is_constant() for se in np.asarray(o, dtype=object).ravel().tolist())) \
                if rng.random() < 0.85 else pick(lambda o: shp(o) == sa)
            if bidx is None:
                continue
            B, NB = regs[bidx], nums[bidx]
            meta['arith'] += 1
            # either orientation: a constant cell on the LEFT of a non-constant cell takes another branch of ScalarExpression.__mul__
            flip = rng.random() < 0.5
            emit('(IMulE %d %d)' % (a, bidx), ['mule', a, bidx, 'flipped' if flip else 'plain'], (lambda: B * A) if flip else (lambda: A * B),
                 lambda: NA * NB)
        elif op == 'mulq':
            k = q(rng)
            meta['arith'] += 1
            left = rng.random() < 0.5
            emit('(IMulQ %d %s)' % (a, cq(k)), ['mulq', a, str(k)], (lambda: float(k) * A) if left else (lambda: A * float(k)),
                 lambda: NA * float(k))
        elif op == 'divq':
            k = rng.choice([Fraction(1), Fraction(-1), Fraction(2), Fraction(-2), Fraction(4), Fraction(1, 2), Fraction(0)])
            if k == 0 and rng.random() < 0.8:
                k = Fraction(2)
            emit('(IDivQ %d %s)' % (a, cq(k)), ['divq', a, str(k)], lambda: A / float(k), lambda: NA / float(k))
        elif op == 'addq':
            k = q(rng)
            emit('(IAddQ %d %s)' % (a, cq(k)), ['addq', a, str(k)], (lambda: A + float(k)) if rng.random() < 0.5 else (lambda: float(k) + A),
                 lambda: NA + float(k))
        elif op == 'rsubq':
            k = q(rng)
            emit('(IRSubQ %s %d)' % (cq(k), a), ['rsubq', str(k), a], lambda: float(k) - A, lambda: float(k) - NA)
        elif op == 'neg':
            emit('(INeg %d)' % a, ['neg', a], lambda: -A, lambda: -NA)
        elif op == 'rmatmul':
            if len(sa) not in (1, 2):
                continue
            meta['matmul'] += 1
            mvec = rng.random() < 0.3
            kk = sa[0] if rng.random() < 0.9 else sa[0] + 1
            rows = 1 if mvec else rng.randint(1, 3)
            M = [qvec(rng, kk) for _ in range(rows)]
            Mn = np.array([[float(v) for v in r] for r in M])
            if mvec:
                Mn = Mn[0]
            if rng.random() < 0.2 and not mvec:
                import scipy.sparse as sp
                Ms = sp.csr_matrix(Mn)
                emit('(IRMatmul %s false %d)' % (cq(M), a), ['rmatmul_sparse', [[str(v) for v in r] for r in M], a], lambda: Ms @ A, lambda: Mn @ NA)
            else:
                emit('(IRMatmul %s %s %d)' % (cq(M), cq(mvec), a), ['rmatmul', [[str(v) for v in r] for r in M], mvec, a], lambda: Mn @ A, lambda: Mn @ NA)
        elif op == 'matmul':
            if len(sa) not in (1, 2):
                continue
            meta['matmul'] += 1
            nvec = rng.random() < 0.3
            kk = sa[-1] if rng.random() < 0.9 else sa[-1] + 1
            cols = 1 if nvec else rng.randint(1, 3)
            if kk == 0:
                continue
            N = [qvec(rng, cols) for _ in range(kk)]
            Nn = np.array([[float(v) for v in r] for r in N])
            if nvec:
                Nn = Nn[:, 0]
            emit('(IMatmul %d %s %s)' % (a, cq(N), cq(nvec)), ['matmul', a, [[str(v) for v in r] for r in N], nvec], lambda: A @ Nn, lambda: NA @ Nn)
        elif op == 'sumall':
            if sa == ():
                continue
            meta['arith'] += 1
            emit('(ISumAll %d)' % a, ['sumall', a], lambda: c.sum(A), lambda: np.sum(NA))
        elif op == 'sumaxis':
            if len(sa) not in (1, 2):
                continue
            ax = rng.randrange(len(sa)) if rng.random() < 0.9 else len(sa)
            emit('(ISumAxis %d %d)' % (ax, a), ['sumaxis', ax, a], lambda: c.sum(A, axis=ax), lambda: np.sum(NA, axis=ax))
        elif op in ('concat', 'vstack'):
            oned = [i for i, o in enumerate(regs) if o is not None and len(shp(o)) == 1]
            if not oned:
                continue
            xs = [rng.choice(oned) for _ in range(rng.randint(1, 3))]
            if op == 'vstack':
                n0 = shp(regs[xs[0]])[0]
                xs = [i for i in xs if shp(regs[i])[0] == n0] if rng.random() < 0.9 else xs
            objs = [regs[i] for i in xs]
            nms = [nums[i] for i in xs]
            if op == 'concat':
                emit('(IConcat %s)' % cq([Nat(i) for i in xs]), ['concat', xs], lambda: c.concatenate(tuple(objs)), lambda: np.concatenate(tuple(nms)))
            else:
                emit('(IVstack %s)' % cq([Nat(i) for i in xs]), ['vstack', xs], lambda: c.vstack(tuple(objs)), lambda: np.vstack(tuple(nms)))
        elif op == 'index':
            if len(sa) != 1:
                continue
            i = rng.randrange(sa[0]) if (sa[0] > 0 and rng.random() < 0.9) else sa[0]
            emit('(IIndex %d %d)' % (a, i), ['index', a, i], lambda: A[i], lambda: NA[i])
        elif op == 'slice':
            if len(sa) != 1:
                continue
            lo, hi = sorted([rng.randint(0, sa[0] + 1), rng.randint(0, sa[0] + 1)])
            if lo == hi or lo >= sa[0]:
                continue        # empty arrays are outside the modelled domain (see DESIGN.md section 12)
            emit('(ISlice %d %d %d)' % (a, lo, hi), ['slice', a, lo, hi], lambda: A[lo:hi], lambda: NA[lo:hi])
        elif op in ('tile', 'repeat'):
            if len(sa) != 1:
                continue
            k = rng.randint(1, 3)
            if op == 'tile':
                emit('(ITile %d %d)' % (a, k), ['tile', a, k], lambda: c.tile(A, k), lambda: np.tile(NA, k))
            else:
                emit('(IRepeat %d %d)' % (a, k), ['repeat', a, k], lambda: c.repeat(A, k), lambda: np.repeat(NA, k))
        elif op == 'trace':
            if len(sa) != 2:
                continue
            emit('(ITrace %d)' % a, ['trace', a], lambda: c.trace(A), lambda: np.trace(NA))
        elif op == 'diag':
            if len(sa) not in (1, 2):
                continue
            emit('(IDiag %d)' % a, ['diag', a], lambda: c.diag(A), lambda: np.diag(NA))
        elif op == 'transpose':
            if len(sa) not in (1, 2):
                continue
            emit('(ITranspose %d)' % a, ['transpose', a], lambda: A.T, lambda: NA.T)
        elif op in ('dotq', 'outerq', 'kronq'):
            if len(sa) != 1:
                continue
            n = sa[0] if (op != 'dotq' or rng.random() < 0.9) else sa[0] + 1
            if op != 'dotq':
                n = rng.randint(1, 3)
            co = qvec(rng, n)
            con = np.array([float(v) for v in co])
            meta['arith'] += 1
            if op == 'dotq':
                f = (lambda: c.dot(con, A)) if rng.random() < 0.5 else (lambda: c.inner(con, A))
                emit('(IDotQ %s %d)' % (cq(co), a), ['dotq', [str(v) for v in co], a], f, lambda: np.dot(con, NA))
            elif op == 'outerq':
                emit('(IOuterQ %s %d)' % (cq(co), a), ['outerq', [str(v) for v in co], a], lambda: c.outer(con, A), lambda: np.outer(con, NA))
            else:
                emit('(IKronQ %s %d)' % (cq(co), a), ['kronq', [str(v) for v in co], a], lambda: c.kron(con, A), lambda: np.kron(con, NA))
        elif op == 'setitem':
            if len(sa) != 1:
                continue
            bidx = pick(lambda o: shp(o) == () )
            if bidx is None:
                continue
            i = rng.randrange(sa[0])
            B, NB = regs[bidx], nums[bidx]

            def fe():
                r = b.Expression(np.array(np.asarray(A, dtype=object)))
                r[i] = B if isinstance(B, b.ScalarExpression) else np.asarray(B, dtype=object).item()
                return r

            def fn():
                r = np.array(NA, dtype=float)
                r[i] = float(NB)
                return r
            emit('(ISetItem %d %d %d)' % (a, i, bidx), ['setitem', a, i, bidx], fe, fn)
        elif op in ('abs', 'pos'):
            meta['nl'] += 1
            if op == 'abs':
                emit('(IAbs %d)' % a, ['abs', a], lambda: clabs(A if not isinstance(A, b.ScalarExpression) else A.as_expr()), lambda: np.abs(NA))
            else:
                emit('(IPos %d)' % a, ['pos', a], lambda: clpos(A if not isinstance(A, b.ScalarExpression) else A.as_expr()), lambda: np.maximum(NA, 0))
        elif op == 'wse':
            if isinstance(A, b.ScalarExpression):
                continue
            meta['nl'] += 1
            n = int(np.prod(sa)) if sa else 1
            co = [abs(v) for v in qvec(rng, n)]
            if rng.random() < 0.05:
                co[0] = -co[0] - 1
            con = np.array([float(v) for v in co])
            emit('(IWse %s %d)' % (cq(co), a), ['wse', [str(v) for v in co], a], lambda: c.weighted_sum_exp(con, A),
                 lambda: np.array(float(np.dot(con, np.exp(np.asarray(NA, dtype=float).ravel())))))
        elif op == 'relent':
            if isinstance(A, b.ScalarExpression):
                continue
            bidx = pick(lambda o: not isinstance(o, b.ScalarExpression) and int(np.prod(shp(o)) if shp(o) else 1) == int(np.prod(sa) if sa else 1))
            if bidx is None:
                continue
            meta['nl'] += 1
            B, NB = regs[bidx], nums[bidx]
            import scipy.special as spf
            emit('(IRelent %d %d)' % (a, bidx), ['relent', a, bidx], lambda: c.relent(A, B),
                 lambda: np.array(float(np.sum(spf.rel_entr(np.asarray(NA, dtype=float).ravel(), np.asarray(NB, dtype=float).ravel())))))
        elif op == 'norm':
            if isinstance(A, b.ScalarExpression):
                continue
            meta['nl'] += 1
            emit('(INorm %d)' % a, ['norm', a], lambda: c.vector2norm(A), lambda: np.array(float(np.linalg.norm(np.asarray(NA, dtype=float).ravel()))))
    return coq, js, regs, nums, meta


def oracle_regs(regs, nums):
    """property statement on the implementation: shapes and values equal numpy's; None if it holds"""
    b = base()
    for k, (r, nv) in enumerate(zip(regs, nums)):
        if r is None or nv is None:
            continue
        nv = np.asarray(nv, dtype=float)
        if shp(r) != tuple(nv.shape):
            return 'register %d: shape %s but numpy gives %s' % (k, shp(r), tuple(nv.shape))
        try:
            with warnings.catch_warnings():
                warnings.simplefilter('ignore')
                val = np.asarray(r.value, dtype=float)
        except Exception as e:
            return 'register %d: .value raised %r' % (k, e)
        # overflowing intermediate values (exp of large numbers) make inf-inf / 0*inf order-dependent in floating point:
        # entries that are not finite on either side are not compared (the property is about real-valued functions)
        nonfinite = ~np.isfinite(val) | ~np.isfinite(nv)
        with np.errstate(invalid='ignore'):
            ok = nonfinite | (np.abs(val - nv) <= 1e-9 * (1 + np.abs(nv)))
        if not np.all(ok):
            return 'register %d: value %s but numpy on the assigned values gives %s' % (k, val.tolist(), nv.tolist())
    return None


def extra_numpy_stream(rng):
    """operators outside the modelled subset: differential test against numpy (a test, not a proof)"""
    c = cl()
    from sageopt.coniclifts.operators.abs import abs as clabs_
    from sageopt.coniclifts.operators.pos import pos as clpos_
    w = World(rng)
    x, Y, Z = w.vars[0], w.vars[1], w.vars[3]
    vx, vY, vZ = w.values['x'], w.values['Y'], w.values['Z']
    M = np.array([[1.0, 2.0], [0.0, -1.0]])
    cases = [
        ('tensordot', lambda: c.tensordot(M, Y, axes=1), lambda: np.tensordot(M, vY, axes=1)),
        ('tensordot(default axes)', lambda: c.tensordot(M, Y), lambda: np.tensordot(M, vY)),
        ('tensordot(axes=0)', lambda: c.tensordot(M[0], Y, axes=0), lambda: np.tensordot(M[0], vY, axes=0)),
        ('tensordot(3-d, default axes)', lambda: c.tensordot(np.arange(8.0).reshape(2, 2, 2), Y), lambda: np.tensordot(np.arange(8.0).reshape(2, 2, 2), vY)),
        ('block', lambda: c.block([[Y, Y], [Y, 2 * Y]]), lambda: np.block([[vY, vY], [vY, 2 * vY]])),
        ('hstack', lambda: c.hstack((Y, Z)), lambda: np.hstack((vY, vZ))),
        ('column_stack', lambda: c.column_stack((x[:2], Y)), lambda: np.column_stack((vx[:2], vY))),
        ('dstack', lambda: c.dstack((Y, Y)), lambda: np.dstack((vY, vY))),
        ('stack', lambda: c.stack((Y, 2 * Y), axis=1), lambda: np.stack((vY, 2 * vY), axis=1)),
        ('tril', lambda: c.tril(Y), lambda: np.tril(vY)),
        ('triu', lambda: c.triu(Z, 1), lambda: np.triu(vZ, 1)),
        ('diagflat', lambda: c.diagflat(x), lambda: np.diagflat(vx)),
        ('multi_dot', lambda: c.multi_dot([M, Y, M]), lambda: np.linalg.multi_dot([M, vY, M])),
        ('kron2d', lambda: c.kron(M, Y), lambda: np.kron(M, vY)),
        ('repeat_axis', lambda: c.repeat(Z, 2, axis=1), lambda: np.repeat(vZ, 2, axis=1)),
        ('tile2d', lambda: c.tile(Y, (2, 1)), lambda: np.tile(vY, (2, 1))),
        ('sum_keepdims', lambda: c.sum(Z, axis=0, keepdims=True), lambda: np.sum(vZ, axis=0, keepdims=True)),
        ('trace_offset', lambda: c.trace(Z, offset=1), lambda: np.trace(vZ, offset=1)),
        ('inner2d', lambda: c.inner(M, Y), lambda: np.inner(M, vY)),
        ('outer', lambda: c.outer(x, np.array([1.0, -2.0])), lambda: np.outer(vx, np.array([1.0, -2.0]))),
        # constant cells on the LEFT of non-constant cells of a plain Expression (not a bare Variable)
        ('const * (x + 0)', lambda: c.Expression(np.array([2.0, -3.0, 0.5])) * (x + 0), lambda: np.array([2.0, -3.0, 0.5]) * vx),
        ('mixed cells product', lambda: c.hstack((1.5, x[0])) * c.hstack((x[1], 2.0)), lambda: np.array([1.5 * vx[1], 2.0 * vx[0]])),
        ('outer(const, 1.0 * x)', lambda: c.outer(np.array([1.0, -2.0]), 1.0 * x), lambda: np.outer(np.array([1.0, -2.0]), vx)),
        # every operator with default axis arguments on a 3-d Expression (defaults must be numpy's)
        ('trace(3-d, default axes)', lambda: c.trace(c.stack((Y, 2 * Y, Y + 1.0), axis=2)), lambda: np.trace(np.stack((vY, 2 * vY, vY + 1.0), axis=2))),
        ('trace(3-d cube, default axes)', lambda: c.trace(c.stack((Y, 3 * Y - 1.0), axis=0)), lambda: np.trace(np.stack((vY, 3 * vY - 1.0), axis=0))),
        ('trace(3-d, axis1=1, axis2=2)', lambda: c.trace(c.stack((Y, 2 * Y), axis=0), axis1=1, axis2=2), lambda: np.trace(np.stack((vY, 2 * vY), axis=0), axis1=1, axis2=2)),
        ('tril(3-d)', lambda: c.tril(c.stack((Y, 2 * Y, Y + 1.0), axis=0)), lambda: np.tril(np.stack((vY, 2 * vY, vY + 1.0), axis=0))),
        ('triu(3-d)', lambda: c.triu(c.stack((Y, 2 * Y, Y + 1.0), axis=2), 1), lambda: np.triu(np.stack((vY, 2 * vY, vY + 1.0), axis=2), 1)),
        ('sum(3-d, axis=1)', lambda: c.sum(c.stack((Z, 2 * Z), axis=0), axis=1), lambda: np.sum(np.stack((vZ, 2 * vZ), axis=0), axis=1)),
        ('sum(3-d)', lambda: c.sum(c.stack((Z, 2 * Z), axis=2)), lambda: np.sum(np.stack((vZ, 2 * vZ), axis=2))),
        ('concatenate(3-d, default axis)', lambda: c.concatenate((c.stack((Y, 2 * Y), axis=2), c.stack((Y, Y), axis=2))),
         lambda: np.concatenate((np.stack((vY, 2 * vY), axis=2), np.stack((vY, vY), axis=2)))),
        ('stack(default axis)', lambda: c.stack((Z, 2 * Z)), lambda: np.stack((vZ, 2 * vZ))),
        ('repeat(3-d, default axis)', lambda: c.repeat(c.stack((Y, 2 * Y), axis=2), 2), lambda: np.repeat(np.stack((vY, 2 * vY), axis=2), 2)),
        ('tile(3-d)', lambda: c.tile(c.stack((Y, 2 * Y), axis=2), 2), lambda: np.tile(np.stack((vY, 2 * vY), axis=2), 2)),
        ('split(default axis)', lambda: c.split(c.stack((Y, 2 * Y), axis=2), 2)[1], lambda: np.split(np.stack((vY, 2 * vY), axis=2), 2)[1]),
        ('array_split(2-d, default axis)', lambda: c.array_split(Z, 2)[0], lambda: np.array_split(vZ, 2)[0]),
        ('dsplit', lambda: c.dsplit(c.stack((Y, 2 * Y), axis=2), 2)[1], lambda: np.dsplit(np.stack((vY, 2 * vY), axis=2), 2)[1]),
        ('diag(k=1)', lambda: c.diag(Y, 1), lambda: np.diag(vY, 1)),
        ('diagflat(k=-1)', lambda: c.diagflat(x, -1), lambda: np.diagflat(vx, -1)),
        # atoms of DIFFERENT classes on the SAME affine argument are different atoms: in one cell, one sum, one contraction
        ('abs(a) + pos(a)', lambda: clabs_(2 * x - 1.0) + clpos_(2 * x - 1.0), lambda: np.abs(2 * vx - 1.0) + np.maximum(2 * vx - 1.0, 0)),
        ('3 pos(a) - abs(a)', lambda: 3 * clpos_(2 * x - 1.0) - clabs_(2 * x - 1.0), lambda: 3 * np.maximum(2 * vx - 1.0, 0) - np.abs(2 * vx - 1.0)),
        ('w @ vstack(abs(a), pos(a))', lambda: np.array([1.0, -2.0]) @ c.vstack((clabs_(x - 0.5), clpos_(x - 0.5))),
         lambda: np.array([1.0, -2.0]) @ np.vstack((np.abs(vx - 0.5), np.maximum(vx - 0.5, 0)))),
        ('sum(vstack(abs(a), pos(a)), axis=0)', lambda: c.sum(c.vstack((clabs_(x - 0.5), clpos_(x - 0.5))), axis=0),
         lambda: np.sum(np.vstack((np.abs(vx - 0.5), np.maximum(vx - 0.5, 0))), axis=0)),
        ('exp(a0) + abs(a0) + pos(a0)', lambda: c.weighted_sum_exp(np.array([1.0]), x[:1] - 0.5) + clabs_(x[:1] - 0.5) + clpos_(x[:1] - 0.5),
         lambda: np.exp(vx[:1] - 0.5) + np.abs(vx[:1] - 0.5) + np.maximum(vx[:1] - 0.5, 0)),
        ('norm((a0, a1)) + abs(a0) - pos(a1)', lambda: c.vector2norm(x[:2] - 0.5) + clabs_(x[:1] - 0.5) - clpos_(x[1:2] - 0.5),
         lambda: np.linalg.norm(vx[:2] - 0.5) + np.abs(vx[:1] - 0.5) - np.maximum(vx[1:2] - 0.5, 0)),
        ('constant matrix @ constant Expression', lambda: np.diag([1.0, 10.0, 100.0]) @ c.Expression(np.array([1.0, 2.0, 3.0])),
         lambda: np.array([1.0, 20.0, 300.0])),
    ]
    for name, split_f, np_f in [('split', lambda: c.split(Z, 3, axis=1), lambda: np.split(vZ, 3, axis=1)),
                                ('hsplit', lambda: c.hsplit(Z, 3), lambda: np.hsplit(vZ, 3)),
                                ('vsplit', lambda: c.vsplit(Z, 2), lambda: np.vsplit(vZ, 2)),
                                ('array_split', lambda: c.array_split(x, 2), lambda: np.array_split(vx, 2))]:
        try:
            with warnings.catch_warnings():
                warnings.simplefilter('ignore')
                got, want = split_f(), np_f()
            if len(got) != len(want):
                return '%s: %d pieces, numpy gives %d' % (name, len(got), len(want))
            for g, wv in zip(got, want):
                if tuple(g.shape) != tuple(wv.shape) or not np.allclose(g.value, wv):
                    return '%s: piece differs from numpy' % name
        except Exception as e:
            return '%s raised %r' % (name, e)
    # an atom whose value is +inf or NaN affects only the cells that contain it
    try:
        with warnings.catch_warnings():
            warnings.simplefilter('ignore')
            xa = c.Variable(shape=(2,), name='nf_x')
            ya = c.Variable(shape=(2,), name='nf_y')
            xa.value = np.array([1.0, 2.0])
            ya.value = np.array([0.0, 4.0])
            r = c.relent(xa, ya, elementwise=True)
            rv = np.asarray(r.value, dtype=float).ravel()
            if not (rv[0] == np.inf and abs(rv[1] - 2.0 * np.log(2.0 / 4.0)) < 1e-12):
                return 'relent((1,2),(0,4), elementwise) evaluates to %s; expected [inf, %r]' % (rv.tolist(), 2.0 * np.log(0.5))
            ua = c.Variable(shape=(2,), name='nf_unassigned')
            mixed = c.hstack((ua[0] + 1.0, 5.0, 2.0 * xa[1] - 1.0))
            mv = np.asarray(mixed.value, dtype=float).ravel()
            if not (np.isnan(mv[0]) and mv[1] == 5.0 and mv[2] == 3.0):
                return 'the value of (unassigned + 1, 5, 2*x1 - 1) with x1 = 2 is %s; expected [nan, 5, 3]' % mv.tolist()
            big = c.Variable(shape=(1,), name='nf_big')
            big.value = np.array([1e4])
            ov = np.asarray(c.hstack((c.weighted_sum_exp(np.array([1.0]), big), xa[0] + 0.5)).value, dtype=float).ravel()
            if not (ov[0] == np.inf and ov[1] == 1.5):
                return 'the value of (exp(1e4), x0 + 0.5) with x0 = 1 is %s; expected [inf, 1.5]' % ov.tolist()
    except Exception as e:
        return 'evaluating Expressions with non-finite atoms raised %r' % (e,)
    for name, fe, fn in cases:
        try:
            with warnings.catch_warnings():
                warnings.simplefilter('ignore')
                got, want = fe(), fn()
            if tuple(np.shape(got)) != tuple(np.shape(want)):
                return '%s: shape %s, numpy gives %s' % (name, np.shape(got), np.shape(want))
            if not np.allclose(np.asarray(got.value, dtype=float), want):
                return '%s: value differs from numpy' % name
        except Exception as e:
            return '%s raised %r' % (name, e)
    return None


def oracle_inplace_views(rng):
    """an Expression is a numpy array of affine functions also under IN-PLACE writes: a write through a view (a row, the transpose, a slice,
    `E += k`) changes the array, and every later product / comparison / value must see it, whatever was computed from the array before"""
    c = cl()
    w = World(rng)
    x, Y = w.vars[0], w.vars[1]
    vx, vY = w.values['x'], w.values['Y']
    M = np.array([[1.0, 2.0], [-1.0, 0.5]])

    def writes():
        def w_row(E, N, X, NX):
            row, nrow = E[1], N[1]
            row[0] = X[0] * 2.0
            nrow[0] = NX[0] * 2.0
        def w_T(E, N, X, NX):
            E.T[0, 1] = X[1] - 1.0
            N.T[0, 1] = NX[1] - 1.0
        def w_slice(E, N, X, NX):
            sl, nsl = E[:, 1], N[:, 1]
            sl[1] = X[2] + X[0]
            nsl[1] = NX[2] + NX[0]
        def w_iadd(E, N, X, NX):
            E += 1.0
            N += 1.0
        def w_direct(E, N, X, NX):
            E[0, 0] = 3.0 * X[1]
            N[0, 0] = 3.0 * NX[1]
        def w_ravel(E, N, X, NX):
            f, nf = E.ravel(), N.ravel()      # a view for contiguous arrays
            f[3] = X[0] - X[2]
            nf[3] = NX[0] - NX[2]
        return [('row = E[1]; row[0] = ...', w_row), ('E.T[0, 1] = ...', w_T), ('col = E[:, 1]; col[1] = ...', w_slice), ('E += 1', w_iadd),
                ('E[0, 0] = ...', w_direct), ('f = E.ravel(); f[3] = ...', w_ravel)]

    def observe(E, N, tag):
        obs = [('M @ E', lambda: M @ E, lambda: M @ N), ('E @ M', lambda: E @ M, lambda: N @ M), ('E.value', lambda: E, lambda: N),
               ('E.T @ M', lambda: E.T @ M, lambda: N.T @ M), ('sum(E)', lambda: c.sum(E, axis=0), lambda: N.sum(axis=0))]
        for name, fe, fn in obs:
            got = np.asarray(fe().value, dtype=float)
            want = np.asarray(fn(), dtype=float)
            if got.shape != want.shape or not np.allclose(got, want):
                return '%s after %s: value %s, numpy gives %s' % (name, tag, got.tolist(), want.tolist())
        return None
    try:
        with warnings.catch_warnings():
            warnings.simplefilter('ignore')
            for name, wr in writes():
                for first in ('matmul', 'rmatmul', 'equiv', 'none'):
                    E = c.Expression(2.0 * Y + 1.0)
                    N = 2.0 * vY + 1.0
                    E0 = c.Expression(2.0 * Y + 1.0)
                    if first == 'matmul':
                        _ = M @ E
                    elif first == 'rmatmul':
                        _ = E @ M
                    elif first == 'equiv':
                        if not c.Expression.are_equivalent(E, E0):
                            return 'are_equivalent(E, copy of E) is False'
                    wr(E, N, x, vx)
                    why = observe(E, N, '%s (first use: %s)' % (name, first))
                    if why:
                        return why
                    same = bool(np.allclose(N, 2.0 * vY + 1.0))
                    eq = c.Expression.are_equivalent(E, E0)
                    if eq and not same:
                        return 'are_equivalent(E, E0) is True after %s changed E (first use: %s)' % (name, first)
                    # a second write after the observations
                    wr(E, N, x, vx)
                    why = observe(E, N, '%s twice (first use: %s)' % (name, first))
                    if why:
                        return why
    except Exception as e:
        return 'in-place writes through views raised %r' % (e,)
    return None


def oracle_value_layouts(rng):
    """assigning numbers to a Variable is assignment by INDEX whatever the memory layout of the array that carries them (transposed, Fortran-ordered,
    reversed or strided views, integer dtype): V.value and every Expression over V evaluate as numpy does on those numbers"""
    c = cl()
    with warnings.catch_warnings():
        warnings.simplefilter('ignore')
        X = c.Variable(shape=(2, 3), name='lay_X')
        x = c.Variable(shape=(4,), name='lay_x')
        W = np.arange(1.0, 7.0).reshape(3, 2) / 2.0
        x0 = np.array([0.5, -1.0, 2.0, 3.5])
        M = np.array([[1.0, 2.0], [0.0, -1.0], [3.0, 0.5]])
        for name, arrX, arrx in (('transposed / reversed views', W.T, x0[::-1]), ('Fortran-ordered copy / strided view', np.asfortranarray(W.T), np.arange(8.0)[::2]),
                                 ('integer dtype', (2 * W.T).astype(int), np.array([1, 2, 3, 4])), ('contiguous copies', np.ascontiguousarray(W.T), x0.copy())):
            X.value = arrX
            x.value = arrx
            nX, nx = np.array(arrX, dtype=float), np.array(arrx, dtype=float)
            for what, fe, fn in (('X.value', lambda: X, lambda: nX), ('2 X + 1', lambda: 2 * X + 1.0, lambda: 2 * nX + 1.0), ('X @ M', lambda: X @ M, lambda: nX @ M),
                                 ('sum(X, axis=0)', lambda: c.sum(X, axis=0), lambda: nX.sum(axis=0)), ('x.value', lambda: x, lambda: nx),
                                 ('a @ x', lambda: np.array([1.0, -2.0, 0.5, 3.0]) @ x, lambda: np.array([1.0, -2.0, 0.5, 3.0]) @ nx),
                                 ('weighted_sum_exp', lambda: c.weighted_sum_exp(np.array([1.0, 2.0, 0.5, 1.0]), 0.25 * x), lambda: np.sum(np.array([1.0, 2.0, 0.5, 1.0]) * np.exp(0.25 * nx)))):
                got = np.asarray(fe().value, dtype=float)
                want = np.asarray(fn(), dtype=float)
                if got.shape != want.shape and got.size == want.size:
                    got = got.reshape(want.shape)
                if got.shape != want.shape or not np.allclose(got, want):
                    return 'after assigning %s to the Variables, %s evaluates to %s; numpy on the assigned numbers gives %s' % (name, what, got.tolist(), want.tolist())
    return None


def probe_fixed_defects():
    """replays of the repaired defects F2, F3, F9"""
    c = cl()
    b = base()
    x = c.Variable(shape=(2,), name='x')
    try:
        atoms = c.Expression([x[0] + x[1] - x[1], 2 * x[1] + 1]).scalar_atoms()
        if sorted(a.id for a in atoms) != sorted(int(i) for i in x.scalar_variable_ids):
            return 'Expression.scalar_atoms returned %r' % (atoms,)
    except Exception as e:
        return 'Expression.scalar_atoms raised %r' % (e,)
    try:
        e1, e2 = c.Expression([x[0]]), c.Expression([x[0] + x[1]])
        if b.Expression.are_equivalent(e1, e2) or b.Expression.are_equivalent(e2, e1):
            return 'are_equivalent(x0, x0+x1) returned True'
        if not b.Expression.are_equivalent(c.Expression([x[0] + x[1] - x[1]]), e1):
            return 'are_equivalent(x0+x1-x1, x0) returned False'
    except Exception as e:
        return 'are_equivalent raised %r' % (e,)
    z = c.Variable(shape=(1,), name='z')
    z.value = np.array([0.0])
    v = float(c.weighted_sum_exp(np.array([1.0, 2.0]), c.Expression([z[0], z[0]])).value)
    if abs(v - 3.0) > 1e-12:
        return 'weighted_sum_exp([1,2],[z,z]) at z=0 evaluates to %r, expected 3' % v
    v = float(c.relent(c.Expression([z[0] + 1, z[0] + 1]), c.Expression([2.0, 2.0])).value)
    if abs(v - 2 * math.log(0.5)) > 1e-12:
        return 'relent([z+1,z+1],[2,2]) at z=0 evaluates to %r, expected %r' % (v, 2 * math.log(0.5))
    # conventions of the nonlinear atoms at the boundary of their domains: 0*log(0/y) = 0
    for xe, ye, want in ((c.Expression([z[0]]), c.Expression([2.0]), 0.0), (c.Expression([0.0, 1.0]), c.Expression([z[0] + 3.0, 1.0]), 0.0),
                         (c.Expression([z[0], 2.0]), c.Expression([1.0, z[0] + 1.0]), 2 * math.log(2.0))):
        v = float(c.relent(xe, ye).value)
        if not (abs(v - want) <= 1e-12):
            return 'relent with a zero first argument evaluates to %r at z=0, expected %r (x log(x/y) = 0 at x = 0)' % (v, want)
    # cells are values: an augmented assignment on one cell (or on a name bound to a cell) never changes another cell or a Variable
    xa = c.Variable(shape=(3,), name='alias')
    xa.value = np.array([1.0, 2.0, 3.0])
    tl = c.tile(xa, 2)
    tl[0] += 10
    if [float(v) for v in np.asarray(tl.value).tolist()] != [11.0, 2.0, 3.0, 1.0, 2.0, 3.0] or [float(v) for v in np.asarray(xa.value).tolist()] != [1.0, 2.0, 3.0]:
        return 't = tile(x, 2); t[0] += 10 gives t.value = %s, x.value = %s' % (np.asarray(tl.value).tolist(), np.asarray(xa.value).tolist())
    ea = 2 * xa + 1
    s0 = ea[0]
    s0 += 5
    s0 *= 2
    if [float(v) for v in np.asarray(ea.value).tolist()] != [3.0, 5.0, 7.0]:
        return 's = e[0]; s += 5; s *= 2 changed e.value to %s' % np.asarray(ea.value).tolist()
    rp = c.repeat(ea, 2)
    rp[1] -= 4
    if [float(v) for v in np.asarray(rp.value).tolist()] != [3.0, -1.0, 5.0, 5.0, 7.0, 7.0]:
        return 'r = repeat(e, 2); r[1] -= 4 gives r.value = %s' % np.asarray(rp.value).tolist()
    # stacking an affine Expression with numeric arrays gives an Expression all of whose cells can be evaluated
    for name, fe, want in (('hstack((e, [1,2]))', lambda: c.hstack((ea, np.array([1.0, 2.0]))), [3.0, 5.0, 7.0, 1.0, 2.0]),
                           ('concatenate(([4.], e))', lambda: c.concatenate((np.array([4.0]), ea)), [4.0, 3.0, 5.0, 7.0]),
                           ('stack((e, [0,1,2]))', lambda: c.stack((ea, np.array([0.0, 1.0, 2.0]))), [[3.0, 5.0, 7.0], [0.0, 1.0, 2.0]]),
                           ('block([e, 9.])', lambda: c.block([ea, np.array([9.0])]), [3.0, 5.0, 7.0, 9.0])):
        try:
            got = fe()
            val = np.asarray(got.value, dtype=float).tolist()
            const = bool(got.is_constant())
        except Exception as ex:
            return '%s with e = 2x+1: evaluating the result raises %s' % (name, type(ex).__name__)
        if val != want or const:
            return '%s with e = 2x+1 evaluates to %s (is_constant=%s), numpy gives %s' % (name, val, const, want)
    # badly scaled data: products of small coefficients are still coefficients (no thresholding in matrix products)
    xs = c.Variable(shape=(2,), name='scaled')
    e = 2.0 ** -20 * xs + 1.0
    A = 2.0 ** -20 * np.array([[1.0, 2.0], [3.0, 4.0]])
    xs.value = 2.0 ** 41 * np.array([1.0, -1.0])
    ev = 2.0 ** -20 * xs.value + 1.0
    import scipy.sparse as sp
    for name, got, want in (('A @ e', A @ e, A @ ev), ('e @ A', e @ A, ev @ A), ('sparse(A) @ e', sp.csr_matrix(A) @ e, A @ ev),
                            ('dot(A[0], e)', c.dot(A[0], e) if hasattr(c, 'dot') else A[0] @ e, A[0] @ ev)):
        gv = np.asarray(c.Expression(got).value if not hasattr(got, 'value') else got.value, dtype=float)
        if gv.shape != np.shape(want) or not np.array_equal(gv, np.asarray(want)):
            return '%s with entries of size 2^-20 evaluates to %s, numpy gives %s' % (name, gv.tolist(), np.asarray(want).tolist())
        if not any(int(sv.id) in [int(i) for i in xs.scalar_variable_ids] for sv in (c.Expression(got) if not hasattr(got, 'scalar_variables') else got).scalar_variables()):
            return '%s with entries of size 2^-20 no longer depends on its Variable' % name
    return None


def oracle_equiv(rng):
    """are_equivalent: total, True only for functionally equal, always for equal affine ones"""
    c = cl()
    b = base()
    w = World(rng)
    x = w.vars[0]
    pairs = []
    e = 2 * x[:2] + 1
    pairs.append((e, c.Expression([2 * x[0] + 1, 1 + x[1] + x[1]]), True))
    pairs.append((e, c.Expression([2 * x[0] + 1, 2 * x[1] + 1 + 0 * x[2]]), True))
    pairs.append((e + x[2] - x[2], e, True))
    pairs.append((e, 2 * x[:2] + 2, False))
    pairs.append((e, c.Expression([2 * x[0] + 1, 2 * x[2] + 1]), False))
    pairs.append((x[:2], x[:2] + x[1:], False))
    pairs.append((x[:2] + x[1:], x[:2], False))
    pairs.append((x[:2], x, False))
    # equal size, different shape: never equivalent, never an exception
    pairs.append((x[:3], x[:3].reshape((1, 3)), False))
    pairs.append((x[:2], x[:2].reshape((2, 1)), False))
    x6 = c.Expression(np.concatenate((np.asarray(x[:3], dtype=object), np.asarray(2 * x[:3] + 1, dtype=object))))
    pairs.append((x6.reshape((2, 3)), x6.reshape((3, 2)), False))
    pairs.append((x6.reshape((2, 3)), x6, False))
    # atoms of different classes may carry the SAME id (ids are per-class counters; a ScalarVariable's id is another counter):
    # equality of ids is not equality of atoms
    from sageopt.coniclifts.operators.abs import Abs, abs as clabs
    from sageopt.coniclifts.operators.exp import Exponential
    from sageopt.coniclifts.operators.pos import Pos, pos as clpos
    y = c.Variable(shape=(1,), name='eqy')
    sid = int(y.scalar_variable_ids[0])
    Exponential._EXPONENTIAL_COUNTER_ = sid
    ey = c.weighted_sum_exp(np.array([1.0]), c.Expression([x[0]]))      # one Exponential atom with id == id of y[0]
    pairs.append((c.Expression([y[0]]), c.Expression([ey]) if not isinstance(ey, b.Expression) else ey.reshape((1,)) if ey.shape == () else ey, False))
    top = max(Abs._ABS_COUNTER_, Pos._POS_COUNTER_)
    Abs._ABS_COUNTER_ = Pos._POS_COUNTER_ = top
    pairs.append((clabs(x[:1]), clpos(x[:1]), False))
    for a, bb, want in pairs:
        try:
            got = b.Expression.are_equivalent(a, bb)
        except Exception as ex:
            return 'are_equivalent raised %r' % (ex,)
        if bool(got) != want:
            return 'are_equivalent returned %s, expected %s' % (got, want)
    return None


def run(ctx):
    cases = []
    nprog = ctx.n(250, 2500)
    for _ in range(nprog):
        coq, js, regs, nums, meta = gen_program(ctx.rng, ctx.rng.randint(6, 14))
        why = oracle_regs(regs, nums)
        if why:
            ctx.problem('oracle', 'property fails on the implementation: ' + why, inputs={'program': js}, failing_input_found=True)
            break
        obs = [reg_obs(r) if r is not None else None for r in regs]
        intro = [reg_intro(r) if r is not None else None for r in regs]
        for k in ('matmul', 'nl', 'cancel', 'errors'):
            ctx.count('programs_with_' + k, meta[k] > 0)
        ctx.count('len', len(coq))
        if meta['arith'] >= 3 and (meta['matmul'] or meta['nl'] or meta['cancel']):
            ctx.nontrivial.add(vlib.sha(js))
        cases.append((js, '[' + '; '.join(coq) + ']', cq((obs, intro)), None))
    ctx.evaluations += len(cases)
    T_out = 'list (option obs) * list (option (list (bool * bool * list Z)))'
    mism, err = vlib.run_suite_in_coq(ctx.pid, 'programs', HEADER, 'model', 'out_eqb', 'list instr', T_out,
                                      [(c_[1], c_[2]) for c_ in cases], shard=60)
    ctx.suites['programs'] = {'cases': len(cases), 'mismatches': None if mism is None else len(mism)}
    if err:
        ctx.problem('correspondence', 'suite programs: ' + err)
    else:
        if cases:
            ctx.samples.append({'suite': 'programs', 'program': cases[len(cases) // 2][0]})
        for idx in mism[:3]:
            dbg = ('let m := model %s in let i := %s in (mism (fun k => nth k (fst m) None) (fun a b => obs_eqb a b) '
                   '(combine (seq 0 (length (fst i))) (fst i)), mism (fun k => nth k (snd m) None) (fun a b => intro_eqb a b) '
                   '(combine (seq 0 (length (snd i))) (snd i)))' % (cases[idx][1], cases[idx][2]))
            which = vlib.coq_show(HEADER, dbg)
            import re as _re
            regs_bad = sorted(set(int(x) for x in _re.findall(r'(\d+)%nat', which) + _re.findall(r'\b(\d+)\b', which.split(':')[0])))[:2]
            show = ' ; '.join('reg %d: model obs=%s intro=%s' % (k, vlib.coq_show(HEADER, 'nth %d (fst (model %s)) None' % (k, cases[idx][1]))[:600],
                                                              vlib.coq_show(HEADER, 'nth %d (snd (model %s)) None' % (k, cases[idx][1]))[:300]) for k in regs_bad)
            model_out = 'differing registers (obs, introspection): %s ;; %s' % (which[:200], show)
            ctx.problem('correspondence', 'suite programs: model and implementation disagree on program %s; impl=%s model=%s '
                        '(the numpy-differential oracle passed on this program)' % (cases[idx][0], cases[idx][2][:10], model_out[:2500]),
                        inputs={'program': cases[idx][0]}, failing_input_found=False)
    for name, f in (('extra_numpy_stream', lambda: extra_numpy_stream(ctx.rng)), ('fixed_defect_probes', probe_fixed_defects),
                    ('are_equivalent', lambda: oracle_equiv(ctx.rng)), ('inplace_views', lambda: oracle_inplace_views(ctx.rng)), ('value_layouts', lambda: oracle_value_layouts(ctx.rng))):
        why = f()
        ctx.suites[name] = {'cases': 1, 'failure': why}
        ctx.evaluations += 1
        if why:
            ctx.problem('oracle', '%s: %s' % (name, why), inputs={'suite': name}, failing_input_found=True)


def search(ctx):
    for _ in range(400):
        coq, js, regs, nums, meta = gen_program(ctx.rng, ctx.rng.randint(6, 14))
        why = oracle_regs(regs, nums)
        if why:
            return {'program': js, 'property_failure': why}
    for name, f in (('extra_numpy_stream', lambda: extra_numpy_stream(ctx.rng)), ('fixed_defect_probes', probe_fixed_defects),
                    ('are_equivalent', lambda: oracle_equiv(ctx.rng))):
        why = f()
        if why:
            return {'suite': name, 'property_failure': why}
    return None


def replay(payload):
    ctx = vlib.Ctx('C08', 'quick', int(payload.get('seed', 0)))
    found = search(ctx)
    print(found or 'property holds on the regenerated programs')
    return 1 if found else 0
