"""C10 — solver standard forms describe the same optimisation problem.
Tie: Model/SolverForms.v (Q instance) vs ECOS.apply, separate_cone_constraints, Mosek._primal_apply,
Mosek._dual_apply on random and exhaustive cone sequences.  Oracle: membership of sampled points in the
coniclifts system vs in the solver form (exact rationals; exp cone through one shared float predicate)."""
import itertools
import math
from fractions import Fraction

import numpy as np
import scipy.sparse as sp

from harness import vlib
from harness.vlib import Nat, cq, Raw

USES_TRANSLATOR = True
RULE = ('case = (c, A, b, K[, dont_sep]) with K a sequence over {0,+,S(2..4),e}; exhaustive over all cone sequences of '
        'length<=3 (quick) / <=4 (thorough) plus random ones up to length 7; non-trivial = K has two adjacent cones of '
        'equal type or a separated nonlinear cone; distinct by input hash')
TRUSTED = ['correspondence harness harness/props/c10.py (dense canonicalisation of scipy.sparse outputs)',
           'translator harness/translator/forms_tr.py (Gen/GenForms.v: expressions of ECOS.apply translated structurally, build_cone_type_selectors as a fold with a running index), proved equal to the model for all inputs',
           'translator harness/translator/mforms_tr.py (Gen/GenMosekForms.v: separate_cone_constraints, dualize_problem, Mosek._primal_apply, Mosek._dual_apply; statements, loops, index arithmetic and cone bookkeeping translated structurally, array idioms through the fixed table Model/FormIdioms.v), proved equal to the models for all inputs (scalars with v + 0 = v; one row of A per row of K)',
           'translator harness/translator/mosek_tab.py (Gen/GenMosek.v: MOSEK status tables, primal/dual decision, dispatch) — the only tie for mosek.py parse functions',
           'MOSEK itself is absent: meaning of appendcone/putconboundlist/gety is trusted; only the data handed to it is modelled',
           'strong duality of dualize_problem is not proved (weak duality is)']
ASSUMPTIONS = ['Model/SolverForms.v is a hand-written polymorphic mirror of the Python (instantiated at Q for correspondence, '
               'at R for theorems)', 'solver numerical behaviour is outside the model']
HEADER = ('From Coq Require Import List Bool Arith QArith.\n'
          'From SageVerif Require Import Model.SolverForms Model.SolverFormsQ Base.Corr.')

TAG = {'0': 'T0', '+': 'TPos', 'S': 'TSoc', 'e': 'TExp', 'de': 'TDExp', 'fr': 'TFree', 'P': 'TPsd', 'pow': 'TPow'}


def cones(K):
    from sageopt.coniclifts.cones import Cone
    return [Cone(t, n) for t, n in K]


def cqK(K):
    return [(Raw(TAG[t]), Nat(n)) for t, n in K]


def dense(M):
    M = M.toarray() if sp.issparse(M) else np.asarray(M)
    return [[vlib.frac(v) for v in r] for r in M.tolist()]


def vec(v):
    return [vlib.frac(x) for x in np.asarray(v).ravel().tolist()]


def coneK(K):
    return [(Raw(TAG[co.type]), Nat(int(co.len))) for co in K]


# ------------------------------------------------------------ implementation runners
SHARE_CONES = [False]
MUTATED = []      # (function, what) — a standard-form routine changed the caller's (c, A, b, K): a later solve sees other data


class Frozen:
    """the caller's data; after the call under test it must still describe the same problem"""
    def __init__(self, n, c, A, b, K):
        self.c = np.array(c, dtype=float)
        self.A = sp.csc_matrix(np.array(A, dtype=float).reshape(len(A), n))
        self.b = np.array(b, dtype=float)
        self.K = cones(K)
        if SHARE_CONES[0]:
            # the caller lists the SAME Cone object wherever type and length coincide (K = [Cone('+',1)] + 2*[Cone('S',3)])
            first = {}
            self.K = [first.setdefault((co.type, co.len), co) for co in self.K]
        self.snap = (self.c.copy(), self.A.toarray().copy(), self.b.copy(), [(co.type, co.len) for co in self.K])

    def check(self, fn):
        now = (self.c, self.A.toarray(), self.b, [(co.type, co.len) for co in self.K])
        for nm, u, v in zip(('c', 'A', 'b'), self.snap, now):
            if u.shape != v.shape or not np.array_equal(u, v):
                MUTATED.append((fn, 'argument %s changed from %s to %s' % (nm, u.tolist(), v.tolist())))
        if self.snap[3] != now[3]:
            MUTATED.append((fn, 'argument K changed from %s to %s' % (self.snap[3], now[3])))


def impl_ecos(c, A, b, K):
    from sageopt.coniclifts.problems.solvers.ecos import ECOS
    fz = Frozen(len(c), c, A, b, K)
    try:
        data, _ = ECOS.apply(fz.c, fz.A, fz.b, fz.K, {})
    except RuntimeError:
        return None
    finally:
        fz.check('ECOS.apply')
    cn = data['cones']
    return vlib.Some((dense(data['G']), vec(data['h']),
                      (Nat(int(cn['l'])), Nat(int(cn['e'])), [Nat(int(q)) for q in cn['q']]),
                      (dense(data['A']), vec(data['b']), vec(data['c']))))


def impl_separate(n, A, b, K, ds):
    from sageopt.coniclifts.reformulators import separate_cone_constraints
    fz = Frozen(n, [0] * n, A, b, K)
    A2, b2, K2, sl = separate_cone_constraints(fz.A, fz.b, fz.K, dont_sep=(set(ds) if ds is not None else None))
    fz.check('separate_cone_constraints')
    return (dense(A2), vec(b2), coneK(K2),
            [((Raw(TAG[co.type]), Nat(int(co.len))), [Nat(int(j)) for j in co.annotations['col mapping']]) for co in sl])


def impl_mosek_primal(n, c, A, b, K):
    from sageopt.coniclifts.problems.solvers.mosek import Mosek
    fz = Frozen(n, c, A, b, K)
    d, inv = Mosek._primal_apply(fz.c, fz.A, fz.b, fz.K)
    fz.check('Mosek._primal_apply')
    return (dense(d['A']) if d['A'].shape[0] else [], vec(d['b']), coneK(d['K']),
            [((Raw(TAG[co.type]), Nat(int(co.len))), [Nat(int(j)) for j in co.annotations['col mapping']]) for co in d['sep_K']],
            vec(d['c']), Nat(int(inv['n'])))


def impl_mosek_dual(n, c, A, b, K):
    from sageopt.coniclifts.problems.solvers.mosek import Mosek
    fz = Frozen(n, c, A, b, K)
    d, inv = Mosek._dual_apply(fz.c, fz.A, fz.b, fz.K)
    fz.check('Mosek._dual_apply')
    cd = d['cone_dims']
    form = Mosek.decide_primal_vs_dual(fz.c, fz.A, fz.b, fz.K, {})
    fz.check('Mosek.decide_primal_vs_dual')
    return (vec(d['f']), dense(d['G']), vec(d['h']),
            (Nat(int(cd['+'])), [Nat(int(q)) for q in cd['S']], Nat(int(cd['de'])), Nat(int(cd['fr']))), form == 'dual')


# ------------------------------------------------------------ semantic oracles
def kexp(x, y, z):
    x, y, z = float(x), float(y), float(z)
    if z > 0:
        try:
            return z * math.exp(x / z) <= y
        except OverflowError:
            return False
    return z == 0 and x <= 0 and y >= 0


def in_cone(t, v):
    if t == '0':
        return all(x == 0 for x in v)
    if t == '+':
        return all(x >= 0 for x in v)
    if t == 'S':
        return v[0] >= 0 and sum(x * x for x in v[1:]) <= v[0] * v[0]
    if t == 'e':
        return len(v) == 3 and kexp(*v)
    if t == 'fr':
        return True
    raise ValueError(t)


def in_K(K, v):
    i = 0
    for t, n in K:
        if not in_cone(t, v[i:i + n]):
            return False
        i += n
    return i == len(v)


def matvec(A, x):
    return [sum(Fraction(a) * xi for a, xi in zip(r, x)) for r in A]


def sample_points(rng, c, A, b, K, n, count=12):
    pts = []
    for _ in range(count):
        pts.append([Fraction(rng.randint(-4, 4), rng.choice([1, 1, 2])) for _ in range(n)])
    return pts


def oracle_ecos(c, A, b, K, pts):
    out = impl_ecos(c, A, b, K)
    if out is None:
        return None
    G, h, (l, e, q), (Ae, be, ce) = out.v
    if [Fraction(v) for v in c] != ce:
        return 'objective vector changed'
    Kecos = [('+', int(l))] + [('S', int(k)) for k in q] + [('e', 3)] * int(e)
    if sum(k for _, k in Kecos) != len(h):
        return 'dims do not add up to rows of G: dims=%r rows=%d' % (Kecos, len(h))
    for x in pts:
        r = [u + Fraction(bi) for u, bi in zip(matvec(A, x), b)]
        orig = in_K(K, r)
        s = [hi - gi for hi, gi in zip(h, matvec(G, x))]
        eqok = matvec(Ae, x) == be
        form = eqok and in_K(Kecos, s)
        if orig != form:
            return 'point x=%s: coniclifts system says %s, ECOS form says %s' % ([str(v) for v in x], orig, form)
    return None


def oracle_separate(n, A, b, K, ds, pts):
    A2, b2, K2, sl = impl_separate(n, A, b, K, ds)
    K2p = [({v: k for k, v in TAG.items()}[t.s], int(k)) for t, k in K2]
    nsl = len(A2[0]) - n if A2 else 0
    for x in pts:
        r = [u + Fraction(bi) for u, bi in zip(matvec(A, x), b)]
        orig = in_K(K, r)
        # determine slack values from the rows that became '0'
        y = [None] * nsl
        for j in range(nsl):
            rows = [i for i in range(len(A2)) if A2[i][n + j] != 0]
            if len(rows) != 1:
                return 'slack column %d has %d nonzeros' % (j, len(rows))
            i = rows[0]
            y[j] = -(sum(A2[i][k] * x[k] for k in range(n)) + b2[i]) / A2[i][n + j]
        z = list(x) + y
        r2 = [u + bi for u, bi in zip(matvec(A2, z), b2)]
        ok = in_K(K2p, r2)
        for (t, k), cols in sl:
            tt = {v: kk for kk, v in TAG.items()}[t.s]
            if any(int(cidx) < n or int(cidx) >= n + nsl for cidx in cols):
                return 'col mapping outside slack range'
            ok = ok and in_cone(tt, [z[int(cidx)] for cidx in cols])
        if orig != ok:
            return 'point x=%s: original %s, separated form %s' % ([str(v) for v in x], orig, ok)
    return None


def oracle_mosek_primal(n, c, A, b, K, pts):
    Am, bm, Km, sl, cm, nn = impl_mosek_primal(n, c, A, b, K)
    if int(nn) != n or cm[:n] != [Fraction(v) for v in c] or any(v != 0 for v in cm[n:]):
        return 'objective / n changed'
    nineq = int(Km[0][1])
    width = len(cm)
    nsl = width - n
    for x in pts:
        r = [u + Fraction(bi) for u, bi in zip(matvec(A, x), b)]
        orig = in_K(K, r)
        # solve slack values from equality rows having a single slack entry
        y = [None] * nsl
        for j in range(nsl):
            rows = [i for i in range(nineq, len(Am)) if Am[i][n + j] != 0]
            if len(rows) != 1:
                return 'slack column %d has %d nonzeros' % (j, len(rows))
            i = rows[0]
            y[j] = (bm[i] - sum(Am[i][k] * x[k] for k in range(n))) / Am[i][n + j]
        z = list(x) + y
        lhs = matvec(Am, z) if Am else []
        ok = all(lhs[i] <= bm[i] for i in range(nineq)) and all(lhs[i] == bm[i] for i in range(nineq, len(Am)))
        for (t, k), cols in sl:
            tt = {v: kk for kk, v in TAG.items()}[t.s]
            ok = ok and in_cone(tt, [z[int(cidx)] for cidx in cols])
        if orig != ok:
            return 'point x=%s: original %s, MOSEK primal form %s' % ([str(v) for v in x], orig, ok)
    return None


def ref_mosek_dual(n, c, A, b, K):
    """independent reference: columns of A^T grouped (+, S, de, fr) in K order."""
    m = len(A)
    idx = {'+': [], 'S': [], 'de': [], 'fr': []}
    i = 0
    for t, k in K:
        key = {'+': '+', 'S': 'S', 'e': 'de', '0': 'fr'}[t]
        idx[key] += list(range(i, i + k))
        i += k
    order = idx['+'] + idx['S'] + idx['de'] + idx['fr']
    f = [-Fraction(b[j]) for j in order]
    G = [[Fraction(A[j][col]) for j in order] for col in range(n)]
    dims = (len(idx['+']), [k for t, k in K if t == 'S'], sum(1 for t, k in K if t == 'e'), len(idx['fr']))
    return f, G, [Fraction(v) for v in c], dims


def oracle_mosek_dual(n, c, A, b, K):
    f, G, h, (p, S, de, fr), _ = impl_mosek_dual(n, c, A, b, K)
    rf, rG, rh, rd = ref_mosek_dual(n, c, A, b, K)
    if (f, G, h) != (rf, rG, rh) or (int(p), [int(s) for s in S], int(de), int(fr)) != rd:
        return 'dualised data differs from the reference encoding (column order / cone dims / signs)'
    return None


# ------------------------------------------------------------ generators
CONES = [('0', 1), ('0', 2), ('+', 1), ('+', 2), ('S', 1), ('S', 2), ('S', 3), ('S', 4), ('e', 3)]


def gen_instance(rng, K, n):
    m = sum(k for _, k in K)
    A = [[rng.choice([0, 0, 1, -1, 2, -3]) for _ in range(n)] for _ in range(m)]
    # pick b so that a random point is feasible for some blocks (mostly-valid inputs)
    x0 = [Fraction(rng.randint(-2, 2)) for _ in range(n)]
    target = []
    for t, k in K:
        if t == '0':
            target += [0] * k
        elif t == '+':
            target += [rng.randint(0, 2) for _ in range(k)]
        elif t == 'S':
            xs = [rng.randint(-1, 1) for _ in range(k - 1)]
            target += [rng.choice([int(math.isqrt(sum(v * v for v in xs))) + 1, sum(abs(v) for v in xs)])] + xs
        else:
            target += rng.choice([[0, 3, 1], [-1, 1, 1], [0, 1, 0], [1, 8, 2]])
    Ax = matvec(A, x0)
    b = [Fraction(tg) - u for tg, u in zip(target, Ax)]
    if rng.random() < 0.3:
        b = [v + rng.choice([0, 0, 1, -1]) for v in b]
    if rng.random() < 0.2:
        # badly scaled but legal data: rows of linear cones in other units (powers of two keep float arithmetic exact); nothing
        # may be dropped because it is small next to the largest entry of the matrix
        i0 = 0
        lin_rows = []
        for t, k in K:
            if t in ('0', '+'):
                lin_rows += list(range(i0, i0 + k))
            i0 += k
        for i in lin_rows:
            sc = rng.choice([Fraction(2) ** 36, Fraction(1, 2 ** 36), 1])
            A[i] = [Fraction(v) * sc for v in A[i]]
            b[i] = Fraction(b[i]) * sc
    c = [rng.randint(-3, 3) for _ in range(n)]
    pts = [x0] + [[v + Fraction(rng.choice([0, 0, 0, 1, -1]), rng.choice([1, 2])) for v in x0] for _ in range(8)] + \
          [[Fraction(rng.randint(-3, 3)) for _ in range(n)] for _ in range(3)]
    return c, A, [b_ for b_ in b], pts


def interesting(K, ds=None):
    adj = any(K[i][0] == K[i + 1][0] for i in range(len(K) - 1))
    sep = ds is not None and any(t not in ds and t != '0' for t, _ in K)
    return adj or sep


def gen_Ks(ctx):
    Ks = []
    L = 3 if ctx.quick() else 4
    base = [('0', 1), ('+', 2), ('S', 3), ('e', 3)] if ctx.quick() else [('0', 1), ('+', 1), ('S', 2), ('S', 3), ('e', 3)]
    for ln in range(1, L + 1):
        for K in itertools.product(base, repeat=ln):
            Ks.append(list(K))
    # second-order cones of every small length next to each other (a cone of length 1 is t >= 0)
    for a_, b_ in itertools.product((1, 2, 3), repeat=2):
        Ks.append([('S', a_), ('S', b_)])
        Ks.append([('+', 1), ('S', a_), ('S', b_), ('0', 1)])
    nexh = len(Ks)
    for _ in range(ctx.n(150, 1500)):
        Ks.append([ctx.rng.choice(CONES) for _ in range(ctx.rng.randint(1, 7))])
    return Ks, nexh


def fq(v):
    return [Fraction(x) for x in v]


GEN_HEADER = (HEADER.replace('Base.Corr.', 'Gen.GenForms Base.Corr.') +
              '\nDefinition gen_ecos_apply_q (x : list Q * matQ * list Q * list cone) :=\n'
              "  let '(c, A, b, K) := x in match gen_ecos_apply qopp c A b K with\n"
              '  | Ok d => Some (eG d, eh d, (el d, ee d, eq_ d), (eA d, eb d, ec d)) | Err _ => None end.')


GEN2_HEADER = (HEADER.replace('Base.Corr.', 'Model.FormIdioms Gen.GenForms Gen.GenMosekForms Base.Corr.') +
               '\nDefinition qplus (a b : Q) : Q := Qred (a + b).\n'
               'Definition gen_separate_q (x : nat * matQ * list Q * list cone * option (list ctag)) :=\n'
               "  let '(n, A, b, K, ds) := x in gen_separate 0%Q 1%Q qopp qplus n A b K ds.\n"
               'Definition gen_mosek_primal_q (x : nat * list Q * matQ * list Q * list cone) :=\n'
               "  let '(n, c, A, b, K) := x in let d := gen_mosek_primal_apply 0%Q 1%Q qopp qplus n c A b K in\n"
               '  (mpA d, mpb d, mpK d, mpsep d, mpc d, mpn d).\n'
               'Definition gen_mosek_dual_q (x : nat * list Q * matQ * list Q * list cone) :=\n'
               "  let '(n, c, A, b, K) := x in let d := gen_mosek_dual_apply qopp n c A b K in\n"
               '  (mdf d, mdG d, mdh d, (md_pos d, md_soc d, md_de d, md_fr d), decide_dual n K).')


def suite(ctx, name, cases_py, model_expr, eqb_expr, in_ty, out_ty, oracle, header=None):
    HEADER = header or globals()['HEADER']
    ctx.evaluations += len(cases_py)
    mism, err = vlib.run_suite_in_coq(ctx.pid, name, HEADER, model_expr, eqb_expr, in_ty, out_ty,
                                      [(c[1], c[2]) for c in cases_py], shard=150)
    ctx.suites[name] = {'cases': len(cases_py), 'mismatches': (len(mism) if mism is not None else None)}
    if err:
        ctx.problem('correspondence', 'suite %s: %s' % (name, err))
        return
    if cases_py:
        ctx.samples.append({'suite': name, 'input': cases_py[len(cases_py) // 2][0]})
    for idx in mism[:3]:
        inp = cases_py[idx][0]
        why = oracle(*cases_py[idx][3])
        model_out = vlib.coq_show(HEADER, '(%s) %s' % (model_expr, cases_py[idx][1]))
        ctx.problem('correspondence',
                    'suite %s: model and implementation disagree; impl=%s model=%s; oracle on impl: %s'
                    % (name, cases_py[idx][2][:600], model_out[:600], why or 'no sampled point separates the forms'),
                    inputs={'suite': name, 'input': inp, 'property_failure': why}, failing_input_found=bool(why))


def jsonable(c, A, b, K, pts=None, **kw):
    d = {'c': [str(v) for v in c], 'A': [[str(v) for v in r] for r in A], 'b': [str(v) for v in b], 'K': K}
    if pts is not None:
        d['pts'] = [[str(v) for v in p] for p in pts]
    d.update(kw)
    return d


def run(ctx):
    Ks, nexh = gen_Ks(ctx)
    ctx.notes.append('exhaustive over %d cone sequences (length<=%d), %d random' % (nexh, 3 if ctx.quick() else 4, len(Ks) - nexh))
    ecos_cases, sep_cases, mp_cases, md_cases, gsep_cases = [], [], [], [], []
    for K in Ks:
        n = ctx.rng.randint(1, 3)
        SHARE_CONES[0] = ctx.rng.random() < 0.3
        c, A, b, pts = gen_instance(ctx.rng, K, n)
        for t, _ in K:
            ctx.count('cone_types', t)
        ctx.count('K_len', len(K))
        if interesting(K):
            ctx.nontrivial.add(vlib.sha(['ecos', K, A, [str(v) for v in b]]))
        cin = cq((fq(c), [fq(r) for r in A], fq(b), cqK(K)))
        ecos_cases.append((jsonable(c, A, b, K, pts), cin, cq(impl_ecos(c, A, b, K)), (c, A, b, K, pts)))
        dsl = [None, ['0'], ['0', '+'], ['+'], ['0', '+', 'S'], ['0', '+', 'e'], ['e', 'S']]
        ds = ctx.rng.choice(dsl)
        if interesting(K, ds or ['0']):
            ctx.nontrivial.add(vlib.sha(['sep', K, ds, A]))
        ctx.count('dont_sep', ds)
        sin = cq((Nat(n), [fq(r) for r in A], fq(b), cqK(K), [Raw(TAG[t]) for t in (ds or [])]))
        sep_cases.append((jsonable(c, A, b, K, pts, dont_sep=ds, n=n), sin, cq(impl_separate(n, A, b, K, ds)), (n, A, b, K, ds, pts)))
        gsin = cq((Nat(n), [fq(r) for r in A], fq(b), cqK(K), None if ds is None else vlib.Some([Raw(TAG[t]) for t in ds])))
        gsep_cases.append((sep_cases[-1][0], gsin, sep_cases[-1][2], sep_cases[-1][3]))
        min_ = cq((Nat(n), fq(c), [fq(r) for r in A], fq(b), cqK(K)))
        mp_cases.append((jsonable(c, A, b, K, pts, n=n), min_, cq(impl_mosek_primal(n, c, A, b, K)), (n, c, A, b, K, pts)))
        md_cases.append((jsonable(c, A, b, K, n=n), min_, cq(impl_mosek_dual(n, c, A, b, K)), (n, c, A, b, K)))
    # malformed stream: unsupported cone types for ECOS
    for _ in range(20):
        K = [ctx.rng.choice(CONES + [('pow', 3), ('P', 3)]) for _ in range(ctx.rng.randint(1, 4))] + [ctx.rng.choice([('pow', 3), ('P', 3)])]
        ctx.rng.shuffle(K)
        n = 2
        m = sum(k for _, k in K)
        A = [[ctx.rng.randint(-1, 1) for _ in range(n)] for _ in range(m)]
        b = [0] * m
        c = [1, 0]
        ctx.count('ecos_malformed', 1)
        ecos_cases.append((jsonable(c, A, b, K), cq((fq(c), [fq(r) for r in A], fq(b), cqK(K))), cq(impl_ecos(c, A, b, K)), (c, A, b, K, [])))
    T = 'list Q * matQ * list Q * list cone'
    suite(ctx, 'ecos_apply', ecos_cases, 'ecos_apply_q', 'ecos_out_eqb', T,
          'option (matQ * list Q * (nat * nat * list nat) * (matQ * list Q * list Q))', oracle_ecos)
    # the same cases against ECOS.apply GENERATED from ecos.py / cones.py (Gen/GenForms.v)
    suite(ctx, 'ecos_apply_generated', ecos_cases, 'gen_ecos_apply_q', 'ecos_out_eqb', T,
          'option (matQ * list Q * (nat * nat * list nat) * (matQ * list Q * list Q))', oracle_ecos, header=GEN_HEADER)
    suite(ctx, 'separate', sep_cases, 'separate_q', 'separate_out_eqb', 'nat * matQ * list Q * list cone * list ctag',
          'matQ * list Q * list cone * list sepcone', oracle_separate)
    suite(ctx, 'mosek_primal_apply', mp_cases, 'mosek_primal_q', 'mosek_primal_out_eqb', 'nat * list Q * matQ * list Q * list cone',
          'matQ * list Q * list cone * list sepcone * list Q * nat', oracle_mosek_primal)
    suite(ctx, 'mosek_dual_apply', md_cases, 'mosek_dual_q', 'mosek_dual_out_eqb', 'nat * list Q * matQ * list Q * list cone',
          'list Q * matQ * list Q * (nat * list nat * nat * nat) * bool', oracle_mosek_dual)
    # the same cases against separate_cone_constraints / Mosek._primal_apply / _dual_apply GENERATED from reformulators.py / mosek.py
    # (Gen/GenMosekForms.v): validates the idiom table Model/FormIdioms.v of that translation on the inputs the implementation ran on
    suite(ctx, 'separate_generated', gsep_cases, 'gen_separate_q', 'separate_out_eqb', 'nat * matQ * list Q * list cone * option (list ctag)',
          'matQ * list Q * list cone * list sepcone', oracle_separate, header=GEN2_HEADER)
    suite(ctx, 'mosek_primal_apply_generated', mp_cases, 'gen_mosek_primal_q', 'mosek_primal_out_eqb', 'nat * list Q * matQ * list Q * list cone',
          'matQ * list Q * list cone * list sepcone * list Q * nat', oracle_mosek_primal, header=GEN2_HEADER)
    suite(ctx, 'mosek_dual_apply_generated', md_cases, 'gen_mosek_dual_q', 'mosek_dual_out_eqb', 'nat * list Q * matQ * list Q * list cone',
          'list Q * matQ * list Q * (nat * list nat * nat * nat) * bool', oracle_mosek_dual, header=GEN2_HEADER)
    # selectors: contiguous_selector_lengths
    from sageopt.coniclifts.utilities import contiguous_selector_lengths
    cs = []
    for ln in range(0, 9 if ctx.quick() else 12):
        for bits in itertools.product((False, True), repeat=ln):
            out = [Nat(int(v)) for v in contiguous_selector_lengths(np.array(bits, dtype=bool))]
            cs.append(({'sel': list(bits)}, cq(list(bits)), cq(out), (list(bits),)))
    suite(ctx, 'contiguous_selector_lengths', cs, 'contiguous_selector_lengths', 'ln_eqb', 'list bool', 'list nat',
          lambda sel: None)
    # the routines are pure in the model; the implementation must not change the caller's data either (a Problem keeps
    # A, b, K across solves with different solvers/options)
    ctx.suites['arguments_unchanged'] = {'cases': len(ecos_cases) + len(sep_cases) + len(mp_cases) + 2 * len(md_cases), 'mismatches': len(MUTATED)}
    if MUTATED:
        fn, what = MUTATED[0]
        ctx.problem('oracle', 'property fails on the implementation: %s modifies its arguments (%s): the problem data held by the caller '
                    'no longer describe the same optimisation problem for the next standard-form construction' % (fn, what),
                    inputs={'function': fn, 'what': what, 'count': len(MUTATED)}, failing_input_found=True)
        del MUTATED[:]
    # end-to-end replay of the repaired defect F1 (adjacent second-order cones) through Problem.solve
    why = probe_adjacent_soc()
    if why:
        ctx.problem('oracle', why, inputs={'suite': 'adjacent_soc_solve'}, failing_input_found=True)


def probe_adjacent_soc():
    import sageopt.coniclifts as cl
    import warnings
    with warnings.catch_warnings():
        warnings.simplefilter('ignore')
        x = cl.Variable(shape=(2,), name='x')
        y = cl.Variable(shape=(2,), name='y')
        p = cl.Problem(cl.MAX, x[0] + y[0], [cl.vector2norm(x) <= 1, cl.vector2norm(y) <= 2])
        st, val = p.solve(verbose=False)
    if st != 'solved' or abs(val - 3.0) > 1e-4:
        return 'max x0+y0 s.t. |x|<=1, |y|<=2 returned (%s, %r), expected 3 (adjacent S cones merged?)' % (st, val)
    return None


def search(ctx):
    rng = ctx.rng
    Ks, _ = gen_Ks(ctx)
    for K in Ks[:600]:
        n = rng.randint(1, 3)
        c, A, b, pts = gen_instance(rng, K, n)
        why = oracle_ecos(c, A, b, K, pts)
        if why:
            return {'suite': 'ecos_apply', 'input': jsonable(c, A, b, K, pts), 'property_failure': why}
        for ds in (['0'], ['0', '+'], ['0', '+', 'S']):
            why = oracle_separate(n, A, b, K, ds, pts)
            if why:
                return {'suite': 'separate', 'input': jsonable(c, A, b, K, pts, dont_sep=ds, n=n), 'property_failure': why}
        why = oracle_mosek_primal(n, c, A, b, K, pts)
        if why:
            return {'suite': 'mosek_primal_apply', 'input': jsonable(c, A, b, K, pts, n=n), 'property_failure': why}
        why = oracle_mosek_dual(n, c, A, b, K)
        if why:
            return {'suite': 'mosek_dual_apply', 'input': jsonable(c, A, b, K, n=n), 'property_failure': why}
    why = probe_adjacent_soc()
    if why:
        return {'suite': 'adjacent_soc_solve', 'property_failure': why}
    # the status tables and the primal/dual decision of the MOSEK interface (scripted task; shared with C09)
    from harness.props import c09
    fails, _ = c09.mosek_stream(ctx)
    if fails:
        return {'suite': 'mosek_scripted_task', 'mosek_case': fails[0].split(':')[0], 'property_failure': fails[0]}
    return None


def replay(payload):
    inp = payload.get('input') or {}
    s, x = inp.get('suite'), inp.get('input')
    if not s:
        print('replay names a broken theorem/correspondence, no concrete input: ' + str(payload.get('detail'))[:500])
        return 1
    if s == 'adjacent_soc_solve':
        why = probe_adjacent_soc()
    else:
        F = lambda l: [Fraction(v) for v in l]
        c, A, b, K = F(x['c']), [F(r) for r in x['A']], F(x['b']), [tuple(k) for k in x['K']]
        pts = [F(p) for p in x.get('pts', [])]
        if s == 'ecos_apply':
            why = oracle_ecos(c, A, b, K, pts)
        elif s == 'separate':
            why = oracle_separate(x['n'], A, b, K, x['dont_sep'], pts)
        elif s == 'mosek_primal_apply':
            why = oracle_mosek_primal(x['n'], c, A, b, K, pts)
        else:
            why = oracle_mosek_dual(x['n'], c, A, b, K)
    print('replay %s: %s' % (s, why or 'property holds'))
    return 1 if why else 0
