"""C19 — presolve and compile options never change what is being certified.
Theorems: forcing equality only restricts; compact and epigraph dual rows have the same projection; soundness /
completeness hold for every cover (so options can only lower a bound); Farkas- and singleton-cover presolve are exact;
override beats default.  The full claim "all option combinations give the same optimal value for X = R^n" needs the
published w.l.o.g. results on covers (assumed, named) and is probed here by enumeration on the implementation.
Oracle: per instance solve under every combination of the options (global setters and per-constraint overrides), with
automatic and full covers, and compare values; for conditional SAGE the heuristic options may only lower the bound."""
import itertools
import math
import warnings
from fractions import Fraction

import numpy as np

from harness import vlib
from harness.props import sagecorr, c03

USES_TRANSLATOR = True
RULE = ('case = signomial (3-6 terms, n<=2, half-integer or nonnegative-integer exponents incl. a constant term) solved in primal and dual '
        'form under all 2^3 primal and 2^2 dual option combinations, automatic vs full covers (ordinary SAGE) and, for conditional SAGE, '
        'exact vs heuristic options; non-trivial = instance where the automatic covers differ from full covers or presolve removes a cone; '
        'distinct by instance hash')
TRUSTED = ['ORACLE: ECOS (all values compared are solver outputs; tolerance 1e-5 relative)',
           'ASSUME-MCW-presolve: that the automatic covers (sign-based exclusion of N_I, _simplify_age_cone) lose nothing for X = R^n is a '
           'published theorem (Murray, Chandrasekaran, Wierman) whose proof needs strong duality; it is assumed and only probed by enumeration',
           'translator for SETTINGS and the setter functions']
ASSUMPTIONS = ['the equal-value claim is decided by proof only in the directions stated in the theorems; the rest is observed',
               'known finding F7: sum_age_force_equality=True is not without loss of generality when a positive term lies in no cover']


def gen_f(rng, n, separable=False):
    """positive terms at 'vertices' (incl. the constant), negative terms at midpoints of pairs of vertices: bounded below"""
    if separable == 'multineg':
        # several negative terms inside the Newton polytope: exp(4 x0) - a exp(3 x0) - b exp(x0) (+ c), padded with zeros
        pad = [Fraction(0)] * (n - 1)
        rows = [([Fraction(4)] + pad, Fraction(rng.choice([1, 2]))), ([Fraction(3)] + pad, Fraction(-rng.choice([1, 2, 3]))),
                ([Fraction(1)] + pad, Fraction(-rng.choice([1, 2])))]
        if rng.random() < 0.5:
            rows.append(([Fraction(0)] + pad, Fraction(rng.choice([1, 3]))))
        return rows
    if n >= 2 and separable == 'rowsum':
        # some exponents are negative while every row sum is nonnegative and the zero row is present: the orthogonality-based
        # cover reduction (valid for nonnegative exponent matrices only) must not fire
        p2 = rng.choice([[1, 7], [1, 4]])
        p1 = [2, -1]
        mid = [Fraction(p1[0] + p2[0], 3), Fraction(p1[1] + p2[1], 3)]
        rows = [([Fraction(0)] * n, Fraction(rng.choice([3, 5]))), ([Fraction(v) for v in p1] + [Fraction(0)] * (n - 2), Fraction(rng.choice([1, 2]))),
                ([Fraction(v) for v in p2] + [Fraction(0)] * (n - 2), Fraction(1)), (mid + [Fraction(0)] * (n - 2), Fraction(-rng.choice([2, 3])))]
        return rows
    if n >= 2 and (separable or rng.random() < 0.2):
        # separable family: c0 + sum_j a_j exp(2 x_j) - sum_j b_j exp(x_j); after the orthogonality-based reduction every
        # negative term keeps a cover of only two exponents
        rows = [([Fraction(0)] * n, Fraction(rng.choice([1, 2, 3])))]
        for j in range(n):
            rows.append(([Fraction(2 if i == j else 0) for i in range(n)], Fraction(rng.choice([1, 2]))))
        for j in range(n):
            if j == 0 or rng.random() < 0.7:
                rows.append(([Fraction(1 if i == j else 0) for i in range(n)], Fraction(-rng.choice([1, 2, 3]))))
        return rows
    nonneg = rng.random() < 0.5
    verts = [[Fraction(0)] * n]
    tries = 0
    while len(verts) < rng.randint(3, 4) and tries < 100:
        tries += 1
        if nonneg:
            a = [Fraction(rng.choice([0, 2, 2, 4])) for _ in range(n)]
        else:
            a = [Fraction(rng.choice([0, 2, -2, 4, -4, 1])) for _ in range(n)]
        if a not in verts:
            verts.append(a)
    if nonneg and n >= 2 and rng.random() < 0.5:
        # some negative exponents while every row sum stays nonnegative (and the zero row is present)
        cand = [a for a in verts if max(a) >= 2]
        if cand:
            a = rng.choice(cand)
            j = a.index(max(a))
            b = list(a)
            b[(j + 1) % n] = -a[j] / 2 if rng.random() < 0.5 else Fraction(-1)
            if b not in verts:
                verts[verts.index(a)] = b
    rows = [(a, Fraction(rng.choice([1, 2, 3]))) for a in verts]
    for _ in range(rng.randint(1, 3)):
        p, q = rng.sample(verts, 2)
        w = rng.choice([Fraction(1, 2), Fraction(1, 2), Fraction(1, 4), Fraction(3, 4)])
        mid = [w * x + (1 - w) * y for x, y in zip(p, q)]
        if mid not in [r for r, _ in rows]:
            rows.append((mid, Fraction(rng.choice([-1, -2, -1, -3, 1]))))
    return rows


def f7_condition(con):
    """structural condition of known finding F7: equality forced while a positive constant entry of c lies in no cover"""
    ech = con.ech
    if not con.settings['sum_age_force_equality'] or con._m < 2:
        return False
    covered = np.zeros(con._m, dtype=bool)
    for i in ech.U_I:
        covered |= np.asarray(ech.covers[i], dtype=bool)
        covered[i] = True
    return any((j in ech.P_I) and not covered[j] for j in range(con._m))


def solve_all(f, X):
    """returns dict combo -> (status, value), and a flag whether F7's condition occurred"""
    import sageopt.coniclifts as cl
    import sageopt.coniclifts.constraints.set_membership.sage_cones as sc
    from sageopt.relaxations import sage_sigs as ss
    saved = dict(sc.SETTINGS)
    out = {}
    f7 = {}
    try:
        for pre, ker, feq in itertools.product((False, True), repeat=3):
            if X is not None and ker:
                continue
            sc.SETTINGS.update(saved)
            cl.presolve_trivial_age_cones(pre)
            cl.kernel_basis_age_witnesses(ker)
            cl.sum_age_force_equality(feq)
            with warnings.catch_warnings():
                warnings.simplefilter('ignore')
                try:
                    p = ss.sig_relaxation(f, X, form='primal')
                    key = ('primal', pre, ker, feq)
                    f7[key] = f7_condition(p.constraints[0])
                    out[key] = p.solve(verbose=False)
                except RuntimeError as e:
                    out[('primal', pre, ker, feq)] = ('construction-error', str(e)[:50])
        for pre, comp in itertools.product((False, True), repeat=2):
            sc.SETTINGS.update(saved)
            cl.presolve_trivial_age_cones(pre)
            cl.compact_sage_duals(comp)
            with warnings.catch_warnings():
                warnings.simplefilter('ignore')
                out[('dual', pre, comp)] = ss.sig_relaxation(f, X, form='dual').solve(verbose=False)
        sc.SETTINGS.update(saved)
        if X is None:
            # full covers through the constraint's own keyword (and a per-constraint settings override)
            with warnings.catch_warnings():
                warnings.simplefilter('ignore')
                gamma = cl.Variable(name='gamma')
                L = f - gamma
                m = L.m
                covers = {i: np.array([j != i for j in range(m)], dtype=bool) for i in range(m)}
                # per-constraint overrides while the module-level defaults hold the OPPOSITE of every flag: the constraint's own
                # settings decide, at construction and at compile time
                for ker in (False, True):
                    st_ = sagecorr.full_settings({'kernel_basis': ker})
                    with sagecorr.adversarial_globals(st_):
                        try:
                            con = cl.PrimalSageCone(L.c, L.alpha, None, 'override', settings=dict(st_))
                            out[('primal', 'override', ker)] = cl.Problem(cl.MAX, gamma, [con]).solve(verbose=False)
                        except RuntimeError as e:
                            out[('primal', 'override', ker)] = ('construction-error', str(e)[:50])
                # a covers dict given by the user is the user's: constructing a constraint from it leaves it as it was, so that the same
                # dict can be given to another constraint on the same exponents
                shared = {i: cv.copy() for i, cv in covers.items()}
                cl.PrimalSageCone(L.c, L.alpha, None, 'shared1', covers=shared, settings={'sum_age_force_equality': False})
                if any(not np.array_equal(shared[i], covers[i]) for i in covers):
                    out[('primal', 'shared-covers-dict', 'modified')] = ('covers-modified', [int(i) for i in covers if not np.array_equal(shared[i], covers[i])])
                # covers written as np.ones(m): the entry of an index in its own cover is meaningless and is corrected, not used
                diag = {i: np.ones(m, dtype=bool) for i in range(m)}
                try:
                    con = cl.PrimalSageCone(L.c, L.alpha, None, 'diag', covers=diag, settings={'sum_age_force_equality': False})
                    out[('primal', 'fullcovers-with-diagonal', False)] = cl.Problem(cl.MAX, gamma, [con]).solve(verbose=False)
                except RuntimeError as e:
                    out[('primal', 'fullcovers-with-diagonal', False)] = ('construction-error', str(e)[:50])
                for feq in (False, True):
                    # with full covers every term lies in a cover, so forcing equality is without loss of generality
                    con = cl.PrimalSageCone(L.c, L.alpha, None, 'full', covers={i: cv.copy() for i, cv in covers.items()},
                                            settings={'sum_age_force_equality': feq})
                    out[('primal', 'fullcovers', feq)] = cl.Problem(cl.MAX, gamma, [con]).solve(verbose=False)
    finally:
        sc.SETTINGS.clear()
        sc.SETTINGS.update(saved)
    return out, f7


def compare(out, f7, X, ub):
    """returns (violation or None, known-finding hit or None)"""
    known = None
    for k, v in out.items():
        if v[0] == 'covers-modified':
            return ('constructing a PrimalSageCone from a user covers dict (full covers) changed the dict in place at indices %s: a second '
                    'constraint given the same dict gets other covers' % (v[1],)), None
    # a constructor that refuses the constraint as infeasible says the same as a solve that returns -inf
    out = {k: (('solved', -math.inf) if (v[0] == 'construction-error' and k[0] == 'primal') else v) for k, v in out.items()}
    ok = {k: v for k, v in out.items() if v[0] == 'solved' and isinstance(v[1], float) and not math.isnan(v[1])}
    if len(ok) < 2:
        return None, None
    exact_keys = list(ok)
    if X is not None:
        # conditional SAGE: presolve_trivial_age_cones is a heuristic (may only lower the bound); the others are exact
        base = [k for k in ok if (k[0] == 'primal' and not k[1]) or (k[0] == 'dual' and not k[1])]
        heur = [k for k in ok if k not in base]
    else:
        base, heur = exact_keys, []
    ref = None
    for k in base:
        if f7.get(k):
            continue
        v = ok[k][1]
        if not math.isfinite(v):
            continue
        if ref is None:
            ref = (k, v)
        elif abs(v - ref[1]) > 1e-5 * (1 + abs(ref[1])):
            return 'optimal value differs between option combinations %s -> %r and %s -> %r' % (ref[0], ref[1], k, v), None
    for k in base:
        if f7.get(k) and ref is not None:
            v = ok[k][1]
            if not (math.isfinite(v) and abs(v - ref[1]) <= 1e-5 * (1 + abs(ref[1]))):
                known = 'F7'
        elif ref is not None and not math.isfinite(ok[k][1]) and k[0] == 'primal' and ok[k][1] == -math.inf:
            return 'option combination %s turns a feasible certificate problem infeasible (value -inf, others %r)' % (k, ref[1]), None
    for k in heur:
        v = ok[k][1]
        if ref is not None and math.isfinite(v) and v > ref[1] + 1e-5 * (1 + abs(ref[1])):
            return 'heuristic option combination %s raised the bound: %r > %r' % (k, v, ref[1]), None
    for k in ok:
        v = ok[k][1]
        if math.isfinite(ub) and math.isfinite(v) and v > ub + 1e-4 * (1 + abs(ub)):
            return 'option combination %s gives %r, above f at a sampled point (%r)' % (k, v, ub), None
    for k, v in out.items():
        # a solve reported 'inaccurate' still claims an approximate optimum: far above f at a point of X it is wrong
        if v[0] == 'inaccurate' and isinstance(v[1], float) and math.isfinite(v[1]) and math.isfinite(ub) and v[1] > ub + 1e-2 * (1 + abs(ub)):
            return 'option combination %s gives %r (status inaccurate), far above f at a sampled point (%r)' % (k, v[1], ub), None
    return None, known


def one(rng, separable=False):
    n = 1 if separable == 'multineg' else (2 if separable else rng.randint(1, 2))
    rows = gen_f(rng, n, separable)
    f = c03.sig_obj(rows, n)
    kind = rng.choice(['none', 'none', 'none', 'box', 'ball', 'negorthant', 'posorthant'])
    X, _ = sagecorr.make_domain(rng, n, kind)
    out, f7 = solve_all(f, X)
    ub = math.inf
    for _ in range(100):
        x, w = sagecorr.sample_domain_point(rng, n, kind, X)
        if x is None:
            break
        ub = min(ub, float(f(np.array(x))))
    why, known = compare(out, f7, X, ub)
    js = {'f': [[[str(x) for x in a], str(c)] for a, c in rows], 'domain': kind,
          'values': {str(k): (v[0], (repr(v[1]))) for k, v in out.items()}}
    return why, known, js, out


def run(ctx):
    kf = {f['id']: f for f in vlib.load_known_findings().get('findings', [])}
    hit = False
    for it in range(ctx.n(30, 240)):
        why, known, js, out = one(ctx.rng, separable=(True if it < 4 else ('rowsum' if it < 6 else ('multineg' if it < 9 else False))))
        ctx.evaluations += len(out)
        ctx.count('domain', js['domain'])
        vals = sorted(set(round(v[1], 4) for v in out.values() if v[0] == 'solved' and isinstance(v[1], float) and math.isfinite(v[1])))
        ctx.count('distinct_finite_values', len(vals))
        ctx.nontrivial.add(vlib.sha(js['f']))
        if len(ctx.samples) < 2:
            ctx.samples.append(js)
        if known == 'F7':
            if 'F7' in kf:
                hit = True
            else:
                ctx.problem('oracle', 'sum_age_force_equality changes the value (F7 pattern) but F7 is not a listed known finding', inputs=js, failing_input_found=True)
        if why:
            ctx.problem('oracle', 'property fails on the implementation: ' + why, inputs=js, failing_input_found=True)
            break
    ctx.suites['option_lattice'] = {'instances': ctx.n(30, 240)}
    for _ in range(ctx.n(3, 12)):
        why = constrained_lattice(ctx.rng)
        ctx.evaluations += 6
        ctx.count('stream', 'constrained_lattice')
        if why:
            ctx.problem('oracle', 'property fails on the implementation: ' + why, inputs={'suite': 'constrained_lattice'}, failing_input_found=True)
            break
    why = probe_override_conditional()
    ctx.suites['override_conditional_dual'] = {'cases': 8, 'failure': why}
    ctx.evaluations += 8
    if why:
        ctx.problem('oracle', 'property fails on the implementation: ' + why, inputs={'suite': 'override_conditional_dual'}, failing_input_found=True)
    why = probe_cone_domains_and_affine_duals()
    ctx.suites['cone_domains_and_affine_duals'] = {'cases': 22, 'failure': why}
    ctx.evaluations += 22
    if why:
        ctx.problem('oracle', 'property fails on the implementation: ' + why, inputs={'suite': 'cone_domains_and_affine_duals'}, failing_input_found=True)
    why = probe_kernel_scale()
    ctx.suites['kernel_basis_small_scale'] = {'cases': 3, 'failure': why}
    ctx.evaluations += 3
    if why:
        ctx.problem('oracle', 'property fails on the implementation: ' + why, inputs={'suite': 'kernel_basis_small_scale'}, failing_input_found=True)
    why = probe_histories()
    ctx.suites['histories'] = {'cases': 18, 'failure': why}
    ctx.evaluations += 18
    if why:
        ctx.problem('oracle', 'property fails on the implementation: ' + why, inputs={'suite': 'histories'}, failing_input_found=True)
    # the listed witness of F7
    if 'F7' in kf:
        if probe_f7():
            ctx.known_hits.append(kf['F7']['line'])
        elif hit:
            ctx.known_hits.append(kf['F7']['line'])


def probe_f7():
    import sageopt.coniclifts as cl
    import sageopt as so
    import sageopt.coniclifts.constraints.set_membership.sage_cones as sc
    from sageopt.relaxations import sage_sigs as ss
    saved = dict(sc.SETTINGS)
    try:
        with warnings.catch_warnings():
            warnings.simplefilter('ignore')
            y = so.standard_sig_monomials(2)
            f = 1 + y[0] ** 2 + y[1] ** 2 - y[0]
            v0 = ss.sage_feasibility(f).solve(verbose=False)
            cl.sum_age_force_equality(True)
            v1 = ss.sage_feasibility(f).solve(verbose=False)
    finally:
        sc.SETTINGS.clear()
        sc.SETTINGS.update(saved)
    return v0[0] == 'solved' and v0[1] > -1 and v1[0] == 'solved' and v1[1] == -math.inf


def constrained_lattice(rng):
    """the options also reach the dual cones of the Lagrange multipliers of constrained relaxations: same value for every combination"""
    import sageopt.coniclifts as cl
    import sageopt as so
    import sageopt.coniclifts.constraints.set_membership.sage_cones as sc
    from sageopt.relaxations import sage_sigs as ss
    y = so.standard_sig_monomials(2)
    fam = rng.randrange(3)
    if fam == 0:
        f, gts = y[0] + y[0] ** 2 + float(rng.choice([0, 1])), [1 - y[0] ** 2]
    elif fam == 1:
        f, gts = y[0] + y[1] ** 2 + y[0] ** -1, [2 - y[0] - y[1], y[1] - 0.5]
    else:
        f, gts = y[0] ** 2 + y[1] - float(rng.choice([1, 2])) * y[0], [4 - y[0] ** 2 - y[1] ** 2]
    saved = dict(sc.SETTINGS)
    out = {}
    out1 = {}
    try:
        with warnings.catch_warnings():
            warnings.simplefilter('ignore')
            for form in ('primal', 'dual'):
                for pre, comp, feq in itertools.product((False, True), repeat=3):
                    if (form == 'dual' and feq) or (form == 'primal' and comp):
                        continue
                    sc.SETTINGS.update(saved)
                    cl.presolve_trivial_age_cones(pre)
                    cl.compact_sage_duals(comp)
                    cl.sum_age_force_equality(feq)
                    try:
                        out[(form, pre, comp, feq)] = ss.sig_constrained_relaxation(f, gts, [], form=form, p=0, q=1, ell=0).solve(verbose=False)
                    except RuntimeError as e:
                        out[(form, pre, comp, feq)] = ('construction-error', str(e)[:50])
                    if fam == 0 and not feq:
                        # p = 1: the multiplier cones of the dual constrain AFFINE IMAGES of the dual variable (several scalar variables per component)
                        try:
                            out1[(form, pre, comp, feq)] = ss.sig_constrained_relaxation(f, gts, [], form=form, p=1, q=1, ell=0).solve(verbose=False)
                        except RuntimeError as e:
                            out1[(form, pre, comp, feq)] = ('construction-error', str(e)[:50])
    finally:
        sc.SETTINGS.clear()
        sc.SETTINGS.update(saved)
    ref1 = None
    for k, v in out1.items():
        if v[0] == 'construction-error':
            v = ('solved', -math.inf if k[0] == 'primal' else math.inf)
        if v[0] != 'solved' or not isinstance(v[1], float) or math.isnan(v[1]):
            continue
        if ref1 is None:
            ref1 = (k, v[1])
        elif (math.isfinite(v[1]) != math.isfinite(ref1[1])) or (math.isfinite(v[1]) and abs(v[1] - ref1[1]) > 1e-4 * (1 + abs(ref1[1]))):
            return ('constrained relaxation with p = 1 (family %d): value %r with options (form, presolve, compact_dual, force_equality)=%s but %r with %s'
                    % (fam, ref1[1], ref1[0], v[1], k))
    ref = None
    for k, v in out.items():
        if v[0] == 'construction-error':
            v = ('solved', -math.inf if k[0] == 'primal' else math.inf)
        if v[0] != 'solved' or not isinstance(v[1], float) or math.isnan(v[1]):
            continue
        if k[3]:
            continue            # forced equality: known finding F7 may apply; compared by the unconstrained lattice only
        if ref is None:
            ref = (k, v[1])
        elif (math.isfinite(v[1]) != math.isfinite(ref[1])) or (math.isfinite(v[1]) and abs(v[1] - ref[1]) > 1e-4 * (1 + abs(ref[1]))):
            return ('constrained relaxation (family %d): value %r with options (form, presolve, compact_dual, force_equality)=%s but %r with %s'
                    % (fam, ref[1], ref[0], v[1], k))
    return None


def probe_cone_domains_and_affine_duals():
    """(a) domains that are CONES ({x <= 0}, {x >= 0}) with a term that is a vertex of the Newton polytope in an unbounded direction: the bound and
    the feasibility verdict do not depend on presolve_trivial_age_cones, in either form;  (b) a constrained relaxation with p = 1, whose multiplier
    cones constrain affine images of the dual variable: primal, dual with compact cones and dual with epigraph cones agree"""
    import sageopt.coniclifts as cl
    import sageopt.coniclifts.constraints.set_membership.sage_cones as sc
    import sageopt as so
    from sageopt.symbolic.signomials import SigDomain
    from sageopt.relaxations import sage_sigs as ss
    saved = dict(sc.SETTINGS)
    try:
        with warnings.catch_warnings():
            warnings.simplefilter('ignore')
            def dom(sign, tag):
                xd = cl.Variable(shape=(2,), name='cone_dom_' + tag)
                return SigDomain(2, coniclifts_cons=[xd <= 0] if sign < 0 else [xd >= 0])
            f1 = c03.sig_obj([([Fraction(-1), Fraction(0)], Fraction(1)), ([Fraction(0), Fraction(-1)], Fraction(1)), ([Fraction(1), Fraction(1)], Fraction(-1))], 2)
            f2 = c03.sig_obj([([Fraction(1), Fraction(0)], Fraction(1)), ([Fraction(0), Fraction(1)], Fraction(1)), ([Fraction(1), Fraction(1)], Fraction(2)),
                              ([Fraction(1, 2), Fraction(1, 2)], Fraction(-1))], 2)
            for name, f, sign, tmin in (('exp(-x1) + exp(-x2) - exp(x1+x2) on {x <= 0}', f1, -1, 1.0), ('exp(x1) + exp(x2) + 2exp(x1+x2) - exp((x1+x2)/2) on {x >= 0}', f2, 1, 3.0)):
                vals = {}
                for form in ('primal', 'dual'):
                    for pre in (False, True):
                        for comp in ((True,) if form == 'primal' else (True, False)):
                            sc.SETTINGS.update(saved)
                            cl.presolve_trivial_age_cones(pre)
                            cl.compact_sage_duals(comp)
                            try:
                                st, v = ss.sig_relaxation(f, dom(sign, '%s%d%d' % (form, pre, comp)), form=form).solve(verbose=False)
                            except RuntimeError:
                                st, v = 'solved', -math.inf
                            if st == 'solved':
                                vals[(form, pre, comp)] = v
                for k, v in vals.items():
                    if v > tmin + 1e-4 or abs(v - tmin) > 1e-3:
                        return ('%s (minimum %g): (form, presolve_trivial_age_cones, compact_dual) = %s reports %r; other combinations: %s'
                                % (name, tmin, k, v, {str(kk): vv for kk, vv in vals.items()}))
                sc.SETTINGS.update(saved)
                feas = {}
                for pre in (False, True):
                    cl.presolve_trivial_age_cones(pre)
                    try:
                        st, v = ss.sage_feasibility(f - 0.5, dom(sign, 'feas%d' % pre)).solve(verbose=False)
                        feas[pre] = (st == 'solved' and v > -math.inf)
                    except RuntimeError:
                        feas[pre] = False
                if feas[False] != feas[True] or not feas[True]:
                    return '%s minus 0.5 is X-SAGE: %s without the presolve, %s with presolve_trivial_age_cones (it is: the minimum is %g)' % (name, feas[False], feas[True], tmin)
            sc.SETTINGS.update(saved)
            y = so.standard_sig_monomials(1)[0]
            fo = y ** 3 - 4 * y ** 2 + 7 * y + y ** -1
            go = 2 - y - 0.5 * y ** -1
            for p_ in (0, 1):
                got = {}
                for form, comp in (('primal', True), ('dual', True), ('dual', False)):
                    sc.SETTINGS.update(saved)
                    cl.compact_sage_duals(comp)
                    got[(form, comp)] = ss.sig_constrained_relaxation(fo, [go], [], form=form, p=p_).solve(verbose=False)
                vs = [v[1] for v in got.values() if v[0] == 'solved']
                if len(vs) == 3 and (not all(math.isfinite(v) for v in vs) or max(vs) - min(vs) > 1e-4 * (1 + abs(vs[0]))):
                    return ('min x^3 - 4x^2 + 7x + 1/x s.t. 2 - x - 0.5/x >= 0 at p = %d: (form, compact_dual) -> value is %s; the three must agree'
                            % (p_, {str(k): v for k, v in got.items()}))
            # (c) the dual variable written in a shifted parametrisation v = v0 + w (an affine Expression with constant offsets handed to
            # DualSageCone): min c.v over the dual cone with v_0 = 1 is the dual bound, whatever compact_dual / presolve are and however they are given
            alpha_s = np.array([[0, 0], [1, 0], [0, 1], [1, 1], [0.5, 0], [0, 0.5]], dtype=float)
            c_s = np.array([0, 3, 2, 1, -4, -2], dtype=float)
            f_s = so.Signomial(alpha_s, c_s)
            sc.SETTINGS.update(saved)
            ref = ss.sig_relaxation(f_s, form='dual').solve(verbose=False)
            v0 = np.array([1.0, 0.5, 0.25, 2.0, 0.75, 1.5])
            for comp, pre, how in itertools.product((True, False), (True, False), ('global', 'override')):
                sc.SETTINGS.update(saved)
                w = cl.Variable(shape=(6,), name='shift_w_%d%d%s' % (comp, pre, how))
                v = w + v0
                gam = cl.Variable(name='shift_g_%d%d%s' % (comp, pre, how))
                c_expr = cl.Expression(list(c_s))
                c_expr[0] = c_expr[0] - gam
                st_ = {'compact_dual': comp, 'presolve_trivial_age_cones': pre}
                if how == 'global':
                    sc.SETTINGS.update(st_)
                    con = cl.DualSageCone(v, alpha_s, None, 'shift_dual', c=c_expr)
                else:
                    con = cl.DualSageCone(v, alpha_s, None, 'shift_dual', c=c_expr, settings=st_)
                stt, val = cl.Problem(cl.MIN, c_s @ w, [con, v[0] == 1]).solve(verbose=False)
                val = val + float(c_s @ v0)
                if ref[0] == 'solved' and not (stt == 'solved' and abs(val - ref[1]) <= 1e-4 * (1 + abs(ref[1]))):
                    return ('min c.v over the dual SAGE cone with v = v0 + w (affine with constant offsets), v_0 = 1: (compact_dual, presolve, given %s) = (%s, %s) '
                            'reports (%s, %r); the dual bound is %r' % (how, comp, pre, stt, val, ref[1]))
            # (d) a term with a VARIABLE coefficient that ends up in no AGE cover (s exp(2 x2), s >= 1): max t s.t. 5 + exp(2 x1) - t exp(x1) + s exp(2 x2) is SAGE
            # is sqrt(20) under every combination of presolve / forced equality, given globally or per constraint
            alpha_d = np.array([[0.0, 0.0], [2.0, 0.0], [1.0, 0.0], [0.0, 2.0]])
            for pre, feq, how in itertools.product((False, True), (False, True), ('global', 'override')):
                sc.SETTINGS.update(saved)
                td = cl.Variable(shape=(1,), name='unc_t_%d%d%s' % (pre, feq, how))
                sd = cl.Variable(shape=(1,), name='unc_s_%d%d%s' % (pre, feq, how))
                cd_ = cl.Expression([5.0, 1.0, -td[0], sd[0]])
                st_ = {'presolve_trivial_age_cones': pre, 'sum_age_force_equality': feq}
                try:
                    if how == 'global':
                        sc.SETTINGS.update(st_)
                        con = cl.PrimalSageCone(cd_, alpha_d, None, 'unc')
                    else:
                        con = cl.PrimalSageCone(cd_, alpha_d, None, 'unc', settings=st_)
                    stt, val = cl.Problem(cl.MAX, td[0], [con, sd >= 1, sd <= 3]).solve(verbose=False)
                except RuntimeError:
                    stt, val = 'solved', -math.inf
                if not (stt == 'solved' and abs(val - math.sqrt(20.0)) <= 1e-4):
                    return ('max t s.t. 5 + exp(2 x1) - t exp(x1) + s exp(2 x2) SAGE, 1 <= s <= 3 (the term of s lies in no AGE cover): (presolve, force_equality, given %s) = (%s, %s) '
                            'reports (%s, %r); the value is sqrt(20) = %r' % (how, pre, feq, stt, val, math.sqrt(20.0)))
    finally:
        sc.SETTINGS.clear()
        sc.SETTINGS.update(saved)
    return None


def probe_override_conditional():
    """a per-constraint override of a cover-presolve option has the effect of the same option set globally, also for the cones of a
    conditional (X given) relaxation in dual form"""
    import sageopt.coniclifts as cl
    import sageopt.coniclifts.constraints.set_membership.sage_cones as sc
    from sageopt.symbolic.signomials import SigDomain
    saved = dict(sc.SETTINGS)
    alpha = np.array([[0.0, 0.0], [0.0, 1.0], [1.0, 0.0]])
    cvec = np.array([0.0, 1.0, -0.5])
    out = {}
    try:
        with warnings.catch_warnings():
            warnings.simplefilter('ignore')
            for key in ('heuristic_reduction', 'presolve_trivial_age_cones'):
                for val in (False, True):
                    for how in ('global', 'override'):
                        sc.SETTINGS.clear()
                        sc.SETTINGS.update(saved)
                        X = SigDomain(2, AbK=(np.array([[-1.0, 1.0]]), np.array([0.0]), [cl.Cone('+', 1)]), gts=[], eqs=[], check_feas=False)
                        v = cl.Variable(shape=(3,), name='ovd_v')
                        if how == 'global':
                            sc.SETTINGS[key] = val
                            con = cl.DualSageCone(v, alpha, X, 'ovd', c=cl.Expression(cvec))
                        else:
                            sc.SETTINGS[key] = not val
                            con = cl.DualSageCone(v, alpha, X, 'ovd', c=cl.Expression(cvec), settings={key: val})
                        out[(key, val, how)] = cl.Problem(cl.MIN, float(cvec[1]) * v[1] + float(cvec[2]) * v[2], [con, v[0] == 1]).solve(verbose=False)
    finally:
        sc.SETTINGS.clear()
        sc.SETTINGS.update(saved)
    for key in ('heuristic_reduction', 'presolve_trivial_age_cones'):
        for val in (False, True):
            a, b = out[(key, val, 'global')], out[(key, val, 'override')]
            if a[0] != b[0] or (math.isfinite(a[1]) != math.isfinite(b[1])) or (math.isfinite(a[1]) and abs(a[1] - b[1]) > 1e-5 * (1 + abs(a[1]))):
                return ('dual SAGE bound of exp(x1) - 0.5 exp(x0) on {x0 <= x1}: %r with %s=%s set globally, %r with the same value given as a '
                        'per-constraint override' % (a, key, val, b))
    return None


def probe_kernel_scale():
    """kernel_basis=True must not change the bound, whatever the scale of the exponents (fixed in /repo ebf4ea5; kept as a directed case):
    f_s(x) = 1 - 2.5 exp(s x) + exp(2 s x) has minimum -0.5625 for every s > 0"""
    import sageopt.coniclifts as cl
    import sageopt as so
    import sageopt.coniclifts.constraints.set_membership.sage_cones as sc
    from sageopt.relaxations import sage_sigs as ss
    saved = dict(sc.SETTINGS)
    try:
        with warnings.catch_warnings():
            warnings.simplefilter('ignore')
            for s_ in (1.0, 2.0 ** -11, 5e-7):
                f = so.Signomial(np.array([[0.0], [s_], [2 * s_]]), np.array([1.0, -2.5, 1.0]))
                for kb in (False, True):
                    cl.kernel_basis_age_witnesses(kb)
                    st, val = ss.sig_relaxation(f, form='primal').solve(verbose=False)
                    if st == 'solved' and val > -0.5625 + 1e-4:
                        return ('primal SAGE bound of 1 - 2.5 exp(%g x) + exp(%g x) with kernel_basis=%s is %r, above the minimum -0.5625'
                                % (s_, 2 * s_, kb, val))
            # exponents of very different scales: a small but nonzero direction is not a kernel direction
            for alpha, cc in (([[0, 0], [2000, 0], [1000, 0.0005]], [1, 1, -2]), ([[0, 0], [4, 0], [2, 0.001], [0, 3]], [1, 1, -2, 1]),
                              ([[0, 0], [2000, 0], [1000, 0.5]], [1, 1, -2]), ([[0, 0], [2, 0], [1, 0.000001]], [3, 1, -2])):
                f = so.Signomial(np.array(alpha, dtype=float), np.array(cc, dtype=float))
                vals = {}
                for kb in (False, True):
                    cl.kernel_basis_age_witnesses(kb)
                    try:
                        st, val = ss.sig_relaxation(f, form='primal').solve(verbose=False)
                    except RuntimeError:
                        st, val = 'solved', -math.inf       # refused as infeasible at construction
                    vals[kb] = (st, val)
                a, b = vals[False], vals[True]
                if a[0] == b[0] == 'solved' and (math.isfinite(a[1]) != math.isfinite(b[1]) or
                                                 (math.isfinite(a[1]) and abs(a[1] - b[1]) > 1e-4 * (1 + abs(a[1])))):
                    return ('primal SAGE bound of the signomial with exponents %s, coefficients %s is %r with kernel_basis=False and %r with '
                            'kernel_basis=True' % (alpha, cc, a[1], b[1]))
    finally:
        sc.SETTINGS.clear()
        sc.SETTINGS.update(saved)
    return None


def probe_histories():
    """what was compiled earlier in the session, and global options changed between declaring a constraint and compiling it, do not
    change the bound"""
    import sageopt.coniclifts as cl
    import sageopt as so
    import sageopt.coniclifts.constraints.set_membership.sage_cones as sc
    from sageopt.relaxations import sage_sigs as ss
    saved = dict(sc.SETTINGS)
    try:
        with warnings.catch_warnings():
            warnings.simplefilter('ignore')
            # (1) the same exponents with another sign pattern, relaxed earlier with the presolve on
            for alpha, c_bad, c_good in (([[0.0], [1.0], [2.0], [3.0], [4.0]], [2.0, 1.0, 1.5, -2.0, -1.0], [2.0, 1.0, 1.5, -2.0, 1.0]),
                                         ([[0.0, 0.0], [2.0, 0.0], [0.0, 2.0], [1.0, 1.0]], [1.0, -1.0, 1.0, -1.0], [1.0, 1.0, 1.0, -1.0])):
                a = np.array(alpha)
                f_bad, f_good = so.Signomial(a, np.array(c_bad)), so.Signomial(a, np.array(c_good))
                sc.SETTINGS.update(saved)
                cl.presolve_trivial_age_cones(False)
                ref = ss.sig_relaxation(f_good, form='dual').solve(verbose=False)
                cl.presolve_trivial_age_cones(True)
                for form in ('dual', 'primal'):
                    try:
                        ss.sig_relaxation(f_bad, form=form).solve(verbose=False)
                    except RuntimeError:
                        pass
                for pre in (True, False):
                    cl.presolve_trivial_age_cones(pre)
                    for form in ('primal', 'dual'):
                        try:
                            got = ss.sig_relaxation(f_good, form=form).solve(verbose=False)
                        except RuntimeError:
                            got = ('solved', -math.inf)
                        if got[0] != ref[0] or not (got[1] == ref[1] or abs(got[1] - ref[1]) <= 1e-5 * (1 + abs(ref[1]))):
                            return ('after relaxing a signomial with the same exponents %s and coefficients %s (presolve on), the %s bound of the '
                                    'signomial with coefficients %s and presolve_trivial_age_cones=%s is %r; without that history it is %r'
                                    % (alpha, c_bad, form, c_good, pre, got, ref))
            # (3) a term with a PRIVATE variable (one that no term of its cover uses), compact versus epigraph encoding of the dual cones
            y = so.standard_sig_monomials(2)
            for label, build in (('-2 + e^x0 + e^-x0 - 0.5 e^x1 (unbounded below)', lambda: ss.sig_relaxation(-2 + y[0] + y[0] ** -1 - 0.5 * y[1], form='dual')),
                                 ('min e^x0 + e^-x0 s.t. 2 - e^x1 >= 0 (p = 1)', lambda: ss.sig_constrained_relaxation(y[0] + y[0] ** -1, [2 - y[1]], [], form='dual', p=1)),
                                 ('min e^x0 + e^-x0 + e^-x1 s.t. 2 - e^x1 >= 0', lambda: ss.sig_constrained_relaxation(y[0] + y[0] ** -1 + y[1] ** -1, [2 - y[1]], [], form='dual'))):
                got = {}
                for comp in (True, False):
                    sc.SETTINGS.update(saved)
                    cl.compact_sage_duals(comp)
                    got[comp] = build().solve(verbose=False)
                a, b = got[True], got[False]
                if a[0] != b[0] or not (a[1] == b[1] or (math.isfinite(a[1]) and math.isfinite(b[1]) and abs(a[1] - b[1]) <= 1e-4 * (1 + abs(a[1])))):
                    return 'dual bound of %s is %r with compact_dual=True and %r with compact_dual=False' % (label, a, b)
            # (4) kernel_basis=True when the exponents lie in a proper affine subspace (an unused variable; all exponents on one line)
            for alpha, cc in (([[0, 0], [2, 0], [4, 0], [1, 0]], [3, 1, 1, -3]), ([[0, 0], [1, 1], [2, 2], [3, 3]], [3, -3, 1, 1]),
                              ([[0, 0, 0], [2, 0, 0], [0, 2, 0], [1, 1, 0], [1, 0, 0]], [1, 1, 1, -1.5, -0.5])):
                fk = so.Signomial(np.array(alpha, dtype=float), np.array(cc, dtype=float))
                got = {}
                for kb in (False, True):
                    sc.SETTINGS.update(saved)
                    cl.kernel_basis_age_witnesses(kb)
                    try:
                        got[kb] = ss.sig_relaxation(fk, form='primal').solve(verbose=False)
                    except RuntimeError:
                        got[kb] = ('solved', -math.inf)
                a, b = got[False], got[True]
                if a[0] == b[0] == 'solved' and not (a[1] == b[1] or (math.isfinite(a[1]) and math.isfinite(b[1]) and abs(a[1] - b[1]) <= 1e-4 * (1 + abs(a[1])))):
                    return ('primal bound of the signomial with exponents %s (a proper affine subspace), coefficients %s is %r with kernel_basis=False and '
                            '%r with kernel_basis=True' % (alpha, cc, a[1], b[1]))
            # (2) global options changed after a constraint was declared and before the Problem is compiled
            alpha5 = np.array([[0.0, 0.0], [2.0, 0.0], [0.0, 2.0], [1.0, 1.0], [1.0, 0.0]])

            def declare(tag):
                g = cl.Variable(shape=(1,), name='late_g_' + tag)
                return g, cl.PrimalSageCone(cl.Expression([1.0 - g[0], 1.0, 1.0, -1.5, -0.5]), alpha5, None, 'late_' + tag)
            sc.SETTINGS.update(saved)
            g0, con0 = declare('ref')
            ref = cl.Problem(cl.MAX, g0[0], [con0]).solve(verbose=False)
            for fn in (cl.kernel_basis_age_witnesses, cl.sum_age_force_equality, cl.presolve_trivial_age_cones, cl.compact_sage_duals,
                       cl.heuristic_reduce_cond_age_cones):
                for val in (True, False):
                    sc.SETTINGS.update(saved)
                    g1, con1 = declare('%s_%s' % (fn.__name__, val))
                    fn(val)
                    _g2, _con2 = declare('other')          # the option was meant for a constraint declared next
                    got = cl.Problem(cl.MAX, g1[0], [con1]).solve(verbose=False)
                    if got[0] != ref[0] or abs(got[1] - ref[1]) > 1e-5 * (1 + abs(ref[1])):
                        return ('a primal SAGE constraint declared under the default options and compiled after %s(%s) gives %r; compiled right '
                                'away it gives %r' % (fn.__name__, val, got, ref))
    finally:
        sc.SETTINGS.clear()
        sc.SETTINGS.update(saved)
    return None


def search(ctx):
    why = probe_histories()
    if why:
        return {'suite': 'histories', 'property_failure': why}
    why = probe_kernel_scale()
    if why:
        return {'suite': 'kernel_basis_small_scale', 'property_failure': why}
    for it in range(25):
        why, known, js, out = one(ctx.rng, separable=(True if it < 4 else ('rowsum' if it < 6 else ('multineg' if it < 9 else False))))
        if why:
            return {'instance': js, 'property_failure': why}
    return None


def replay(payload):
    ctx = vlib.Ctx('C19', 'quick', int(payload.get('seed', 0)))
    found = search(ctx)
    print(found or 'property holds on the regenerated instances')
    return 1 if found else 0
