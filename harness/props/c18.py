"""C18 — GF(2) linear algebra and sign-pattern recovery are exact.
Tie: correspondence of Model/Gf2.v with sageopt/relaxations/poly_solution_recovery.py
(exhaustive small shapes + random larger ones).  Oracle: brute force on the implementation."""
import itertools

import numpy as np

from harness import vlib
from harness.vlib import Nat, cq, Raw

RULE = ('cases = (matrix[, rhs][, flags]) inputs; exhaustive over all 0/1 matrices with m,n<=3 (quick) / m,n<=4 for rref '
        '(thorough) plus random shapes up to 12x12; non-trivial = rank-deficient or non-square matrix; '
        'distinct by canonical input hash')
USES_TRANSLATOR = True
TRUSTED = ['translator harness/translator/gf2_tr.py (Gen/GenGf2.v: control skeleton of mod2rref / mod2linsolve / mod2nullspace_basis translated structurally, numpy array idioms through the table Model/NpIdioms.v); proved equivalent to Model/Gf2.v for all inputs',
           'correspondence harness harness/props/c18.py (generators, canonicalisation to bit lists)',
           'CPython/NumPy as execution substrate of poly_solution_recovery.py',
           'greedy_weighted_cut_negatives (heuristic, real-valued) is not modelled: on the inconsistent+heuristic path only '
           '"exactly one vector of {+-1}^n is returned" is compared']
ASSUMPTIONS = ['Model/Gf2.v is a hand-written mirror of mod2rref/mod2linsolve/mod2nullspace*/linear_system_negatives/'
               'variable_sign_patterns; it is tied to the source by correspondence only',
               'property premise: moments on all-even monomials are nonnegative']
HEADER = 'From Coq Require Import List Bool Arith ZArith.\nFrom SageVerif Require Import Model.Gf2 Base.Corr.'


def psr():
    from sageopt.relaxations import poly_solution_recovery as m
    return m


def bits(v):
    return [bool(int(x) % 2) for x in np.asarray(v).ravel().tolist()]


def matbits(A):
    return [bits(r) for r in np.asarray(A)]


# ------------------------------------------------------------------ implementation runners
def impl_rref(A, fo):
    R, p = psr().mod2rref(np.array(A, dtype=int), forward_only=fo)
    return (matbits(R), [Nat(int(k)) for k in p])


def impl_linsolve(A, b):
    x = psr().mod2linsolve(np.array(A, dtype=int), np.array(b, dtype=int))
    return None if x is None else vlib.Some(bits(x))


def impl_nullspace(A):
    m = psr()
    R, p = m.mod2rref(np.array(A, dtype=int))
    N = m.mod2nullspace(R, p)
    return sorted(bits(v) for v in N)


def impl_signs(alpha, moments, heur, all_signs):
    ys = psr().variable_sign_patterns(np.array(alpha, dtype=int), np.array(moments, dtype=float),
                                      hueristic=heur, all_signs=all_signs)
    out = []
    for y in ys:
        y = np.asarray(y).ravel().tolist()
        if any(v not in (1, -1, 1.0, -1.0) for v in y):
            return 'BAD'
        out.append([v < 0 for v in y])
    return sorted(out)


# ------------------------------------------------------------------ brute-force oracles (property statement on impl)
def gf2_rank(A):
    A = [list(r) for r in A]
    rank = 0
    n = len(A[0]) if A else 0
    for k in range(n):
        piv = next((i for i in range(rank, len(A)) if A[i][k]), None)
        if piv is None:
            continue
        A[rank], A[piv] = A[piv], A[rank]
        for i in range(len(A)):
            if i != rank and A[i][k]:
                A[i] = [a ^ b for a, b in zip(A[i], A[rank])]
        rank += 1
    return rank


def rowspace(A, n):
    span = {tuple([0] * n)}
    for r in A:
        r = tuple(int(x) for x in r)
        span |= {tuple(a ^ b for a, b in zip(v, r)) for v in span}
    return span


def oracle_rref(A, fo):
    """None if the property holds on this input, else a description."""
    A = [[int(x) for x in r] for r in A]
    m, n = len(A), len(A[0])
    try:
        R, p = psr().mod2rref(np.array(A, dtype=int), forward_only=fo)
    except Exception as e:
        return 'mod2rref raised %r' % (e,)
    R = [[int(x) % 2 for x in r] for r in np.asarray(R).tolist()]
    p = [int(k) for k in p]
    if len(R) != m or any(len(r) != n for r in R):
        return 'shape changed'
    if rowspace(R, n) != rowspace(A, n):
        return 'row space differs'
    # true pivot columns: rank of leading columns grows
    true_p = []
    rk = 0
    for k in range(n):
        r2 = gf2_rank([r[:k + 1] for r in A])
        if r2 > rk:
            true_p.append(k)
        rk = r2
    if p != true_p:
        return 'pivot columns %r, expected %r' % (p, true_p)
    for i, pc in enumerate(p):
        if R[i][pc] != 1 or any(R[i][:pc]):
            return 'row %d does not lead at its pivot' % i
        for i2 in range(m):
            if i2 != i and R[i2][pc] and (i2 > i or not fo):
                return 'pivot column %d not cleared in row %d' % (pc, i2)
    for i in range(len(p), m):
        if any(R[i]):
            return 'row beyond rank nonzero'
    return None


def oracle_linsolve(A, b):
    A = [[int(x) for x in r] for r in A]
    b = [int(x) for x in b]
    m, n = len(A), len(A[0])
    try:
        x = psr().mod2linsolve(np.array(A, dtype=int), np.array(b, dtype=int))
    except Exception as e:
        return 'mod2linsolve raised %r' % (e,)
    if x is not None:
        x = [int(v) % 2 for v in np.asarray(x).ravel().tolist()]
        if len(x) != n or any(sum(a * v for a, v in zip(r, x)) % 2 != bi for r, bi in zip(A, b)):
            return 'returned x=%r does not solve the system' % (x,)
        return None
    if n <= 14:
        for x in itertools.product((0, 1), repeat=n):
            if all(sum(a * v for a, v in zip(r, x)) % 2 == bi for r, bi in zip(A, b)):
                return 'returned None but x=%r solves the system' % (list(x),)
    return None


def oracle_nullspace(A):
    A = [[int(x) for x in r] for r in A]
    m, n = len(A), len(A[0])
    try:
        got = impl_nullspace(A)
    except Exception as e:
        return 'nullspace raised %r' % (e,)
    if n > 14:
        return None
    want = sorted([bool(v) for v in x] for x in itertools.product((0, 1), repeat=n)
                  if all(sum(a * v for a, v in zip(r, x)) % 2 == 0 for r in A))
    if got != want:
        return 'null space has %d elements, expected %d (or differs)' % (len(got), len(want))
    return None


def consistent(alpha, moments, y):
    for arow, mo in zip(alpha, moments):
        if mo == 0:
            continue
        neg = sum(1 for a, yj in zip(arow, y) if (a % 2) and yj) % 2 == 1
        if neg != (mo < 0):
            return False
    return True


def oracle_signs(alpha, moments, heur, all_signs):
    m, n = len(alpha), len(alpha[0])
    for arow, mo in zip(alpha, moments):
        if all(a % 2 == 0 for a in arow) and mo < 0:
            return None  # premise violated: nothing claimed
    try:
        got = impl_signs(alpha, moments, heur, all_signs)
    except Exception as e:
        return 'variable_sign_patterns raised %r' % (e,)
    if got == 'BAD':
        return 'returned vector not in {-1,+1}^n'
    allc = [[bool(v) for v in y] for y in itertools.product((0, 1), repeat=n) if consistent(alpha, moments, y)]
    relevant = [any((alpha[i][j] % 2) and moments[i] != 0 for i in range(m)) for j in range(n)]
    if not allc:
        if heur:
            return None if len(got) == 1 else 'inconsistent+heuristic: expected exactly one vector'
        return None if got == [] else 'inconsistent system but %d patterns returned' % len(got)
    if not got:
        return 'no pattern returned although consistent ones exist'
    for y in got:
        if len(y) != n or not consistent(alpha, moments, y):
            return 'returned inconsistent pattern %r' % (y,)
    if all_signs:
        need = [y for y in allc if all((not y[j]) or relevant[j] for j in range(n))]
        for y in need:
            if y not in got:
                return 'consistent pattern %r missing with all_signs' % (y,)
    return None


# ------------------------------------------------------------------ generators
def rand_mat(rng, m, n, style):
    if style == 'dense':
        return [[rng.randint(0, 1) for _ in range(n)] for _ in range(m)]
    if style == 'sparse':
        return [[1 if rng.random() < 0.2 else 0 for _ in range(n)] for _ in range(m)]
    if style == 'lowrank':
        k = rng.randint(0, max(0, min(m, n) - 1))
        basis = [[rng.randint(0, 1) for _ in range(n)] for _ in range(max(k, 1))]
        rows = []
        for _ in range(m):
            r = [0] * n
            for bv in basis[:k]:
                if rng.randint(0, 1):
                    r = [a ^ b for a, b in zip(r, bv)]
            rows.append(r)
        return rows
    if style == 'zerocols':
        A = [[rng.randint(0, 1) for _ in range(n)] for _ in range(m)]
        for j in range(n):
            if rng.random() < 0.4:
                for i in range(m):
                    A[i][j] = 0
        return A
    raise ValueError(style)


def gen_matrices(ctx, exh, nrand, maxdim):
    mats = []
    for m in range(1, exh + 1):
        for n in range(1, exh + 1):
            for bitsv in itertools.product((0, 1), repeat=m * n):
                mats.append([list(bitsv[i * n:(i + 1) * n]) for i in range(m)])
    nexh = len(mats)
    for _ in range(nrand):
        m = ctx.rng.randint(1, maxdim)
        n = ctx.rng.randint(1, maxdim)
        mats.append(rand_mat(ctx.rng, m, n, ctx.rng.choice(['dense', 'sparse', 'lowrank', 'lowrank', 'zerocols'])))
    return mats, nexh


def note_mat(ctx, A, suite):
    m, n = len(A), len(A[0])
    rk = gf2_rank(A)
    ctx.count(suite + '.shape', 'wide' if n > m else ('tall' if m > n else 'square'))
    ctx.count(suite + '.rankdef', rk < min(m, n))
    if rk < min(m, n) or m != n:
        ctx.nontrivial.add(vlib.sha([suite, A]))


def bm(A):
    return [[bool(x) for x in r] for r in A]


# ------------------------------------------------------------------ suites
GEN_HEADER = 'From Coq Require Import List Bool Arith ZArith.\nFrom SageVerif Require Import Model.Gf2 Model.NpIdioms Gen.GenGf2 Base.Corr.'


def suite(ctx, name, cases_py, model_expr, eqb_expr, in_ty, out_ty, oracle, header=None):
    HEADER = header or globals()['HEADER']
    """cases_py: list of (input_py (for replay), coq_in, coq_out, oracle_args)"""
    ctx.evaluations += len(cases_py)
    mism, err = vlib.run_suite_in_coq(ctx.pid, name, HEADER, model_expr, eqb_expr, in_ty, out_ty,
                                      [(c[1], c[2]) for c in cases_py])
    ctx.suites[name] = {'cases': len(cases_py), 'mismatches': (len(mism) if mism is not None else None)}
    if err:
        ctx.problem('correspondence', 'suite %s: %s' % (name, err))
        return
    if cases_py:
        ctx.samples.append({'suite': name, 'input': cases_py[len(cases_py) // 2][0],
                            'impl_output_coq': cases_py[len(cases_py) // 2][2][:300]})
    for idx in mism[:3]:
        inp = cases_py[idx][0]
        why = oracle(*cases_py[idx][3])
        model_out = vlib.coq_show(HEADER, '(%s) %s' % (model_expr, cases_py[idx][1]))
        ctx.problem('correspondence',
                    'suite %s: model and implementation disagree; impl=%s model=%s; oracle on impl: %s'
                    % (name, cases_py[idx][2][:400], model_out[:400], why or 'property holds on this input'),
                    inputs={'suite': name, 'input': inp, 'property_failure': why}, failing_input_found=bool(why))


def run(ctx):
    exh = 3
    mats, nexh = gen_matrices(ctx, exh, ctx.n(300, 3000), 12)
    if ctx.tier == 'thorough':
        # all 4xn / mx4 shapes for rref
        extra = []
        for (m, n) in [(4, 1), (4, 2), (4, 3), (1, 4), (2, 4), (3, 4), (4, 4)]:
            for bitsv in itertools.product((0, 1), repeat=m * n):
                extra.append([list(bitsv[i * n:(i + 1) * n]) for i in range(m)])
        mats_rref = extra + mats
    else:
        mats_rref = mats
    ctx.exhaustive = True
    ctx.notes.append('exhaustive over all 0/1 matrices with m,n<=%d (%d matrices) for every suite; '
                     'rref additionally m,n<=4 in the thorough tier' % (exh, nexh))
    # rref
    cases = []
    for A in mats_rref:
        for fo in (False, True):
            note_mat(ctx, A, 'rref')
            out = impl_rref(A, fo)
            cases.append(({'A': A, 'forward_only': fo}, cq((fo, bm(A))), cq(out), (A, fo)))
    suite(ctx, 'rref', cases, 'fun x => mod2rref (fst x) (snd x)',
          'pair_eqb (list_eqb (list_eqb Bool.eqb)) (list_eqb Nat.eqb)', 'bool * mat', 'mat * list nat', oracle_rref)
    # the same cases against the functions GENERATED from the source (Gen/GenGf2.v): validates the translator's idiom table at run time
    suite(ctx, 'rref_generated', cases, 'fun x => gen_mod2rref (fst x) (snd x)',
          'pair_eqb (list_eqb (list_eqb Bool.eqb)) (list_eqb Nat.eqb)', 'bool * mat', 'mat * list nat', oracle_rref, header=GEN_HEADER)
    # linsolve
    cases = []
    for k, A in enumerate(mats):
        m = len(A)
        if k < nexh:
            rhss = [list(b) for b in itertools.product((0, 1), repeat=m)]
        else:
            rhss = [[ctx.rng.randint(0, 1) for _ in range(m)] for _ in range(2)]
            # one consistent rhs
            x = [ctx.rng.randint(0, 1) for _ in range(len(A[0]))]
            rhss.append([sum(a * v for a, v in zip(r, x)) % 2 for r in A])
        for b in rhss:
            note_mat(ctx, A, 'linsolve')
            out = impl_linsolve(A, b)
            ctx.count('linsolve.result', 'None' if out is None else 'Some')
            cases.append(({'A': A, 'b': b}, cq((Nat(len(A[0])), bm(A), [bool(v) for v in b])), cq(out), (A, b)))
    suite(ctx, 'linsolve', cases, "fun x => let '(n, A, b) := x in mod2linsolve n A b",
          'option_eqb (list_eqb Bool.eqb)', 'nat * mat * row', 'option row', oracle_linsolve)
    suite(ctx, 'linsolve_generated', cases, "fun x => let '(n, A, b) := x in gen_mod2linsolve n A b",
          'option_eqb (list_eqb Bool.eqb)', 'nat * mat * row', 'option row', oracle_linsolve, header=GEN_HEADER)
    # nullspace (through rref)
    cases = []
    for A in mats:
        if len(A[0]) - gf2_rank(A) > 7:
            continue
        note_mat(ctx, A, 'nullspace')
        out = impl_nullspace(A)
        ctx.count('nullspace.dim', len(A[0]) - gf2_rank(A))
        cases.append(({'A': A}, cq((Nat(len(A[0])), bm(A))), cq(out), (A,)))
    suite(ctx, 'nullspace', cases,
          "fun x => let '(R, p) := mod2rref false (snd x) in sort_by row_leb (mod2nullspace (fst x) R p)",
          'list_eqb (list_eqb Bool.eqb)', 'nat * mat', 'list row', oracle_nullspace)
    suite(ctx, 'nullspace_generated', cases,
          "fun x => let '(R, p) := gen_mod2rref false (snd x) in sort_by row_leb (span (fst x) (gen_mod2nullspace_basis (fst x) R p))",
          'list_eqb (list_eqb Bool.eqb)', 'nat * mat', 'list row', oracle_nullspace, header=GEN_HEADER)
    # sign patterns: exhaustive over (alpha mod 2 shifted into {0..3}, signs) for m,n <= 2 (quick) and random
    cases = []
    combos = []
    lim = 2 if ctx.quick() else 3
    for m in range(1, lim + 1):
        for n in range(1, lim + 1):
            if m * n > 6:
                continue
            for ab in itertools.product((0, 1), repeat=m * n):
                for sg in itertools.product((-1, 0, 1), repeat=m):
                    combos.append(([list(ab[i * n:(i + 1) * n]) for i in range(m)], list(sg)))
    for _ in range(ctx.n(300, 3000)):
        m = ctx.rng.randint(1, 7)
        n = ctx.rng.randint(1, 7)
        alpha = [[ctx.rng.randint(0, 4) for _ in range(n)] for _ in range(m)]
        if ctx.rng.random() < 0.5:
            # consistent by construction
            y = [ctx.rng.randint(0, 1) for _ in range(n)]
            mo = []
            for r in alpha:
                neg = sum(1 for a, yj in zip(r, y) if a % 2 and yj) % 2
                mag = ctx.rng.choice([0, 1, 2, 3])
                mo.append(-mag if neg else mag)
        else:
            mo = [ctx.rng.choice([-2, -1, 0, 1, 3]) for _ in range(m)]
        combos.append((alpha, mo))
    for alpha, mo in combos:
        # respect the premise (all-even rows have nonnegative moments)
        mo = [abs(v) if all(a % 2 == 0 for a in r) else v for r, v in zip(alpha, mo)]
        for heur in (False, True):
            for alls in (False, True):
                out = impl_signs(alpha, mo, heur, alls)
                if out == 'BAD':
                    ctx.problem('correspondence', 'variable_sign_patterns returned a vector outside {-1,+1}^n',
                                inputs={'alpha': alpha, 'moments': mo, 'heuristic': heur, 'all_signs': alls},
                                failing_input_found=True)
                    continue
                ctx.count('signs.npatterns', min(len(out), 9))
                if len(alpha) != len(alpha[0]) or gf2_rank([[a % 2 for a in r] for r in alpha]) < len(alpha):
                    ctx.nontrivial.add(vlib.sha(['signs', alpha, mo, heur, alls]))
                cases.append(({'alpha': alpha, 'moments': mo, 'heuristic': heur, 'all_signs': alls},
                              cq((Nat(len(alpha[0])), alpha, mo, heur, alls)), cq(out), (alpha, mo, heur, alls)))
    suite(ctx, 'signs', cases,
          "fun x => let '(n, al, mo, h, a) := x in variable_sign_patterns n al mo h a",
          "fun mo im => match mo with SpHeuristic => Nat.eqb (length im) 1 "
          "| SpList ys => list_eqb (list_eqb Bool.eqb) (sort_by row_leb ys) im end",
          'nat * zmat * list Z * bool * bool', 'list row', oracle_signs)
    suite(ctx, 'signs_generated', cases,
          "fun x => let '(n, al, mo, h, a) := x in gen_variable_sign_patterns n al mo h a",
          "fun mo im => match mo with SpHeuristic => Nat.eqb (length im) 1 "
          "| SpList ys => list_eqb (list_eqb Bool.eqb) (sort_by row_leb ys) im end",
          'nat * zmat * list Z * bool * bool', 'list row', oracle_signs, header=GEN_HEADER)
    # re-type the signs suite output: model returns sp_result, impl a list -> handled by custom eqb above


def search(ctx):
    """Failing-input search on the real code by brute-force oracles (used when a proof obligation broke)."""
    rng = ctx.rng
    mats, _ = gen_matrices(ctx, 3, 1500, 9)
    for A in mats:
        for fo in (False, True):
            why = oracle_rref(A, fo)
            if why:
                return {'suite': 'rref', 'input': {'A': A, 'forward_only': fo}, 'property_failure': why}
        why = oracle_nullspace(A)
        if why:
            return {'suite': 'nullspace', 'input': {'A': A}, 'property_failure': why}
        for _ in range(3):
            b = [rng.randint(0, 1) for _ in A]
            why = oracle_linsolve(A, b)
            if why:
                return {'suite': 'linsolve', 'input': {'A': A, 'b': b}, 'property_failure': why}
    for _ in range(3000):
        m = rng.randint(1, 5)
        n = rng.randint(1, 5)
        alpha = [[rng.randint(0, 3) for _ in range(n)] for _ in range(m)]
        mo = [rng.choice([-1, 0, 1, 2]) for _ in range(m)]
        mo = [abs(v) if all(a % 2 == 0 for a in r) else v for r, v in zip(alpha, mo)]
        for heur in (False, True):
            for alls in (False, True):
                why = oracle_signs(alpha, mo, heur, alls)
                if why:
                    return {'suite': 'signs', 'input': {'alpha': alpha, 'moments': mo, 'heuristic': heur, 'all_signs': alls},
                            'property_failure': why}
    return None


def replay(payload):
    inp = payload.get('input') or {}
    s, x = inp.get('suite'), inp.get('input')
    if not s:
        print('replay names a broken theorem/correspondence, no concrete input: ' + str(payload.get('detail'))[:500])
        return 1
    why = {'rref': lambda: oracle_rref(x['A'], x['forward_only']),
           'linsolve': lambda: oracle_linsolve(x['A'], x['b']),
           'nullspace': lambda: oracle_nullspace(x['A']),
           'signs': lambda: oracle_signs(x['alpha'], x['moments'], x['heuristic'], x['all_signs'])}[s]()
    print('replay %s on %s: %s' % (s, x, why or 'property holds'))
    return 1 if why else 0
