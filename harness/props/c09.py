"""C09 — Problem.solve reports the true status, value and a feasible optimal point.
Tie: (T) translator regenerates the exit-flag and status/sense decision tables from ecos.py/problem.py;
(C) correspondence of Model/ProblemSM.v with Problem.solve driven by a scripted solver stub (real ECOS.apply,
parse_result and load_variable_values are kept) over random histories of problems sharing Variables;
second stream: real ECOS on toys with closed-form optima.  The solver itself is an oracle."""
import math
import warnings
from fractions import Fraction

import numpy as np

from harness import vlib
from harness.vlib import Nat, cq, Raw

USES_TRANSLATOR = True
RULE = ('case = prefix of a random history of Problem.solve calls (2-3 problems sharing Variables, scripted solver answers with '
        'flags from {0,1,2,10,11,12,-1,-2,-3,-4,-7,3,99}); observed after every step: status, value, value of every component of '
        'every Variable; non-trivial = history in which a failed/infeasible solve is followed or preceded by a successful solve of '
        'a problem sharing a Variable; distinct by history hash')
TRUSTED = ['translator harness/translator/tables.py (fail-closed ast walk of ECOS.parse_result, Problem.__init__/solve)',
           'correspondence harness harness/props/c09.py incl. the scripted solver stub substituted for ECOS.solve_via_data',
           'ORACLE: the ECOS binary (optimality and feasibility of the x it returns, exit flags it chooses)']
ASSUMPTIONS = ['what ECOS returns is trusted: "value equals the true optimum" and "feasible to solver tolerance" are decided only '
               'through the composition theorem (C10 ecos_feasible_iff + C07) under the hypothesis that x satisfies the ECOS data',
               'Model/ProblemSM.v is hand written; its decision tables are regenerated from source on every run']
HEADER = ('From Coq Require Import List Bool Arith ZArith QArith.\n'
          'From SageVerif Require Import Gen.GenEcosParse Gen.GenProblemSolve Model.ProblemSM Base.Corr.\nImport ListNotations.\n'
          'Definition prob_of (x : bool * list (nat * list (Z * Z))) : problem :=\n'
          '  {| p_min := fst x; p_vars := map (fun v => {| pv_name := fst v; pv_comps := snd v |}) (snd x) |}.\n'
          'Definition ans_of (x : Z * list Q * xval) : answer := {| a_flag := fst (fst x); a_x := snd (fst x); a_pcost := snd x |}.\n'
          'Definition out_code (o : outcome) : nat * xval := match o with Out Solved v => (0%nat, v) | Out Inaccurate v => (1%nat, v) '
          '| Out Failed v => (2%nat, v) | IndexError => (3%nat, NaN) end.\n'
          'Definition model (x : list ((bool * list (nat * list (Z * Z))) * (Z * list Q * xval)) * list Z) :=\n'
          '  let \'(s, outs) := run (map (fun op => (prob_of (fst op), ans_of (snd op))) (fst x)) [] in\n'
          '  (map out_code outs, map (fun id => match lookup s id with Some v => v | None => NaN end) (snd x)).\n'
          'Definition out_eqb := pair_eqb (list_eqb (pair_eqb Nat.eqb xval_eqb)) (list_eqb xval_eqb).')
FLAGS = [0, 1, 2, 10, 11, 12, -1, -2, -3, -4, -7, 3, 99]


def xval(v):
    v = float(v)
    if math.isnan(v):
        return Raw('NaN')
    if v == math.inf:
        return Raw('PInf')
    if v == -math.inf:
        return Raw('NInf')
    return Raw('(Fin %s)' % cq(Fraction(v)))


class Stub:
    """ECOS interface with solve_via_data scripted."""
    answer = None

    @staticmethod
    def apply(c, A, b, K, params):
        from sageopt.coniclifts.problems.solvers.ecos import ECOS
        return ECOS.apply(c, A, b, K, params)

    @staticmethod
    def solve_via_data(data, params):
        flag, x, pcost = Stub.answer
        return {'x': np.array(x, dtype=float), 'info': {'exitFlag': flag, 'pcost': pcost}}

    @staticmethod
    def parse_result(solver_output, inv_data, var_mapping):
        from sageopt.coniclifts.problems.solvers.ecos import ECOS
        return ECOS.parse_result(solver_output, inv_data, var_mapping)

    @staticmethod
    def is_installed():
        return True


def build_world(rng):
    """2-3 problems over shared Variables, some components not participating, one symmetric Variable."""
    import sageopt.coniclifts as cl
    vs = [cl.Variable(shape=(3,), name='x'), cl.Variable(shape=(2, 2), name='y', var_properties=['symmetric']),
          cl.Variable(shape=(1,), name='z'), cl.Variable(shape=(2,), name='w')]
    probs = []
    for _ in range(rng.randint(2, 3)):
        used = []
        cons = []
        kvars = rng.sample(vs, rng.randint(1, 3))
        for v in kvars:
            flat = [v[idx] for idx in np.ndindex(*v.shape)]
            pick = rng.sample(range(len(flat)), rng.randint(1, len(flat)))
            for k in pick:
                used.append(flat[k])
                cons.append(flat[k] >= rng.randint(-2, 2))
                if rng.random() < 0.4:
                    cons.append(flat[k] <= rng.randint(3, 5))
        if len(used) > 1 and rng.random() < 0.6:
            cons.append(used[0] + used[1] <= 7)
        obj = sum(rng.randint(1, 3) * u for u in used[:2]) + rng.choice([0, 0, 1.5])
        sense = rng.choice([cl.MIN, cl.MAX])
        with warnings.catch_warnings():
            warnings.simplefilter('ignore')
            probs.append(cl.Problem(sense, obj, cons))
    return vs, probs


def prob_desc(prob, names):
    import sageopt.coniclifts as cl
    pv = []
    for v in prob.all_variables:
        ids = v.scalar_variable_ids
        cols = prob.variable_map[v.name].ravel().tolist()
        pv.append((Nat(names.index(v.name)), [(int(i), int(c)) for i, c in zip(ids, cols)]))
    return (prob.objective_sense == cl.MIN, pv)


def all_ids(vs):
    out = []
    for v in vs:
        out += [int(i) for i in v.scalar_variable_ids]
    return out


def observe(vs):
    out = []
    for v in vs:
        out += [xval(t) for t in np.asarray(v.value, dtype=float).ravel().tolist()]
    return out


STATUS_CODE = {'solved': 0, 'inaccurate': 1, 'solver failure': 2, 'failed': 2}


def expected_by_property(prob, flag, x, pcost):
    """the property statement itself, independent of the model: returns (status, value, values dict name->array or 'nan')"""
    import sageopt.coniclifts as cl
    is_min = prob.objective_sense == cl.MIN
    sgn = 1.0 if is_min else -1.0
    if flag in (0, 10):
        st = 'solved' if flag == 0 else 'inaccurate'
        x0 = list(x) + [0.0]
        vals = {}
        for v in prob.all_variables:
            vm = prob.variable_map[v.name]
            vals[v.name] = np.array([x0[c] if c >= 0 else 0.0 for c in vm.ravel().tolist()]).reshape(vm.shape)
        return st, sgn * pcost, vals
    if flag in (1, 11):
        return ('solved' if flag == 1 else 'inaccurate'), (math.inf if is_min else -math.inf), 'nan'
    if flag in (2, 12):
        return ('solved' if flag == 2 else 'inaccurate'), (-math.inf if is_min else math.inf), 'nan'
    return 'solver failure', math.nan, 'nan'


def same(a, b):
    return (math.isnan(a) and math.isnan(b)) or a == b


def oracle_step(prob, st, val, flag, x, pcost):
    est, eval_, evals = expected_by_property(prob, flag, x, pcost)
    if st != est or not same(float(val), float(eval_)):
        return 'flag %d: reported (%s, %r), property requires (%s, %r)' % (flag, st, val, est, eval_)
    for v in prob.all_variables:
        got = np.asarray(v.value, dtype=float)
        if isinstance(evals, str):
            if not np.all(np.isnan(got)):
                return 'flag %d: Variable %s holds %r, property requires NaN' % (flag, v.name, got.tolist())
        elif not np.array_equal(got, evals[v.name]):
            return 'flag %d: Variable %s holds %r, expected %r' % (flag, v.name, got.tolist(), evals[v.name].tolist())
    return None


def run_history(rng, length):
    """returns (cases for each prefix, first property failure or None, meta)"""
    import sageopt.coniclifts as cl
    from sageopt.coniclifts.problems.problem import Problem
    vs, probs = build_world(rng)
    names = [v.name for v in vs]
    ids = all_ids(vs)
    saved = Problem._SOLVERS_['ECOS']
    Problem._SOLVERS_['ECOS'] = Stub
    ops_desc, ops_json, outs = [], [], []
    cases, failure = [], None
    kinds = []
    try:
        for _ in range(length):
            k = rng.randrange(len(probs))
            prob = probs[k]
            n = prob.A.shape[1]
            flag = rng.choice(FLAGS if rng.random() < 0.6 else [0, 0, 10])
            x = [rng.randint(-8, 8) / 2.0 for _ in range(n)]
            pcost = float(np.dot(prob.c, x)) if rng.random() < 0.7 else rng.randint(-6, 6) / 2.0
            if flag not in (0, 10) and rng.random() < 0.5:
                pcost = rng.choice([math.nan, math.inf, -math.inf, 1.5])
            Stub.answer = (flag, x, pcost)
            with warnings.catch_warnings():
                warnings.simplefilter('ignore')
                st, val = prob.solve(solver='ECOS', verbose=False)
            why = oracle_step(prob, st, val, flag, x, pcost)
            if why and failure is None:
                failure = why
            kinds.append('load' if flag in (0, 10) else 'nan')
            ops_desc.append((prob_desc(prob, names), (flag, [Fraction(t) for t in x], xval(pcost))))
            ops_json.append({'problem': k, 'flag': flag, 'x': x, 'pcost': repr(pcost)})
            outs.append((Nat(STATUS_CODE[st]), xval(val)))
            cases.append((list(ops_json), cq((list(ops_desc), ids)), cq((list(outs), observe(vs)))))
    finally:
        Problem._SOLVERS_['ECOS'] = saved
    shared = len(probs) > 1
    mixed = ('load' in kinds and 'nan' in kinds)
    return cases, failure, {'mixed': mixed and shared, 'nprobs': len(probs), 'ops': ops_json}


# ------------------------------------------------------------------ real ECOS toys with closed-form optima
def toys():
    import sageopt.coniclifts as cl
    out = []
    x = cl.Variable(shape=(3,), name='x')
    out.append(('lp_min', cl.Problem(cl.MIN, x[0] + 2 * x[1], [x[0] >= 1, x[1] >= -2, x[0] <= 5]), 'solved', -3.0, x, [1, -2, 0]))
    x = cl.Variable(shape=(2,), name='x')
    out.append(('lp_max_offset', cl.Problem(cl.MAX, x[0] + 1.5, [x[0] <= 4, x[0] >= 0]), 'solved', 4.0, x, [4, 0]))
    x = cl.Variable(shape=(1,), name='x')
    out.append(('infeasible_min', cl.Problem(cl.MIN, x[0], [x[0] >= 1, x[0] <= 0]), 'solved', math.inf, x, None))
    x = cl.Variable(shape=(1,), name='x')
    out.append(('infeasible_max', cl.Problem(cl.MAX, x[0], [x[0] >= 1, x[0] <= 0]), 'solved', -math.inf, x, None))
    x = cl.Variable(shape=(1,), name='x')
    out.append(('unbounded_min', cl.Problem(cl.MIN, x[0], [x[0] <= 0]), 'solved', -math.inf, x, None))
    x = cl.Variable(shape=(1,), name='x')
    out.append(('unbounded_max', cl.Problem(cl.MAX, x[0], [x[0] >= 0]), 'solved', math.inf, x, None))
    x = cl.Variable(shape=(2,), name='x')
    y = cl.Variable(shape=(2,), name='y')
    out.append(('adjacent_soc', cl.Problem(cl.MAX, x[0] + y[0], [cl.vector2norm(x) <= 1, cl.vector2norm(y) <= 2]), 'solved', 3.0, x, [1, 0]))
    # rows without any Variable: a true statement (0 <= 1) changes nothing, a false one (0 <= -2) makes the problem infeasible
    x = cl.Variable(shape=(2,), name='x')
    G = np.array([[1.0, 0.0], [0.0, 0.0], [0.0, 1.0]])
    out.append(('constant_row_true', cl.Problem(cl.MAX, x[0] + x[1], [G @ x <= np.array([4.0, 1.0, 3.0]), x >= 0]), 'solved', 7.0, x, [4, 3]))
    x = cl.Variable(shape=(2,), name='x')
    out.append(('constant_row_false', cl.Problem(cl.MAX, x[0] + x[1], [G @ x <= np.array([4.0, -2.0, 3.0]), x >= 0]), 'solved', -math.inf, x, None))
    x = cl.Variable(shape=(2,), name='x')
    out.append(('constant_row_equal', cl.Problem(cl.MIN, x[0] + x[1], [G @ x == np.array([1.0, 0.0, 2.0])]), 'solved', 3.0, x, [1, 2]))
    # a Variable that occurs only inside a nonlinear atom on the RIGHT-hand side still receives its value
    yv = cl.Variable(shape=(2,), name='y')
    tv = cl.Variable(shape=(1,), name='t')
    out.append(('rhs_atom_only', cl.Problem(cl.MIN, tv[0], [tv >= cl.vector2norm(yv - np.array([3.0, 4.0])) + 1.0]), 'solved', 1.0, yv, [3, 4]))
    # a norm with a constant non-zero component: sqrt(x^2 + 1)
    xv = cl.Variable(shape=(1,), name='x')
    sv = cl.Variable(shape=(1,), name='s')
    out.append(('norm_constant_component', cl.Problem(cl.MIN, sv[0], [cl.vector2norm(cl.hstack((xv, np.array([1.0])))) <= sv, xv >= 0.75]), 'solved', 1.25, xv, [0.75]))
    xv = cl.Variable(shape=(1,), name='x')
    out.append(('norm_constant_component_infeasible', cl.Problem(cl.MIN, xv[0], [cl.vector2norm(cl.hstack((xv, np.array([3.0])))) <= 2]), 'solved', math.inf, xv, None))
    x = cl.Variable(shape=(1,), name='x')
    t = cl.Variable(shape=(1,), name='t')
    out.append(('exp_epi', cl.Problem(cl.MIN, t[0], [cl.weighted_sum_exp(np.array([1.0]), x) <= t[0], x[0] >= 1]), 'solved', math.e, x, [1]))
    return out


def real_ecos_stream(ctx):
    fails = []
    with warnings.catch_warnings():
        warnings.simplefilter('ignore')
        for name, prob, est, ev, var, evals in toys():
            st, val = prob.solve(solver='ECOS', verbose=False)
            ctx.count('real_ecos', name)
            ok = st == est and (same(val, ev) or (math.isfinite(ev) and abs(val - ev) <= 1e-5 * (1 + abs(ev))))
            if not ok:
                fails.append('%s: reported (%s, %r), expected (%s, %r)' % (name, st, val, est, ev))
                continue
            got = np.asarray(var.value, dtype=float)
            if evals is None:
                if not np.all(np.isnan(got)):
                    fails.append('%s: values %r should be NaN' % (name, got.tolist()))
            elif not np.allclose(got, evals, atol=1e-4):
                fails.append('%s: values %r, expected %r (non-participating components must be 0)' % (name, got.tolist(), evals))
        # forced failure: max_iters=1
        import sageopt.coniclifts as cl
        x = cl.Variable(shape=(2,), name='x')
        prob = cl.Problem(cl.MIN, x[0], [cl.vector2norm(x) <= 1, cl.weighted_sum_exp(np.array([1.0]), x[1:]) <= 3])
        st, val = prob.solve(solver='ECOS', verbose=False, max_iters=1)
        ctx.count('real_ecos', 'max_iters=1 -> ' + st)
        if st == 'solver failure' and not (math.isnan(val) and np.all(np.isnan(x.value))):
            fails.append('forced failure: value %r / variables %r should be NaN' % (val, x.value.tolist()))
        # the options of one call do not outlive it: the same Problem solved again without a limit reaches the optimum
        st2, val2 = prob.solve(solver='ECOS', verbose=False)
        ctx.count('real_ecos', 'solve after a forced failure -> ' + st2)
        if st == 'solver failure' and not (st2 == 'solved' and abs(val2 + 1.0) <= 1e-5 and np.all(np.isfinite(x.value))):
            fails.append('after solve(max_iters=1) failed, a plain solve() of the same Problem reports (%s, %r) with x = %r; expected (solved, -1)'
                         % (st2, val2, x.value.tolist()))
        st3, val3 = prob.solve(solver='ECOS', verbose=False, max_iters=1)
        st4, val4 = prob.solve(solver='ECOS', verbose=False, max_iters=200)
        if st3 == 'solver failure' and not (st4 == 'solved' and abs(val4 + 1.0) <= 1e-5):
            fails.append('solve(max_iters=200) after solve(max_iters=1) reports (%s, %r); expected (solved, -1)' % (st4, val4))
    return fails


def run(ctx):
    cases = []
    nh = ctx.n(60, 600)
    for h in range(nh):
        hc, failure, meta = run_history(ctx.rng, ctx.rng.randint(3, 8))
        ctx.count('history.nprobs', meta['nprobs'])
        ctx.count('history.mixed', meta['mixed'])
        if meta['mixed']:
            ctx.nontrivial.add(vlib.sha(meta['ops']))
        for c in hc:
            ctx.count('flag', c[0][-1]['flag'])
        cases += [(c[0], c[1], c[2]) for c in hc]
        if failure:
            ctx.problem('oracle', 'property fails on the implementation: ' + failure, inputs={'history': meta['ops']},
                        failing_input_found=True)
            break
    ctx.evaluations += len(cases)
    T_in = 'list ((bool * list (nat * list (Z * Z))) * (Z * list Q * xval)) * list Z'
    T_out = 'list (nat * xval) * list xval'
    mism, err = vlib.run_suite_in_coq(ctx.pid, 'solve_sm', HEADER, 'model', 'out_eqb', T_in, T_out,
                                      [(c[1], c[2]) for c in cases], shard=100)
    ctx.suites['solve_sm'] = {'cases': len(cases), 'mismatches': None if mism is None else len(mism)}
    if err:
        ctx.problem('correspondence', 'suite solve_sm: ' + err)
    else:
        if cases:
            ctx.samples.append({'suite': 'solve_sm', 'history': cases[len(cases) // 2][0]})
        for idx in mism[:3]:
            model_out = vlib.coq_show(HEADER, 'model %s' % cases[idx][1])
            ctx.problem('correspondence', 'suite solve_sm: model and implementation disagree after history %s; impl=%s model=%s'
                        % (cases[idx][0], cases[idx][2][:500], model_out[:500]), inputs={'history': cases[idx][0]},
                        failing_input_found=False)
    fails = real_ecos_stream(ctx)
    ctx.suites['real_ecos_toys'] = {'cases': 9, 'failures': len(fails)}
    ctx.evaluations += 9
    for f in fails[:3]:
        ctx.problem('oracle', 'real ECOS stream: ' + f, inputs={'toy': f.split(':')[0]}, failing_input_found=True)


def search(ctx):
    for _ in range(150):
        hc, failure, meta = run_history(ctx.rng, ctx.rng.randint(3, 8))
        if failure:
            return {'history': meta['ops'], 'property_failure': failure}
    fails = real_ecos_stream(ctx)
    if fails:
        return {'toy': fails[0].split(':')[0], 'property_failure': fails[0]}
    return None


def replay(payload):
    print('replay: re-running the C09 streams (histories are regenerated from the seed in the replay file)')
    ctx = vlib.Ctx('C09', 'quick', int(payload.get('seed', 0)))
    found = search(ctx)
    print(found or 'property holds on the regenerated histories')
    return 1 if found else 0
