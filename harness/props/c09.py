"""C09 — Problem.solve reports the true status, value and a feasible optimal point.
Tie: (T) translator regenerates the exit-flag and status/sense decision tables from ecos.py/problem.py;
(C) correspondence of Model/ProblemSM.v with Problem.solve driven by a scripted solver stub (real ECOS.apply,
parse_result and load_variable_values are kept) over random histories of problems sharing Variables;
second stream: real ECOS on toys with closed-form optima.  The solver itself is an oracle."""
import math
import warnings
from fractions import Fraction

import numpy as np

from harness import vlib
from harness.vlib import Nat, cq, Raw

USES_TRANSLATOR = True
RULE = ('case = prefix of a random history of Problem.solve calls (2-3 problems sharing Variables, scripted solver answers with '
        'flags from {0,1,2,10,11,12,-1,-2,-3,-4,-7,3,99}); observed after every step: status, value, value of every component of '
        'every Variable; non-trivial = history in which a failed/infeasible solve is followed or preceded by a successful solve of '
        'a problem sharing a Variable; distinct by history hash')
TRUSTED = ['translator harness/translator/tables.py (fail-closed ast walk of ECOS.parse_result, Problem.__init__/solve)',
           'translator harness/translator/mosek_tab.py (Mosek._primal/_dual_parse_result, decide_primal_vs_dual, dispatch) validated at run time against a scripted stand-in for the mosek module',
           'correspondence harness harness/props/c09.py incl. the scripted solver stub substituted for ECOS.solve_via_data',
           'ORACLE: the ECOS binary (optimality and feasibility of the x it returns, exit flags it chooses)']
ASSUMPTIONS = ['what ECOS returns is trusted: "value equals the true optimum" and "feasible to solver tolerance" are decided only '
               'through the composition theorem (C10 ecos_feasible_iff + C07) under the hypothesis that x satisfies the ECOS data',
               'Model/ProblemSM.v is hand written; its decision tables are regenerated from source on every run']
HEADER = ('From Coq Require Import List Bool Arith ZArith QArith.\n'
          'From SageVerif Require Import Gen.GenEcosParse Gen.GenProblemSolve Model.ProblemSM Base.Corr.\nImport ListNotations.\n'
          'Definition prob_of (x : bool * list (nat * list (Z * Z))) : problem :=\n'
          '  {| p_min := fst x; p_vars := map (fun v => {| pv_name := fst v; pv_comps := snd v |}) (snd x) |}.\n'
          'Definition ans_of (x : Z * list Q * xval) : answer := {| a_flag := fst (fst x); a_x := snd (fst x); a_pcost := snd x |}.\n'
          'Definition out_code (o : outcome) : nat * xval := match o with Out Solved v => (0%nat, v) | Out Inaccurate v => (1%nat, v) '
          '| Out Failed v => (2%nat, v) | IndexError => (3%nat, NaN) end.\n'
          'Definition model (x : list ((bool * list (nat * list (Z * Z))) * (Z * list Q * xval)) * list Z) :=\n'
          '  let \'(s, outs) := run (map (fun op => (prob_of (fst op), ans_of (snd op))) (fst x)) [] in\n'
          '  (map out_code outs, map (fun id => match lookup s id with Some v => v | None => NaN end) (snd x)).\n'
          'Definition out_eqb := pair_eqb (list_eqb (pair_eqb Nat.eqb xval_eqb)) (list_eqb xval_eqb).')
FLAGS = [0, 1, 2, 10, 11, 12, -1, -2, -3, -4, -7, 3, 99]


def xval(v):
    v = float(v)
    if math.isnan(v):
        return Raw('NaN')
    if v == math.inf:
        return Raw('PInf')
    if v == -math.inf:
        return Raw('NInf')
    return Raw('(Fin %s)' % cq(Fraction(v)))


class Stub:
    """ECOS interface with solve_via_data scripted."""
    answer = None

    @staticmethod
    def apply(c, A, b, K, params):
        from sageopt.coniclifts.problems.solvers.ecos import ECOS
        return ECOS.apply(c, A, b, K, params)

    @staticmethod
    def solve_via_data(data, params):
        flag, x, pcost = Stub.answer
        return {'x': np.array(x, dtype=float), 'info': {'exitFlag': flag, 'pcost': pcost}}

    @staticmethod
    def parse_result(solver_output, inv_data, var_mapping):
        from sageopt.coniclifts.problems.solvers.ecos import ECOS
        return ECOS.parse_result(solver_output, inv_data, var_mapping)

    @staticmethod
    def is_installed():
        return True


def build_world(rng):
    """2-3 problems over shared Variables, some components not participating, one symmetric Variable."""
    import sageopt.coniclifts as cl
    vs = [cl.Variable(shape=(3,), name='x'), cl.Variable(shape=(2, 2), name='y', var_properties=['symmetric']),
          cl.Variable(shape=(1,), name='z'), cl.Variable(shape=(2,), name='w')]
    probs = []
    for _ in range(rng.randint(2, 3)):
        used = []
        cons = []
        kvars = rng.sample(vs, rng.randint(1, 3))
        for v in kvars:
            flat = [v[idx] for idx in np.ndindex(*v.shape)]
            pick = rng.sample(range(len(flat)), rng.randint(1, len(flat)))
            for k in pick:
                used.append(flat[k])
                cons.append(flat[k] >= rng.randint(-2, 2))
                if rng.random() < 0.4:
                    cons.append(flat[k] <= rng.randint(3, 5))
        if len(used) > 1 and rng.random() < 0.6:
            cons.append(used[0] + used[1] <= 7)
        obj = sum(rng.randint(1, 3) * u for u in used[:2]) + rng.choice([0, 0, 1.5])
        sense = rng.choice([cl.MIN, cl.MAX])
        with warnings.catch_warnings():
            warnings.simplefilter('ignore')
            probs.append(cl.Problem(sense, obj, cons))
    return vs, probs


def prob_desc(prob, names):
    import sageopt.coniclifts as cl
    pv = []
    for v in prob.all_variables:
        ids = v.scalar_variable_ids
        cols = prob.variable_map[v.name].ravel().tolist()
        pv.append((Nat(names.index(v.name)), [(int(i), int(c)) for i, c in zip(ids, cols)]))
    return (prob.objective_sense == cl.MIN, pv)


def all_ids(vs):
    out = []
    for v in vs:
        out += [int(i) for i in v.scalar_variable_ids]
    return out


def observe(vs):
    out = []
    for v in vs:
        out += [xval(t) for t in np.asarray(v.value, dtype=float).ravel().tolist()]
    return out


STATUS_CODE = {'solved': 0, 'inaccurate': 1, 'solver failure': 2, 'failed': 2}


def expected_by_property(prob, flag, x, pcost):
    """the property statement itself, independent of the model: returns (status, value, values dict name->array or 'nan')"""
    import sageopt.coniclifts as cl
    is_min = prob.objective_sense == cl.MIN
    sgn = 1.0 if is_min else -1.0
    if flag in (0, 10):
        st = 'solved' if flag == 0 else 'inaccurate'
        x0 = list(x) + [0.0]
        vals = {}
        for v in prob.all_variables:
            vm = prob.variable_map[v.name]
            vals[v.name] = np.array([x0[c] if c >= 0 else 0.0 for c in vm.ravel().tolist()]).reshape(vm.shape)
        return st, sgn * pcost, vals
    if flag in (1, 11):
        return ('solved' if flag == 1 else 'inaccurate'), (math.inf if is_min else -math.inf), 'nan'
    if flag in (2, 12):
        return ('solved' if flag == 2 else 'inaccurate'), (-math.inf if is_min else math.inf), 'nan'
    return 'solver failure', math.nan, 'nan'


def same(a, b):
    return (math.isnan(a) and math.isnan(b)) or a == b


def oracle_step(prob, st, val, flag, x, pcost):
    est, eval_, evals = expected_by_property(prob, flag, x, pcost)
    if st != est or not same(float(val), float(eval_)):
        return 'flag %d: reported (%s, %r), property requires (%s, %r)' % (flag, st, val, est, eval_)
    for v in prob.all_variables:
        got = np.asarray(v.value, dtype=float)
        if isinstance(evals, str):
            if not np.all(np.isnan(got)):
                return 'flag %d: Variable %s holds %r, property requires NaN' % (flag, v.name, got.tolist())
        elif not np.array_equal(got, evals[v.name]):
            return 'flag %d: Variable %s holds %r, expected %r' % (flag, v.name, got.tolist(), evals[v.name].tolist())
    return None


def run_history(rng, length):
    """returns (cases for each prefix, first property failure or None, meta)"""
    import sageopt.coniclifts as cl
    from sageopt.coniclifts.problems.problem import Problem
    vs, probs = build_world(rng)
    names = [v.name for v in vs]
    ids = all_ids(vs)
    # sub-Variable objects the user keeps across solves (slices, rows, single components): each is a view of its parent's values
    views = [(vs[0][:2], vs[0], np.s_[:2]), (vs[0][::2], vs[0], np.s_[::2]), (vs[1][0], vs[1], np.s_[0]), (vs[1][:, 1], vs[1], np.s_[:, 1]),
             (vs[3][1:], vs[3], np.s_[1:]), (vs[2][0], vs[2], np.s_[0])]
    saved = Problem._SOLVERS_['ECOS']
    Problem._SOLVERS_['ECOS'] = Stub
    ops_desc, ops_json, outs = [], [], []
    cases, failure = [], None
    kinds = []
    try:
        for _ in range(length):
            k = rng.randrange(len(probs))
            prob = probs[k]
            n = prob.A.shape[1]
            flag = rng.choice(FLAGS if rng.random() < 0.6 else [0, 0, 10])
            x = [rng.randint(-8, 8) / 2.0 for _ in range(n)]
            pcost = float(np.dot(prob.c, x)) if rng.random() < 0.7 else rng.randint(-6, 6) / 2.0
            if flag not in (0, 10) and rng.random() < 0.5:
                pcost = rng.choice([math.nan, math.inf, -math.inf, 1.5])
            Stub.answer = (flag, x, pcost)
            with warnings.catch_warnings():
                warnings.simplefilter('ignore')
                # solve options that only record things (cache_raw_output, cache_apply_data) do not change what a solve reports
                extra = {}
                if rng.random() < 0.35:
                    extra['cache_raw_output'] = True
                if rng.random() < 0.2:
                    extra['cache_apply_data'] = True
                st, val = prob.solve(solver='ECOS', verbose=False, **extra)
            why = oracle_step(prob, st, val, flag, x, pcost)
            if why is None:
                for vw, par, ix in views:
                    for _rep in range(2):
                        got, want = np.asarray(vw.value, dtype=float), np.asarray(par.value, dtype=float)[ix]
                        if got.shape != want.shape or not np.array_equal(got, want, equal_nan=True):
                            why = ('flag %d: a sub-Variable object of %s kept from before the solve holds %r while the Variable holds %r at the same positions'
                                   % (flag, par.name, got.tolist(), want.tolist()))
            if why and failure is None:
                failure = why
            kinds.append('load' if flag in (0, 10) else 'nan')
            ops_desc.append((prob_desc(prob, names), (flag, [Fraction(t) for t in x], xval(pcost))))
            ops_json.append({'problem': k, 'flag': flag, 'x': x, 'pcost': repr(pcost)})
            outs.append((Nat(STATUS_CODE[st]), xval(val)))
            cases.append((list(ops_json), cq((list(ops_desc), ids)), cq((list(outs), observe(vs)))))
    finally:
        Problem._SOLVERS_['ECOS'] = saved
    shared = len(probs) > 1
    mixed = ('load' in kinds and 'nan' in kinds)
    return cases, failure, {'mixed': mixed and shared, 'nprobs': len(probs), 'ops': ops_json}


# ------------------------------------------------------------------ real ECOS toys with closed-form optima
def toys():
    import sageopt.coniclifts as cl
    out = []
    x = cl.Variable(shape=(3,), name='x')
    out.append(('lp_min', cl.Problem(cl.MIN, x[0] + 2 * x[1], [x[0] >= 1, x[1] >= -2, x[0] <= 5]), 'solved', -3.0, x, [1, -2, 0]))
    x = cl.Variable(shape=(2,), name='x')
    out.append(('lp_max_offset', cl.Problem(cl.MAX, x[0] + 1.5, [x[0] <= 4, x[0] >= 0]), 'solved', 4.0, x, [4, 0]))
    x = cl.Variable(shape=(1,), name='x')
    out.append(('infeasible_min', cl.Problem(cl.MIN, x[0], [x[0] >= 1, x[0] <= 0]), 'solved', math.inf, x, None))
    x = cl.Variable(shape=(1,), name='x')
    out.append(('infeasible_max', cl.Problem(cl.MAX, x[0], [x[0] >= 1, x[0] <= 0]), 'solved', -math.inf, x, None))
    x = cl.Variable(shape=(1,), name='x')
    out.append(('unbounded_min', cl.Problem(cl.MIN, x[0], [x[0] <= 0]), 'solved', -math.inf, x, None))
    x = cl.Variable(shape=(1,), name='x')
    out.append(('unbounded_max', cl.Problem(cl.MAX, x[0], [x[0] >= 0]), 'solved', math.inf, x, None))
    x = cl.Variable(shape=(2,), name='x')
    y = cl.Variable(shape=(2,), name='y')
    out.append(('adjacent_soc', cl.Problem(cl.MAX, x[0] + y[0], [cl.vector2norm(x) <= 1, cl.vector2norm(y) <= 2]), 'solved', 3.0, x, [1, 0]))
    # rows without any Variable: a true statement (0 <= 1) changes nothing, a false one (0 <= -2) makes the problem infeasible
    x = cl.Variable(shape=(2,), name='x')
    G = np.array([[1.0, 0.0], [0.0, 0.0], [0.0, 1.0]])
    out.append(('constant_row_true', cl.Problem(cl.MAX, x[0] + x[1], [G @ x <= np.array([4.0, 1.0, 3.0]), x >= 0]), 'solved', 7.0, x, [4, 3]))
    x = cl.Variable(shape=(2,), name='x')
    out.append(('constant_row_false', cl.Problem(cl.MAX, x[0] + x[1], [G @ x <= np.array([4.0, -2.0, 3.0]), x >= 0]), 'solved', -math.inf, x, None))
    x = cl.Variable(shape=(2,), name='x')
    out.append(('constant_row_equal', cl.Problem(cl.MIN, x[0] + x[1], [G @ x == np.array([1.0, 0.0, 2.0])]), 'solved', 3.0, x, [1, 2]))
    # a Variable that occurs only inside a nonlinear atom on the RIGHT-hand side still receives its value
    yv = cl.Variable(shape=(2,), name='y')
    tv = cl.Variable(shape=(1,), name='t')
    out.append(('rhs_atom_only', cl.Problem(cl.MIN, tv[0], [tv >= cl.vector2norm(yv - np.array([3.0, 4.0])) + 1.0]), 'solved', 1.0, yv, [3, 4]))
    # a norm with a constant non-zero component: sqrt(x^2 + 1)
    xv = cl.Variable(shape=(1,), name='x')
    sv = cl.Variable(shape=(1,), name='s')
    out.append(('norm_constant_component', cl.Problem(cl.MIN, sv[0], [cl.vector2norm(cl.hstack((xv, np.array([1.0])))) <= sv, xv >= 0.75]), 'solved', 1.25, xv, [0.75]))
    xv = cl.Variable(shape=(1,), name='x')
    out.append(('norm_constant_component_infeasible', cl.Problem(cl.MIN, xv[0], [cl.vector2norm(cl.hstack((xv, np.array([3.0])))) <= 2]), 'solved', math.inf, xv, None))
    x = cl.Variable(shape=(1,), name='x')
    t = cl.Variable(shape=(1,), name='t')
    out.append(('exp_epi', cl.Problem(cl.MIN, t[0], [cl.weighted_sum_exp(np.array([1.0]), x) <= t[0], x[0] >= 1]), 'solved', math.e, x, [1]))
    return out


def shared_constraint_toys():
    import sageopt.coniclifts as cl
    out = []
    x = cl.Variable(shape=(2,), name='x')
    ca, cb, cc = x[0] <= 4, x[1] <= 3, x[0] + x[1] <= 5
    p1 = cl.Problem(cl.MAX, x[0] + x[1], [ca, cb])
    out.append(('shared_constraints_first', p1.solve(solver='ECOS', verbose=False), 7.0))
    p2 = cl.Problem(cl.MAX, x[0] + x[1], [ca, cb, cc])
    out.append(('shared_constraints_second', p2.solve(solver='ECOS', verbose=False), 5.0))
    p3 = cl.Problem(cl.MAX, 2 * x[0] + x[1], [cc, cb, ca])
    out.append(('shared_constraints_reordered', p3.solve(solver='ECOS', verbose=False), 9.0))
    out.append(('shared_constraints_first_again', p1.solve(solver='ECOS', verbose=False), 7.0))
    # two separately built constraints with EQUAL atoms, each compiled in a Problem of its own first, then listed together (both orders)
    ze = cl.Variable(shape=(1,), name='ze')
    e1 = cl.weighted_sum_exp(np.array([1.0]), ze) <= 2
    e2 = cl.weighted_sum_exp(np.array([1.0]), ze) <= 5
    out.append(('equal_atoms_first_alone', cl.Problem(cl.MAX, ze[0], [e1]).solve(solver='ECOS', verbose=False), math.log(2.0)))
    out.append(('equal_atoms_second_alone', cl.Problem(cl.MAX, ze[0], [e2]).solve(solver='ECOS', verbose=False), math.log(5.0)))
    out.append(('equal_atoms_together', cl.Problem(cl.MAX, ze[0], [e2, e1]).solve(solver='ECOS', verbose=False), math.log(2.0)))
    out.append(('equal_atoms_together_other_order', cl.Problem(cl.MAX, ze[0], [e1, e2]).solve(solver='ECOS', verbose=False), math.log(2.0)))
    # one nonlinear EXPRESSION object used to state constraints of successive Problems (the constraints are different objects, the Expression is the
    # user's): min r s.t. |x - a| - r <= slack, x0 + x1 = 1 has optimum 1.5 - slack
    from sageopt.coniclifts.operators.abs import abs as cl_abs_
    xg = cl.Variable(shape=(2,), name='gap_x')
    rg = cl.Variable(shape=(), name='gap_r')
    gap = cl_abs_(xg - np.array([2.0, 2.0])) - rg
    for k_, slack in enumerate((0.0, 0.5, 0.0, 0.25)):
        got = cl.Problem(cl.MIN, rg, [gap <= slack, xg[0] + xg[1] == 1]).solve(solver='ECOS', verbose=False)
        out.append(('shared_expression_%d (slack %g)' % (k_, slack), got, 1.5 - slack))
    # sum of exponentials with a repeated argument: exp(x0) + exp(x0) + 2 exp(x1) <= 1, max x0 + x1 = log(1/4) + log(1/4)
    y = cl.Variable(shape=(2,), name='y')
    alpha = np.array([[1.0, 0.0], [1.0, 0.0], [0.0, 1.0]])
    p4 = cl.Problem(cl.MAX, y[0] + y[1], [cl.weighted_sum_exp(np.array([1.0, 1.0, 2.0]), alpha @ y) <= 1])
    out.append(('repeated_exp_argument', p4.solve(solver='ECOS', verbose=False), 2 * math.log(0.25)))
    return out


def real_ecos_stream(ctx):
    fails = []
    with warnings.catch_warnings():
        warnings.simplefilter('ignore')
        for name, prob, est, ev, var, evals in toys():
            st, val = prob.solve(solver='ECOS', verbose=False)
            ctx.count('real_ecos', name)
            ok = st == est and (same(val, ev) or (math.isfinite(ev) and abs(val - ev) <= 1e-5 * (1 + abs(ev))))
            if not ok:
                fails.append('%s: reported (%s, %r), expected (%s, %r)' % (name, st, val, est, ev))
                continue
            got = np.asarray(var.value, dtype=float)
            if evals is None:
                if not np.all(np.isnan(got)):
                    fails.append('%s: values %r should be NaN' % (name, got.tolist()))
            elif not np.allclose(got, evals, atol=1e-4):
                fails.append('%s: values %r, expected %r (non-participating components must be 0)' % (name, got.tolist(), evals))
        import sageopt.coniclifts as cl
        # constraint objects shared by successive Problems (the second list is longer, so the shared ones sit at other row offsets),
        # and an exponential sum with a repeated argument; optima known in closed form
        try:
            shared = shared_constraint_toys()
        except Exception as e:
            shared = []
            fails.append('shared_constraints: building or solving a Problem that re-uses constraint objects raised %r' % (e,))
        for name, got, want in shared:
            ctx.count('real_ecos', name)
            if not (got[0] == 'solved' and abs(got[1] - want) <= 1e-5 * (1 + abs(want))):
                fails.append('%s: reported (%s, %r), expected (solved, %r)' % (name, got[0], got[1], want))
        # Variables that occur ONLY in an earlier argument of a multi-argument atom (the first argument of relent, the leading components of a norm) and in
        # no linear constraint still receive their values, also when they hold stale values from an earlier Problem
        from scipy.optimize import brentq
        xr = cl.Variable(shape=(2,), name='fa_x')
        yr = cl.Variable(shape=(2,), name='fa_y')
        st, val = cl.Problem(cl.MAX, xr[0] + xr[1], [cl.relent(xr, yr) <= 1, yr == np.array([1.0, 1.0])]).solve(solver='ECOS', verbose=False)
        x_star = brentq(lambda t_: t_ * math.log(t_) - 0.5, 1.0, 3.0)
        ctx.count('real_ecos', 'first_argument_only')
        if not (st == 'solved' and abs(val - 2 * x_star) <= 1e-4 and np.allclose(np.asarray(xr.value, dtype=float), x_star, atol=1e-3)):
            fails.append('max x0 + x1 s.t. relent(x, y) <= 1, y = (1, 1) (x occurs only in the FIRST argument of relent): reported (%s, %r) with x = %r; the optimum is %r at x = (%r, %r)'
                         % (st, val, np.asarray(xr.value).tolist(), 2 * x_star, x_star, x_star))
        ur = cl.Variable(shape=(2,), name='fa_u')
        wr = cl.Variable(shape=(1,), name='fa_w')
        tr_ = cl.Variable(shape=(1,), name='fa_t')
        cl.Problem(cl.MIN, ur[0] + ur[1], [ur >= 10]).solve(solver='ECOS', verbose=False)        # leaves u = (10, 10)
        st, val = cl.Problem(cl.MIN, tr_[0], [cl.vector2norm(cl.hstack((ur - np.array([1.0, 2.0]), wr - 3.0))) <= tr_, wr >= 4]).solve(solver='ECOS', verbose=False)
        uv = np.asarray(ur.value, dtype=float)
        if not (st == 'solved' and abs(val - 1.0) <= 1e-4 and np.allclose(uv, [1.0, 2.0], atol=1e-3)):
            fails.append('min t s.t. |(u - (1, 2), w - 3)| <= t, w >= 4 after an earlier Problem left u = (10, 10): reported (%s, %r) with u = %r; the optimum is 1 at u = (1, 2)'
                         % (st, val, uv.tolist()))
        # set-membership constraints through Problem.solve: a dual product cone whose zero cone comes FIRST (y0 free, the rest constrained), an LP in both
        # senses and an exponential-cone program with closed-form optima; the returned point lies in the cone and carries the reported value
        from sageopt.coniclifts.constraints.set_membership.product_cone import DualProductCone
        yd = cl.Variable(shape=(3,), name='dpc_y1')
        Kd = [cl.Cone('0', 1), cl.Cone('+', 2)]
        st, val = cl.Problem(cl.MIN, yd[0] + 2 * yd[1] + 3 * yd[2], [DualProductCone(yd, Kd), yd >= -5, yd <= 5]).solve(solver='ECOS', verbose=False)
        yv = np.asarray(yd.value, dtype=float)
        ctx.count('real_ecos', 'dual_product_cone_zero_first')
        if not (st == 'solved' and abs(val + 5.0) <= 1e-5 and np.all(yv[1:] >= -1e-5) and abs(float(yv @ np.array([1.0, 2.0, 3.0])) - val) <= 1e-5):
            fails.append('min y0 + 2y1 + 3y2 s.t. y in (0 x R^2_+)^* = R x R^2_+, -5 <= y <= 5: reported (%s, %r) at y = %r; the optimum is -5 at (-5, 0, 0)' % (st, val, yv.tolist()))
        yd2 = cl.Variable(shape=(3,), name='dpc_y2')
        st, val = cl.Problem(cl.MAX, -yd2[2] - yd2[0], [DualProductCone(yd2, Kd), yd2 >= -5, yd2 <= 5]).solve(solver='ECOS', verbose=False)
        yv = np.asarray(yd2.value, dtype=float)
        if not (st == 'solved' and abs(val - 5.0) <= 1e-5 and np.all(yv[1:] >= -1e-5)):
            fails.append('max -y2 - y0 s.t. y in R x R^2_+, -5 <= y <= 5: reported (%s, %r) at y = %r; the optimum is 5' % (st, val, yv.tolist()))
        ye = cl.Variable(shape=(5,), name='dpc_ye')
        Ke = [cl.Cone('0', 2), cl.Cone('e', 3)]
        st, val = cl.Problem(cl.MIN, ye[3] + ye[0], [DualProductCone(ye, Ke), ye[2] == -1, ye[4] == 1, ye >= -2, ye <= 2]).solve(solver='ECOS', verbose=False)
        if not (st == 'solved' and abs(val - (math.exp(-2.0) - 2.0)) <= 1e-4):
            fails.append('min y3 + y0 s.t. y in (0^2 x K_exp)^*, y2 = -1, y4 = 1, -2 <= y <= 2: reported (%s, %r); the optimum is exp(-2) - 2 = %r' % (st, val, math.exp(-2.0) - 2.0))
        # an objective in which a ScalarVariable cancels (telescoping sums) and that ScalarVariable occurs in no constraint: the model may be refused
        # at construction, but a reported optimum must be the optimum of the objective as written (here 4, attained at w0 = 1, w2 = 5)
        for order in (0, 1, 2):
            w = cl.Variable(shape=(3,), name='w_tel%d' % order)
            obj = [(w[2] - w[1]) + (w[1] - w[0]), (w[1] - w[0]) + (w[2] - w[1]), -w[0] + w[1] + w[2] - w[1]][order]
            ctx.count('real_ecos', 'cancelled_objective_term')
            try:
                pr = cl.Problem(cl.MAX, obj, [w[0] >= 1, w[2] <= 5, w[0] <= w[2]])
            except ValueError:
                continue
            except Exception as e:
                fails.append('cancelled objective term: constructing the Problem raised %r' % (e,))
                continue
            st, val = pr.solve(solver='ECOS', verbose=False)
            wv = np.asarray(w.value, dtype=float)
            if not (st == 'solved' and abs(val - 4.0) <= 1e-5 and abs((wv[2] - wv[0]) - val) <= 1e-5):
                fails.append('cancelled objective term (max (w2 - w1) + (w1 - w0), 1 <= w0 <= w2 <= 5, written in order %d): reported (%s, %r) with w = %r; '
                             'the optimum is 4 and the reported value must be the objective at the returned point' % (order, st, val, wv.tolist()))
        # forced failure: max_iters=1
        x = cl.Variable(shape=(2,), name='x')
        prob = cl.Problem(cl.MIN, x[0], [cl.vector2norm(x) <= 1, cl.weighted_sum_exp(np.array([1.0]), x[1:]) <= 3])
        st, val = prob.solve(solver='ECOS', verbose=False, max_iters=1)
        ctx.count('real_ecos', 'max_iters=1 -> ' + st)
        if st == 'solver failure' and not (math.isnan(val) and np.all(np.isnan(x.value))):
            fails.append('forced failure: value %r / variables %r should be NaN' % (val, x.value.tolist()))
        # the options of one call do not outlive it: the same Problem solved again without a limit reaches the optimum
        st2, val2 = prob.solve(solver='ECOS', verbose=False)
        ctx.count('real_ecos', 'solve after a forced failure -> ' + st2)
        if st == 'solver failure' and not (st2 == 'solved' and abs(val2 + 1.0) <= 1e-5 and np.all(np.isfinite(x.value))):
            fails.append('after solve(max_iters=1) failed, a plain solve() of the same Problem reports (%s, %r) with x = %r; expected (solved, -1)'
                         % (st2, val2, x.value.tolist()))
        # ... also when the raw solver output is being recorded
        stc, valc = prob.solve(solver='ECOS', verbose=False, max_iters=1, cache_raw_output=True)
        std, vald = prob.solve(solver='ECOS', verbose=False, cache_raw_output=True)
        if stc == 'solver failure' and not (std == 'solved' and abs(vald + 1.0) <= 1e-5 and np.all(np.isfinite(x.value))):
            fails.append('after solve(max_iters=1, cache_raw_output=True) failed, solve(cache_raw_output=True) of the same Problem reports (%s, %r) with x = %r; '
                         'expected (solved, -1)' % (std, vald, x.value.tolist()))
        st3, val3 = prob.solve(solver='ECOS', verbose=False, max_iters=1)
        st4, val4 = prob.solve(solver='ECOS', verbose=False, max_iters=200)
        if st3 == 'solver failure' and not (st4 == 'solved' and abs(val4 + 1.0) <= 1e-5):
            fails.append('solve(max_iters=200) after solve(max_iters=1) reports (%s, %r); expected (solved, -1)' % (st4, val4))
    return fails


# ------------------------------------------------------------------ MOSEK interface with a scripted task (MOSEK itself is absent)
MOSEK_HEADER = ('From Coq Require Import List Bool Arith.\n'
                'From SageVerif Require Import Gen.GenEcosParse Gen.GenProblemSolve Gen.GenMosek Model.SolverForms Proofs.MosekSpec Base.Corr.\n'
                'Import ListNotations.\n'
                'Definition sol_of (k : nat) : solsta := nth k [MOptimal; MIntegerOptimal; MDualInfeasCer; MPrimInfeasCer] MOtherSolsta.\n'
                'Definition st_code (s : status) : nat := match s with Solved => 0 | Inaccurate => 1 | Failed => 2 end.\n'
                'Definition rep_code (r : reported) : nat := match r with RObjective false => 0 | RObjective true => 1 | RPlusInf => 2 '
                '| RMinusInf => 3 | RNaN => 4 end.\n'
                'Definition rd_code (r : mread) : nat := match r with ReadXX => 0 | ReadY => 1 | ReadNone => 2 end.\n'
                '(* input: ((has_integers, has_dualize, dualize_val), (slack_dim, ncols), is_min, solsta index) *)\n'
                'Definition model (x : (bool * bool * bool) * (nat * nat) * bool * nat) :=\n'
                '  let \'(fl, dims, is_min, k) := x in let \'(hi, hd, dv) := fl in\n'
                '  let dual := mosek_decide_dual hi hd dv (fst dims) (snd dims) in\n'
                '  let \'(st, rep, loaded) := mosek_reported dual is_min (sol_of k) in\n'
                '  let \'(_, _, _, rd) := if dual then mosek_dual_parse (sol_of k) else mosek_primal_parse (sol_of k) in\n'
                '  (dual, (st_code st, rep_code rep), (loaded, rd_code rd)).\n'
                'Definition out_eqb := pair_eqb (pair_eqb Bool.eqb (pair_eqb Nat.eqb Nat.eqb)) (pair_eqb Bool.eqb Nat.eqb).')
SOLSTA_NAMES = ['optimal', 'integer_optimal', 'dual_infeas_cer', 'prim_infeas_cer', 'unknown', 'prim_feas', 'dual_feas',
                'prim_and_dual_feas', 'prim_illposed_cer', 'dual_illposed_cer']


def fake_mosek():
    """a stand-in for the `mosek` module: only the names the parse functions look up"""
    import types
    m = types.ModuleType('mosek')

    class _Enum:
        def __init__(self, prefix, names):
            for n in names:
                setattr(self, n, '%s.%s' % (prefix, n))
    m.solsta = _Enum('solsta', SOLSTA_NAMES)
    m.soltype = _Enum('soltype', ['itr', 'itg', 'bas'])
    return m


class FakeTask:
    """answers getsolsta/getprimalobj/getxxslice/gety from a script and records which vector was read.  The status is only
    available for the solution type MOSEK would have produced (itg for mixed-integer problems, itr otherwise)."""

    def __init__(self, soltype, solsta, obj, xx, y):
        self.soltype, self.solsta, self.obj, self.xx, self.y = soltype, solsta, obj, xx, y
        self.read = []

    def getsolsta(self, sol):
        return self.solsta if sol == self.soltype else 'solsta.unknown'

    def getprimalobj(self, sol):
        return self.obj if sol == self.soltype else float('nan')

    def getxxslice(self, sol, first, last, out):
        self.read.append('xx')
        for i in range(first, last):
            out[i - first] = self.xx[i] if sol == self.soltype else float('nan')

    def gety(self, sol, out):
        self.read.append('y')
        for i in range(len(out)):
            out[i] = self.y[i] if sol == self.soltype else float('nan')


class MStub:
    script = None
    seen = None

    @staticmethod
    def apply(c, A, b, K, params):
        from sageopt.coniclifts.problems.solvers.mosek import Mosek
        return Mosek.apply(c, A, b, K, params)

    @staticmethod
    def solve_via_data(data, params):
        solsta, obj, rng_vals = MStub.script
        integer = 'integer_indices' in data
        if data['form'] == 'primal':
            nx, ny = data['A'].shape[1], data['A'].shape[0]
        else:
            nx, ny = data['G'].shape[1], data['G'].shape[0]
        xx = [rng_vals[i % len(rng_vals)] for i in range(nx)]
        y = [rng_vals[(i + 3) % len(rng_vals)] + 0.25 for i in range(ny)]
        task = FakeTask('soltype.itg' if integer else 'soltype.itr', 'solsta.' + solsta, obj, xx, y)
        MStub.seen = {'form': data['form'], 'task': task, 'integer': integer, 'xx': xx, 'y': y}
        out = {'env': None, 'task': task, 'params': params}
        if data['form'] == 'primal':
            out['integer'] = integer
        return out

    @staticmethod
    def parse_result(solver_output, inv_data, var_mapping):
        from sageopt.coniclifts.problems.solvers.mosek import Mosek
        return Mosek.parse_result(solver_output, inv_data, var_mapping)

    @staticmethod
    def is_installed():
        return True


def mosek_worlds():
    """problems whose automatic primal/dual decision differs (slack_dim <= or > number of columns), one with integer Variables"""
    import sageopt.coniclifts as cl
    out = []
    x = cl.Variable(shape=(3,), name='x')
    out.append(('lp', cl.Problem(cl.MIN, x[0] + 2 * x[1], [x[0] >= 1, x[1] >= -2, x[0] <= 5]), {}))
    x = cl.Variable(shape=(3,), name='x')
    out.append(('lp_max', cl.Problem(cl.MAX, x[0] - x[2] + 1.5, [x[0] <= 4, x[2] >= 0, x[1] == 1]), {}))
    x = cl.Variable(shape=(2,), name='x')
    y = cl.Variable(shape=(2,), name='y')
    out.append(('two_soc', cl.Problem(cl.MAX, x[0] + y[0], [cl.vector2norm(x) <= 1, cl.vector2norm(y) <= 2]), {}))
    x = cl.Variable(shape=(1,), name='x')
    t = cl.Variable(shape=(1,), name='t')
    out.append(('exp', cl.Problem(cl.MIN, t[0], [cl.weighted_sum_exp(np.array([1.0, 2.0]), cl.hstack((x, -x))) <= t[0], x[0] >= -1]), {}))
    x = cl.Variable(shape=(4,), name='x')
    out.append(('wide_soc', cl.Problem(cl.MIN, x[3], [cl.vector2norm(x[:3]) <= x[3], x[0] >= 1]), {}))
    z = cl.Variable(shape=(2,), name='z')
    w = cl.Variable(shape=(1,), name='w')
    out.append(('integers', cl.Problem(cl.MIN, z[0] + w[0], [z[0] >= 0.5, z[1] >= 0, w[0] >= z[1]], integer_variables=[z]), {}))
    z = cl.Variable(shape=(2,), name='z')
    out.append(('integers_soc', cl.Problem(cl.MAX, z[0], [cl.vector2norm(z) <= 2.5], integer_variables=[z]), {}))
    return out


def mosek_stream(ctx):
    """every (problem, dualize option, solution status): Problem.solve(solver='MOSEK') against the scripted task.  Checks the property
    itself (status / value / loaded values by the MEANING of the MOSEK status for the problem sageopt posed) and collects the cases for
    the correspondence with the generated tables."""
    import sys
    import sageopt.coniclifts as cl
    from sageopt.coniclifts.problems.problem import Problem
    fails, cases = [], []
    saved = Problem._SOLVERS_['MOSEK']
    saved_mod = sys.modules.get('mosek')
    sys.modules['mosek'] = fake_mosek()
    Problem._SOLVERS_['MOSEK'] = MStub
    try:
        with warnings.catch_warnings():
            warnings.simplefilter('ignore')
            for name, prob, _ in mosek_worlds():
                is_min = prob.objective_sense == cl.MIN
                n = prob.A.shape[1]
                slack_dim = sum(co.len for co in prob.K if co.type in ('e', 'S'))
                has_int = prob._integer_indices is not None
                for dz in (None, True, False):
                    for k, solsta in enumerate(SOLSTA_NAMES):
                        obj = ctx.rng.choice([-4.5, -2.0, -0.5, 0.5, 1.5, 3.0])
                        vals = [ctx.rng.randint(-8, 8) / 2.0 for _ in range(7)]
                        MStub.script = (solsta, obj, vals)
                        kwargs = {} if dz is None else {'dualize': dz}
                        st, val = prob.solve(solver='MOSEK', verbose=False, **kwargs)
                        seen = MStub.seen
                        exp_dual = False if has_int else (dz if dz is not None else slack_dim > n)
                        tag = '%s dualize=%r solsta=%s' % (name, dz, solsta)
                        ctx.count('mosek.form', seen['form'])
                        ctx.count('mosek.solsta', solsta)
                        if (seen['form'] == 'dual') != exp_dual:
                            fails.append('%s: form %s chosen, expected %s' % (tag, seen['form'], 'dual' if exp_dual else 'primal'))
                            continue
                        dual = seen['form'] == 'dual'
                        # meaning of the MOSEK status for the problem sageopt posed
                        if solsta in ('optimal', 'integer_optimal'):
                            est, ev = 'solved', (obj if is_min else -obj)
                            src = seen['y'] if dual else seen['xx']
                            x0 = list(src[:n]) + [0.0]
                        elif solsta == 'prim_infeas_cer':
                            infeasible = not dual
                            est, ev, x0 = 'solved', ((math.inf if is_min else -math.inf) if infeasible else (-math.inf if is_min else math.inf)), None
                        elif solsta == 'dual_infeas_cer':
                            infeasible = dual
                            est, ev, x0 = 'solved', ((math.inf if is_min else -math.inf) if infeasible else (-math.inf if is_min else math.inf)), None
                        else:
                            est, ev, x0 = 'solver failure', math.nan, None
                        if st != est or not same(float(val), float(ev)):
                            fails.append('%s (%s form): reported (%s, %r), property requires (%s, %r)' % (tag, seen['form'], st, val, est, ev))
                        for v in prob.all_variables:
                            got = np.asarray(v.value, dtype=float)
                            if x0 is None:
                                if not np.all(np.isnan(got)):
                                    fails.append('%s: Variable %s holds %r, property requires NaN' % (tag, v.name, got.tolist()))
                            else:
                                vm = prob.variable_map[v.name]
                                want = np.array([x0[c] if c >= 0 else 0.0 for c in vm.ravel().tolist()]).reshape(vm.shape)
                                if not np.array_equal(got, want):
                                    fails.append('%s (%s form): Variable %s holds %r, expected %r' % (tag, seen['form'], v.name, got.tolist(), want.tolist()))
                        # case for the generated tables
                        if math.isnan(val):
                            rep = 4
                        elif val == math.inf:
                            rep = 2
                        elif val == -math.inf:
                            rep = 3
                        else:
                            rep = 0 if val == obj else (1 if val == -obj else 9)
                        rd = seen['task'].read
                        rdc = 2 if not rd else (0 if rd == ['xx'] else (1 if rd == ['y'] else 9))
                        loaded = bool(prob.variable_values)
                        cin = (((has_int, dz is not None, bool(dz)), (Nat(slack_dim), Nat(n))), is_min, Nat(min(k, 4)))
                        cout = (dual, (Nat(STATUS_CODE[st]), Nat(rep)), (loaded, Nat(rdc)))
                        cases.append((tag, cq(cin), cq(cout)))
    finally:
        Problem._SOLVERS_['MOSEK'] = saved
        if saved_mod is None:
            sys.modules.pop('mosek', None)
        else:
            sys.modules['mosek'] = saved_mod
    return fails, cases


def run_mosek(ctx):
    fails, cases = mosek_stream(ctx)
    ctx.evaluations += len(cases)
    T_in = '(bool * bool * bool) * (nat * nat) * bool * nat'
    T_out = 'bool * (nat * nat) * (bool * nat)'
    mism, err = vlib.run_suite_in_coq(ctx.pid, 'mosek_tables', MOSEK_HEADER, 'model', 'out_eqb', T_in, T_out,
                                      [(c[1], c[2]) for c in cases], shard=300)
    ctx.suites['mosek_tables'] = {'cases': len(cases), 'mismatches': None if mism is None else len(mism), 'oracle_failures': len(fails),
                                  'note': 'Problem.solve(solver=MOSEK) with a scripted mosek module/task: the real Mosek.apply, parse_result and '
                                          'Problem.solve run; the tables generated from mosek.py are compared with what they do'}
    if err:
        ctx.problem('correspondence', 'suite mosek_tables: ' + err)
    else:
        for idx in mism[:3]:
            model_out = vlib.coq_show(MOSEK_HEADER, 'model %s' % cases[idx][1])
            ctx.problem('correspondence', 'suite mosek_tables: generated table and implementation disagree on %s; impl=%s model=%s'
                        % (cases[idx][0], cases[idx][2], model_out[:300]), inputs={'mosek_case': cases[idx][0]}, failing_input_found=False)
    for f in fails[:3]:
        ctx.problem('oracle', 'scripted MOSEK stream: ' + f, inputs={'mosek_case': f.split(':')[0]}, failing_input_found=True)


def run(ctx):
    run_mosek(ctx)
    cases = []
    nh = ctx.n(60, 600)
    for h in range(nh):
        hc, failure, meta = run_history(ctx.rng, ctx.rng.randint(3, 8))
        ctx.count('history.nprobs', meta['nprobs'])
        ctx.count('history.mixed', meta['mixed'])
        if meta['mixed']:
            ctx.nontrivial.add(vlib.sha(meta['ops']))
        for c in hc:
            ctx.count('flag', c[0][-1]['flag'])
        cases += [(c[0], c[1], c[2]) for c in hc]
        if failure:
            ctx.problem('oracle', 'property fails on the implementation: ' + failure, inputs={'history': meta['ops']},
                        failing_input_found=True)
            break
    ctx.evaluations += len(cases)
    T_in = 'list ((bool * list (nat * list (Z * Z))) * (Z * list Q * xval)) * list Z'
    T_out = 'list (nat * xval) * list xval'
    mism, err = vlib.run_suite_in_coq(ctx.pid, 'solve_sm', HEADER, 'model', 'out_eqb', T_in, T_out,
                                      [(c[1], c[2]) for c in cases], shard=100)
    ctx.suites['solve_sm'] = {'cases': len(cases), 'mismatches': None if mism is None else len(mism)}
    if err:
        ctx.problem('correspondence', 'suite solve_sm: ' + err)
    else:
        if cases:
            ctx.samples.append({'suite': 'solve_sm', 'history': cases[len(cases) // 2][0]})
        for idx in mism[:3]:
            model_out = vlib.coq_show(HEADER, 'model %s' % cases[idx][1])
            ctx.problem('correspondence', 'suite solve_sm: model and implementation disagree after history %s; impl=%s model=%s'
                        % (cases[idx][0], cases[idx][2][:500], model_out[:500]), inputs={'history': cases[idx][0]},
                        failing_input_found=False)
    fails = real_ecos_stream(ctx)
    ctx.suites['real_ecos_toys'] = {'cases': 9, 'failures': len(fails)}
    ctx.evaluations += 9
    for f in fails[:3]:
        ctx.problem('oracle', 'real ECOS stream: ' + f, inputs={'toy': f.split(':')[0]}, failing_input_found=True)


def search(ctx):
    for _ in range(150):
        hc, failure, meta = run_history(ctx.rng, ctx.rng.randint(3, 8))
        if failure:
            return {'history': meta['ops'], 'property_failure': failure}
    fails = real_ecos_stream(ctx)
    if fails:
        return {'toy': fails[0].split(':')[0], 'property_failure': fails[0]}
    fails, _ = mosek_stream(ctx)
    if fails:
        return {'mosek_case': fails[0].split(':')[0], 'property_failure': fails[0]}
    return None


def replay(payload):
    print('replay: re-running the C09 streams (histories are regenerated from the seed in the replay file)')
    ctx = vlib.Ctx('C09', 'quick', int(payload.get('seed', 0)))
    found = search(ctx)
    print(found or 'property holds on the regenerated histories')
    return 1 if found else 0
