"""C04 — constrained signomial relaxations bound the constrained minimum.
Tie: Model/RelaxCon.v (Lagrangian as a tree of the symbolic algebra; q-fold products; hierarchy_e_k) vs
sage_sigs.make_sig_lagrangian / constraint_generators.up_to_q_fold_cons / hierarchy_e_k.
Oracle: the Lagrangian identity at random rational points for random values of gamma and of the multiplier coefficients;
solved primal and dual values against sampled feasible points; primal <= dual."""
import math
import warnings
from fractions import Fraction

import numpy as np

from harness import vlib
from harness.vlib import Nat, cq, Raw
from harness.props import c12, c13, c03

RULE = ('case = (f, gts, eqs, p, q): signomials with half-integer exponents, n<=2, 0-2 inequality and 0-1 equality constraints, '
        'p in {0,1}, q in {1,2}; compared: hierarchy_e_k exponents, the q-fold constraint multiset, the Lagrangian (alpha, coefficient '
        'cells as affine forms of gamma and the multiplier Variables); non-trivial = at least one constraint and p+q >= 2')
TRUSTED = ['correspondence harness harness/props/c04.py (multiplier Variable ids canonicalised by position)', 'ORACLE: ECOS',
           'dual form (moment-reduced dual cones) is tied through C16/C02 and checked by the value oracle; its soundness theorem is not proved here (partial)',
           'strong duality not proved (observed)']
ASSUMPTIONS = ['Model/RelaxCon.v composes hand-written models; tied by correspondence only',
               'the order of the folded constraint list (a Python set) is unspecified: compared as a multiset, and the implementation\'s '
               'order is passed to the Lagrangian model']
HEADER = ('From Coq Require Import List Bool Arith ZArith QArith.\n'
          'From SageVerif Require Import Model.Expr Model.Signomial Model.SolverForms Model.SymSig Model.SymCorr Model.RelaxSig Model.RelaxCon Base.Corr.\nImport ListNotations.\n'
          'Definition ssig_eqb2 (f g : option ssig) : bool := ssig_eqb f g.\n'
          'Definition model (x : nat * qsig * list qsig * list qsig * nat * list (qsig * list Z) * list (qsig * list Z)) :=\n'
          "  let '(n, f, gts0, eqs0, p, gts, eqs) := x in\n"
          '  let L0 := lagrangian0 n f 0%Z in\n'
          '  let E := hierarchy_e_k n (map fst L0 :: map (map fst) (gts0 ++ eqs0)) p in\n'
          '  (E, make_sig_lagrangian n f 0%Z E gts eqs).\n'
          'Definition out_eqb := pair_eqb (list_eqb qrow_eqb) ssig_eqb2.\n'
          '(* primal form at ell >= 1: the Lagrangian times the modulator, as a symbolic product *)\n'
          'Definition model_mod (x : (nat * qsig * list qsig * list qsig * nat * list (qsig * list Z) * list (qsig * list Z)) * qsig) :=\n'
          "  let '(base, t) := x in let '(n, f, gts0, eqs0, p, gts, eqs) := base in\n"
          '  let L0 := lagrangian0 n f 0%Z in\n'
          '  let E := hierarchy_e_k n (map fst L0 :: map (map fst) (gts0 ++ eqs0)) p in\n'
          '  seval false n (YMul (lagrangian_tree f 0%Z E gts eqs) (YNum t)).\n'
          '(* dual form (ell = 0): normalisation vector, objective vector and the moment-reduction arrays of all multipliers,\n'
          '   computed by the model functions of C16 on the basis of the Lagrangian *)\n'
          'Definition mra (n : nat) (L : qsig) (sg : list qrow * qsig) : option (list (list Q)) :=\n'
          '  match moment_reduction_array true n (map (fun r => (r, 1%Q)) (fst sg)) (q_mul n (snd sg) [(repeat 0%Q n, 1%Q)]) L with\n'
          '  | Ok C => Some C | Err _ => None end.\n'
          'Definition model_cdual (x : nat * qsig * list qrow * list (list qrow * qsig) * list (list qrow * qsig)) :=\n'
          "  let '(n, f, Lrows, gms, hms) := x in\n"
          '  let L := map (fun r => (r, 1%Q)) Lrows in\n'
          '  (relative_coeff_vector [(repeat 0%Q n, 1%Q)] Lrows, relative_coeff_vector (q_mul n f [(repeat 0%Q n, 1%Q)]) Lrows,\n'
          '   map (mra n L) gms, map (mra n L) hms).\n'
          'Definition lq_eqb := list_eqb Qeq_bool.\n'
          'Definition cdual_eqb (a b : list Q * list Q * list (option (list (list Q))) * list (option (list (list Q)))) : bool :=\n'
          "  let '(a1, o1, g1, h1) := a in let '(a2, o2, g2, h2) := b in\n"
          '  lq_eqb a1 a2 && lq_eqb o1 o2 && list_eqb (option_eqb (list_eqb lq_eqb)) g1 g2 && list_eqb (option_eqb (list_eqb lq_eqb)) h1 h2.\n'
          '(* multiset equality of folded constraint lists *)\n'
          'Definition sub_ms (a b : list qsig) : bool := forallb (fun g => Nat.eqb (length (filter (q_eqb g) a)) (length (filter (q_eqb g) b))) a.\n'
          'Definition fold_eqb (a b : list qsig) : bool := Nat.eqb (length a) (length b) && sub_ms a b && sub_ms b a.')


def gen_sig(rng, n, m):
    rows = []
    while len(rows) < m:
        a = [Fraction(rng.choice([0, 1, -1, 2, 1]), rng.choice([1, 1, 2])) for _ in range(n)]
        if a not in [r for r, _ in rows]:
            rows.append((a, Fraction(rng.choice([1, -1, 2, -2, 3]))))
    return rows


def build(rng):
    n = rng.randint(1, 2)
    f = gen_sig(rng, n, rng.randint(1, 3))
    if rng.random() < 0.6 and [Fraction(0)] * n not in [r for r, _ in f]:
        f.append(([Fraction(0)] * n, Fraction(rng.choice([1, 2, -1]))))
    gts = [gen_sig(rng, n, rng.randint(1, 3)) + [([Fraction(0)] * n, Fraction(rng.choice([1, 2, 4])))] for _ in range(rng.randint(0, 2))]
    gts = [dedup(g) for g in gts]
    eqs = [dedup(gen_sig(rng, n, 2)) for _ in range(rng.randint(0, 1))]
    p = rng.choice([0, 1])
    q = rng.choice([1, 1, 2])
    if gts and rng.random() < 0.12:
        # a badly scaled constraint: one coefficient 2^-14, so that the products of the q-fold (q = 2) carry coefficients of size 2^-28 < 1e-8;
        # a term with a small coefficient is a term (it is large where its exponent is)
        g0 = gts[0]
        k0 = rng.randrange(len(g0))
        gts[0] = [(a, (Fraction(1, 2 ** 14) * (1 if c > 0 else -1)) if j == k0 else c) for j, (a, c) in enumerate(g0)]
        q = 2
    return n, f, gts, eqs, p, q


def dedup(rows):
    out = []
    for a, c in rows:
        if a not in [r for r, _ in out]:
            out.append((a, c))
    return out


def canon_L(L, idmap):
    from sageopt.coniclifts.base import Expression
    rows = []
    for r, se in zip(np.asarray(L.alpha, dtype=float).tolist(), Expression(L.c).flat):
        a = [Fraction(int(round(x * c12.GRID)), c12.GRID) for x in r]
        d = {}
        for at, co in se.atoms_to_coeffs.items():
            d[idmap[int(at.id)]] = d.get(idmap[int(at.id)], Fraction(0)) + Fraction(float(co))
        rows.append((a, (d, Fraction(float(se.offset)))))
    return rows


def grid_rows(alpha):
    return [[Fraction(int(round(x * c12.GRID)), c12.GRID) for x in r] for r in np.asarray(alpha, dtype=float).tolist()]


def dual_case(fo, go, ho, p, q, n):
    """build the dual form (ell = 0) and read off a, obj and every multiplier's array as matrices over the components of v;
    the (multiplier, constraint) pairs are captured from make_sig_lagrangian as sig_constrained_dual itself receives them"""
    from sageopt.relaxations import sage_sigs as ss
    import sageopt.coniclifts as cl
    captured = {}
    orig = ss.make_sig_lagrangian

    def spy(*a, **k):
        out = orig(*a, **k)
        captured['out'] = out
        return out
    ss.make_sig_lagrangian = spy
    try:
        with warnings.catch_warnings():
            warnings.simplefilter('ignore')
            prob = ss.sig_constrained_dual(fo, go, ho, p, q, 0)
    finally:
        ss.make_sig_lagrangian = orig
    L, ineq, eqm, _ = captured['out']
    v = [u for u in prob.all_variables if u.name == 'v'][0]
    vids = [int(i) for i in np.asarray(v.scalar_variable_ids).ravel().tolist()]

    def row_of(se):
        amap = {}
        for at, co in se.atoms_to_coeffs.items():
            amap[int(at.id)] = amap.get(int(at.id), Fraction(0)) + Fraction(float(co))
        if any(i not in vids for i in amap):
            raise ValueError('a dual-form row mentions a variable other than v')
        return [amap.get(i, Fraction(0)) for i in vids], Fraction(float(se.offset))
    cons = prob.constraints
    if len(cons) != 2 + len(ineq) + len(eqm):
        raise ValueError('unexpected number of constraints in the dual problem: %d' % len(cons))
    gm, hm = [], []
    for k, (s_h, h) in enumerate(ineq):
        con = cons[1 + k]
        rows = [row_of(se) for se in cl.Expression(con.v).flat]
        if any(off != 0 for _, off in rows) or grid_rows(con.alpha) != grid_rows(s_h.alpha):
            raise ValueError('multiplier cone %d is not the cone of c_h @ v over the multiplier\'s exponents' % k)
        gm.append(((grid_rows(s_h.alpha), c12.canon(h)), vlib.Some([r for r, _ in rows])))
    for k, (z_h, h) in enumerate(eqm):
        con = cons[1 + len(ineq) + k]
        rows = [row_of(se) for se in con.expr.flat]
        sign = -1 if con.operator == '<=' else 1
        if con.operator != '==' or any(off != 0 for _, off in rows):
            raise ValueError('equality multiplier %d is not stated as c_h @ v == 0' % k)
        hm.append(((grid_rows(z_h.alpha), c12.canon(h)), vlib.Some([r for r, _ in rows])))
    arow, aoff = row_of(list(cons[-1].expr.flat)[0])
    if cons[-1].operator != '==' or aoff not in (Fraction(-1), Fraction(1)):
        raise ValueError('normalisation constraint is not a.v == 1')
    a = [(-x if aoff == 1 else x) for x in arow]          # a.v - 1 == 0  or  1 - a.v == 0
    vm = prob.variable_map[v.name].ravel().tolist()
    obj = [Fraction(float(prob.c[col])) if col >= 0 else Fraction(0) for col in vm]
    cin = cq((Nat(n), c12.canon(fo), grid_rows(L.alpha), [g for g, _ in gm], [h for h, _ in hm]))
    cout = cq((a, obj, [c for _, c in gm], [c for _, c in hm]))
    return cin, cout, {'L_rows': int(L.m), 'ineq': len(ineq), 'eq': len(eqm)}


def run(ctx):
    from sageopt.relaxations import sage_sigs as ss
    from sageopt.relaxations import constraint_generators as cg
    cases, folds, duals, mods = [], [], [], []
    for k in range(ctx.n(120, 1200)):
        n, f, gts, eqs, p, q = build(ctx.rng)
        fo = c03.sig_obj(f, n)
        go = [c03.sig_obj(g, n) for g in gts]
        ho = [c03.sig_obj(h, n) for h in eqs]
        js = {'n': n, 'f': str(f), 'gts': str(gts), 'eqs': str(eqs), 'p': p, 'q': q}
        with warnings.catch_warnings():
            warnings.simplefilter('ignore')
            try:
                L, ineq, eqm, gamma = ss.make_sig_lagrangian(fo, go, ho, p=p, q=q)
            except Exception as e:
                ctx.count('builder_error', type(e).__name__)
                continue
        if L.m > 60:
            continue
        ctx.count('p,q', (p, q))
        ctx.count('n_constraints', len(gts) + len(eqs))
        if (len(gts) + len(eqs)) >= 1 and p + q >= 2:
            ctx.nontrivial.add(vlib.sha(js))
        idmap = {int(gamma.scalar_variable_ids[0]): 0}
        gl, hl = [], []
        for kk, (s_g, g) in enumerate(ineq):
            ids = [1000 * (kk + 1) + j for j in range(s_g.m)]
            for j, sid in enumerate(s_g.c.scalar_variable_ids):
                idmap[int(sid)] = ids[j]
            gl.append((c12.canon(g), ids))
        for kk, (z_g, g) in enumerate(eqm):
            ids = [100000 * (kk + 1) + j for j in range(z_g.m)]
            for j, sid in enumerate(z_g.c.scalar_variable_ids):
                idmap[int(sid)] = ids[j]
            hl.append((c12.canon(g), ids))
        E = [[Fraction(int(round(x * c12.GRID)), c12.GRID) for x in r] for r in (np.asarray(ineq[0][0].alpha, dtype=float).tolist() if ineq else
                                                                                     (np.asarray(eqm[0][0].alpha, dtype=float).tolist() if eqm else
                                                                                      np.asarray(ss.hierarchy_e_k([fo - gamma] + go + ho, p), dtype=float).tolist()))]
        Lrows = canon_L(L, idmap)
        cin = cq((Nat(n), c12.canon(fo), [c12.canon(g) for g in go], [c12.canon(h) for h in ho], Nat(p), gl, hl))
        cases.append((js, cin, '(%s, Some %s)' % (cq(E), c13.rows_coq(Lrows))))
        folds.append((js, cq((Nat(n), [c12.canon(g) for g in go], Nat(q))), cq([c12.canon(g) for g, in [(x[1],) for x in ineq]])))
        if k % 3 == 0 and L.m <= 25:
            # the modulated Lagrangian of the primal form at ell = 1 (same multipliers, so the same Variable ids)
            from sageopt.symbolic.signomials import Signomial as _Sig
            with warnings.catch_warnings():
                warnings.simplefilter('ignore')
                aE1 = ss.hierarchy_e_k([fo, fo.upcast_to_signomial(1)] + go + ho, k=1)
                tmod = _Sig(aE1, np.ones(aE1.shape[0])) ** 1
                Lm = L * tmod
            if Lm.m <= 120:
                mods.append((dict(js, modulated_terms=int(Lm.m)), '(%s, %s)' % (cin, cq(c12.canon(tmod))), '(Some %s)' % c13.rows_coq(canon_L(Lm, idmap))))
        if k % 2 == 0 and L.m <= 40:
            try:
                dcin, dcout, dmeta = dual_case(fo, go, ho, p, q, n)
                duals.append((dict(js, **dmeta), dcin, dcout))
                ctx.count('dual_form_multipliers', dmeta['ineq'] + dmeta['eq'])
            except ValueError as e:
                ctx.problem('correspondence', 'dual form of the constrained relaxation: %s' % e, inputs=js, failing_input_found=False)
            except Exception as e:
                ctx.count('dual_builder_error', type(e).__name__)
        # oracle: Lagrangian identity with exact rationals
        why = oracle_identity(ctx.rng, n, fo, ineq, eqm, Lrows, idmap)
        if why:
            ctx.problem('oracle', 'property fails on the implementation: ' + why, inputs=js, failing_input_found=True)
            break
        if k % 8 == 0:
            why = oracle_bounds(ctx.rng, n, fo, go, ho, p, q)
            ctx.count('oracle', 'bounds_checked')
            if why:
                ctx.problem('oracle', 'property fails on the implementation: ' + why, inputs=js, failing_input_found=True)
                break
    from harness.props import lattice
    why, nsolves = lattice.lattice_c04(ctx)
    ctx.evaluations += nsolves
    ctx.suites['option_level_lattice'] = {'solves': nsolves, 'failure': why}
    if why:
        ctx.problem('oracle', 'property fails on the implementation: ' + why, inputs={'suite': 'option_level_lattice'}, failing_input_found=True)
    why = oracle_scripted_outcomes(ctx.rng)
    ctx.evaluations += 8
    ctx.suites['scripted_solver_outcomes'] = {'cases': 8, 'failure': why}
    if why:
        ctx.problem('oracle', 'property fails on the implementation: ' + why, inputs={'suite': 'scripted_solver_outcomes'}, failing_input_found=True)
    why = oracle_conditional_levels(ctx.rng)
    ctx.evaluations += 4
    ctx.count('oracle', 'conditional_levels')
    if why:
        ctx.problem('oracle', 'property fails on the implementation: ' + why, inputs={'suite': 'conditional_levels'}, failing_input_found=True)
    why = oracle_metadata(ctx.rng)
    ctx.evaluations += 2
    if why:
        ctx.problem('oracle', 'property fails on the implementation: ' + why, inputs={'suite': 'metadata'}, failing_input_found=True)
    for _ in range(ctx.n(2, 8)):
        why = oracle_levels(ctx.rng)
        ctx.count('oracle', 'level_ladder')
        ctx.evaluations += 8
        if why:
            ctx.problem('oracle', 'property fails on the implementation: ' + why, inputs={'suite': 'level_ladder'}, failing_input_found=True)
            break
    T_in = 'nat * qsig * list qsig * list qsig * nat * list (qsig * list Z) * list (qsig * list Z)'
    for name, cs, model, eqb, tin, tout in (('lagrangian', cases, 'model', 'out_eqb', T_in, 'list qrow * option ssig'),
                                            ('q_fold', folds, "fun x => let '(n, gs, q) := x in q_fold n gs q", 'fold_eqb', 'nat * list qsig * nat', 'list qsig'),
                                            ('lagrangian_modulated', mods, 'model_mod', 'ssig_eqb2', '(%s) * qsig' % T_in, 'option ssig'),
                                            ('constrained_dual', duals, 'model_cdual', 'cdual_eqb',
                                             'nat * qsig * list qrow * list (list qrow * qsig) * list (list qrow * qsig)',
                                             'list Q * list Q * list (option (list (list Q))) * list (option (list (list Q)))')):
        ctx.evaluations += len(cs)
        mism, err = vlib.run_suite_in_coq(ctx.pid, name, HEADER, model, eqb, tin, tout, [(c[1], c[2]) for c in cs], shard=60)
        ctx.suites[name] = {'cases': len(cs), 'mismatches': None if mism is None else len(mism)}
        if err:
            ctx.problem('correspondence', 'suite %s: %s' % (name, err))
            continue
        if cs:
            ctx.samples.append({'suite': name, 'instance': cs[len(cs) // 2][0]})
        for idx in mism[:3]:
            model_out = vlib.coq_show(HEADER, '(%s) %s' % (model, cs[idx][1]))
            ctx.problem('correspondence', 'suite %s: model and implementation disagree on %s; impl=%s model=%s (identity oracle passed)'
                        % (name, cs[idx][0], cs[idx][2][:1500], model_out[:1500]), inputs=cs[idx][0], failing_input_found=False)


def oracle_identity(rng, n, fo, ineq, eqm, Lrows, idmap):
    frows = c12.canon(fo)
    for _ in range(3):
        env = {0: Fraction(rng.randint(-3, 3), rng.choice([1, 2]))}
        for v in idmap.values():
            if v != 0:
                env[v] = Fraction(rng.randint(-3, 3), rng.choice([1, 2]))
        tpt = [Fraction(rng.randint(1, 4), rng.randint(1, 3)) for _ in range(n)]
        ev = lambda rows: sum(c * c12.mono_val(a, tpt, False) for a, c in rows)
        try:
            lhs = sum((sum(c * env[i] for i, c in cell[0].items()) + cell[1]) * c12.mono_val(a, tpt, False) for a, cell in Lrows)
            rhs = ev(frows) - env[0]
            for kk, (s_g, g) in enumerate(ineq):
                sval = sum(env[1000 * (kk + 1) + j] * c12.mono_val(a, tpt, False) for j, (a, _) in enumerate(c12.canon_rows_only(s_g)))
                rhs -= sval * ev(c12.canon(g))
            for kk, (z_g, g) in enumerate(eqm):
                sval = sum(env[100000 * (kk + 1) + j] * c12.mono_val(a, tpt, False) for j, (a, _) in enumerate(c12.canon_rows_only(z_g)))
                rhs -= sval * ev(c12.canon(g))
        except c12.Undefined:
            continue
        if lhs != rhs:
            return 'Lagrangian(x) = %s but f - gamma - sum s_g g - sum z_h h = %s at x=log(t^2), t=%s' % (lhs, rhs, [str(v) for v in tpt])
    return None


def feasible_upper_bound(rng, n, fo, go, ho):
    """min of f over true feasible points: a grid, refined by a local solver when there are no equations (every point used is
    checked against the constraints, so the value is a valid upper bound on the constrained minimum whatever the solver does)"""
    from scipy.optimize import minimize
    pts = []
    for _ in range(400):
        x = np.array([rng.randint(-6, 6) / 4.0 for _ in range(n)])
        if all(float(g(x)) >= 0 for g in go) and all(abs(float(h(x))) <= 1e-12 for h in ho):
            pts.append((float(fo(x)), x))
    pts.sort(key=lambda t: t[0])
    ub = pts[0][0] if pts else math.inf
    if pts and not ho:
        for _, x0 in pts[:3]:
            try:
                res = minimize(lambda x: float(fo(x)), x0, method='SLSQP', bounds=[(-2.0, 2.0)] * n,
                               constraints=[{'type': 'ineq', 'fun': (lambda x, g=g: float(g(x)) - 1e-9)} for g in go], options={'maxiter': 60})
            except Exception:
                continue
            x = np.asarray(res.x, dtype=float)
            if np.all(np.isfinite(x)) and all(float(g(x)) >= 0 for g in go):
                ub = min(ub, float(fo(x)))
    return ub


def oracle_bounds(rng, n, fo, go, ho, p, q):
    from sageopt.relaxations import sage_sigs as ss
    ell = rng.choice([0, 0, 1]) if (p == 0 and q == 1) else 0      # ell >= 1 on top of p >= 1 or q >= 2 takes minutes to solve
    X = None
    with warnings.catch_warnings():
        warnings.simplefilter('ignore')
        if rng.random() < 0.3:
            try:
                X = ss.infer_domain(fo, go, ho)
            except Exception:
                X = None
        try:
            pv = ss.sig_constrained_relaxation(fo, go, ho, X, form='primal', p=p, q=q, ell=ell).solve(verbose=False)
            dv = ss.sig_constrained_relaxation(fo, go, ho, X, form='dual', p=p, q=q, ell=ell).solve(verbose=False)
            ds = ss.sig_constrained_relaxation(fo, go, ho, X, form='dual', p=p, q=q, ell=ell, slacks=True).solve(verbose=False)
        except Exception:
            return None
    opts = '(p=%d, q=%d, ell=%d, X=%s)' % (p, q, ell, 'None' if X is None else 'inferred')
    ub = feasible_upper_bound(rng, n, fo, go, ho)
    for name, (st, val) in (('primal', pv), ('dual', dv), ('dual with slacks', ds)):
        if st == 'solved' and math.isfinite(val) and math.isfinite(ub) and val > ub + 1e-4 * (1 + abs(ub)):
            return '%s value %r %s exceeds f at a feasible point (%r)' % (name, val, opts, ub)
        if st == 'solved' and val == math.inf and math.isfinite(ub):
            return '%s value +inf %s although the problem has a feasible point with f = %r' % (name, opts, ub)
    if pv[0] == 'solved' and dv[0] == 'solved' and math.isfinite(pv[1]) and math.isfinite(dv[1]) and pv[1] > dv[1] + 1e-4 * (1 + abs(dv[1])):
        return 'primal value %r exceeds dual value %r %s' % (pv[1], dv[1], opts)
    # slack variables only relax the dual by a bounded amount that the solver drives to zero: same value (same solver, same tolerance)
    if dv[0] == 'solved' and ds[0] == 'solved' and math.isfinite(dv[1]) and math.isfinite(ds[1]) and ds[1] > dv[1] + 1e-3 * (1 + abs(dv[1])):
        return 'dual value with slacks=True (%r) exceeds the dual value with slacks=False (%r) %s' % (ds[1], dv[1], opts)
    return None


def oracle_scripted_outcomes(rng):
    """what the relaxation reports when the solver says its conic program is (likely) infeasible or (likely) unbounded, for the outcomes that are
    consistent with a feasible constrained problem: the primal form (a maximisation) found infeasible, and the dual form (a minimisation) found
    unbounded, both mean 'no certificate': the reported bound is -inf, never +inf, whether the solver is sure (flags 1, 2) or not (11, 12).
    The real ECOS.apply / parse_result and Problem.solve run; only the numerical solve is scripted."""
    import sageopt as so
    from sageopt.relaxations import sage_sigs as ss
    from sageopt.coniclifts.problems.problem import Problem
    from harness.props.c09 import Stub
    y = so.standard_sig_monomials(2)
    f = y[0] ** 2 + y[1] ** 2 - y[0] * y[1] + y[0] ** -1
    g = [4 - y[0] - y[1]]
    saved = Problem._SOLVERS_['ECOS']
    try:
        with warnings.catch_warnings():
            warnings.simplefilter('ignore')
            for form, flags in (('primal', (1, 11)), ('dual', (2, 12))):
                for p_, ell_ in ((0, 0), (1, 0)):
                    prob = ss.sig_constrained_relaxation(f, g, [], form=form, p=p_, q=1, ell=ell_)
                    n_ = prob.A.shape[1]
                    for flag in flags:
                        Problem._SOLVERS_['ECOS'] = Stub
                        Stub.answer = (flag, [0.0] * n_, float(rng.choice([0.0, 1.5, -2.0])))
                        st, val = prob.solve(solver='ECOS', verbose=False)
                        Problem._SOLVERS_['ECOS'] = saved
                        if not (val == -math.inf):
                            return ('the %s form of a constrained relaxation (p=%d) whose conic program the solver reports as %s (ECOS exit flag %d) '
                                    'reports (%s, %r); without a certificate the bound is -inf (the problem is feasible: f(1, 1) = %g)'
                                    % (form, p_, 'infeasible' if form == 'primal' else 'unbounded', flag, st, val, float(f(np.zeros(2)))))
    finally:
        Problem._SOLVERS_['ECOS'] = saved
    return None


def oracle_conditional_levels(rng):
    for coeffs in ((0.8, 0.3), (rng.choice([0.8, 1.0]), rng.choice([0.3, 0.5]))):
        why = conditional_levels_one(coeffs)
        if why:
            return why
    return None


def conditional_levels_one(coeffs):
    """conditional relaxations (X a SigDomain from bounds) with a genuinely nonconvex explicit constraint and non-constant multipliers
    (p = 1): the cones of the multipliers are conditional on X in both forms, so the two forms agree and both are lower bounds"""
    import sageopt as so
    from sageopt.relaxations import sage_sigs as ss
    y = so.standard_sig_monomials(2)
    a1, a2 = coeffs
    f = a1 * y[0] ** 2 * y[1] ** -2 + a2 * y[0] ** -2 + 0.9 * y[0] ** -1 * y[1] ** 2 - 0.3 * y[0]
    g = 1 + 0.8 * y[0] * y[1] + 0.2 * y[1] - 1.6 * y[0] ** -1
    bnds = [2 - y[0], y[0] - 0.5, 3 - y[1], y[1] - 0.5]
    vals = {}
    with warnings.catch_warnings():
        warnings.simplefilter('ignore')
        X = ss.infer_domain(f, bnds, [])
        for lev in ((0, 1, 0), (1, 1, 0)):
            for form in ('primal', 'dual'):
                try:
                    vals[(lev, form)] = ss.sig_constrained_relaxation(f, [g], [], X, form=form, p=lev[0], q=lev[1], ell=lev[2]).solve(verbose=False)
                except Exception as e:
                    vals[(lev, form)] = ('error', repr(e)[:60])
    t0, t1 = np.linspace(math.log(0.5), math.log(2), 120), np.linspace(math.log(0.5), math.log(3), 120)
    G0, G1 = np.meshgrid(t0, t1)
    pts = np.vstack([G0.ravel(), G1.ravel()])
    feas = np.asarray(g(pts), dtype=float) >= 0
    ub = float(np.min(np.asarray(f(pts), dtype=float)[feas]))
    desc = 'f = %g y0^2/y1^2 + %g/y0^2 + 0.9 y1^2/y0 - 0.3 y0, g = 1 + 0.8 y0 y1 + 0.2 y1 - 1.6/y0 on the box [0.5,2]x[0.5,3]' % (a1, a2)
    for (lev, form), (st, val) in vals.items():
        if st == 'solved' and isinstance(val, float) and (val == math.inf or (math.isfinite(val) and val > ub + 1e-3 * (1 + abs(ub)))):
            return '%s: %s value %r at level %s exceeds f at a feasible point (%r)' % (desc, form, val, lev, ub)
    for lev in ((0, 1, 0), (1, 1, 0)):
        a, b = vals[(lev, 'primal')], vals[(lev, 'dual')]
        if a[0] == b[0] == 'solved' and isinstance(a[1], float) and isinstance(b[1], float) and math.isfinite(a[1]) and math.isfinite(b[1]) \
                and abs(a[1] - b[1]) > 1e-3 * (1 + abs(a[1])):
            return '%s: at level %s the primal value %r and the dual value %r are both finite and differ' % (desc, lev, a[1], b[1])
    return None


def oracle_metadata(rng):
    """the Lagrangian recorded with the dual problem is the one make_sig_lagrangian returned (for which the identity is checked), at
    every level ell"""
    import sageopt as so
    from sageopt.relaxations import sage_sigs as ss
    y = so.standard_sig_monomials(2)
    f = y[0] + y[1] ** 2 + y[0] ** -1
    gts = [2 - y[0] - y[1]]
    for ell in (0, 1):
        captured = {}
        orig = ss.make_sig_lagrangian

        def spy(*a, **k):
            out = orig(*a, **k)
            captured['L'] = out[0]
            return out
        ss.make_sig_lagrangian = spy
        try:
            with warnings.catch_warnings():
                warnings.simplefilter('ignore')
                prob = ss.sig_constrained_dual(f, gts, [], 0, 1, ell)
        finally:
            ss.make_sig_lagrangian = orig
        Lm, L0 = prob.metadata['lagrangian'], captured['L']
        if Lm.m != L0.m or not np.array_equal(np.asarray(Lm.alpha, dtype=float), np.asarray(L0.alpha, dtype=float)):
            return ('sig_constrained_dual(ell=%d): the recorded Lagrangian has %d terms with exponents %s; make_sig_lagrangian returned %d terms %s'
                    % (ell, Lm.m, np.asarray(Lm.alpha).tolist(), L0.m, np.asarray(L0.alpha).tolist()))
    return None


def oracle_levels(rng):
    """a small equality-constrained family on which every level (p, q, ell) solves in a second: primal <= dual, the two forms agree
    (observed strong duality on this family), the bound does not decrease with the level and never exceeds a feasible value"""
    import sageopt as so
    from sageopt.relaxations import sage_sigs as ss
    y = so.standard_sig_monomials(2)
    cc, r = rng.choice([0.3, 0.5]), rng.choice([4.0, 2.0])
    f = y[0] + y[1] - cc * y[0] * y[1]
    gts = [y[0] - 0.2, y[1] - 0.2]
    eqs = [y[0] ** 2 + y[1] ** 2 - r]
    ub = min(float(f(np.log(np.array([math.sqrt(r) * math.cos(t), math.sqrt(r) * math.sin(t)]))))
             for t in np.linspace(0.15, math.pi / 2 - 0.15, 400)
             if math.sqrt(r) * math.cos(t) >= 0.2 and math.sqrt(r) * math.sin(t) >= 0.2)
    vals = {}
    with warnings.catch_warnings():
        warnings.simplefilter('ignore')
        for lev in ((0, 1, 0), (0, 1, 1), (1, 1, 0), (1, 1, 1)):
            for form in ('primal', 'dual'):
                try:
                    vals[(lev, form)] = ss.sig_constrained_relaxation(f, gts, eqs, form=form, p=lev[0], q=lev[1], ell=lev[2]).solve(verbose=False)
                except Exception as e:
                    vals[(lev, form)] = ('error', repr(e)[:60])
    desc = 'min y0+y1-%g*y0*y1 s.t. y0,y1>=0.2, y0^2+y1^2=%g' % (cc, r)
    # the same ladder over the inferred domain X (here: the two bounds), where the multiplier cones are conditional too
    with warnings.catch_warnings():
        warnings.simplefilter('ignore')
        X = ss.infer_domain(f, gts + [4.0 - y[0], 4.0 - y[1]], [])
        g2 = [4.0 - y[0] ** 2 - y[1] ** 2 + (r - 4.0)]           # y0^2 + y1^2 <= r as an inequality
        for lev in ((0, 1, 0), (1, 1, 0)):
            for form in ('primal', 'dual'):
                try:
                    vals[(lev + ('X',), form)] = ss.sig_constrained_relaxation(f, gts + g2, [], X, form=form, p=lev[0], q=lev[1], ell=lev[2]).solve(verbose=False)
                except Exception as e:
                    vals[(lev + ('X',), form)] = ('error', repr(e)[:60])
            for q_ in (2,):
                try:
                    vals[((0, q_, 0, 'q'), 'primal')] = ss.sig_constrained_relaxation(f, gts + g2, [], None, form='primal', p=0, q=q_, ell=0).solve(verbose=False)
                    vals[((0, q_, 0, 'q'), 'dual')] = ss.sig_constrained_relaxation(f, gts + g2, [], None, form='dual', p=0, q=q_, ell=0).solve(verbose=False)
                except Exception as e:
                    pass
    ubX = min([float(f(np.log(np.array([a_, b_])))) for a_ in np.linspace(0.2, 2.0, 37) for b_ in np.linspace(0.2, 2.0, 37) if a_ * a_ + b_ * b_ <= r] + [math.inf])
    for (lev, form), (st, val) in vals.items():
        bound = ubX if len(lev) == 4 else ub
        if st == 'solved' and isinstance(val, float) and math.isfinite(val) and val > bound + 1e-4 * (1 + abs(bound)):
            return '%s: %s value %r at level %s exceeds f at a feasible point (%r)' % (desc, form, val, lev, bound)
        if st == 'solved' and val == math.inf and math.isfinite(bound):
            return '%s: %s value +inf at level %s although the problem is feasible (f = %r at a feasible point)' % (desc, form, lev, bound)
    for lev in [k_[0] for k_ in vals if len(k_[0]) == 4 and k_[1] == 'primal']:
        a, b = vals[(lev, 'primal')], vals.get((lev, 'dual'), ('none', 0))
        if a[0] == b[0] == 'solved' and isinstance(a[1], float) and isinstance(b[1], float) and math.isfinite(a[1]) and math.isfinite(b[1]) \
                and abs(a[1] - b[1]) > 1e-3 * (1 + abs(a[1])):
            return '%s (inequality version over X / q-fold): at level %s the primal value %r and the dual value %r differ' % (desc, lev, a[1], b[1])
    for lev in ((0, 1, 0), (0, 1, 1), (1, 1, 0), (1, 1, 1)):
        a, b = vals[(lev, 'primal')], vals[(lev, 'dual')]
        if a[0] == b[0] == 'solved' and isinstance(a[1], float) and isinstance(b[1], float) and math.isfinite(a[1]):
            if b[1] < a[1] - 1e-4 * (1 + abs(a[1])):
                return '%s: at level %s the primal value %r exceeds the dual value %r' % (desc, lev, a[1], b[1])
            if math.isfinite(b[1]) and abs(a[1] - b[1]) > 1e-3 * (1 + abs(a[1])):
                return '%s: at level %s the primal value %r and the dual value %r are both finite and differ' % (desc, lev, a[1], b[1])
    for form in ('primal', 'dual'):
        for lo, hi in (((0, 1, 0), (0, 1, 1)), ((0, 1, 0), (1, 1, 0)), ((1, 1, 0), (1, 1, 1)), ((0, 1, 1), (1, 1, 1))):
            a, b = vals[(lo, form)], vals[(hi, form)]
            if a[0] == b[0] == 'solved' and isinstance(a[1], float) and isinstance(b[1], float) and math.isfinite(a[1]) \
                    and b[1] < a[1] - 1e-4 * (1 + abs(a[1])):
                return '%s: the %s bound decreases from %r at level %s to %r at the higher level %s' % (desc, form, a[1], lo, b[1], hi)
    return None


def search(ctx):
    before = len(ctx.problems)
    run(ctx)
    for pr in ctx.problems[before:]:
        if pr['failing_input_found']:
            return pr['inputs']
    del ctx.problems[before:]
    return None


def replay(payload):
    ctx = vlib.Ctx('C04', 'quick', int(payload.get('seed', 0)))
    found = search(ctx)
    print(found or 'property holds on the regenerated instances')
    return 1 if found else 0
