"""C14 — derivatives, shifts, conversions and composition are exact.
Tie: Model/Calculus.v vs Signomial/Polynomial _partial (grad, hess), grad_val/hess_val closed forms, shift_coordinates,
as_polynomial/as_signomial and Polynomial.__call__ (numbers, matrices of points, Polynomial-valued arguments).
Oracle: the exact rational derivative of the polynomial p(y) = f(log y) by the chain rule / direct differentiation,
and exact composition, at random rational points."""
import math
import warnings
from fractions import Fraction

import numpy as np

from harness import vlib
from harness.vlib import Nat, cq, Raw
from harness.props import c12

RULE = ('case = random Signomial/Polynomial (1-4 terms, n<=3; half-integer exponents for signomials, powers 0..3 for polynomials, '
        'incl. constants, zero coefficients and the zero function) with an index i (and k), a shift x0, a point x, or a vector '
        'of polynomials to compose with; non-trivial = function with >=2 terms depending on x_i; distinct by input hash')
TRUSTED = ['correspondence harness harness/props/c14.py; shifted coefficients c*exp(q) and grad_val/hess_val of signomials are compared '
           'with the model\'s symbolic form evaluated by the same libm call within 4 ulp (the documented exception to exact comparison)',
           'float arithmetic exact for polynomials on the generated domain']
ASSUMPTIONS = ['Model/Calculus.v is hand written; tied by correspondence only',
               'composition (Polynomial.__call__ on Polynomials) is tied by exact correspondence and oracle only; its theorem is stated '
               'for the positive orthant through the signomial semantics (partial)']
HEADER = ('From Coq Require Import List Bool Arith ZArith QArith.\n'
          'From SageVerif Require Import Model.Signomial Model.SigExpr Model.Calculus Base.Corr.\nImport ListNotations.\n'
          'Definition rows_eqb (f g : qsig) : bool := sig_out_eqb (Some f) (Some g).')


def gen_f(rng, n, poly):
    m = rng.randint(1, 4)
    rows = []
    for _ in range(m):
        a = [Fraction(rng.choice([0, 0, 1, 2, 3])) for _ in range(n)] if poly else \
            [Fraction(rng.choice([0, 0, 1, -1, 2, 3, -3]), rng.choice([1, 1, 2])) for _ in range(n)]
        if a in [r for r, _ in rows]:
            continue
        rows.append((a, Fraction(rng.choice([1, -1, 2, 3, -2, 0, 5]), rng.choice([1, 1, 2]))))
    if rng.random() < 0.08:
        rows = [([Fraction(0)] * n, Fraction(rng.choice([0, 2])))]
    return rows


def obj(rows, n, poly):
    from sageopt.symbolic.signomials import Signomial
    from sageopt.symbolic.polynomials import Polynomial
    alpha = np.array([[float(x) for x in a] for a, _ in rows]).reshape(len(rows), n)
    c = np.array([float(c) for _, c in rows])
    return (Polynomial if poly else Signomial)(alpha, c)


def mono(a, x):
    v = Fraction(1)
    for ai, xi in zip(a, x):
        v *= xi ** int(ai)
    return v


def dmono(a, x, i):
    """d/dx_i of prod x^a (natural exponents)"""
    if a[i] == 0:
        return Fraction(0)
    b = list(a)
    b[i] = a[i] - 1
    return a[i] * mono(b, x)


def close(a, b, ulps=4):
    a, b = float(a), float(b)
    if a == b:
        return True
    return abs(a - b) <= ulps * np.spacing(max(abs(a), abs(b)))


def rows_alpha(rows):
    return [[float(a) for a in r] for r, _ in rows]


def oracle_rounded_duplicates(rng):
    """exponent vectors that differ in floating point but agree to 7 decimals (0.1 + 0.2 against 0.3) denote ONE term; whatever the constructor does
    with them, every derivative of the Signomial/Polynomial (symbolic and numeric) is the derivative of the function the INPUT rows describe"""
    from sageopt.symbolic.signomials import Signomial
    for trial in range(6):
        a1 = 0.1 + 0.2
        b1 = float(rng.choice([1, 2, -1]))
        rows = [[a1, b1], [0.3, b1], [1.0, 0.0], [0.7 + 0.1, 0.5], [0.8, 0.5]]
        cs = [1.0, 2.0, -1.0, float(rng.choice([1, 3])), float(rng.choice([-2, 2]))]
        builders = [('constructor', lambda: Signomial(np.array(rows), np.array(cs)))]
        if len({tuple(r) for r in rows}) == len(rows):
            builders.append(('from_dict', lambda: Signomial.from_dict({tuple(r): c for r, c in zip(rows, cs)})))
        for how, build in builders:
            f = build()
            x = np.array([rng.randint(-2, 2) / 2.0, rng.randint(-2, 2) / 2.0])
            A, C = np.array(rows), np.array(cs)
            ex = np.exp(A @ x)
            want_f = float(C @ ex)
            want_g = [float((C * A[:, i]) @ ex) for i in range(2)]
            want_h = [[float((C * A[:, i] * A[:, k]) @ ex) for k in range(2)] for i in range(2)]
            tol = 1e-6 * (1 + float(np.abs(C) @ ex) * 4)
            if abs(float(f(x)) - want_f) > tol:
                return '%s with rows equal after rounding: f(x) = %r, the input rows give %r' % (how, float(f(x)), want_f)
            gv, hv = f.grad_val(x), f.hess_val(x)
            for i in range(2):
                got = float(f.grad[i](x))
                if abs(got - want_g[i]) > tol or abs(float(gv[i]) - want_g[i]) > tol:
                    return ('Signomial built by the %s from rows %s (two pairs agree to 7 decimals) with c = %s: d/dx%d at %s is %r symbolically and %r by grad_val; the '
                            'function the rows describe has %r' % (how, rows, cs, i, x.tolist(), got, float(gv[i]), want_g[i]))
                for k in range(2):
                    got = float(f.hess[i, k](x))
                    if abs(got - want_h[i][k]) > tol or abs(float(hv[i, k]) - want_h[i][k]) > tol:
                        return ('Signomial built by the %s from rows %s with c = %s: d2/dx%d dx%d at %s is %r symbolically and %r by hess_val; the function '
                                'the rows describe has %r' % (how, rows, cs, i, k, x.tolist(), got, float(hv[i, k]), want_h[i][k]))
    return None


def oracle_conversion_history(rng):
    """conversions are functions of the polynomial, not of what was asked of it before: as_signomial / as_polynomial / grad / shift after the
    polynomial went through a relaxation builder (which reads its signomial representative) are what they are for a fresh copy"""
    import sageopt as so
    from sageopt.symbolic.polynomials import Polynomial
    with warnings.catch_warnings():
        warnings.simplefilter('ignore')
        for trial in range(3):
            alpha = np.array([[2, 2], [1, 2], [3, 0], [0, 1], [0, 0]])
            cvec = np.array([1.0, float(rng.choice([3, 2])), -2.0, float(rng.choice([1, 4])), 5.0])
            p = Polynomial(alpha, cvec)
            fresh = Polynomial(alpha.copy(), cvec.copy())
            how = ('sig_rep', 'poly_relaxation', 'sage_feasibility')[trial]
            if how == 'sig_rep':
                _ = p.sig_rep
            elif how == 'poly_relaxation':
                so.poly_relaxation(p, form='dual')
            else:
                from sageopt.relaxations import sage_polys as sp_
                sp_.sage_feasibility(p)
            f, f0 = p.as_signomial(), fresh.as_signomial()
            for y in ([1.0, 1.0], [0.5, 2.0], [3.0, 0.25]):
                yv = np.array(y)
                try:
                    got, want = float(f(np.log(yv))), float(p(yv))
                except Exception as e:
                    return ('after %s was asked of the polynomial, p.as_signomial() is not a numeric signomial any more (coefficients %r): evaluating it raised %r'
                            % (how, getattr(f, 'c', None), e))
                if abs(got - want) > 1e-9 * (1 + abs(want)) or abs(float(f0(np.log(yv))) - want) > 1e-9 * (1 + abs(want)):
                    return ('after %s was asked of the polynomial, p.as_signomial()(log y) = %r at y = %s while p(y) = %r (a fresh copy gives %r)'
                            % (how, got, y, want, float(f0(np.log(yv)))))
            g, g0 = p.grad, fresh.grad
            x = np.array([0.5, -1.5])
            for i in range(2):
                if abs(float(g[i](x)) - float(g0[i](x))) > 1e-12 * (1 + abs(float(g0[i](x)))):
                    return 'after %s was asked of the polynomial, dp/dx%d at %s is %r; for a fresh copy %r' % (how, i, x.tolist(), float(g[i](x)), float(g0[i](x)))
    return None


def run(ctx):
    why = oracle_conversion_history(ctx.rng)
    ctx.suites['conversion_history'] = {'cases': 3, 'failure': why}
    ctx.evaluations += 3
    if why:
        ctx.problem('oracle', 'property fails on the implementation: ' + why, inputs={'suite': 'conversion_history'}, failing_input_found=True)
    why = oracle_rounded_duplicates(ctx.rng)
    ctx.suites['rounded_duplicate_rows'] = {'cases': 6, 'failure': why}
    ctx.evaluations += 6
    if why:
        ctx.problem('oracle', 'property fails on the implementation: ' + why, inputs={'suite': 'rounded_duplicate_rows'}, failing_input_found=True)
    part, ppart, shifts, gvals, comp, conv = [], [], [], [], [], []
    N = ctx.n(250, 2500)
    for _ in range(N):
        n = ctx.rng.randint(1, 3)
        # ---- signomial partials (and second partials through composition of the model function)
        rows = gen_f(ctx.rng, n, False)
        f = obj(rows, n, False)
        frows = c12.canon(f)
        i = ctx.rng.randrange(n)
        k = ctx.rng.randrange(n)
        g = f.grad[i]
        h = f.hess[i, k]
        if len(rows) >= 2 and sum(1 for a, _ in rows if a[i] != 0) >= 2:
            ctx.nontrivial.add(vlib.sha(['sig', [[str(x) for x in a] + [str(c)] for a, c in rows], i, k]))
        part.append(({'f': [[[str(x) for x in a], str(c)] for a, c in rows], 'i': i, 'k': k},
                     cq((Nat(n), Nat(i), Nat(k), frows)), cq((c12.canon(g), c12.canon(h)))))
        # grad_val / hess_val closed forms against the model's symbolic weights
        x = np.array([ctx.rng.randint(-2, 2) / 2.0 for _ in range(n)])
        gv, hv = f.grad_val(x), f.hess_val(x)
        ex = [math.exp(float(np.dot(np.array([float(v) for v in a]), x))) for a, _ in frows]
        for ii in range(n):
            want = sum(float(c * a[ii]) * e for (a, c), e in zip(frows, ex))
            if abs(gv[ii] - want) > 1e-12 * (1 + sum(abs(float(c * a[ii])) * e for (a, c), e in zip(frows, ex))):
                ctx.problem('oracle', 'Signomial.grad_val differs from sum_j c_j alpha_ji exp(alpha_j.x): %r vs %r' % (gv[ii], want),
                            inputs={'f': [[[str(v) for v in a], str(c)] for a, c in rows], 'x': x.tolist()}, failing_input_found=True)
                return
            for kk in range(n):
                want = sum(float(c * a[ii] * a[kk]) * e for (a, c), e in zip(frows, ex))
                if abs(hv[ii, kk] - want) > 1e-12 * (1 + sum(abs(float(c * a[ii] * a[kk])) * e for (a, c), e in zip(frows, ex))):
                    ctx.problem('oracle', 'Signomial.hess_val differs from the closed form', inputs={'f': str(rows), 'x': x.tolist()},
                                failing_input_found=True)
                    return
        # the same array object, modified IN PLACE, asked again: derivatives at the new point (no stale intermediate results)
        x += 0.75
        x[0] = -x[0]
        gv2, hv2 = f.grad_val(x), f.hess_val(x)
        ex2 = [math.exp(float(np.dot(np.array([float(v) for v in a]), x))) for a, _ in frows]
        for ii in range(n):
            want = sum(float(c * a[ii]) * e for (a, c), e in zip(frows, ex2))
            tolg = 1e-12 * (1 + sum(abs(float(c * a[ii])) * e for (a, c), e in zip(frows, ex2)))
            wanth = [sum(float(c * a[ii] * a[kk]) * e for (a, c), e in zip(frows, ex2)) for kk in range(n)]
            tolh = [1e-12 * (1 + sum(abs(float(c * a[ii] * a[kk])) * e for (a, c), e in zip(frows, ex2))) for kk in range(n)]
            if abs(gv2[ii] - want) > tolg or any(abs(hv2[ii, kk] - wanth[kk]) > tolh[kk] for kk in range(n)):
                ctx.problem('oracle', 'after the query point was changed in place, Signomial.grad_val / hess_val on the same array object return '
                            '%r / %r; at the new point the derivatives are %r / %r' % (gv2[ii], hv2[ii].tolist(), want, wanth),
                            inputs={'f': [[[str(v) for v in a], str(c)] for a, c in rows], 'x_after_update': x.tolist()}, failing_input_found=True)
                return
        # ---- shift_coordinates
        x0 = [Fraction(ctx.rng.randint(-2, 2), 2) for _ in range(n)]
        fs = f.shift_coordinates(np.array([float(v) for v in x0]))
        got = c12.canon(fs)
        ok = True
        model_rows = []
        for (a, c) in frows:
            q = sum(ai * xi for ai, xi in zip(a, x0))
            model_rows.append((a, (c, q)))
        # the constructor may consolidate; rows of f are distinct, so order is kept
        if [a for a, _ in got] != [a for a, _ in model_rows]:
            ok = False
        else:
            for (a, cv), (_, (c, q)) in zip(got, model_rows):
                if not close(float(cv), float(c) * math.exp(float(q))):
                    ok = False
        # the shifted function is a function of its own: its symbolic derivatives and its coefficient lookup are those of a freshly
        # built copy with the same (alpha, c), whatever was requested from f before the shift (f.grad and f.hess were)
        from sageopt.symbolic.signomials import Signomial as _Sig
        fresh = _Sig(np.asarray(fs.alpha, dtype=float).copy(), np.asarray(fs.c, dtype=float).copy())
        if c12.canon(fs.grad[i]) != c12.canon(fresh.grad[i]) or c12.canon(fs.hess[i, k]) != c12.canon(fresh.hess[i, k]) \
                or dict(fs.alpha_c) != dict(fresh.alpha_c):
            ctx.problem('oracle', 'after f.grad/f.hess were requested, f.shift_coordinates(x0) has symbolic derivatives or a coefficient table that '
                        'differ from those of a fresh Signomial with the same exponents and coefficients',
                        inputs={'f': str(rows), 'x0': [str(v) for v in x0], 'i': i, 'k': k}, failing_input_found=True)
            return
        shifts.append(({'f': str(rows), 'x0': [str(v) for v in x0]}, cq((frows, x0)), cq([(a, cq_pair) for a, cq_pair in model_rows]), ok))
        if not ok:
            ctx.problem('oracle', 'shift_coordinates: coefficients differ from c*exp(alpha.x0) beyond 4 ulp', inputs={'f': str(rows), 'x0': [str(v) for v in x0]},
                        failing_input_found=True)
            return
        # ---- polynomials
        prow = gen_f(ctx.rng, n, True)
        p = obj(prow, n, True)
        prows = c12.canon(p)
        gp = p.grad[i]
        hp = p.hess[i, k]
        ppart.append(({'p': [[[str(x) for x in a], str(c)] for a, c in prow], 'i': i, 'k': k},
                      cq((Nat(n), Nat(i), Nat(k), prows)), cq((c12.canon(gp), c12.canon(hp)))))
        xr = [Fraction(ctx.rng.randint(-4, 4), ctx.rng.choice([1, 2])) for _ in range(n)]
        if ctx.rng.random() < 0.3:
            # an integer point handed over as an integer-typed array: derivatives of a polynomial with fractional coefficients are not integers
            xr = [Fraction(ctx.rng.randint(-3, 3)) for _ in range(n)]
            xf = np.array([int(v) for v in xr])
            ctx.count('poly_point_dtype', 'int')
        else:
            xf = np.array([float(v) for v in xr])
            ctx.count('poly_point_dtype', 'float')
        want_g = [sum(c * dmono(a, xr, ii) for a, c in prows) for ii in range(n)]
        got_g = p.grad_val(xf)
        if [Fraction(float(v)) for v in got_g] != want_g:
            ctx.problem('oracle', 'Polynomial.grad_val differs from the exact derivative: %s vs %s' % (got_g.tolist(), [str(v) for v in want_g]),
                        inputs={'p': str(prow), 'x': [str(v) for v in xr]}, failing_input_found=True)
            return
        got_h = np.asarray(p.hess_val(xf), dtype=float)
        for ii in range(n):
            for kk in range(n):
                want = Fraction(0)
                for a, c in prows:
                    if a[ii] == 0:
                        continue
                    b = list(a)
                    b[ii] = a[ii] - 1
                    want += c * a[ii] * dmono(b, xr, kk)
                if Fraction(float(got_h[ii, kk])) != want:
                    ctx.problem('oracle', 'Polynomial.hess_val[%d,%d] = %r differs from the exact second derivative %s' % (ii, kk, got_h[ii, kk], want),
                                inputs={'p': [[[str(x_) for x_ in a], str(c)] for a, c in prow], 'x': [str(v) for v in xr]}, failing_input_found=True)
                    return
        val = Fraction(float(p(xf)))
        if val != sum(c * mono(a, xr) for a, c in prows):
            ctx.problem('oracle', 'Polynomial.__call__ differs from exact evaluation', inputs={'p': str(prow), 'x': [str(v) for v in xr]},
                        failing_input_found=True)
            return
        gvals.append(({'p': str(prow), 'x': [str(v) for v in xr]}, cq((prows, xr)), cq(val)))
        # matrix of points = evaluation per column
        X = np.array([[ctx.rng.randint(-3, 3) / 2.0 for _ in range(3)] for _ in range(n)])
        cols = [float(p(X[:, j])) for j in range(3)]
        if not np.array_equal(np.asarray(p(X), dtype=float), np.array(cols)):
            ctx.problem('oracle', 'Polynomial evaluated on a matrix differs from evaluation per column', inputs={'p': str(prow)}, failing_input_found=True)
            return
        fcols = [float(f(X[:, j])) for j in range(3)]
        if not np.allclose(np.asarray(f(X), dtype=float), np.array(fcols), rtol=1e-13, atol=0):
            ctx.problem('oracle', 'Signomial evaluated on a matrix differs from evaluation per column', inputs={'f': str(rows)}, failing_input_found=True)
            return
        # ... also where exp leaves the double range (|alpha . x| beyond 709): a single point is evaluated in extended precision, so is a matrix
        Xbig = X * float(ctx.rng.choice([150, 400]))
        with np.errstate(all='ignore'):
            mcols = np.array([np.longdouble(f(Xbig[:, j])) for j in range(3)], dtype=np.longdouble)
            mmat = np.asarray(f(Xbig), dtype=np.longdouble)
        okb = mmat.shape == mcols.shape and all((np.isnan(a) and np.isnan(b_)) or a == b_ or (np.isfinite(a) and np.isfinite(b_) and abs(a - b_) <= 1e-15 * abs(b_))
                                                 for a, b_ in zip(mmat.tolist(), mcols.tolist()))
        ctx.count('matrix_eval_beyond_double_range', bool(np.any(np.abs(np.asarray(rows_alpha(rows), dtype=float) @ Xbig) > 709)))
        if not okb:
            ctx.problem('oracle', 'Signomial evaluated on a matrix of far-away points %s gives %s, evaluation per column gives %s'
                        % (Xbig.tolist(), [repr(v) for v in mmat.tolist()], [repr(v) for v in mcols.tolist()]), inputs={'f': str(rows), 'X': Xbig.tolist()},
                        failing_input_found=True)
            return
        # conversions
        try:
            ap = c12.canon(f.as_polynomial())
            apo = vlib.Some(ap)
        except ValueError:
            apo = None
        conv.append(({'f': str(rows)}, cq(frows), cq((apo, c12.canon(p.as_signomial()) if False else c12.canon(f)))))
        # ---- composition p(z) with polynomial arguments
        kz = ctx.rng.randint(1, 2)
        zs = []
        for _ in range(n):
            zr = gen_f(ctx.rng, kz, True)[:2]
            zs.append(zr)
        small = [(a, c) for a, c in prow if sum(a) <= 3][:3] or [([Fraction(0)] * n, Fraction(1))]
        if ctx.rng.random() < 0.2:
            # an outer polynomial with a high power of one coordinate (5 = 101b, 6 = 110b): p(z) must still be the exact composition
            jj = ctx.rng.randrange(n)
            hi = [Fraction(0)] * n
            hi[jj] = Fraction(ctx.rng.choice([5, 6]))
            small = [(hi, Fraction(ctx.rng.choice([1, -2]))), ([Fraction(0)] * n, Fraction(1))]
            zs[jj] = zs[jj][:2]
        ps = obj(small, n, True)
        zobjs = np.empty(n, dtype=object)
        for j, zr in enumerate(zs):
            zobjs[j] = obj(zr, kz, True)
        try:
            with warnings.catch_warnings():
                warnings.simplefilter('ignore')
                w = ps(zobjs)
            wrows = c12.canon(w)
            if len(wrows) > 80:
                continue
            y = [Fraction(ctx.rng.randint(-3, 3), ctx.rng.choice([1, 2])) for _ in range(kz)]
            zvals = [sum(c * mono(a, y) for a, c in c12.canon(zo)) for zo in zobjs]
            want = sum(c * mono(a, zvals) for a, c in c12.canon(ps))
            got = sum(c * mono(a, y) for a, c in wrows)
            if want != got:
                ctx.problem('oracle', 'composition p(z) evaluates to %s at %s but p(z(y)) = %s' % (got, [str(v) for v in y], want),
                            inputs={'p': str(small), 'z': str(zs)}, failing_input_found=True)
                return
            comp.append(({'p': str(small), 'z': str(zs)}, cq((Nat(kz), c12.canon(ps), [c12.canon(zo) for zo in zobjs])), cq(vlib.Some(wrows))))
        except (ValueError, RuntimeError):
            comp.append(({'p': str(small), 'z': str(zs)}, cq((Nat(kz), c12.canon(ps), [c12.canon(zo) for zo in zobjs])), 'None'))
    suites = [
        ('sig_partial', part, "fun x => let '(n, i, k, f) := x in (sig_partial n i f, sig_partial n k (sig_partial n i f))",
         'pair_eqb rows_eqb rows_eqb', 'nat * nat * nat * qsig', 'qsig * qsig'),
        ('poly_partial', ppart, "fun x => let '(n, i, k, f) := x in (poly_partial n i f, poly_partial n k (poly_partial n i f))",
         'pair_eqb rows_eqb rows_eqb', 'nat * nat * nat * qsig', 'qsig * qsig'),
        ('shift', [(s[0], s[1], s[2]) for s in shifts], 'fun x => shift (fst x) (snd x)',
         'list_eqb (pair_eqb qrow_eqb (pair_eqb Qeqb Qeqb))', 'qsig * list Q', 'list (qrow * (Q * Q))'),
        ('poly_call', gvals, 'fun x => poly_call (fst x) (snd x)', 'Qeqb', 'qsig * list Q', 'Q'),
        ('as_polynomial', [(c_[0], c_[1], c_[2]) for c_ in conv], 'fun f => (as_polynomial f, as_signomial f)',
         'pair_eqb sig_out_eqb rows_eqb', 'qsig', 'option qsig * qsig'),
        ('compose', comp, "fun x => let '(k, p, zs) := x in poly_compose k p zs", 'sig_out_eqb', 'nat * qsig * list qsig', 'option qsig'),
    ]
    for name, cases, model, eqb, tin, tout in suites:
        ctx.evaluations += len(cases)
        mism, err = vlib.run_suite_in_coq(ctx.pid, name, HEADER, model, eqb, tin, tout, [(c_[1], c_[2]) for c_ in cases], shard=200)
        ctx.suites[name] = {'cases': len(cases), 'mismatches': None if mism is None else len(mism)}
        if err:
            ctx.problem('correspondence', 'suite %s: %s' % (name, err))
            continue
        if cases:
            ctx.samples.append({'suite': name, 'input': cases[len(cases) // 2][0]})
        for idx in mism[:2]:
            model_out = vlib.coq_show(HEADER, '(%s) %s' % (model, cases[idx][1]))
            ctx.problem('correspondence', 'suite %s: model and implementation disagree on %s; impl=%s model=%s (the exact oracle passed)'
                        % (name, cases[idx][0], cases[idx][2][:700], model_out[:700]), inputs={'suite': name, 'input': cases[idx][0]},
                        failing_input_found=False)


def search(ctx):
    before = len(ctx.problems)
    run(ctx)
    for pr in ctx.problems[before:]:
        if pr['failing_input_found']:
            return pr['inputs']
    del ctx.problems[before:]
    return None


def replay(payload):
    ctx = vlib.Ctx('C14', 'quick', int(payload.get('seed', 0)))
    found = search(ctx)
    print(found or 'property holds on the regenerated inputs')
    return 1 if found else 0
