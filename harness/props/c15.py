"""C15 — inferred and user-specified domains represent the intended set.
Tie: Model/ConGen.v vs constraint_generators.valid_posynomial_inequalities / valid_monomial_equations /
clcons_from_standard_gprep (through sage_sigs.infer_domain): which constraints are kept, their normal form, and the
log-space constraints emitted.
Oracle: for sampled x the three descriptions of X must agree — the kept gts/eqs (by definition), check_membership, and the
conic data (A, b, K) with the first n columns as x (feasibility of the remaining columns decided by a small ECOS solve) —
every point satisfying ALL given constraints must be in X, emptiness is detected at construction, and suppfunc is checked
against sampled points."""
import math
import warnings
from fractions import Fraction

import numpy as np

from harness import vlib
from harness.vlib import Nat, cq, Raw
from harness.props import c12, c03

RULE = ('case = (gts, eqs) lists of signomials (n<=2; 1-4 terms; one or several positive coefficients; zeros); compared: the '
        'normalised constraints kept and the log-space constraints emitted (weighted_sum_exp <= c0, a.x <= ln q, a.x == ln q); '
        'non-trivial = at least one kept constraint with >= 3 terms or an equality; oracle samples 40 points per instance')
USES_TRANSLATOR = True
TRUSTED = ['translator harness/translator/funcs.py (Gen/GenConGen.v: the four selection functions of constraint_generators.py, one decision per constraint)',
           'correspondence harness harness/props/c15.py (logarithmic right-hand sides are matched within 4 ulp against ln of the model\'s rational)',
           'ORACLE: ECOS for suppfunc, _check_feasibility and the membership-by-conic-feasibility test',
           'PolyDomain (log|x| space) is tied through the same generators applied to polynomials by the oracle stream only']
ASSUMPTIONS = ['Model/ConGen.v is hand written; tied by correspondence only',
               'user-supplied gts/eqs of a SigDomain are the user\'s responsibility by the class contract',
               'emptiness detection and suppfunc are one conic solve each: correct given a correct solver']
HEADER = ('From Coq Require Import List Bool Arith ZArith QArith.\n'
          'From SageVerif Require Import Model.Signomial Model.SigExpr Model.SolverForms Model.ConGen Base.Corr.\nImport ListNotations.\n'
          'Definition lcon_eqb (a b : lcon) : bool :=\n'
          '  match a, b with\n'
          '  | WseLe c al k, WseLe c2 al2 k2 => list_eqb Qeqb c c2 && list_eqb qrow_eqb al al2 && Qeqb k k2\n'
          '  | LinLe r q, LinLe r2 q2 => qrow_eqb r r2 && Qeqb q q2\n'
          '  | LinEq r q, LinEq r2 q2 => qrow_eqb r r2 && Qeqb q q2\n'
          '  | _, _ => false end.\n'
          'Definition sigs_eqb := list_eqb (fun f g => sig_out_eqb (Some f) (Some g)).\n'
          'Definition model (x : nat * list qsig * list qsig) :=\n'
          "  let '(n, gts, eqs) := x in match infer_domain n gts eqs with Ok r => Some r | Err _ => None end.\n"
          'Definition out_eqb := option_eqb (pair_eqb (pair_eqb sigs_eqb sigs_eqb) (list_eqb lcon_eqb)).')
HEADER_POLY = ('From Coq Require Import List Bool Arith ZArith QArith.\n'
               'From SageVerif Require Import Model.Signomial Model.SigExpr Model.SolverForms Model.ConGen Model.PolyDom Base.Corr.\nImport ListNotations.\n'
               'Definition sigs_eqb := list_eqb (fun f g => sig_out_eqb (Some f) (Some g)).\n'
               'Definition model_sel (x : list qsig * list qsig) :=\n'
               '  (match valid_gp_poly_ineqs (fst x) with Ok r => Some r | Err _ => None end, valid_gp_poly_eqs (snd x)).\n'
               'Definition sel_eqb := pair_eqb (option_eqb sigs_eqb) sigs_eqb.')


def gen_con(rng, n, eq=False):
    m = rng.choice([2, 2, 3]) if eq else rng.randint(1, 4)
    rows = []
    while len(rows) < m:
        a = [Fraction(rng.choice([0, 1, -1, 2, 1]), rng.choice([1, 1, 2])) for _ in range(n)]
        if a not in [r for r, _ in rows]:
            rows.append([a, Fraction(rng.choice([-1, -2, -3, -1, -4]))])
    npos = rng.choice([1, 1, 1, 2, 0])
    for k in rng.sample(range(m), min(npos, m)):
        rows[k][1] = Fraction(rng.choice([1, 2, 4, 8]))
    if rng.random() < 0.15 and m > 1:
        rows[rng.randrange(m)][1] = Fraction(0)
    return [(a, c) for a, c in rows]


def close_log(off, q):
    want = -math.log(float(q))
    return abs(off - want) <= 4 * np.spacing(max(abs(off), abs(want), 1e-300))


def describe_constraints(cons, xids, n):
    """log-space constraints emitted by the implementation, as Coq text"""
    from sageopt.coniclifts.base import ScalarVariable
    out = []
    pos = {int(i): k for k, i in enumerate(xids)}
    for con in cons:
        cells = list(con.expr.flat)
        if len(cells) != 1:
            return None
        se = cells[0]
        nl = [a for a in se.atoms_to_coeffs if not isinstance(a, ScalarVariable)]
        if nl:
            cs, alphas = [], []
            for a, co in se.atoms_to_coeffs.items():
                arg = a.args[0]
                row = [Fraction(0)] * n
                for sv, c in arg[:-1]:
                    row[pos[int(sv.id)]] = Fraction(float(c))
                if arg[-1][1] != 0:
                    return None
                cs.append(Fraction(float(co)))
                alphas.append(row)
            out.append('(WseLe %s %s %s)' % (cq(cs), cq(alphas), cq(Fraction(float(-se.offset)))))
        else:
            row = [Fraction(0)] * n
            for sv, c in se.atoms_to_coeffs.items():
                row[pos[int(sv.id)]] = Fraction(float(c))
            q = Fraction(math.exp(-float(se.offset))).limit_denominator(4096)
            if not close_log(float(se.offset), q):
                return None
            out.append('(%s %s %s)' % ('LinEq' if con.operator == '==' else 'LinLe', cq(row), cq(q)))
    return '[' + '; '.join(out) + ']'


def feasible_with_x_fixed(X, x):
    """membership by the conic data: exists aux with A [x; aux] + b in K"""
    import sageopt.coniclifts as cl
    A, b, K = X.A, X.b, X.K
    n = X.n
    naux = A.shape[1] - n
    base = A[:, :n] @ np.array(x) + b
    with warnings.catch_warnings():
        warnings.simplefilter('ignore')
        if naux == 0:
            from harness.props.c07 import in_cone
            i = 0
            for co in K:
                if not in_cone(co.type, base[i:i + co.len].tolist()):
                    return False
                i += co.len
            return True
        # rows of '0' / '+' blocks that do not involve the auxiliary columns are decided here (ECOS crashes on empty rows)
        Aaux = np.asarray(A[:, n:], dtype=float)
        keep_rows, K2, i = [], [], 0
        for co in K:
            rows = list(range(i, i + co.len))
            i += co.len
            if co.type in ('0', '+'):
                live = [r for r in rows if np.any(Aaux[r, :] != 0)]
                for r in rows:
                    if r not in live:
                        if (co.type == '0' and abs(base[r]) > 1e-9) or (co.type == '+' and base[r] < -1e-9):
                            return False
                if live:
                    keep_rows += live
                    K2.append(cl.Cone(co.type, len(live)))
            else:
                keep_rows += rows
                K2.append(cl.Cone(co.type, co.len))
        if not keep_rows:
            return True
        aux = cl.Variable(shape=(naux,), name='aux')
        prob = cl.Problem(cl.MIN, cl.Expression([0]), [cl.PrimalProductCone(Aaux[keep_rows, :] @ aux + base[keep_rows], K2)])
        try:
            st, val = prob.solve(verbose=False)
        except Exception:
            return None       # ECOS refused the (degenerate) feasibility problem: undetermined, not a verdict on sageopt
    if st == 'solved':
        return val < 1e-7
    return False if st == 'infeasible' else None


def reference_suppfunc(X, y):
    """max y.x over the set described by (A, b, K), written independently of SigDomain.suppfunc"""
    import sageopt.coniclifts as cl
    A, b, K = np.asarray(X.A, dtype=float), np.asarray(X.b, dtype=float), X.K
    n = X.n
    used = [j for j in range(A.shape[1]) if np.any(A[:, j] != 0)]
    if any(y[j] != 0 and j not in used for j in range(n)):
        return np.inf
    z = cl.Variable(shape=(len(used),), name='ref_z')
    obj = sum(float(y[j]) * z[used.index(j)] for j in range(n) if j in used and y[j] != 0)
    if not any(j in used and y[j] != 0 for j in range(n)):
        return 0.0
    with warnings.catch_warnings():
        warnings.simplefilter('ignore')
        try:
            st, val = cl.Problem(cl.MAX, obj, [cl.PrimalProductCone(A[:, used] @ z + b, K)]).solve(verbose=False)
        except Exception:
            return None
    if st == 'solved':
        return val
    return None


def oracle_domain(rng, n, gts, eqs):
    from sageopt.relaxations import sage_sigs as ss
    go = [c03.sig_obj(g, n) for g in gts]
    ho = [c03.sig_obj(h, n) for h in eqs]
    f = c03.sig_obj([([Fraction(1)] * n, Fraction(1))], n)
    with warnings.catch_warnings():
        warnings.simplefilter('ignore')
        try:
            X = ss.infer_domain(f, go, ho)
        except RuntimeError as e:
            return None, ('raise', str(e)[:40])
        except IndexError:
            return None, ('raise', 'IndexError')
    if X is None:
        return None, ('none', '')
    for _ in range(40):
        x = [rng.randint(-8, 8) / 4.0 for _ in range(n)]
        xa = np.array(x)
        gv = [float(g(xa)) for g in go]
        hv = [float(h(xa)) for h in ho]
        margin = 1e-6
        if any(abs(v) < margin for v in gv) or any(0 < abs(v) < margin for v in hv):
            continue
        all_ok = all(v >= 0 for v in gv) and all(abs(v) <= 1e-12 for v in hv)
        kept_ok = all(float(g(xa)) >= -1e-9 for g in X.gts) and all(abs(float(h(xa))) <= 1e-9 for h in X.eqs)
        if any(abs(float(g(xa))) < margin for g in X.gts) or any(0 < abs(float(h(xa))) < margin for h in X.eqs):
            continue
        member = X.check_membership(xa, 1e-9)
        conic = feasible_with_x_fixed(X, x)
        if conic is None:
            conic = kept_ok
        if all_ok and not (member and conic):
            return 'x=%s satisfies all of gts and eqs but is reported outside X (check_membership=%s, conic=%s)' % (x, member, conic), None
        if member != kept_ok:
            return 'check_membership(%s)=%s disagrees with the kept constraints (%s)' % (x, member, kept_ok), None
        if conic != kept_ok:
            return 'conic data (A,b,K) says %s for x=%s, the kept convexifiable constraints say %s' % (conic, x, kept_ok), None
        if member:
            y = np.array([rng.choice([1.0, -1.0, 0.5]) for _ in range(n)])
            with warnings.catch_warnings():
                warnings.simplefilter('ignore')
                sf = X.suppfunc(y)
            if sf < float(y @ xa) - 1e-5 * (1 + abs(float(y @ xa))):
                return 'suppfunc(%s)=%r is below y.x=%r at the member x=%s' % (y.tolist(), sf, float(y @ xa), x), None
            ref = reference_suppfunc(X, y)
            if ref is not None and (np.isfinite(ref) != np.isfinite(sf) or (np.isfinite(ref) and abs(ref - sf) > 1e-4 * (1 + abs(ref)))):
                return 'suppfunc(%s)=%r but the maximum of y.x over the set described by (A, b, K) is %r' % (y.tolist(), sf, ref), None
    return None, ('domain', '')


def oracle_poly_domain(rng):
    """PolyDomain inferred from polynomial constraints (cross terms, odd terms, coordinates that no constraint mentions): every real
    point satisfying ALL constraints has log|x| in the conic data, and the three descriptions agree on the kept constraints"""
    import sageopt as so
    from sageopt.relaxations import sage_polys as sp
    n = rng.randint(2, 3)
    x = so.standard_poly_monomials(n)
    free = rng.choice([None, None, n - 1, 0])          # a coordinate that no constraint mentions
    idx = [i for i in range(n) if i != free]
    gts, desc = [], []
    for _ in range(rng.randint(1, 3)):
        i, j = rng.choice(idx), rng.choice(idx)
        kind = rng.choice(['ball1', 'cross_even', 'cross_odd', 'lower', 'posy', 'odd'])
        r = float(rng.choice([1, 4, 9]))
        if kind == 'ball1':
            g = r - x[i] ** 2
        elif kind == 'cross_even':
            g = r - x[i] ** 2 * x[j] ** 2 if i != j else r - x[i] ** 4
        elif kind == 'cross_odd':
            g = 1 - x[i] * x[j] if i != j else 1 - x[i] ** 3      # even total degree when i != j, but not an even polynomial
        elif kind == 'lower':
            g = x[i] ** 2 - 0.25
        elif kind == 'posy':
            g = r + 1 - x[i] ** 2 - (x[j] ** 4 if i != j else x[i] ** 4)
        else:
            g = x[i] + 2.0
        gts.append(g)
        desc.append((kind, i, j, r))
    eqs = []
    if rng.random() < 0.15:
        gts, desc = [1 - x[idx[0]] * x[idx[-1]] if len(idx) >= 2 else x[idx[0]] + 2.0], [('only_nonconvex_ineq', 0, 0, 0)]
        eqs.append(x[idx[0]] ** 2 - 4.0)
        desc.append(('eq_square', idx[0], idx[0], 4.0))
    if rng.random() < 0.3 and len(idx) >= 2:
        eqs.append(x[idx[0]] ** 2 * x[idx[1]] ** 2 - 1.0)
        desc.append(('eq_prod', idx[0], idx[1], 1.0))
    if rng.random() < 0.3 and len(idx) >= 2:
        # an equation that cannot be convexified in log space: it must not be kept (and must not enter the membership test)
        eqs.append(x[idx[0]] + x[idx[1]] - 2.5)
        desc.append(('eq_nonconvex', idx[0], idx[1], 2.5))
    with warnings.catch_warnings():
        warnings.simplefilter('ignore')
        try:
            X = sp.infer_domain(x[0], gts, eqs)
        except RuntimeError as e:
            return None, ('raise', str(desc))
    def convexifiable(g, eq):
        even = bool(np.all(np.asarray(g.alpha) % 2 == 0))
        cs = np.asarray(g.c, dtype=float)
        return even and np.count_nonzero(cs > 0) == 1 and (not eq or np.count_nonzero(cs != 0) == 2)
    nkept = sum(convexifiable(g, False) for g in gts) + sum(convexifiable(h, True) for h in eqs)
    if X is None:
        if nkept > 0:
            return ('infer_domain returned None although %d of the given polynomial constraints can be convexified (%s)' % (nkept, desc)), None
        return None, ('none', str(desc))
    vals = [0.5, -0.5, 1.0, -1.0, 1.5, -2.0, 2.0, -3.0, 3.0, 0.25, 10.0, -10.0]
    for _ in range(60):
        pt = np.array([rng.choice(vals) for _ in range(n)])
        kinds_ = [d_[0] for d_ in desc]
        if 'eq_square' in kinds_ and rng.random() < 0.7:
            pt[idx[0]] = rng.choice([2.0, -2.0])
        if 'eq_prod' in kinds_ and rng.random() < 0.7:      # put the point on the equation x_a^2 x_b^2 = 1
            pt[idx[1]] = rng.choice([1.0, -1.0]) / pt[idx[0]]
        gv = [float(g(pt)) for g in gts]
        hv = [float(h(pt)) for h in eqs]
        kg = [float(g(pt)) for g in X.gts]
        kh = [float(h(pt)) for h in X.eqs]
        if any(0 < abs(v) < 1e-6 for v in gv + hv + kg + kh) or any(v == 0 for v in gv + kg):
            continue
        all_ok = all(v > 0 for v in gv) and all(v == 0 for v in hv)
        kept_ok = all(v > 0 for v in kg) and all(v == 0 for v in kh)
        member = X.check_membership(pt, 1e-9)
        conic = feasible_with_x_fixed(X, np.log(np.abs(pt)).tolist())
        if conic is None:
            conic = kept_ok
        where = 'constraints %s, x=%s' % (desc, pt.tolist())
        if all_ok and not (member and conic):
            return ('x satisfies every given polynomial constraint but log|x| is reported outside X (check_membership=%s, conic data=%s); %s'
                    % (member, conic, where)), None
        if member != kept_ok:
            return 'check_membership=%s disagrees with the kept constraints (%s); %s' % (member, kept_ok, where), None
        if conic != kept_ok:
            return 'the conic data (A, b, K) say %s for log|x|, the kept convexifiable constraints say %s; %s' % (conic, kept_ok, where), None
    return None, ('domain', str(desc))


def oracle_empty():
    """emptiness is detected at construction"""
    import sageopt as so
    from sageopt.relaxations import sage_sigs as ss
    with warnings.catch_warnings():
        warnings.simplefilter('ignore')
        y = so.standard_sig_monomials(1)
        try:
            ss.infer_domain(y[0], [1 - y[0], y[0] - 2], [])
            return 'an empty inferred domain {x : e^x <= 1, e^x >= 2} was not detected at construction'
        except RuntimeError:
            pass
        X = ss.infer_domain(y[0], [2 - y[0], y[0] - 1], [])
        if X is None:
            return 'non-empty domain rejected'
        # a single inferred constraint can be infeasible on its own: e^x + e^-x <= 1 has no solution
        try:
            ss.infer_domain(y[0], [1 - y[0] - y[0] ** -1], [])
            return 'an empty inferred domain {x : e^x + e^-x <= 1} (a single constraint) was not detected at construction'
        except RuntimeError:
            pass
        # a SigDomain that is re-defined describes the new set in all three views (no stale answers)
        import sageopt.coniclifts as cl
        from sageopt.symbolic.signomials import SigDomain
        xs = cl.Variable(shape=(2,), name='redef_x')
        D = SigDomain(2)
        D.parse_coniclifts_constraints([xs <= 0, xs >= -1])
        first = D.suppfunc(np.array([1.0, 1.0]))
        D.parse_coniclifts_constraints([xs <= 1, xs >= -1])
        second = D.suppfunc(np.array([1.0, 1.0]))
        if abs(first - 0.0) > 1e-5 or abs(second - 2.0) > 1e-5:
            return ('suppfunc([1,1]) of {-1 <= x <= 0} is %r and, after re-defining the same SigDomain as {-1 <= x <= 1}, %r (expected 0 and 2)'
                    % (first, second))
        # the documented two-step construction detects emptiness as well: X = SigDomain(n); X.parse_coniclifts_constraints(cons)
        xt = cl.Variable(shape=(2,), name='twostep_x')
        for label, cons_t in (('{x0 >= 1, x0 <= 0}', [xt[0] >= 1, xt[0] <= 0]),
                              ('{e^x0 + e^x1 <= 1, x0 >= 0, x1 >= 0}', [cl.weighted_sum_exp(np.array([1.0, 1.0]), xt) <= 1, xt >= 0])):
            Dt = SigDomain(2)
            try:
                Dt.parse_coniclifts_constraints(cons_t)
                return 'SigDomain(2) followed by parse_coniclifts_constraints of the empty set %s did not report emptiness' % label
            except RuntimeError:
                pass
        # empty sets whose inequality offsets are all positive and whose emptiness comes from an EQUATION (or from two equations): every way of
        # building a domain (coniclifts constraints, AbK, inferred from signomial / polynomial constraints) reports them at construction
        xe = cl.Variable(shape=(2,), name='empty_eq_x')
        for label, cons_t in (('{x0 <= 0.5, x0 == 1}', [xe[0] <= 0.5, xe[0] == 1]), ('{x0 + x1 == 3, x0 <= 1, x1 <= 1}', [xe[0] + xe[1] == 3, xe <= 1]),
                              ('{x0 == 1, x0 == 2}', [xe[0] == 1, xe[0] == 2])):
            try:
                SigDomain(2, coniclifts_cons=cons_t)
                return 'SigDomain(2, coniclifts_cons=...) of the empty set %s did not report emptiness' % label
            except RuntimeError:
                pass
        for label, AbK in (('{x : x0 + 1 == 0, x0 + 2 == 0}', (np.array([[1.0, 0.0], [1.0, 0.0]]), np.array([1.0, 2.0]), [cl.Cone('0', 2)])),
                           ('{x : 0.5 - x0 >= 0, 1 - x0 == 0}',
                            (np.array([[-1.0, 0.0], [-1.0, 0.0]]), np.array([0.5, 1.0]), [cl.Cone('+', 1), cl.Cone('0', 1)]))):
            try:
                import scipy.sparse as sp_
                SigDomain(2, AbK=(sp_.csc_matrix(AbK[0]), AbK[1], AbK[2]))
                return 'SigDomain(2, AbK=...) of the empty set %s did not report emptiness' % label
            except RuntimeError:
                pass
        y2 = so.standard_sig_monomials(2)
        try:
            ss.infer_domain(y2[0], [0.5 - y2[0]], [y2[0] - 1])          # e^x0 <= 0.5 and e^x0 == 1
            return 'an empty inferred domain {e^x0 <= 0.5, e^x0 == 1} was not detected at construction'
        except RuntimeError:
            pass
        from sageopt.relaxations import sage_polys as sp
        xp = so.standard_poly_monomials(2)
        try:
            sp.infer_domain(xp[0] ** 2, [0.5 - xp[0] ** 2], [xp[0] ** 2 - 1])       # x0^2 <= 0.5 and x0^2 == 1
            return 'an empty inferred PolyDomain {x0^2 <= 0.5, x0^2 == 1} was not detected at construction'
        except (RuntimeError, ValueError):
            pass
        # a domain given by coniclifts constraints whose exponents carry CONSTANT shifts, exp(x0 - 1) + 2 exp(x1 + 2) <= 1, x >= -6: the conic data, the
        # membership test and the support function describe that set; the shifted empty set {exp(z + 3) <= 1, z >= -1} is reported
        xs_ = cl.Variable(shape=(2,), name='shift_dom_x')
        Xs = SigDomain(2, coniclifts_cons=[cl.weighted_sum_exp(np.array([1.0, 2.0]), xs_ + np.array([-1.0, 2.0])) <= 1, xs_ >= -6])
        want_sf = 1.0 + math.log(1.0 - 2.0 * math.exp(-4.0))
        sf = Xs.suppfunc(np.array([1.0, 0.0]))
        if abs(sf - want_sf) > 1e-4:
            return 'X = {exp(x0 - 1) + 2 exp(x1 + 2) <= 1, x >= -6}: suppfunc(e0) = %r, the closed form is %r' % (sf, want_sf)
        for pt, inside in (((0.5, -4.0), True), ((0.9, -5.9), True), ((1.5, -5.0), False), ((0.0, -2.0), False)):
            val_ = math.exp(pt[0] - 1.0) + 2.0 * math.exp(pt[1] + 2.0)
            xa = cl.Variable(shape=(Xs.A.shape[1],), name='shift_dom_lift')
            stf = cl.Problem(cl.MIN, cl.Expression([0]), [cl.PrimalProductCone(Xs.A @ xa + Xs.b, Xs.K), xa[:2] == np.array(pt)]).solve(verbose=False)
            conic_in = (stf[0] == 'solved' and stf[1] < 1e-6)
            if conic_in != inside:
                return ('X = {exp(x0 - 1) + 2 exp(x1 + 2) <= 1, x >= -6}: the point %s (left-hand side %g) is %s the set but the conic data (A, b, K) of X %s it'
                        % (pt, val_, 'in' if inside else 'outside', 'accept' if conic_in else 'reject'))
        zs_ = cl.Variable(shape=(1,), name='shift_dom_z')
        try:
            SigDomain(1, coniclifts_cons=[cl.weighted_sum_exp(np.array([1.0]), zs_ + 3.0) <= 1, zs_ >= -1])
            return 'the empty set {exp(z + 3) <= 1, z >= -1} was accepted at construction'
        except RuntimeError:
            pass
        # constraints with rows that mention NO coordinate (a box on some coordinates written with a masked matrix: diag(1, 0, 1) @ x <= ub): a true constant
        # row (0 <= 1) changes nothing, a false one (0 <= -1) makes the set empty, and the conic data, membership and support function agree on that
        xm_ = cl.Variable(shape=(3,), name='mask_dom_x')
        Dm = np.diag([1.0, 0.0, 1.0])
        try:
            Xm = SigDomain(3, coniclifts_cons=[Dm @ xm_ <= np.array([1.0, 1.0, 1.0]), Dm @ xm_ >= np.array([-1.0, -1.0, -1.0])])
        except RuntimeError:
            return 'the non-empty set {|x0| <= 1, |x2| <= 1} in R^3 written as diag(1,0,1) @ x <= 1, >= -1 (two true constant rows) was reported empty at construction'
        sfm = Xm.suppfunc(np.array([1.0, 0.0, -2.0]))
        if abs(sfm - 3.0) > 1e-4:
            return 'X = {|x0| <= 1, |x2| <= 1} in R^3 written with a masked matrix: suppfunc((1, 0, -2)) = %r, expected 3' % sfm
        try:
            SigDomain(3, coniclifts_cons=[Dm @ xm_ <= np.array([1.0, -1.0, 1.0])])
            return 'the empty set given by diag(1,0,1) @ x <= (1, -1, 1) (the middle row reads 0 <= -1) was accepted at construction'
        except RuntimeError:
            pass
        # a badly scaled convexifiable constraint, 1 - 2e-9 exp(4 x0) >= 0 (i.e. x0 <= log(5e8)/4 = 5.0075): a term with a small coefficient is a term
        yt = so.standard_sig_monomials(2)
        for coef in (2e-9, 2.0 ** -29):
            gt_ = so.Signomial.from_dict({(0, 0): 1.0, (4, 0): -coef})
            Xt = ss.infer_domain(yt[0] + yt[1], [gt_], [])
            bound = math.log(1.0 / coef) / 4.0
            if Xt is None:
                return 'infer_domain dropped the only constraint 1 - %g exp(4 x0) >= 0 (X is None)' % coef
            sf = Xt.suppfunc(np.array([1.0, 0.0]))
            inside = Xt.check_membership(np.array([6.0, 0.0]), 1e-8)
            if not (abs(sf - bound) <= 1e-4 * (1 + bound)) or inside:
                return ('X inferred from 1 - %g exp(4 x0) >= 0: suppfunc(e0) = %r (the set is x0 <= %r), check_membership((6, 0)) = %s although the constraint is %r there'
                        % (coef, sf, bound, inside, float(gt_(np.array([6.0, 0.0])))))
        # solution recovery reads a domain, it does not redefine it: after sig_solrec the lists X.gts / X.eqs are what they were
        from sageopt.relaxations import sig_solution_recovery as ssr
        y3 = so.standard_sig_monomials(2)
        f3 = y3[0] + y3[1] + 0.5 * y3[0] ** -1 * y3[1] ** -1
        g3 = [4 - y3[0], 4 - y3[1], y3[0] + y3[1] - 1.5]          # the last one is not convexifiable (two positive terms)
        X3 = ss.infer_domain(f3, g3, [])
        n_g, n_e = len(X3.gts), len(X3.eqs)
        pr3 = ss.sig_constrained_relaxation(f3, g3, [], X3, form='dual')
        pr3.solve(verbose=False)
        for _ in range(2):
            try:
                ssr.sig_solrec(pr3)
            except Exception as e:
                return 'sig_solrec on a solved constrained dual relaxation over an inferred X raised %r' % (e,)
        if len(X3.gts) != n_g or len(X3.eqs) != n_e:
            return ('after solution recovery the SigDomain lists %d inequality and %d equality functions (before: %d and %d): the functional '
                    'description of X no longer matches its conic data' % (len(X3.gts), len(X3.eqs), n_g, n_e))
        ptin = np.log(np.array([0.3, 0.4]))          # in X (both <= 4) although y0 + y1 < 1.5, which is not a constraint OF X
        if not X3.check_membership(ptin, 1e-8):
            return 'after solution recovery check_membership rejects log(0.3, 0.4), which satisfies the conic data of X'
        # a user-specified SigDomain with a nonlinear (exponential) constraint, where an unrelated Variable is created between writing the
        # constraints and constructing the domain: the three views still describe {x : e^x0 + e^x1 <= 2}
        xe = cl.Variable(shape=(2,), name='userdom_x')
        ucons = [cl.weighted_sum_exp(np.array([1.0, 1.0]), xe) <= 2]
        _unrelated = cl.Variable(shape=(3,), name='userdom_unrelated')
        D2 = SigDomain(2, coniclifts_cons=ucons, gts=[lambda z: 2.0 - math.exp(z[0]) - math.exp(z[1])], eqs=[])
        for pt, inside in (([0.0, 0.0], True), ([-1.0, 0.4], True), ([0.6, -3.0], True), ([1.0, 0.0], False), ([0.5, 0.5], False)):
            mem = bool(D2.check_membership(np.array(pt), 1e-7))
            con = feasible_with_x_fixed(D2, pt)
            if mem != inside or (con is not None and con != inside):
                return ('user-specified SigDomain {e^x0 + e^x1 <= 2} (an unrelated Variable was created before SigDomain(...)): point %s is %s the '
                        'set, check_membership says %s, the conic data (A is %s) say %s' % (pt, 'in' if inside else 'outside', mem, D2.A.shape, con))
        for yv, want in (([1.0, 1.0], 0.0), ([1.0, 0.0], math.log(2.0))):
            got = D2.suppfunc(np.array(yv))
            if not abs(got - want) <= 1e-4:
                return 'user-specified SigDomain {e^x0 + e^x1 <= 2}: suppfunc(%s) = %r, expected %r' % (yv, got, want)
        # a box that is not centred at the origin, written with the abs atom (its epigraph rows carry the offset of the argument with BOTH signs)
        from sageopt.coniclifts.operators.abs import abs as cl_abs_
        xb = cl.Variable(shape=(2,), name='absbox_x')
        cen, rad = np.array([1.0, -0.5]), np.array([2.0, 1.0])
        D3 = SigDomain(2, coniclifts_cons=[cl_abs_(xb - cen) <= rad],
                       gts=[lambda z: 2.0 - abs(z[0] - 1.0), lambda z: 1.0 - abs(z[1] + 0.5)], eqs=[])
        for pt, inside in (([2.5, 0.25], True), ([1.0, -0.5], True), ([-0.5, -1.25], True), ([3.5, 0.0], False), ([0.0, 0.75], False), ([-1.5, 0.0], False)):
            mem = bool(D3.check_membership(np.array(pt), 1e-8))
            con = feasible_with_x_fixed(D3, pt)
            if mem != inside or (con is not None and con != inside):
                return ('user-specified SigDomain {|x0 - 1| <= 2, |x1 + 0.5| <= 1} (abs atom): point %s is %s the set, check_membership says %s, '
                        'the conic data say %s' % (pt, 'in' if inside else 'outside', mem, con))
        for yv in ([1.0, 0.0], [-1.0, 0.0], [0.0, -1.0], [1.0, 2.0]):
            want = float(np.array(yv) @ cen + np.abs(yv) @ rad)
            got = D3.suppfunc(np.array(yv))
            if not abs(got - want) <= 1e-4:
                return 'user-specified SigDomain {|x0 - 1| <= 2, |x1 + 0.5| <= 1} (abs atom): suppfunc(%s) = %r, expected %r' % (yv, got, want)
        # a component of x that no constraint mentions: X is unbounded along it (fixed 0520ccb; kept as a directed case)
        y2 = so.standard_sig_monomials(2)
        X2 = ss.infer_domain(y2[0], [1 - y2[0]], [])
        try:
            v = X2.suppfunc(np.array([1.0, 1.0]))
        except Exception as e:
            return 'suppfunc([1,1]) of X={x: x0<=0} in R^2 raises %s instead of returning +inf' % type(e).__name__
        if v != np.inf:
            return 'suppfunc([1,1]) of X={x: x0<=0} in R^2 is %r, not +inf' % v
    return None


def selection_direct(ctx):
    """the four selection functions of constraint_generators.py on single constraints with boundary sign patterns, against the functions
    regenerated from the source (Gen/GenConGen.v, evaluated inside Coq) and against what the property requires of a selection"""
    from sageopt.relaxations import constraint_generators as cg
    from sageopt.symbolic.signomials import Signomial
    from sageopt.symbolic.polynomials import Polynomial
    pats = [[1, -1], [1, 1], [-1, -1], [2, -1, -1], [1, 1, -1], [1, -1, 0], [0, 0], [3], [-2], [1, -2, -3, -1], [1, 0, 0], [-1, 0, 2], [0, -1]]
    cases, fails = [], []
    code = {'keep': 0, 'skip': 1, 'raise': 2, 'index': 3}

    def outcome(fn, g):
        try:
            with warnings.catch_warnings():
                warnings.simplefilter('ignore')
                r = fn([g])
            return 'keep' if len(r) == 1 else 'skip'
        except RuntimeError:
            return 'raise'
        except IndexError:
            return 'index'
    for pat in pats:
        m = len(pat)
        c = np.array([float(v) for v in pat])
        cq_c = [Fraction(v) for v in pat]
        # signomial with distinct exponent rows, the first one the constant
        alpha = np.array([[float(i), float((i * i) % 3)] for i in range(m)])
        g = Signomial(alpha, c)
        if g.m == m:      # the constructor kept every term (zeros included)
            o = outcome(cg.valid_posynomial_inequalities, g)
            cases.append((cq((Nat(0), (True, True), cq_c)), cq(Nat(code[o]))))
            npos = sum(1 for v in pat if v > 0)
            if (o == 'keep') != (npos == 1):
                fails.append('valid_posynomial_inequalities on coefficients %s: %s (a posynomial inequality can be normalised iff exactly one coefficient is positive)' % (pat, o))
            o = outcome(cg.valid_monomial_equations, g)
            cases.append((cq((Nat(1), (True, True), cq_c)), cq(Nat(code[o]))))
            if (o == 'keep') != (npos == 1 and sum(1 for v in pat if v != 0) <= 2):
                fails.append('valid_monomial_equations on coefficients %s: %s' % (pat, o))
        for even in (True, False):
            ea = np.array([[2 * i if even else (2 * i + (1 if i == 1 else 0)), 0] for i in range(m)])
            p = Polynomial(ea, c)
            if p.m != m:
                continue
            even = bool(np.all(ea % 2 == 0))      # what the exponents are, whatever was asked for (a single constant term is even)
            z0 = bool(p(np.zeros(2)) == 0)
            o = outcome(cg.valid_gp_representable_poly_inequalities, p)
            cases.append((cq((Nat(2), (even, z0), cq_c)), cq(Nat(code[o]))))
            npos = sum(1 for v in pat if v > 0)
            if (o == 'keep') != (even and npos == 1):
                fails.append('valid_gp_representable_poly_inequalities on coefficients %s (even exponents: %s): %s' % (pat, even, o))
            o = outcome(cg.valid_gp_representable_poly_eqs, p)
            cases.append((cq((Nat(3), (even, z0), cq_c)), cq(Nat(code[o]))))
            if (o == 'keep') != (even and npos == 1 and sum(1 for v in pat if v != 0) == 2):
                fails.append('valid_gp_representable_poly_eqs on coefficients %s (even exponents: %s): %s' % (pat, even, o))
    hdr = ('From Coq Require Import List Bool Arith QArith.\nFrom SageVerif Require Import Gen.GenConGen Base.Corr.\nImport ListNotations.\n'
           'Definition sc (s : sel) : nat := match s with SelKeep => 0 | SelSkip => 1 | SelRaise => 2 | SelIndexError => 3 end.\n'
           "Definition model (x : nat * (bool * bool) * list Q) : nat := let '(k, ez, c) := x in\n"
           '  sc (match k with 0%nat => gen_posy_sel c | 1%nat => gen_monoeq_sel c | 2%nat => gen_polyineq_sel (fst ez) (snd ez) c | _ => gen_polyeq_sel (fst ez) c end).')
    mism, err = vlib.run_suite_in_coq(ctx.pid, 'selection_direct', hdr, 'model', 'Nat.eqb', 'nat * (bool * bool) * list Q', 'nat', cases, shard=400)
    ctx.evaluations += len(cases)
    ctx.suites['selection_direct'] = {'cases': len(cases), 'mismatches': None if mism is None else len(mism), 'oracle_failure': fails[:1]}
    if err:
        ctx.problem('correspondence', 'suite selection_direct: ' + err)
    elif mism:
        ctx.problem('correspondence', 'suite selection_direct: the selection generated from the source and the implementation disagree on %s (impl %s)'
                    % (cases[mism[0]][0], cases[mism[0]][1]), inputs={'selection_case': cases[mism[0]][0]}, failing_input_found=False)
    if fails:
        ctx.problem('oracle', 'property fails on the implementation: ' + fails[0], inputs={'selection_case': fails[0]}, failing_input_found=True)


def run(ctx):
    selection_direct(ctx)
    from sageopt.relaxations import constraint_generators as cg
    import sageopt.coniclifts as cl
    cases = []
    for k in range(ctx.n(260, 2600)):
        n = ctx.rng.randint(1, 2)
        gts = [gen_con(ctx.rng, n) for _ in range(ctx.rng.randint(0, 3))]
        eqs = [gen_con(ctx.rng, n, eq=True) for _ in range(ctx.rng.randint(0, 2))]
        go = [c03.sig_obj(g, n) for g in gts]
        ho = [c03.sig_obj(h, n) for h in eqs]
        js = {'n': n, 'gts': str(gts), 'eqs': str(eqs)}
        out = None
        with warnings.catch_warnings():
            warnings.simplefilter('ignore')
            try:
                cg_ = cg.valid_posynomial_inequalities(go)
                ce_ = cg.valid_monomial_equations(ho)
                if any(h.m < 2 for h in ce_):
                    ctx.count('skipped', 'one-term equality (IndexError in clcons_from_standard_gprep)')
                    continue
                x = None
                cons = cg.clcons_from_standard_gprep(n, cg_, ce_)
                xids = None
                for con in cons:
                    for v in con.variables():
                        if v.name == 'temp_x':
                            xids = [int(i) for i in v.scalar_variable_ids]
                desc = describe_constraints(cons, xids or [], n) if cons else '[]'
                if desc is None:
                    ctx.problem('correspondence', 'could not read back an emitted log-space constraint', inputs=js)
                    continue
                out = '(Some (%s, %s, %s))' % (cq([c12.canon(g) for g in cg_]), cq([c12.canon(h) for h in ce_]), desc)
                ctx.count('result', 'domain' if cons else 'no constraints')
                if any(g.m >= 3 for g in cg_) or ce_:
                    ctx.nontrivial.add(vlib.sha(js))
            except (RuntimeError, IndexError) as e:
                out = 'None'
                ctx.count('result', type(e).__name__)
        cases.append((js, cq((Nat(n), [c12.canon(g) for g in go], [c12.canon(h) for h in ho])), out))
        if k % 5 == 0:
            why, info = oracle_domain(ctx.rng, n, gts, eqs)
            if info:
                ctx.count('oracle', info[0])
            if why:
                ctx.problem('oracle', 'property fails on the implementation: ' + why, inputs=js, failing_input_found=True)
                break
    ctx.evaluations += len(cases)
    mism, err = vlib.run_suite_in_coq(ctx.pid, 'infer_domain', HEADER, 'model', 'out_eqb', 'nat * list qsig * list qsig',
                                      'option (list qsig * list qsig * list lcon)', [(c[1], c[2]) for c in cases], shard=100)
    ctx.suites['infer_domain'] = {'cases': len(cases), 'mismatches': None if mism is None else len(mism)}
    if err:
        ctx.problem('correspondence', 'suite infer_domain: ' + err)
    else:
        if cases:
            ctx.samples.append({'suite': 'infer_domain', 'instance': cases[len(cases) // 2][0], 'impl': cases[len(cases) // 2][2][:300]})
        for idx in mism[:3]:
            model_out = vlib.coq_show(HEADER, 'model %s' % cases[idx][1])
            ctx.problem('correspondence', 'suite infer_domain: model and implementation disagree on %s; impl=%s model=%s'
                        % (cases[idx][0], cases[idx][2][:900], model_out[:900]), inputs=cases[idx][0], failing_input_found=False)
    # selection of the convexifiable POLYNOMIAL constraints (Model/PolyDom.v)
    import sageopt as so
    sel = []
    for _ in range(ctx.n(200, 2000)):
        n = ctx.rng.randint(1, 3)

        def gen_poly():
            rows = []
            style = ctx.rng.choice(['even', 'even', 'even', 'mixed'])
            for _k in range(ctx.rng.randint(1, 4)):
                a = [Fraction(ctx.rng.choice([0, 0, 2, 4] if style == 'even' else [0, 1, 2, 3])) for _j in range(n)]
                if a not in [r for r, _ in rows]:
                    rows.append((a, Fraction(ctx.rng.choice([-1, -2, -3, 1, 2, -1, 0]), ctx.rng.choice([1, 1, 2]))))
            if ctx.rng.random() < 0.3:       # no positive coefficient at all
                rows = [(a, -abs(c)) for a, c in rows]
            return rows
        gs = [gen_poly() for _ in range(ctx.rng.randint(0, 3))]
        hs = [gen_poly() for _ in range(ctx.rng.randint(0, 2))]
        mk = lambda rows: so.Polynomial(np.array([[float(v) for v in a] for a, _ in rows]).reshape(len(rows), n), np.array([float(c) for _, c in rows]))
        gp, hp = [mk(r) for r in gs], [mk(r) for r in hs]
        with warnings.catch_warnings():
            warnings.simplefilter('ignore')
            try:
                kept = vlib.Some([c12.canon(g) for g in cg.valid_gp_representable_poly_inequalities(gp)])
                ctx.count('poly_selection', 'ok')
            except RuntimeError:
                kept = None
                ctx.count('poly_selection', 'RuntimeError')
            kept_eq = [c12.canon(h) for h in cg.valid_gp_representable_poly_eqs(hp)]
        sel.append(({'gts': str(gs), 'eqs': str(hs)}, cq(([c12.canon(g) for g in gp], [c12.canon(h) for h in hp])), cq((kept, kept_eq))))
    ctx.evaluations += len(sel)
    mism, err = vlib.run_suite_in_coq(ctx.pid, 'poly_selection', HEADER_POLY, 'model_sel', 'sel_eqb', 'list qsig * list qsig',
                                      'option (list qsig) * list qsig', [(c[1], c[2]) for c in sel], shard=200)
    ctx.suites['poly_selection'] = {'cases': len(sel), 'mismatches': None if mism is None else len(mism)}
    if err:
        ctx.problem('correspondence', 'suite poly_selection: ' + err)
    else:
        for idx in mism[:3]:
            model_out = vlib.coq_show(HEADER_POLY, 'model_sel %s' % sel[idx][1])
            ctx.problem('correspondence', 'suite poly_selection: model and implementation disagree on %s; impl=%s model=%s'
                        % (sel[idx][0], sel[idx][2][:600], model_out[:600]), inputs=sel[idx][0], failing_input_found=False)
    npoly = 0
    for _ in range(ctx.n(40, 400)):
        why, info = oracle_poly_domain(ctx.rng)
        npoly += 1
        ctx.evaluations += 1
        if info:
            ctx.count('poly_domain', info[0])
            if info[0] == 'domain':
                ctx.nontrivial.add(vlib.sha(['poly', info[1]]))
        if why:
            ctx.problem('oracle', 'property fails on the implementation: ' + why, inputs={'suite': 'poly_domain'}, failing_input_found=True)
            break
    ctx.suites['poly_domain'] = {'cases': npoly}
    why = oracle_empty()
    if why:
        ctx.problem('oracle', why, inputs={'suite': 'emptiness'}, failing_input_found=True)


def search(ctx):
    for _ in range(150):
        why, _ = oracle_poly_domain(ctx.rng)
        if why:
            return {'suite': 'poly_domain', 'property_failure': why}
    for _ in range(120):
        n = ctx.rng.randint(1, 2)
        gts = [gen_con(ctx.rng, n) for _ in range(ctx.rng.randint(0, 3))]
        eqs = [gen_con(ctx.rng, n, eq=True) for _ in range(ctx.rng.randint(0, 2))]
        why, _ = oracle_domain(ctx.rng, n, gts, eqs)
        if why:
            return {'instance': {'gts': str(gts), 'eqs': str(eqs)}, 'property_failure': why}
    why = oracle_empty()
    if why:
        return {'suite': 'emptiness', 'property_failure': why}
    return None


def replay(payload):
    ctx = vlib.Ctx('C15', 'quick', int(payload.get('seed', 0)))
    found = search(ctx)
    print(found or 'property holds on the regenerated instances')
    return 1 if found else 0
