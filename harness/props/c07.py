"""C07 — the compiled conic system is equivalent to the high-level constraints.
Tie: Model/Compile.v vs compile_constrained_system on random models (affine / epigraph / product-cone constraints, shared
and repeated atoms, constant rows, non-participating components, unrelated Variables created in between).
Oracle: for sampled assignments of the user Variables, high-level satisfaction by definition vs membership of
A[x;aux]+b in K with aux = the atoms' values (the least epigraph values), plus variable_map / dimension checks."""
import math
import warnings
from fractions import Fraction

import numpy as np

from harness import vlib
from harness.vlib import Nat, cq, Raw
from harness.props import c08

RULE = ('case = random model: 1-4 elementwise constraints (==,<=,>=) over affine vectors and nonlinear atoms (abs,pos,exp,relent,'
        '2-norm; repeated, shared and constant arguments) and 0-2 Primal/DualProductCone constraints over {+,0,S,e}; '
        'non-trivial = model with >=1 nonlinear atom or >=1 non-+ cone; distinct by model hash')
TRUSTED = ['correspondence harness harness/props/c07.py (recovers id-indexed sparse rows from A via svid2col; coefficients mapped to a+b*e)',
           'translators harness/translator/rows_tr.py, prodcone_tr.py, epi_tr.py (Gen/GenRows.v, GenProdCone.v, GenEpi.v; atom argument tuples and the reading of triplets as rows per Model/TripletIdioms.v, validated by the suite epi_generated)',
           'ids of epigraph variables and the dummy column id are observed inputs of the model (uniqueness is C20)',
           'scipy.sparse csc construction (duplicate summation, eliminate_zeros)']
ASSUMPTIONS = ['Model/Compile.v is hand written; tied by correspondence only',
               'PowCone is modelled on its own (Model/PowCone.v, rows and weights; not part of compile_sound/complete); LMI (PSD) constraints are not modelled (semantic oracle only)',
               'equivalence theorems assume the DCP guard (convex atoms with nonnegative coefficients in <= rows); outside it '
               'sageopt silently relaxes (known finding F8)']
HEADER = ('From Coq Require Import List Bool Arith ZArith QArith.\n'
          'From SageVerif Require Import Model.Expr Model.SolverForms Model.Compile Base.Corr.\nImport ListNotations.\n'
          'Definition epi_of (tbl : list (atom * Z)) (a : atom) : Z :=\n'
          '  match filter (fun p => atom_eqb (fst p) a) tbl with (_, i) :: _ => i | [] => 0%Z end.\n'
          'Definition mk_econ (x : bool * list sexpr) : econ := {| e_op := if fst x then OpEq else OpLe; e_cells := snd x |}.\n'
          'Definition mk_smem (x : bool * list sexpr * list cone) : smem :=\n'
          '  if fst (fst x) then SDual (snd (fst x)) (snd x) else SPrimal (snd (fst x)) (snd x).\n'
          'Definition model (x : list (atom * Z) * Z * list (bool * list sexpr) * list (bool * list sexpr * list cone) * list (nat * list Z)) :=\n'
          "  let '(tbl, dummy, cs, ss, vars) := x in compile (epi_of tbl) dummy (map mk_econ cs) (map mk_smem ss) vars.\n"
          'Definition mk_out (x : list cone * list rrow * list Z * list (nat * list Z)) : option compiled :=\n'
          "  let '(K, rows, cols, vm) := x in Some {| c_K := K; c_rows := rows; c_cols := cols; c_varmap := vm |}.\n"
          'Definition out_eqb (m : option compiled) (i : option (list cone * list rrow * list Z * list (nat * list Z))) : bool :=\n'
          '  match i with Some o => compiled_eqb m (mk_out o) | None => match m with None => true | _ => false end end.')
TAG = {'0': 'T0', '+': 'TPos', 'S': 'TSoc', 'e': 'TExp'}
E = math.e


def qe(v):
    """float -> (a, b) with v = a + b*e, a or b a small dyadic rational"""
    v = float(v)
    f = Fraction(v)
    if f.denominator <= 2 ** 24:
        return (f, Fraction(0))
    r = Fraction(round(v / E * 2 ** 12), 2 ** 12)
    if float(np.exp(1) * float(r)) == v:
        return (Fraction(0), r)
    return (f, Fraction(0))


USES_TRANSLATOR = True
TWIN_FAIL = []


def gen_affine(rng, comps, k, allow_const=True):
    """list of k ScalarExpressions"""
    out = []
    for _ in range(k):
        r = rng.random()
        if r < 0.15 and allow_const:
            e = 0 * comps[0] + float(rng.randint(-3, 3))
        else:
            e = float(rng.choice([1, -1, 2, 0.5, -2])) * rng.choice(comps)
            if rng.random() < 0.5:
                e = e + float(rng.choice([1, -1, 3])) * rng.choice(comps)
            if rng.random() < 0.15:
                c0 = rng.choice(comps)
                e = e + c0 - c0          # explicit zero coefficient
            if rng.random() < 0.6:
                e = e + float(rng.randint(-2, 2))
        out.append(e)
    return out


def build_model(rng):
    import sageopt.coniclifts as cl
    from sageopt.coniclifts.operators.abs import abs as clabs
    from sageopt.coniclifts.operators.pos import pos as clpos
    from sageopt.coniclifts.base import Expression
    user = [cl.Variable(shape=(3,), name='x'), cl.Variable(shape=(2, 2), name='Y'), cl.Variable(shape=(), name='s')]
    if rng.random() < 0.5:
        cl.Variable(shape=(rng.randint(1, 3),), name='unrelated')
    comps = []
    for v in user:
        comps += [v[idx] for idx in np.ndindex(*v.shape)] if v.shape else [v[()]]
    comps = comps[:rng.randint(2, len(comps))]       # some components never participate
    cons, kinds = [], []
    shared_args = gen_affine(rng, comps, 2, allow_const=False)
    for _ in range(rng.randint(1, 4)):
        k = rng.randint(1, 3)
        aff1 = Expression(gen_affine(rng, comps, k))
        aff2 = Expression(gen_affine(rng, comps, k))
        kind = rng.choice(['aff', 'aff', 'abs', 'pos', 'exp', 'relent', 'norm', 'mixed', 'twin'])
        op = rng.choice(['<=', '>=', '=='])
        dcp = True
        if kind == 'aff':
            lhs, rhs = aff1, aff2
        else:
            def arg(k2):
                return Expression(shared_args[:k2]) if rng.random() < 0.3 and k2 <= 2 else Expression(gen_affine(rng, comps, k2))
            if kind == 'abs':
                nl = clabs(arg(k))
            elif kind == 'pos':
                nl = clpos(arg(k))
            elif kind == 'exp':
                nl = cl.weighted_sum_exp(np.array([float(rng.choice([1, 2, 0.5])) for _ in range(2)]), arg(2))
            elif kind == 'relent':
                nl = cl.relent(arg(2), arg(2))
            elif kind == 'norm':
                nl = cl.vector2norm(arg(rng.randint(1, 3)))
            elif kind == 'twin':
                # two atoms of one class whose arguments differ in a single number, -1 against -2 (numbers that hash equally in CPython), 1 against 2, ...
                base_e = Expression(gen_affine(rng, comps, 1, allow_const=False))
                base_e = base_e - base_e.ravel()[0].offset      # offset 0
                u, v = rng.choice([(-1.0, -2.0), (-1.0, -2.0), (1.0, 2.0), (-1.0, -3.0), (0.0, -1.0)])
                how = rng.choice(['abs_offset', 'pos_offset', 'exp_coeff', 'abs_coeff'])
                if how == 'abs_offset':
                    nl = clabs(base_e + u) + clabs(base_e + v)
                elif how == 'pos_offset':
                    nl = clpos(base_e + u) + clpos(base_e + v)
                elif how == 'exp_coeff':
                    cc = rng.choice(comps)
                    nl = cl.weighted_sum_exp(np.array([1.0, 1.0]), Expression([(u if u else 1.0) * cc, v * cc]))
                else:
                    cc = rng.choice(comps)
                    nl = clabs(Expression([(u if u else 1.0) * cc + 1.0])) + clabs(Expression([v * cc + 1.0]))
                # the sum of the two atoms must mean the sum of the two functions: compare with numpy at assigned values, independently of the
                # Expression's own bookkeeping (two different atoms must not be identified when they are added)
                for uv in user:
                    uv.value = np.array([rng.randint(-6, 6) / 2.0 for _ in range(max(uv.size, 1))]).reshape(uv.shape)
                bv = float(np.asarray(base_e.value, dtype=float).ravel()[0])
                if how in ('exp_coeff', 'abs_coeff'):
                    cv = float(np.asarray(Expression([cc]).value, dtype=float).ravel()[0])
                want = {'abs_offset': lambda: abs(bv + u) + abs(bv + v), 'pos_offset': lambda: max(bv + u, 0) + max(bv + v, 0),
                        'exp_coeff': lambda: math.exp((u if u else 1.0) * cv) + math.exp(v * cv),
                        'abs_coeff': lambda: abs((u if u else 1.0) * cv + 1.0) + abs(v * cv + 1.0)}[how]()
                gotv = float(np.asarray(nl.value, dtype=float).ravel()[0])
                natoms = len(nl.ravel()[0].atoms_to_coeffs)
                if abs(gotv - want) > 1e-9 * (1 + abs(want)) or natoms != 2:
                    TWIN_FAIL.append('the sum of two %s atoms whose arguments differ in one number (%r against %r) has %d atom(s) and evaluates to %r at '
                                     'assigned values; the two functions add up to %r' % (how.split('_')[0], u, v, natoms, gotv, want))
            else:
                nl = clabs(arg(k)) + float(rng.choice([1, 2])) * clpos(arg(k))
            if op == '==':
                op = '<='
            if rng.random() < 0.06:
                dcp = False
                lhs, rhs = aff2, nl + aff1          # affine <= convex : not DCP
                op = '<='
            elif op == '<=':
                lhs, rhs = nl + aff1, aff2
            else:
                lhs, rhs = aff2, nl + aff1
            if kind in ('exp', 'relent', 'norm', 'twin'):
                aff2 = Expression(gen_affine(rng, comps, 1))
                aff1 = Expression(gen_affine(rng, comps, 1))
                lhs, rhs = ((nl + aff1, aff2) if op == '<=' else (aff2, nl + aff1)) if dcp else (aff2, nl + aff1)
        with warnings.catch_warnings():
            warnings.simplefilter('ignore')
            con = {'<=': lambda: lhs <= rhs, '>=': lambda: lhs >= rhs, '==': lambda: lhs == rhs}[op]()
        cons.append(con)
        kinds.append((kind, op, dcp))
    sets = []
    for _ in range(rng.choice([0, 0, 1, 1, 2])):
        K = [rng.choice([('+', 1), ('+', 2), ('0', 1), ('S', 2), ('S', 3), ('e', 3)]) for _ in range(rng.randint(1, 3))]
        m = sum(n for _, n in K)
        y = Expression(gen_affine(rng, comps, m))
        dual = rng.random() < 0.5
        Kc = [cl.Cone(t, n) for t, n in K]
        from sageopt.coniclifts.constraints.set_membership.product_cone import DualProductCone
        sets.append((DualProductCone(y, Kc) if dual else cl.PrimalProductCone(y, Kc), dual, K))
        kinds.append(('dual' if dual else 'primal', K, True))
    if rng.random() < 0.3:
        cl.Variable(shape=(2,), name='unrelated2')
    return user, cons, sets, kinds


def observe_inputs(cons, sets):
    from sageopt.coniclifts.base import ScalarVariable
    tbl, seen = [], []
    atoms = []
    cs = []
    for c in cons:
        cells = []
        for se in c.expr.flat:
            cells.append(c08.cell_desc(se))
            for a in se.atoms_to_coeffs:
                if not isinstance(a, ScalarVariable) and not any(a == b for b in seen):
                    seen.append(a)
                    tbl.append((c08.atom_desc(a), int(a.epigraph_variable.id)))
                    atoms.append(a)
        cs.append((c.operator == '==', cells))
    ss = []
    for s, dual, K in sets:
        ss.append((dual, [c08.cell_desc(se) for se in s.y.flat], [(Raw(TAG[t]), Nat(n)) for t, n in K]))
    dummy = int(ScalarVariable.curr_variable_count()) - 1
    return tbl, dummy, cs, ss, atoms


def observe_output(A, b, K, variable_map, variables, svid2col):
    cols = sorted((col, i) for i, col in svid2col.items() if col >= 0)
    ids = [int(i) for _, i in cols]
    if [c for c, _ in cols] != list(range(A.shape[1])):
        return 'BADCOLS'
    Ad = A.tocsr()
    rows = []
    for i in range(A.shape[0]):
        r = Ad.getrow(i)
        ent = sorted((ids[j], v) for j, v in zip(r.indices.tolist(), r.data.tolist()) if v != 0)
        rows.append(([(int(i_), qe(v)) for i_, v in ent], qe(b[i])))
    Kc = [(Raw(TAG.get(co.type, 'TPow')), Nat(int(co.len))) for co in K]
    names = [v.name for v in variables]
    vm = [(Nat(k), [int(c) for c in variable_map[v.name].ravel().tolist()]) for k, v in enumerate(variables)]
    return vlib.Some((Kc, rows, ids, vm))


def in_cone(t, v, dual=False):
    if t == '0':
        return True if dual else all(abs(x) <= 1e-9 for x in v)
    if t == '+':
        return all(x >= -1e-9 for x in v)
    if t == 'S':
        return v[0] >= math.sqrt(sum(x * x for x in v[1:])) - 1e-9
    if t == 'e':
        x, y, z = v
        if dual:
            x, y, z = -z, E * y, -x
        if z > 1e-12:
            try:
                return z * math.exp(x / z) <= y + 1e-9
            except OverflowError:
                return False
        return abs(z) <= 1e-12 and x <= 1e-9 and y >= -1e-9
    raise ValueError(t)


def cone_margin_ok(t, v, dual=False, eps=1e-5):
    """True if the membership decision is robust to perturbations of size eps"""
    a = in_cone(t, [x + eps for x in v], dual) if t != 'e' else None
    if t == '0':
        return all(abs(x) > eps or x == 0 for x in v)
    if t == '+':
        return all(abs(x) > eps for x in v)
    if t == 'S':
        return abs(v[0] - math.sqrt(sum(x * x for x in v[1:]))) > eps
    x, y, z = v
    if dual:
        x, y, z = -z, E * y, -x
    if z > eps:
        try:
            return abs(z * math.exp(x / z) - y) > eps * (1 + abs(y))
        except OverflowError:
            return True
    return False


def oracle_model(rng, user, cons, sets, kinds, atoms, comp):
    """semantic equivalence on sampled assignments; None if it holds"""
    A, b, K, variable_map, variables, svid2col = comp
    if any(not k[2] for k in kinds):
        return None   # outside the DCP guard nothing is claimed by the equivalence (see F8)
    rowsK = []
    for co in K:
        rowsK.append((co.type, int(co.len)))
    if sum(n for _, n in rowsK) != A.shape[0] or A.shape[0] != b.size:
        return 'row dimensions of A, b, K disagree'
    # variable_map sanity
    seen_cols = {}
    for v in variables:
        vm = variable_map[v.name].ravel().tolist()
        for sid, col in zip(v.scalar_variable_ids, vm):
            if col >= A.shape[1] or col < -1:
                return 'variable_map entry out of range'
            if col >= 0:
                if seen_cols.get(col, sid) != sid:
                    return 'two scalar variables share column %d' % col
                seen_cols[col] = sid
            if col != svid2col[sid]:
                return 'variable_map disagrees with svid2col'
    for trial in range(6):
        for v in user:
            val = np.array([rng.randint(-6, 6) / 2.0 for _ in range(max(v.size, 1))]).reshape(v.shape)
            v.value = val
        robust = True
        hl = True
        for c in cons:
            lv, rv = np.asarray(c.lhs.value, dtype=float), np.asarray(c.rhs.value, dtype=float)
            d = (lv - rv).ravel()
            if np.any(~np.isfinite(d)):
                robust = False
                continue
            if np.any(np.abs(d) < 1e-5) and c.initial_operator != '==':
                robust = False
            if c.initial_operator == '<=':
                hl = hl and bool(np.all(d <= 1e-9))
            elif c.initial_operator == '>=':
                hl = hl and bool(np.all(d >= -1e-9))
            else:
                hl = hl and bool(np.all(np.abs(d) <= 1e-9))
                if np.any((np.abs(d) > 0) & (np.abs(d) < 1e-5)):
                    robust = False
        for s, dual, Kd in sets:
            yv = np.asarray(s.y.value, dtype=float).ravel().tolist()
            i = 0
            for t, n in Kd:
                blk = yv[i:i + n]
                i += n
                if not cone_margin_ok(t, blk, dual) and t != '0':
                    robust = False
                if t == '0' and not dual and any(0 < abs(x) < 1e-5 for x in blk):
                    robust = False
                hl = hl and in_cone(t, blk, dual)
        if not robust:
            continue
        x = np.zeros(A.shape[1])
        for v in user:
            for sid, val in zip(v.scalar_variable_ids, np.asarray(v.value, dtype=float).ravel().tolist()):
                col = svid2col[sid]
                if col >= 0:
                    x[col] = val
        for a in atoms:
            col = svid2col[a.epigraph_variable.id]
            av = float(a.value())
            if not math.isfinite(av):
                robust = False
            if col >= 0:
                x[col] = av
        if not robust:
            continue
        r = (A @ x + b).tolist()
        ok = True
        i = 0
        for t, n in rowsK:
            ok = ok and in_cone(t, r[i:i + n])
            i += n
        if ok != hl:
            return ('assignment %s: high-level constraints %s but A[x;aux]+b in K is %s (aux = atom values)'
                    % ({v.name: np.asarray(v.value).tolist() for v in user}, hl, ok))
        # affine constraints: residual rows equal the slack identically
    return None


def mentioned_variables(cons, sets):
    """names of the user Variables that occur with a nonzero coefficient somewhere in the model: in an affine cell, or in ANY argument
    (any component) of a nonlinear atom"""
    from sageopt.coniclifts.base import ScalarVariable
    names = set()

    def visit_cell(se):
        for at, co in se.atoms_to_coeffs.items():
            if co == 0:
                continue
            if isinstance(at, ScalarVariable):
                if at.parent is not None:
                    names.add(at.parent.name)
            else:
                for arg in at.args:
                    for item in arg:
                        if isinstance(item, tuple) and len(item) == 2 and isinstance(item[0], ScalarVariable) and item[1] != 0 \
                                and item[0].parent is not None:
                            names.add(item[0].parent.name)
    for c in cons:
        for arr in (c.lhs, c.rhs):
            for se in arr.flat:
                visit_cell(se)
    for s_, _, _ in sets:
        for se in s_.y.flat:
            visit_cell(se)
    return names


EPI_CASES = []
EPI_HEADER = (HEADER + '\nFrom SageVerif Require Import Model.TripletIdioms Gen.GenEpi.\n'
              "Definition gmodel (x : Z * Z * atom) : list cone * list rrow := let '(dummy, t, a) := x in gen_epi_block dummy t a.\n"
              "Definition g_eqb (m i : list cone * list rrow) : bool := list_eqb' cone_eqb (fst m) (fst i) && list_eqb' rrow_eqb (snd m) (snd i).")


def epi_case(a, desc, t):
    """the triplets one atom's epigraph_conic_form returns, read row by row (entries in list order), for the suite epi_generated"""
    from sageopt.coniclifts.base import ScalarVariable
    dummy = int(ScalarVariable.curr_variable_count()) - 1
    A_vals, A_rows, A_cols, b, K = a.epigraph_conic_form()
    rows = []
    for r in range(len(b)):
        rows.append(([(int(c), qe(v)) for v, rr, c in zip(A_vals, A_rows, A_cols) if int(rr) == r], qe(b[r])))
    return cq((dummy, int(t), desc)), cq(([(Raw(TAG[co.type]), Nat(int(co.len))) for co in K], rows))


def one_case(rng):
    import sageopt.coniclifts as cl
    user, cons, sets, kinds = build_model(rng)
    expected_names = mentioned_variables(cons, sets)
    tbl, dummy, cs, ss, atoms = observe_inputs(cons, sets)
    js = {'kinds': [str(k) for k in kinds]}
    def has_atoms(arr):
        return any(len(se.atoms_to_coeffs) > 0 for se in arr.flat)
    if not (any(has_atoms(c.lhs) or has_atoms(c.rhs) for c in cons) or any(has_atoms(s_.y) for s_, _, _ in sets)):
        return 'SKIP', js, None, None, kinds     # a model without any Variable is outside the property's scope
    try:
        with warnings.catch_warnings():
            warnings.simplefilter('ignore')
            comp = cl.compile_constrained_system(cons + [s for s, _, _ in sets])
        A, b, K, variable_map, variables, svid2col = comp
        names = [v.name for v in variables]
        out = observe_output(A, b, K, variable_map, variables, svid2col)
        vars_in = [(Nat(k), [int(i) for i in v.scalar_variable_ids]) for k, v in enumerate(variables)]
    except Exception as e:
        return None, js, None, 'compile raised %r' % (e,), kinds
    if out == 'BADCOLS':
        return None, js, None, 'svid2col does not enumerate the columns of A', kinds
    missing = sorted(nm for nm in expected_names if nm not in names or nm not in variable_map)
    if missing:
        return None, js, None, ('the user Variables %s occur in the constraints (possibly only in a later argument or component of a nonlinear '
                                'atom) but are missing from the compiled system\'s Variables / variable_map %s' % (missing, sorted(names))), kinds
    why = oracle_model(rng, user, cons, sets, kinds, atoms, comp)
    if TWIN_FAIL:
        why = TWIN_FAIL[0]
        del TWIN_FAIL[:]
    if why is None and rng.random() < 0.3:
        # the conic system is a function of the constraints: compiling the same objects again (and again) states the same system
        sig0 = ([(co.type, int(co.len)) for co in K], A.shape[0], sorted(n_ for n_ in names if not n_.startswith('_')))
        for rep in (2, 3):
            try:
                with warnings.catch_warnings():
                    warnings.simplefilter('ignore')
                    A2, b2, K2, vm2, vars2, _ = cl.compile_constrained_system(cons + [s for s, _, _ in sets])
            except Exception as e:
                why = 'compilation #%d of the same constraints raised %r' % (rep, e)
                break
            sig2 = ([(co.type, int(co.len)) for co in K2], A2.shape[0], sorted(v.name for v in vars2 if not v.name.startswith('_')))
            if sig2 != sig0:
                why = ('compilation #%d of the same constraint objects gives cones %s with %d rows over the user Variables %s; the first '
                       'compilation gave %s with %d rows over %s' % (rep, sig2[0], sig2[1], sig2[2], sig0[0], sig0[1], sig0[2]))
                break
    if why is None and len(EPI_CASES) < 400:
        for (desc, t), a in zip(tbl, atoms):
            try:
                EPI_CASES.append(epi_case(a, desc, t))
            except Exception as e:
                why = 'epigraph_conic_form of the atom %s raised %r' % (cq(desc)[:200], e)
    cin = cq((tbl, dummy, cs, ss, vars_in))
    return cin, js, cq(out), why, kinds


def run(ctx):
    cases = []
    for _ in range(ctx.n(300, 3000)):
        cin, js, cout, why, kinds = one_case(ctx.rng)
        if cin == 'SKIP':
            ctx.count('skipped', 'model_without_variables')
            continue
        if why:
            ctx.problem('oracle', 'property fails on the implementation: ' + why, inputs={'model': js, 'seed_note': 'regenerated by seed'},
                        failing_input_found=True)
            break
        for k in kinds:
            ctx.count('constraint_kind', k[0])
        if any(k[0] not in ('aff',) for k in kinds):
            ctx.nontrivial.add(vlib.sha(cin))
        ctx.count('dcp', all(k[2] for k in kinds))
        cases.append((js, cin, cout))
    ctx.evaluations += len(cases)
    T_in = 'list (atom * Z) * Z * list (bool * list sexpr) * list (bool * list sexpr * list cone) * list (nat * list Z)'
    T_out = 'option (list cone * list rrow * list Z * list (nat * list Z))'
    mism, err = vlib.run_suite_in_coq(ctx.pid, 'compile', HEADER, 'model', 'out_eqb', T_in, T_out, [(c[1], c[2]) for c in cases], shard=60)
    ctx.suites['compile'] = {'cases': len(cases), 'mismatches': None if mism is None else len(mism)}
    if err:
        ctx.problem('correspondence', 'suite compile: ' + err)
    else:
        if cases:
            ctx.samples.append({'suite': 'compile', 'model': cases[len(cases) // 2][0], 'input_coq': cases[len(cases) // 2][1][:600]})
        for idx in mism[:3]:
            model_out = vlib.coq_show(HEADER, 'model %s' % cases[idx][1])
            ctx.problem('correspondence', 'suite compile: model and implementation disagree on model %s; input=%s impl=%s model=%s '
                        '(the semantic oracle passed on this model)' % (cases[idx][0], cases[idx][1][:1500], cases[idx][2][:1500], model_out[:1500]),
                        inputs={'model': cases[idx][0]}, failing_input_found=False)
    ecases = list(EPI_CASES)
    del EPI_CASES[:]
    mism, err = vlib.run_suite_in_coq(ctx.pid, 'epi_generated', EPI_HEADER, 'gmodel', 'g_eqb', 'Z * Z * atom', 'list cone * list rrow', ecases, shard=200)
    ctx.suites['epi_generated'] = {'cases': len(ecases), 'mismatches': None if mism is None else len(mism)}
    ctx.evaluations += len(ecases)
    if err:
        ctx.problem('correspondence', 'suite epi_generated: ' + err)
    else:
        for idx in mism[:2]:
            model_out = vlib.coq_show(EPI_HEADER, 'gmodel %s' % ecases[idx][0])
            ctx.problem('correspondence', 'suite epi_generated: the regenerated epigraph_conic_form (Gen/GenEpi.v, idioms of Model/TripletIdioms.v) and the '
                        'implementation disagree on (dummy, epigraph id, atom) = %s; impl=%s generated=%s' % (ecases[idx][0][:600], ecases[idx][1][:800], model_out[:800]),
                        inputs={'suite': 'epi_generated', 'input': ecases[idx][0][:600]}, failing_input_found=False)
    why = oracle_later_arguments(ctx.rng)
    ctx.evaluations += 1
    if why:
        ctx.problem('oracle', 'property fails on the implementation: ' + why, inputs={'suite': 'later_arguments'}, failing_input_found=True)
    why = oracle_operator_semantics(ctx.rng)
    ctx.evaluations += 1
    ctx.suites['operator_semantics'] = {'cases': 1, 'failure': why}
    if why:
        ctx.problem('oracle', 'property fails on the implementation: ' + why, inputs={'suite': 'operator_semantics'}, failing_input_found=True)
    for _ in range(ctx.n(12, 100)):
        why = oracle_lmi(ctx.rng)
        ctx.evaluations += 1
        ctx.count('constraint_kind', 'lmi(oracle only)')
        if why:
            ctx.problem('oracle', 'property fails on the implementation: ' + why, inputs={'suite': 'lmi'}, failing_input_found=True)
            break
    pow_suite(ctx)
    for _ in range(ctx.n(12, 100)):
        why = oracle_powcone(ctx.rng)
        ctx.evaluations += 1
        ctx.count('constraint_kind', 'powcone(oracle only)')
        if why:
            ctx.problem('oracle', 'property fails on the implementation: ' + why, inputs={'suite': 'powcone'}, failing_input_found=True)
            break
    why = probe_known()
    if why:
        ctx.known_hits.append(why)


def DualProductCone_(y, K):
    from sageopt.coniclifts.constraints.set_membership.product_cone import DualProductCone
    return DualProductCone(y, K)


def oracle_later_arguments(rng):
    """a Variable that occurs ONLY in the second argument of relent, or only in a later component of a vector2norm argument, is a
    Variable of the compiled system: it has columns, and a solve loads a value into it"""
    import sageopt.coniclifts as cl
    with warnings.catch_warnings():
        warnings.simplefilter('ignore')
        xa = cl.Variable(shape=(2,), name='la_x')
        ya = cl.Variable(shape=(2,), name='la_y')
        za = cl.Variable(shape=(1,), name='la_z')
        cons = [cl.relent(xa + 1.0, ya + 2.0) <= 3, cl.vector2norm(cl.concatenate((xa[:1], 2.0 * za))) <= 4, xa >= 0, xa <= 2]
        A, b, K, vm, vs, _ = cl.compile_constrained_system(cons)
        names = sorted(v.name for v in vs)
        for v in (xa, ya, za):
            if v.name not in names or v.name not in vm or np.any(np.asarray(vm[v.name]) < 0):
                return ('the Variable %s occurs only in a later argument / component of a nonlinear atom and is missing from the compiled '
                        'system (Variables %s, variable_map[%s] = %s)' % (v.name, names, v.name, vm.get(v.name)))
        st, val = cl.Problem(cl.MIN, ya[0] + ya[1] - za[0], cons + [ya >= -1, za <= 1]).solve(verbose=False)
        if st == 'solved' and not (np.all(np.isfinite(ya.value)) and np.all(np.isfinite(za.value))):
            return 'after a solve the Variables la_y / la_z hold %s / %s' % (ya.value, za.value)
        # arrays that numpy itself stacks from several Variables (np.concatenate, np.hstack, np.stack keep the Python type of their inputs): every
        # Variable with a component in the argument of a set-membership constraint is a Variable of the compiled system
        for how in ('concatenate', 'hstack', 'stack', 'concatenate_slices'):
            pa = cl.Variable(shape=(2,), name='mix_a_' + how)
            pb = cl.Variable(shape=(2,), name='mix_b_' + how)
            pc = cl.Variable(shape=(2,), name='mix_c_' + how)
            arr = {'concatenate': lambda: np.concatenate((pa, pb, pc)), 'hstack': lambda: np.hstack((pa, pb, pc)),
                   'stack': lambda: np.stack((pa, pb, pc)).ravel(), 'concatenate_slices': lambda: np.concatenate((pa[1:], pb, pc[:1]))}[how]()
            m_ = int(np.size(arr))
            for setcon in (lambda: cl.PrimalProductCone(arr, [cl.Cone('+', m_)]), lambda: DualProductCone_(arr, [cl.Cone('+', m_)])):
                con_ = setcon()
                A, b, K, vm, vs, _ = cl.compile_constrained_system([con_])
                names = sorted(v.name for v in vs)
                for v in (pa, pb, pc):
                    if v.name not in names or v.name not in vm:
                        return ('np.%s of three Variables as the argument of a product-cone constraint: the Variable %s has components in the argument but is '
                                'missing from the compiled system (Variables %s)' % (how, v.name, names))
                if A.shape[1] != m_:
                    return 'np.%s of three Variables in a product cone over R^%d_+ compiles to %d columns' % (how, m_, A.shape[1])
            st, val = cl.Problem(cl.MIN, pa[1] + pb[0] + pb[1] + pc[0], [cl.PrimalProductCone(arr - 1.0, [cl.Cone('+', m_)])]).solve(verbose=False)
            vals_ = [float(pa.value[1]), float(pb.value[0]), float(pb.value[1]), float(pc.value[0])]
            if st != 'solved' or abs(val - 4.0) > 1e-5 or not np.allclose(vals_, 1.0, atol=1e-4):
                return ('min of four components s.t. np.%s(...) - 1 in R^m_+ reports (%s, %r) with component values %s; the optimum is 4 with every component 1'
                        % (how, st, val, vals_))
    return None


def oracle_operator_semantics(rng):
    """the nonlinear operators mean what their definitions say for arguments of every shape and memory layout (transposes, reversed and strided
    slices, Fortran order): the value of the operator at assigned Variable values is compared with numpy on the values, element for element"""
    import sageopt.coniclifts as cl
    from sageopt.coniclifts.operators.abs import abs as clabs
    from sageopt.coniclifts.operators.pos import pos as clpos
    with warnings.catch_warnings():
        warnings.simplefilter('ignore')
        X = cl.Variable(shape=(2, 3), name='os_X')
        Y = cl.Variable(shape=(3, 2), name='os_Y')
        vX = np.array([[1.0, 2.0, 0.5], [3.0, 0.25, 4.0]])
        vY = np.array([[2.0, 1.0], [0.5, 4.0], [8.0, 0.125]])
        X.value, Y.value = vX, vY

        def rel(a, b):
            return a * np.log(a / b)
        layouts = [('X.T, Y', X.T, Y, vX.T, vY), ('X, Y.T', X, Y.T, vX, vY.T), ('X[::-1], Y.T', X[::-1], Y.T, vX[::-1], vY.T),
                   ('X.T[::-1], Y', X.T[::-1], Y, vX.T[::-1], vY), ('X[:, ::2], Y.T[:, ::2]', X[:, ::2], Y.T[:, ::2], vX[:, ::2], vY.T[:, ::2]),
                   ('2 * X.T + 1, Y', 2 * X.T + 1, Y, 2 * vX.T + 1, vY), ('X.T, Y + 0', X.T, Y + 0.0, vX.T, vY),
                   ('asfortranarray(X), Y.T', cl.Expression(np.asfortranarray(np.asarray(X, dtype=object))), Y.T, vX, vY.T)]
        for name, ea, eb, va, vb in layouts:
            got = float(np.asarray(cl.relent(ea, eb).value, dtype=float).ravel()[0])
            want = float(np.sum(rel(va, vb)))
            if abs(got - want) > 1e-9 * (1 + abs(want)):
                return 'relent(%s) evaluates to %r at the assigned values; sum x_i log(x_i / y_i) over corresponding entries is %r' % (name, got, want)
            gote = np.asarray(cl.relent(ea, eb, elementwise=True).value, dtype=float)
            if gote.shape != va.shape or not np.allclose(gote, rel(va, vb)):
                return 'relent(%s, elementwise=True) evaluates to %s; numpy gives %s' % (name, gote.tolist(), rel(va, vb).tolist())
            for opn, f, g in (('abs', clabs, np.abs), ('pos', clpos, lambda t: np.maximum(t, 0))):
                gv = np.asarray(f(ea - 1.5 * eb).value, dtype=float)
                if gv.shape != va.shape or not np.allclose(gv, g(va - 1.5 * vb)):
                    return '%s(%s combined) evaluates to %s; numpy gives %s' % (opn, name, gv.tolist(), g(va - 1.5 * vb).tolist())
        # and through a compilation: relent(X.T, Y) <= r at X.T = Y must be feasible with r = 0 (every term vanishes only for the right pairing)
        r = cl.Variable(shape=(1,), name='os_r')
        st, val = cl.Problem(cl.MIN, r[0], [cl.relent(X.T, Y) <= r, X == vY.T, Y == vY]).solve(verbose=False)
        if st != 'solved' or abs(val) > 1e-5:
            return 'min r s.t. relent(X.T, Y) <= r with X.T = Y fixed reports (%s, %r); the optimum is 0' % (st, val)
        X.value, Y.value = vX, vY          # the solve above loaded other values
        # affine operators on either side of @, with matrices that are not symmetric: the compiled residual of `x @ M <= c` at a point is c - x0 @ M
        xm = cl.Variable(shape=(3,), name='os_xm')
        Mn = np.array([[1.0, 2.0, 0.0], [0.0, 1.0, -1.0], [3.0, 0.0, 1.0]])
        x0 = np.array([0.95, -0.15, -0.1])
        xm.value = x0
        for nm, fe_, want in (('x @ M', lambda: xm @ Mn, x0 @ Mn), ('M @ x', lambda: Mn @ xm, Mn @ x0), ('x @ M.T', lambda: xm @ Mn.T, x0 @ Mn.T),
                              ('(x + 1) @ M', lambda: (xm + 1.0) @ Mn, (x0 + 1.0) @ Mn), ('x[:2] @ M[:2]', lambda: xm[:2] @ Mn[:2], x0[:2] @ Mn[:2])):
            try:
                e_ = fe_()
            except Exception as e:
                return '%s with a non-symmetric / non-square M raised %r; numpy gives %s' % (nm, e, np.asarray(want).tolist())
            gvv = np.asarray(e_.value, dtype=float)
            if gvv.shape != np.shape(want) or not np.allclose(gvv, want):
                return '%s with a non-symmetric M evaluates to %s at x = %s; numpy gives %s' % (nm, gvv.tolist(), x0.tolist(), np.asarray(want).tolist())
        cvec = np.array([1.0, 2.0, 1.5])
        for nm, con_ in (('x @ M <= c', xm @ Mn <= cvec), ('c - x @ M in R^3_+', cl.PrimalProductCone(cvec - xm @ Mn, [cl.Cone('+', 3)]))):
            A_, b_, K_, vm_, _, _ = cl.compile_constrained_system([con_])
            cols = np.asarray(vm_[xm.name]).ravel()
            z = np.zeros(A_.shape[1])
            z[cols] = x0
            res = np.sort(np.asarray(A_ @ z + b_).ravel())
            if A_.shape != (3, 3) or not np.allclose(res, np.sort(cvec - x0 @ Mn)):
                return ('%s with a non-symmetric M: the compiled rows at x = %s are %s; the slack c - x @ M is %s' % (nm, x0.tolist(), res.tolist(), np.sort(cvec - x0 @ Mn).tolist()))
        w = np.array([1.0, 2.0, 0.5])
        gv = float(np.asarray(cl.weighted_sum_exp(w, X.T[:, 1]).value, dtype=float).ravel()[0])
        if abs(gv - float(np.sum(w * np.exp(vX.T[:, 1])))) > 1e-9 * (1 + abs(gv)):
            return 'weighted_sum_exp(w, X.T[:, 1]) evaluates to %r; numpy gives %r' % (gv, float(np.sum(w * np.exp(vX.T[:, 1]))))
        gv = float(np.asarray(cl.vector2norm(Y.T[0, ::-1]).value, dtype=float).ravel()[0])
        if abs(gv - float(np.linalg.norm(vY.T[0, ::-1]))) > 1e-9:
            return 'vector2norm(Y.T[0, ::-1]) evaluates to %r; numpy gives %r' % (gv, float(np.linalg.norm(vY.T[0, ::-1])))
    return None


def oracle_lmi(rng):
    """linear matrix inequalities are outside the row model; semantic check: for sampled symmetric X, the rows the constraint compiles to
    (the upper triangle of the matrix argument in row-major order, K = P of length k(k+1)/2) form a positive semidefinite matrix iff the inequality as written holds
    (X << M means M - X is PSD, X >> M means X - M is PSD)"""
    import sageopt.coniclifts as cl
    from sageopt.coniclifts.constraints.set_membership.psd_cone import PSD
    k = rng.choice([1, 2, 3])
    X = cl.Variable(shape=(k, k), name='lmiX', var_properties=['symmetric'])
    Mh = np.array([[float(rng.choice([0, 1, -1, 2])) for _ in range(k)] for _ in range(k)])
    M = (Mh + Mh.T) / 2 + np.eye(k)
    how = rng.choice(['<<', '>>', 'PSD(M - X)', 'PSD(X - M)'])
    with warnings.catch_warnings():
        warnings.simplefilter('ignore')
        con = {'<<': lambda: X << M, '>>': lambda: X >> M, 'PSD(M - X)': lambda: PSD(M - X), 'PSD(X - M)': lambda: PSD(X - M)}[how]()
        A, b, K, vm, vs, _ = cl.compile_constrained_system([con])
    if [(co.type, co.len) for co in K] != [('P', k * (k + 1) // 2)]:
        return 'an LMI on a %dx%d matrix compiles to cones %s' % (k, k, [(co.type, co.len) for co in K])
    cols = vm[X.name]
    for _ in range(40):
        Vh = np.array([[float(rng.choice([0, 1, -1, 2, -2, 0.5])) for _ in range(k)] for _ in range(k)])
        V = (Vh + Vh.T) / 2
        z = np.zeros(A.shape[1])
        for i_ in range(k):
            for j_ in range(k):
                z[cols[i_, j_]] = V[i_, j_]
        r = np.asarray(A @ z + b).ravel()
        S = np.zeros((k, k))
        S[np.triu_indices(k)] = r
        S = S + np.triu(S, 1).T
        want_mat = (M - V) if how in ('<<', 'PSD(M - X)') else (V - M)
        ew, eg = np.linalg.eigvalsh(want_mat), np.linalg.eigvalsh(S)
        if min(abs(ew.min()), abs(eg.min())) < 1e-6:
            continue
        if (ew.min() >= 0) != (eg.min() >= 0) or not np.allclose(S, want_mat, atol=1e-12):
            return ('the constraint "X %s" with M = %s: at X = %s the inequality as written %s, but the compiled rows form the matrix %s (min eigenvalue %g)'
                    % (how if how in ('<<', '>>') else how, M.tolist(), V.tolist(), 'holds' if ew.min() >= 0 else 'fails', S.tolist(), eg.min()))
    return None


POW_HEADER = ('From Coq Require Import List Bool Arith ZArith QArith.\n'
              'From SageVerif Require Import Model.Expr Model.SolverForms Model.Compile Model.PowCone Base.Corr.\nImport ListNotations.\n'
              '(* 0 = ValueError, 1 = outside the documented domain (not compared), 2 = rows *)\n'
              'Definition model (x : Z * list sexpr * list Q) : nat * (list cone * list rrow * list Q) :=\n'
              "  let '(dummy, w, lamb) := x in match pow_conic_form dummy w lamb with\n"
              '  | PowValueError => (0%nat, ([], [], [])) | PowOutside => (1%nat, ([], [], []))\n'
              '  | PowOk K rows wt => (2%nat, (K, map canon_row rows, wt)) end.\n'
              'Definition out_eqb (m i : nat * (list cone * list rrow * list Q)) : bool :=\n'
              '  Nat.eqb (fst m) (fst i) && (Nat.eqb (fst m) 1 || (list_eqb\' cone_eqb (fst (fst (snd m))) (fst (fst (snd i))) &&\n'
              '    list_eqb\' rrow_eqb (snd (fst (snd m))) (snd (fst (snd i))) && list_eqb\' Qeq_bool (snd (snd m)) (snd (snd i)))).')


def pow_case(rng):
    """(json, coq input, coq output) for one PowCone(w, lamb): the constructor and conic_form against Model/PowCone.pow_conic_form"""
    import sageopt.coniclifts as cl
    from sageopt.coniclifts.base import ScalarVariable, Expression
    from sageopt.coniclifts.constraints.set_membership.pow_cone import PowCone
    from harness.props import c08
    n = rng.randint(1, 4)
    kind = rng.choice(['valid'] * 6 + ['size', 'allpos', 'sum', 'zero_entry', 'two_neg'])
    zpos = rng.randrange(n + 1)
    while True:
        # the positive entries add up to a power of two, so that the normalised weights lamb_i / |lamb_neg| are exact binary fractions
        tot = Fraction(rng.choice([1, 2, 4, 8]))
        pos = [Fraction(rng.randint(1, 12), 4) for _ in range(n - 1)]
        last = tot - sum(pos)
        if last > 0:
            pos.append(last)
            break
    # |lamb_neg| a power of two whenever possible so that the normalised weights are exact binary fractions
    lam = pos[:zpos] + [-tot] + pos[zpos:]
    if kind == 'allpos':
        lam = [abs(v) for v in lam]
    elif kind == 'sum':
        lam[zpos] = lam[zpos] - Fraction(rng.choice([1, 2]), 4)
    elif kind == 'zero_entry' and n >= 2:
        k0 = rng.choice([i for i in range(n + 1) if i != zpos])
        lam[zpos] += lam[k0]
        lam[k0] = Fraction(0)
    elif kind == 'two_neg' and n >= 2:
        k0 = rng.choice([i for i in range(n + 1) if i != zpos])
        lam[zpos] += 2 * lam[k0]
        lam[k0] = -lam[k0]
    if kind in ('zero_entry', 'two_neg') and not (sum(1 for v in lam if v < 0) >= 2 or any(v == 0 for v in lam)):
        # the modification did not leave the documented domain (or n < 2): keep the valid vector
        lam = pos[:zpos] + [-tot] + pos[zpos:]
        kind = 'valid'
    x = cl.Variable(shape=(n + 1,), name='pwc')
    cells = []
    for i in range(n + 1):
        r = rng.random()
        if r < 0.15:
            cells.append(Expression([float(rng.choice([0, 1, 2, 0.5]))])[0])           # a constant cell: the dummy column
        elif r < 0.6:
            cells.append(x[i] * 1.0)
        else:
            j = rng.randrange(n + 1)
            cells.append(float(rng.choice([1, 2, -1, 0.5])) * x[i] + float(rng.choice([1, -2, 0.25])) * x[j] + float(rng.choice([0, 1, -0.5])))
    w = Expression(cells)
    if kind == 'size':
        w = Expression(cells[:-1])
    lamb = np.array([float(v) for v in lam])
    wdesc = [c08.cell_desc(se) for se in w.flat]
    js = {'kind': kind, 'lamb': [str(v) for v in lam], 'n': n, 'zpos': zpos}
    try:
        with warnings.catch_warnings():
            warnings.simplefilter('ignore')
            con = PowCone(w, lamb)
            dummy = int(ScalarVariable.curr_variable_count()) - 1
            (blk,) = con.conic_form()
    except ValueError:
        # outside the documented domain (a zero entry, two negative entries) numpy broadcasting decides what happens: not compared
        outside = kind in ('zero_entry', 'two_neg')
        return js, cq((0, wdesc, lam)), cq((Nat(1 if outside else 0), ([], [], [])))
    except Exception as e:
        js['error'] = type(e).__name__
        return js, cq((0, wdesc, lam)), cq((Nat(1), ([], [], [])))
    A_vals, A_rows, A_cols, b, K = blk
    m = len(b)
    rows = [dict() for _ in range(m)]
    for v, r, c in zip(list(A_vals), np.asarray(A_rows).tolist(), list(A_cols)):
        rows[int(r)][int(c)] = rows[int(r)].get(int(c), 0.0) + float(v)
    out_rows = []
    for r, bv in zip(rows, np.asarray(b, dtype=float).tolist()):
        out_rows.append(([(i, qe(v)) for i, v in sorted(r.items()) if v != 0], qe(bv)))
    Kd = [(Raw({'pow': 'TPow'}.get(co.type, TAG.get(co.type, 'T0'))), Nat(int(co.len))) for co in K]
    wts = [Fraction(float(v)) for v in np.asarray(K[0].annotations['weights'], dtype=float).ravel().tolist()]
    code = 2 if kind == 'valid' else 1
    return js, cq((dummy, wdesc, lam)), cq((Nat(code), (Kd, out_rows, wts)))


def pow_suite(ctx):
    cases = []
    for _ in range(ctx.n(150, 1500)):
        js, cin, cout = pow_case(ctx.rng)
        ctx.count('powcone.kind', js['kind'])
        cases.append((js, cin, cout))
    ctx.evaluations += len(cases)
    mism, err = vlib.run_suite_in_coq(ctx.pid, 'powcone_rows', POW_HEADER, 'model', 'out_eqb', 'Z * list sexpr * list Q',
                                      'nat * (list cone * list rrow * list Q)', [(c[1], c[2]) for c in cases], shard=150)
    ctx.suites['powcone_rows'] = {'cases': len(cases), 'mismatches': None if mism is None else len(mism)}
    if err:
        ctx.problem('correspondence', 'suite powcone_rows: ' + err)
        return
    for idx in mism[:3]:
        model_out = vlib.coq_show(POW_HEADER, 'model %s' % cases[idx][1])
        ctx.problem('correspondence', 'suite powcone_rows: model and implementation disagree on %s; input=%s impl=%s model=%s'
                    % (cases[idx][0], cases[idx][1][:800], cases[idx][2][:800], model_out[:800]), inputs={'powcone': cases[idx][0]},
                    failing_input_found=False)


def oracle_powcone(rng):
    """PowCone(w, lamb) is outside the row model; its compiled rows are checked semantically: for sampled assignments, the rows
    A z + b lie in the power cone K announces (weights from K, last row = z) iff prod w_i^alpha_i >= |z| holds for the constraint's
    own w, z (the position of z in w is arbitrary)"""
    import sageopt.coniclifts as cl
    from sageopt.coniclifts.constraints.set_membership.pow_cone import PowCone
    n = rng.randint(2, 3)
    zpos = rng.randrange(n + 1)
    pos = [float(rng.choice([1, 2, 3])) for _ in range(n)]
    lamb = np.array(pos[:zpos] + [-sum(pos)] + pos[zpos:])
    x = cl.Variable(shape=(n + 1,), name='pw')
    M = np.eye(n + 1)
    if rng.random() < 0.5:
        M[0, n] = 0.5
    off = np.array([float(rng.choice([0, 0, 1])) for _ in range(n + 1)])
    w = M @ x + off
    with warnings.catch_warnings():
        warnings.simplefilter('ignore')
        con = PowCone(w, lamb)
        A, b, K, vm, vs, _ = cl.compile_constrained_system([con])
    pc = [co for co in K if co.type == 'pow']
    if len(pc) != 1 or pc[0].len != n + 1 or A.shape[0] != n + 1:
        return 'PowCone over %d entries compiles to cones %s' % (n + 1, [(co.type, co.len) for co in K])
    wts = np.asarray(pc[0].annotations['weights'], dtype=float).ravel()
    cols = vm[x.name].ravel()
    bad = 0
    for _ in range(60):
        xv = np.array([rng.choice([0.25, 0.5, 1.0, 2.0, 3.0, -1.0, -0.5, 4.0]) for _ in range(n + 1)])
        zfull = np.zeros(A.shape[1])
        zfull[cols] = xv
        r = np.asarray(A @ zfull + b).ravel()
        wv = M @ xv + off
        wp, zz = np.delete(wv, zpos), wv[zpos]
        al = np.delete(lamb, zpos) / abs(lamb[zpos])
        if np.any(wp <= 0):
            want = False
            margin = 1.0
        else:
            val = float(np.prod(np.power(wp, al)))
            want = val >= abs(zz)
            margin = abs(val - abs(zz))
        if margin < 1e-6:
            continue
        got = bool(np.all(r[:-1] > 0)) and float(np.prod(np.power(np.maximum(r[:-1], 1e-300), wts[:len(r) - 1] if len(wts) >= len(r) - 1 else wts))) >= abs(r[-1])
        if got != want:
            return ('PowCone(w, lamb=%s): at x=%s the constraint prod w_i^alpha_i >= |z| is %s but the compiled rows %s with weights %s say %s'
                    % (lamb.tolist(), xv.tolist(), want, r.tolist(), wts.tolist(), got))
    return None


def probe_known():
    """known finding F8: a non-DCP constraint is silently relaxed"""
    kf = [f for f in vlib.load_known_findings().get('findings', []) if f.get('id') == 'F8']
    if not kf:
        return None
    import sageopt.coniclifts as cl
    from sageopt.coniclifts.operators.abs import abs as clabs
    with warnings.catch_warnings():
        warnings.simplefilter('ignore')
        z = cl.Variable(shape=(1,), name='z')
        p = cl.Problem(cl.MIN, z[0], [clabs(z) >= 1, z >= -0.5, z <= 5])
        st, val = p.solve(verbose=False)
    if st == 'solved' and abs(val + 0.5) < 1e-5:
        return kf[0]['line']
    return None


def search(ctx):
    for _ in range(500):
        cin, js, cout, why, kinds = one_case(ctx.rng)
        if why:
            return {'model': js, 'property_failure': why}
    return None


def replay(payload):
    ctx = vlib.Ctx('C07', 'quick', int(payload.get('seed', 0)))
    found = search(ctx)
    print(found or 'property holds on the regenerated models')
    return 1 if found else 0
