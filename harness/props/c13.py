"""C13 — arithmetic on symbolic coefficients commutes with substituting values.
Tie: Model/SymSig.v (the generic Signomial model at sexpr coefficients) vs the implementation on random trees mixing
numeric and symbolic operands, each evaluated under several histories of the Variables' stored values (fresh NaN, all
zeros, values that make individual coefficients vanish, random): every history must give the model's single answer.
Oracle: compute-then-substitute vs substitute-then-compute, exactly, at random rational points."""
import itertools
import warnings
from fractions import Fraction

import numpy as np

from harness import vlib
from harness.vlib import Nat, cq, Raw
from harness.props import c12

RULE = ('case = random tree (depth<=3) over numeric and Expression-coefficient Signomials/Polynomials with +,-,*, scalar and '
        'ScalarExpression operands, Signomial.sum and without_zeros, evaluated under 4 value histories; non-trivial = tree with '
        '>=2 binary operations and a symbolic operand whose result has >=2 terms; distinct by tree hash')
TRUSTED = ['correspondence harness harness/props/c13.py (variable ids are canonicalised by position so that histories can be compared)',
           'float arithmetic exact on the generated domain']
ASSUMPTIONS = ['Model/SymSig.v is the generic model of Model/Signomial.v instantiated at Model/Expr.v; tied by correspondence only',
               'independence from stored values holds in the model by construction (no function takes the values); for the '
               'implementation it is carried by the multi-history correspondence']
HEADER = ('From Coq Require Import List Bool Arith ZArith QArith.\n'
          'From SageVerif Require Import Model.Expr Model.Signomial Model.SymSig Base.Corr.\nImport ListNotations.')
NV = 4   # canonical variable ids 0..3 : gamma, s0, s1, s2


def aff_coq(a):
    """affine form over canonical ids: (dict id->Fraction, offset)"""
    terms = [(Raw('(AVar %s)' % cq(int(i))), c) for i, c in a[0].items()]
    return '{| terms := %s; off := %s |}' % (cq(terms), cq(a[1]))


def gen_aff(rng):
    d = {}
    for _ in range(rng.choice([1, 1, 2])):
        d[rng.randrange(NV)] = Fraction(rng.choice([1, -1, 2, 3, -2]), rng.choice([1, 1, 2]))
    return (d, Fraction(rng.choice([0, 0, 1, -1, 2])))


def gen_rows(rng, n, poly, m):
    rows = []
    for _ in range(m):
        if poly:
            a = [Fraction(rng.choice([0, 0, 1, 2])) for _ in range(n)]
        else:
            a = [Fraction(rng.choice([0, 1, -1, 2, 1]), rng.choice([1, 1, 2])) for _ in range(n)]
        rows.append(a)
    return rows


def gen_tree(rng, n, poly, depth):
    r = rng.random()
    if depth == 0 or r < 0.3:
        m = rng.randint(1, 3)
        rows = gen_rows(rng, n, poly, m)
        if rng.random() < 0.3:
            rows.append(list(rows[0]))      # repeated exponent row
        if rng.random() < 0.5:
            return ('num', [(a, Fraction(rng.choice([1, -1, 2, 0, 3, -2]))) for a in rows])
        coeffs = []
        for a in rows:
            k = rng.random()
            if k < 0.6:
                coeffs.append(gen_aff(rng))
            elif k < 0.8:
                coeffs.append(({}, Fraction(rng.choice([0, 1, -2]))))      # constant Expression entries (incl. 0)
            else:
                v = rng.randrange(NV)
                coeffs.append(({v: Fraction(1)}, Fraction(0)))
        return ('sym', list(zip(rows, coeffs)))
    op = rng.choice(['add', 'add', 'sub', 'sub', 'mul', 'mul', 'scale', 'adde', 'sube', 'mule', 'sum', 'wz', 'cancel'])
    if op == 'mul' and n >= 2 and not poly and rng.random() < 0.3:
        # a single-term numeric factor whose exponents are not zero but add up to zero (y0 / y1, sqrt(y1 / y0), ...)
        e = Fraction(rng.choice([1, 2, 1]), rng.choice([1, 2]))
        row = [Fraction(0)] * n
        i, j = rng.sample(range(n), 2)
        row[i], row[j] = e, -e
        mono = ('num', [(row, Fraction(rng.choice([1, 2, -1, 3]), rng.choice([1, 2])))])
        a = gen_tree(rng, n, poly, depth - 1)
        return ('mul', a, mono) if rng.random() < 0.6 else ('mul', mono, a)
    if op in ('add', 'sub', 'mul'):
        return (op, gen_tree(rng, n, poly, depth - 1), gen_tree(rng, n, poly, depth - 1))
    if op == 'cancel':
        a = gen_tree(rng, n, poly, depth - 1)
        return ('sub', a, a)
    if op == 'scale':
        return ('scale', gen_tree(rng, n, poly, depth - 1), Fraction(rng.choice([1, -1, 2, 0, 3, -2]), rng.choice([1, 2])))
    if op in ('adde', 'sube', 'mule'):
        return (op, gen_tree(rng, n, poly, depth - 1), gen_aff(rng) if rng.random() < 0.8 else ({}, Fraction(rng.choice([0, 2]))))
    if op == 'sum':
        return ('sum', [gen_tree(rng, n, poly, depth - 1) for _ in range(rng.randint(1, 3))])
    return ('wz', gen_tree(rng, n, poly, depth - 1))


def tree_coq(t):
    k = t[0]
    if k == 'num':
        return '(YNum %s)' % cq([(a, c) for a, c in t[1]])
    if k == 'sym':
        return '(YSym [%s])' % '; '.join('(%s, %s)' % (cq(a), aff_coq(c)) for a, c in t[1])
    if k in ('add', 'sub', 'mul'):
        return '(%s %s %s)' % ({'add': 'YAdd', 'sub': 'YSub', 'mul': 'YMul'}[k], tree_coq(t[1]), tree_coq(t[2]))
    if k == 'scale':
        return '(YScale %s %s)' % (tree_coq(t[1]), cq(t[2]))
    if k in ('adde', 'sube', 'mule'):
        return '(%s %s %s)' % ({'adde': 'YAddE', 'sube': 'YSubE', 'mule': 'YMulE'}[k], tree_coq(t[1]), aff_coq(t[2]))
    if k == 'sum':
        return '(YSum [%s])' % '; '.join(tree_coq(x) for x in t[1])
    if k == 'wz':
        return '(YWithoutZeros %s)' % tree_coq(t[1])
    raise ValueError(k)


def tree_json(t):
    def aj(a):
        return [{str(i): str(c) for i, c in a[0].items()}, str(a[1])]
    k = t[0]
    if k == 'num':
        return ['num', [[[str(x) for x in a], str(c)] for a, c in t[1]]]
    if k == 'sym':
        return ['sym', [[[str(x) for x in a], aj(c)] for a, c in t[1]]]
    if k in ('add', 'sub', 'mul'):
        return [k, tree_json(t[1]), tree_json(t[2])]
    if k == 'scale':
        return [k, tree_json(t[1]), str(t[2])]
    if k in ('adde', 'sube', 'mule'):
        return [k, tree_json(t[1]), aj(t[2])]
    if k == 'sum':
        return [k, [tree_json(x) for x in t[1]]]
    return [k, tree_json(t[1])]


class World:
    def __init__(self, history, rng):
        import sageopt.coniclifts as cl
        self.g = cl.Variable(shape=(), name='gamma')
        self.s = cl.Variable(shape=(3,), name='s')
        self.comps = [self.g[()] if hasattr(self.g, '__getitem__') else self.g, self.s[0], self.s[1], self.s[2]]
        ids = [int(self.g.scalar_variable_ids[0])] + [int(i) for i in self.s.scalar_variable_ids]
        self.idmap = {i: k for k, i in enumerate(ids)}
        self.history = history
        self.rng = rng
        self.assign()

    def assign(self):
        h = self.history
        if h == 'fresh':
            return
        if h == 'zeros':
            vals = [0.0] * 4
        elif h == 'ones':
            vals = [1.0, -1.0, 1.0, -1.0]
        else:
            vals = [self.rng.randint(-4, 4) / 2.0 for _ in range(4)]
        self.g.value = np.array(vals[0])
        self.s.value = np.array(vals[1:])

    def aff(self, a):
        e = 0.0 * self.comps[0] + float(a[1]) if not a[0] else None
        if a[0]:
            e = None
            for i, c in a[0].items():
                term = float(c) * self.comps[i]
                e = term if e is None else e + term
            e = e + float(a[1])
        return e


def impl_eval(t, n, poly, w):
    import sageopt.coniclifts as cl
    from sageopt.symbolic.signomials import Signomial
    from sageopt.symbolic.polynomials import Polynomial
    cls = Polynomial if poly else Signomial
    k = t[0]
    if k == 'num':
        alpha = np.array([[float(x) for x in a] for a, _ in t[1]]).reshape(len(t[1]), n)
        return cls(alpha, np.array([float(c) for _, c in t[1]]))
    if k == 'sym':
        alpha = np.array([[float(x) for x in a] for a, _ in t[1]]).reshape(len(t[1]), n)
        cells = []
        for _, c in t[1]:
            cells.append(w.aff(c) if c[0] else float(c[1]))
        return cls(alpha, cl.Expression(cells))
    if k in ('add', 'sub', 'mul'):
        a, b = impl_eval(t[1], n, poly, w), impl_eval(t[2], n, poly, w)
        if a.m * b.m > 200:
            raise c12.TooBig()
        if w.history == 'interleave':
            w.assign()
        return {'add': lambda: a + b, 'sub': lambda: a - b, 'mul': lambda: a * b}[k]()
    if k == 'scale':
        a = impl_eval(t[1], n, poly, w)
        return a * float(t[2]) if hash(str(t)) % 2 else float(t[2]) * a
    if k in ('adde', 'sube', 'mule'):
        a = impl_eval(t[1], n, poly, w)
        e = w.aff(t[2])
        if not t[2][0]:
            e = (0.0 * w.comps[0] + float(t[2][1]))
        return {'adde': lambda: a + e, 'sube': lambda: a - e, 'mule': lambda: a * e}[k]()
    if k == 'sum':
        fs = [impl_eval(x, n, poly, w) for x in t[1]]
        return Signomial.sum(fs)
    if k == 'wz':
        return impl_eval(t[1], n, poly, w).without_zeros()
    raise ValueError(k)


def canon(f, w):
    """rows + coefficient cells with canonical variable ids"""
    from sageopt.coniclifts.base import Expression, ScalarExpression
    rows = []
    c = f.c
    cells = list(Expression(c).flat) if not (isinstance(c, np.ndarray) and c.dtype != object) else None
    for j, r in enumerate(np.asarray(f.alpha, dtype=float).tolist()):
        a = [Fraction(int(round(x * c12.GRID)), c12.GRID) for x in r]
        if cells is None:
            cell = ({}, Fraction(float(c[j])))
        else:
            se = cells[j]
            d = {}
            for at, co in se.atoms_to_coeffs.items():
                d[w.idmap[int(at.id)]] = d.get(w.idmap[int(at.id)], Fraction(0)) + Fraction(float(co))
            cell = (d, Fraction(float(se.offset)))
        rows.append((a, cell))
    return rows


def rows_coq(rows):
    return '[%s]' % '; '.join('(%s, %s)' % (cq(a), aff_coq(c)) for a, c in rows)


def canon_key(rows):
    return [([str(x) for x in a], sorted((i, str(c)) for i, c in cell[0].items() if c != 0), str(cell[1])) for a, cell in rows]


# ---------------------------------------------------------------- pointwise oracle
def tree_value(t, env, tpt, poly):
    k = t[0]
    av = lambda a: sum(c * env[i] for i, c in a[0].items()) + a[1]
    if k == 'num':
        return sum(c * c12.mono_val(a, tpt, poly) for a, c in t[1])
    if k == 'sym':
        return sum(av(c) * c12.mono_val(a, tpt, poly) for a, c in t[1])
    if k in ('add', 'sub', 'mul'):
        a, b = tree_value(t[1], env, tpt, poly), tree_value(t[2], env, tpt, poly)
        return {'add': a + b, 'sub': a - b, 'mul': a * b}[k]
    if k == 'scale':
        return tree_value(t[1], env, tpt, poly) * t[2]
    if k in ('adde', 'sube', 'mule'):
        a, e = tree_value(t[1], env, tpt, poly), av(t[2])
        return {'adde': a + e, 'sube': a - e, 'mule': a * e}[k]
    if k == 'sum':
        return sum(tree_value(x, env, tpt, poly) for x in t[1])
    return tree_value(t[1], env, tpt, poly)


def oracle_tree(t, n, poly, rng):
    outs = {}
    for h in ('fresh', 'zeros', 'ones', 'random', 'interleave'):
        w = World(h, rng)
        try:
            with warnings.catch_warnings():
                warnings.simplefilter('ignore')
                f = impl_eval(t, n, poly, w)
            outs[h] = canon(f, w)
        except c12.TooBig:
            return None
        except Exception as e:
            outs[h] = 'ERR'
    keys = {h: (o if o == 'ERR' else canon_key(o)) for h, o in outs.items()}
    base = keys['fresh']
    for h, kx in keys.items():
        if kx != base:
            return 'result depends on the values stored in the Variables: history %s gives %s, fresh Variables give %s' % (h, kx, base)
    if outs['fresh'] == 'ERR':
        return None
    rows = outs['fresh']
    for _ in range(4):
        env = [Fraction(rng.randint(-4, 4), rng.choice([1, 2])) for _ in range(NV)]
        tpt = [Fraction(rng.randint(1, 4), rng.randint(1, 3)) for _ in range(n)]
        try:
            want = tree_value(t, env, tpt, poly)
            got = sum((sum(c * env[i] for i, c in cell[0].items()) + cell[1]) * c12.mono_val(a, tpt, poly) for a, cell in rows)
        except (c12.Undefined, ZeroDivisionError):
            continue
        if got != want:
            return ('assigning %s then evaluating at %s gives %s, but computing numerically with the substituted coefficients gives %s'
                    % ([str(v) for v in env], [str(v) for v in tpt], got, want))
    return None


def oracle_scaling():
    """badly scaled numeric data: coefficients of size 2^-60 are coefficients, not zeros (every operation below is exact in
    floating point because tiny and ordinary numbers are never added)"""
    import sageopt as so
    import sageopt.coniclifts as cl
    from sageopt.symbolic.polynomials import Polynomial
    t = 2.0 ** -60
    alpha_g = np.array([[2, 0], [0, 1], [1, 1]])
    g = Polynomial(alpha_g, t * np.array([1.0, -2.0, 3.0]))
    v = cl.Variable(shape=(2,), name='mult')
    s_sym = Polynomial(np.array([[0, 0], [1, 0]]), v)
    f = Polynomial(np.array([[3, 1], [0, 0]]), t * np.array([5.0, -1.0]))
    gam = cl.Variable(name='gam')
    L = f - gam * t - s_sym * g            # every coefficient is tiny * (affine form with small integer coefficients)
    vals = 2.0 ** 60 * np.array([1.0, 2.0])
    v.value = vals
    gam.value = 2.0 ** 60 * 3.0
    s_num = Polynomial(np.array([[0, 0], [1, 0]]), vals)
    want_fn = f - 3.0 - s_num * g
    for pt in ([1.0, 2.0], [-0.5, 4.0], [2.0, -1.0]):
        x = np.array(pt)
        cs = np.array([float(ci.value) if hasattr(ci, 'value') else float(ci) for ci in L.c])
        got = float(np.sum(cs * np.prod(np.power(x, L.alpha), axis=1)))
        want = float(want_fn(x))
        if got != want:
            return ('L = f - gamma*t - s*g with coefficients of size 2^-60: after assigning the multiplier coefficients, L(%s) = %r but the '
                    'numeric computation with the substituted coefficients gives %r (L has %d terms, the numeric one %d)'
                    % (pt, got, want, L.m, want_fn.m))
    return None


def oracle_generations():
    """coefficients that are Variables declared before and after clear_variable_indices() carry the same indices but are different Variables: arithmetic
    that brings them onto the same exponent row keeps both (s_old - gamma_new is not 0 * s_old), and substituting values commutes with it"""
    import sageopt.coniclifts as cl
    from sageopt.symbolic.signomials import Signomial
    from sageopt.symbolic.polynomials import Polynomial
    for cls in (Signomial, Polynomial):
        cl.clear_variable_indices()
        s_old = cl.Variable(shape=(3,), name='gen_s_old')
        cl.clear_variable_indices()
        g_new = cl.Variable(shape=(2,), name='gen_g_new')
        alpha3 = np.array([[0, 0], [1, 0], [0, 2]])
        S = cls(alpha3, s_old)                                     # s0 + s1 t^(1,0) + s2 t^(0,2)
        h = cls(np.array([[0, 0], [1, 0]]), np.array([1.0, 2.0]))
        G = cls(np.array([[0, 0], [0, 2]]), g_new)                 # g0 + g1 t^(0,2)
        s_old.value = np.array([5.0, 7.0, 11.0])
        g_new.value = np.array([2.0, 3.0])
        for name, L, want in (('S - G', S - G, {(0, 0): 3.0, (1, 0): 7.0, (0, 2): 8.0}), ('S + G', S + G, {(0, 0): 7.0, (1, 0): 7.0, (0, 2): 14.0}),
                              ('S - h * G', S - h * G, {(0, 0): 3.0, (1, 0): 3.0, (0, 2): 8.0, (1, 2): -6.0})):
            got = {}
            for row, ci in zip(np.asarray(L.alpha, dtype=float).tolist(), L.c):
                got[tuple(int(round(t_)) for t_ in row)] = float(ci.value) if hasattr(ci, 'value') else float(ci)
            if {k: v for k, v in got.items() if v != 0.0} != want:
                return ('%s with the coefficients of S declared before clear_variable_indices() and those of G after it (equal indices): after assigning '
                        's = (5, 7, 11), g = (2, 3) the coefficients are %s; substituting first gives %s' % (name, got, want))
    cl.clear_variable_indices()
    return None


def oracle_operands():
    """(a) operands are values: using a symbolic-coefficient function in several later operations does not change it;
    (b) a coefficient vector that is a raw Variable with REPEATED exponent rows behaves like the consolidated function wherever it stands"""
    import sageopt as so
    import sageopt.coniclifts as cl
    from sageopt.symbolic.signomials import Signomial
    y = so.standard_sig_monomials(2)
    f = 2 * y[0] + 3 * y[1] ** 2 + 5
    gamma = cl.Variable(name='op_gamma')
    L = f - gamma
    A1 = L + 1
    B1 = L + 2
    C1 = 2.5 * L
    D1 = L - 4
    gamma.value = 0.5
    pts = [np.array([0.0, 0.0]), np.array([1.0, -1.0]), np.array([-2.0, 0.5])]

    def val(g, x):
        cs = np.array([float(ci.value) if hasattr(ci, 'value') else float(ci) for ci in g.c])
        return float(np.sum(cs * np.exp(np.asarray(g.alpha, dtype=float) @ x)))
    for x in pts:
        fx = float(f(x))
        for name, g, want in (('L = f - gamma', L, fx - 0.5), ('L + 1', A1, fx + 0.5), ('L + 2', B1, fx + 1.5), ('2.5 * L', C1, 2.5 * (fx - 0.5)),
                              ('L - 4', D1, fx - 4.5)):
            got = val(g, x)
            if abs(got - want) > 1e-9 * (1 + abs(want)):
                return ('after A = L + 1, B = L + 2, C = 2.5*L, D = L - 4 with L = f - gamma (gamma = 0.5): %s evaluates to %r at %s, expected %r'
                        % (name, got, x.tolist(), want))
    lam = cl.Variable(shape=(3,), name='op_lam')
    s_ = Signomial(np.array([[1.0, 0.0], [1.0, 0.0], [0.0, 1.0]]), lam)        # rows 0 and 1 coincide
    g_ = y[0] * y[1] - 1
    combos = (('f + s', lambda: f + s_), ('s + f', lambda: s_ + f), ('f - s', lambda: f - s_), ('Signomial.sum([f, s, g])', lambda: Signomial.sum([f, s_, g_])),
              ('Signomial.sum([s, f])', lambda: Signomial.sum([s_, f])), ('g * s', lambda: g_ * s_))
    lam.value = np.array([1.0, 2.0, -3.0])
    s_num = Signomial(np.array([[1.0, 0.0], [0.0, 1.0]]), np.array([3.0, -3.0]))
    want_fns = {'f + s': f + s_num, 's + f': s_num + f, 'f - s': f - s_num, 'Signomial.sum([f, s, g])': Signomial.sum([f, s_num, g_]),
                'Signomial.sum([s, f])': Signomial.sum([s_num, f]), 'g * s': g_ * s_num}
    for name, mk in combos:
        h = mk()
        for x in pts:
            got, want = val(h, x), float(want_fns[name](x))
            if abs(got - want) > 1e-9 * (1 + abs(want)):
                return ('s has a raw Variable as coefficient vector and a repeated exponent row: after assigning the Variable, %s evaluates to '
                        '%r at %s but the numeric computation gives %r' % (name, got, x.tolist(), want))
    # exponent rows that are nearly equal: rows that coincide only AFTER the 7-decimal rounding are one basis function; rows that differ by
    # more than the rounding grid (0.666667 / 0.66667, 12.5 / 12.5001) are different basis functions, however close
    y1 = so.standard_sig_monomials(1)
    mu = cl.Variable(shape=(2,), name='op_mu')
    mu.value = np.array([1.5, -2.0])
    pts1 = [np.array([0.0]), np.array([0.7]), np.array([-1.3])]
    for label, fa, fc, sa in (('rows 0.1+0.2 and 0.3 of s', [[0.0], [1.0]], [2.0, 1.0], [[0.1 + 0.2], [0.3]]),
                              ('rows 0.666667 / 12.5 of f and 0.66667 / 12.5001 of s', [[0.666667], [12.5]], [2.0, 1.0], [[0.66667], [12.5001]]),
                              ('rows 0.3 / 1 of f and 0.30000000000000004 / 2 of s', [[0.3], [1.0]], [2.0, 1.0], [[0.1 + 0.2], [2.0]])):
        f1 = Signomial(np.array(fa), np.array(fc))
        s1 = Signomial(np.array(sa), mu)
        for name, mk, sgn in (('f + s', lambda: f1 + s1, 1.0), ('s + f', lambda: s1 + f1, 1.0), ('f - s', lambda: f1 - s1, -1.0),
                              ('Signomial.sum([f, s])', lambda: Signomial.sum([f1, s1]), 1.0)):
            h = mk()
            for x in pts1:
                want = float(f1(x)) + sgn * float(np.sum(np.array([1.5, -2.0]) * np.exp(np.array(sa) @ x)))
                got = val(h, x)
                if abs(got - want) > 1e-7 * (1 + abs(want)):
                    return ('%s (s has Variable coefficients with values 1.5, -2): %s evaluates to %r at %s after substituting, but substituting first '
                            'and computing numerically gives %r (the result has %d terms)' % (label, name, got, x.tolist(), want, h.m))
    return None


def run(ctx):
    why = oracle_operands()
    ctx.evaluations += 11
    ctx.suites['operands'] = {'cases': 11, 'failure': why}
    if why:
        ctx.problem('oracle', 'property fails on the implementation: ' + why, inputs={'suite': 'operands'}, failing_input_found=True)
    why = oracle_generations()
    ctx.evaluations += 6
    ctx.suites['generations_in_coefficients'] = {'cases': 6, 'failure': why}
    if why:
        ctx.problem('oracle', 'property fails on the implementation: ' + why, inputs={'suite': 'generations_in_coefficients'}, failing_input_found=True)
    why = oracle_scaling()
    ctx.evaluations += 3
    ctx.suites['scaling'] = {'cases': 3, 'failure': why}
    if why:
        ctx.problem('oracle', 'property fails on the implementation: ' + why, inputs={'suite': 'scaling'}, failing_input_found=True)
    cases = []
    for _ in range(ctx.n(350, 3500)):
        n = ctx.rng.randint(1, 2)
        poly = ctx.rng.random() < 0.4
        t = gen_tree(ctx.rng, n, poly, ctx.rng.randint(1, 3))
        outs = {}
        bad = None
        for h in ('fresh', 'zeros', 'ones', 'random', 'interleave'):
            w = World(h, ctx.rng)
            try:
                with warnings.catch_warnings():
                    warnings.simplefilter('ignore')
                    f = impl_eval(t, n, poly, w)
                outs[h] = canon(f, w)
            except c12.TooBig:
                bad = 'big'
                break
            except (ValueError, RuntimeError):
                outs[h] = None
        if bad:
            continue
        ks = {h: (None if o is None else canon_key(o)) for h, o in outs.items()}
        if any(k != ks['fresh'] for k in ks.values()):
            ctx.problem('oracle', 'term structure depends on the values stored in the Variables: %s' % ks,
                        inputs={'tree': tree_json(t), 'n': n, 'poly': poly}, failing_input_found=True)
            break
        out = outs['fresh']
        ctx.count('result', 'error' if out is None else 'ok')
        ctx.count('class', 'poly' if poly else 'sig')
        s = str(t)
        nbin = s.count("'add'") + s.count("'sub'") + s.count("'mul'")
        if nbin >= 2 and "'sym'" in s and out is not None and len(out) >= 2:
            ctx.nontrivial.add(vlib.sha(tree_json(t)))
        if poly and out is not None:
            pass
        cases.append(({'tree': tree_json(t), 'n': n, 'poly': poly}, cq((poly, Nat(n), Raw(tree_coq(t)))),
                      '(Some %s)' % rows_coq(out) if out is not None else 'None', (t, n, poly)))
    ctx.evaluations += len(cases) * 5
    mism, err = vlib.run_suite_in_coq(ctx.pid, 'symtrees', HEADER, "fun x => let '(p, n, t) := x in seval p n t", 'ssig_eqb', 'bool * nat * symexp',
                                      'option ssig', [(c[1], c[2]) for c in cases], shard=100)
    ctx.suites['symtrees'] = {'cases': len(cases), 'histories_per_case': 5, 'mismatches': None if mism is None else len(mism)}
    if err:
        ctx.problem('correspondence', 'suite symtrees: ' + err)
    else:
        if cases:
            ctx.samples.append({'suite': 'symtrees', 'input': cases[len(cases) // 2][0], 'impl': cases[len(cases) // 2][2][:300]})
        for idx in mism[:3]:
            t, n, poly = cases[idx][3]
            why = oracle_tree(t, n, poly, ctx.rng)
            model_out = vlib.coq_show(HEADER, "(fun x => let '(p, n, t) := x in seval p n t) %s" % cases[idx][1])
            ctx.problem('correspondence', 'suite symtrees: model and implementation disagree on %s; impl=%s model=%s; oracle: %s'
                        % (cases[idx][0], cases[idx][2][:700], model_out[:700], why or 'substitution commutes on this input'),
                        inputs={'suite': 'symtrees', 'input': cases[idx][0], 'property_failure': why}, failing_input_found=bool(why))


def search(ctx):
    for _ in range(600):
        n = ctx.rng.randint(1, 2)
        poly = ctx.rng.random() < 0.4
        t = gen_tree(ctx.rng, n, poly, ctx.rng.randint(1, 3))
        why = oracle_tree(t, n, poly, ctx.rng)
        if why:
            return {'suite': 'symtrees', 'input': {'tree': tree_json(t), 'n': n, 'poly': poly}, 'property_failure': why}
    return None


def replay(payload):
    ctx = vlib.Ctx('C13', 'quick', int(payload.get('seed', 0)))
    found = search(ctx)
    print(found or 'property holds on the regenerated trees')
    return 1 if found else 0
