"""C01 — a satisfied primal SAGE constraint certifies nonnegativity on X.
Tie: Model/Sage.v (primal_blocks) vs PrimalSageCone.conic_form on random (alpha, c, X, covers, settings).
Oracle: solve a small problem around the constraint with ECOS and check the exposed certificate
(AGE vectors sum to <= c, at most one negative entry each, each AGE signomial and the whole signomial
nonnegative at sampled points of X)."""
import itertools
import math
import warnings

import numpy as np

from harness import vlib
from harness.props import sagecorr

RULE = ('case = PrimalSageCone(c, alpha, X) with half-integer exponents (m<=6, n<=3), c entries constant/variable/affine/shared, '
        'X in {R^n, box, halfspace, 2-norm ball, exp-cone set, lifted set, equality set}, covers automatic/full/random user dict, '
        'settings sum_age_force_equality/presolve/heuristic_reduction; non-trivial = at least one AGE cone with non-empty cover; '
        'distinct by (alpha, c pattern, domain, covers, settings) hash')
TRUSTED = ['correspondence harness harness/props/sagecorr.py (block canonicalisation, observed covers and auxiliary ids)',
           'ORACLE: ECOS (the certificate holds only up to solver tolerance); presolve LPs solved by ECOS enter only through the observed covers',
           'kernel_basis=True is not modelled (floating-point SVD); it is exercised by the oracle stream only']
ASSUMPTIONS = ['Model/Sage.v is hand written; tied by correspondence only',
               'soundness is proved for every cover, so the presolve needs no model',
               'exact-arithmetic theorem; solver returns approximately feasible points']


def check_witnesses(con, d, when):
    """the exposed witnesses certify the exposed AGE vectors (documented inequality of PrimalSageCone.age_witnesses); ordinary SAGE only:
    alpha^T w = 0 and D(w_{-i}, e c_{-i}) <= c_i, to solver tolerance"""
    m = d['m']
    alpha = d['alpha_np']
    for i, w in con.age_witnesses.items():
        wv = np.asarray(w.value, dtype=float)
        ci = np.asarray(con.age_vectors[i].value, dtype=float)
        if wv.shape == (m,) and np.all(np.isfinite(ci)) and not np.all(np.isfinite(wv)):
            return '%s: the exposed witness %d holds %s although the AGE vector it certifies is %s' % (when, i, wv.tolist(), ci.tolist())
        if wv.shape != (m,) or not np.all(np.isfinite(ci)):
            continue
        others = [j for j in range(m) if j != i]
        if any(wv[j] < -1e-6 * (1 + abs(wv).max()) for j in others):
            return '%s: witness %d has a negative entry off its own index: %s' % (when, i, wv.tolist())
        if d['X'] is not None:
            continue
        scale = 1 + float(np.abs(wv).max()) + float(np.abs(ci).max())
        if np.max(np.abs(alpha.T @ wv)) > 1e-4 * scale * (1 + float(np.abs(alpha).max())):
            return '%s: witness %d does not balance the exponents: alpha^T w = %s' % (when, i, (alpha.T @ wv).tolist())
        D = 0.0
        ok = True
        for j in others:
            if wv[j] > 1e-7:
                if ci[j] <= 1e-9:
                    ok = False      # relative entropy against a (numerically) zero coefficient: not decidable to solver tolerance
                    break
                D += wv[j] * math.log(wv[j] / (math.e * ci[j]))
        if ok and D > ci[i] + 1e-4 * scale:
            return ('%s: witness %d = %s does not certify the exposed AGE vector %s: D(w, e c) = %r > c_i = %r'
                    % (when, i, wv.tolist(), ci.tolist(), D, float(ci[i])))
    return None


def oracle_certificate(rng, d):
    """solve around the constraint and check the certificate numerically; None if it holds"""
    import sageopt.coniclifts as cl
    con, cv = d['con'], d['cvar']
    m, n = d['m'], d['n']
    if m < 2:
        return None
    with warnings.catch_warnings(), sagecorr.adversarial_globals(d['settings']):
        warnings.simplefilter('ignore')
        obj = float(rng.choice([1, -1])) * cv[0] + float(rng.choice([1, -1, 0])) * cv[1] + float(rng.choice([1, 0])) * cv[2]
        _ = con.age_witnesses        # looked at before any solve: what is exposed later must still reflect the later solve
        prob = cl.Problem(cl.MIN, obj, [con, cv <= 4, cv >= -4])
        st, val = prob.solve(verbose=False)
    if st != 'solved' or not math.isfinite(val):
        return None
    why = check_witnesses(con, d, 'after the first solve')
    if why:
        return why
    why = certificate_at_values(rng, d, con, m, n)
    if why:
        return why
    # the same constraint object in a second Problem with other data: the exposed certificate is the one of the latest solve
    with warnings.catch_warnings(), sagecorr.adversarial_globals(d['settings']):
        warnings.simplefilter('ignore')
        try:
            st2, val2 = cl.Problem(cl.MIN, -obj + 0.5 * cv[1], [con, cv <= 3, cv >= -3]).solve(verbose=False)
        except Exception as e:
            return 'a second Problem built from the same primal SAGE constraint raised %s %s' % (type(e).__name__, ' '.join(str(e).split())[:100])
    if st2 != 'solved' or not math.isfinite(val2):
        return None
    why = check_witnesses(con, d, 'after a second solve with other data')
    if why:
        return why
    why = certificate_at_values(rng, d, con, m, n)
    return ('after a second solve with other data: ' + why) if why else None


def oracle_iteration_limit(rng, d):
    """a solve that ECOS abandons at its iteration limit exposes no certificate: status 'solver failure', NaN everywhere"""
    import sageopt.coniclifts as cl
    con, cv = d['con'], d['cvar']
    if d['m'] < 3:
        return None
    with warnings.catch_warnings(), sagecorr.adversarial_globals(d['settings']):
        warnings.simplefilter('ignore')
        prob = cl.Problem(cl.MIN, cv[0] - cv[1] + cv[2], [con, cv <= 4, cv >= -4])
        try:
            st, val = prob.solve(verbose=False, max_iters=rng.choice([1, 2, 3]), cache_raw_output=True)
        except Exception as e:
            return 'solve(max_iters small) raised %r' % (e,)
    raw = prob.solver_raw_output.get('ECOS') if hasattr(prob, 'solver_raw_output') else None
    flag = None if not raw else raw.get('info', {}).get('exitFlag')
    if flag == -1:
        if st != 'solver failure' or not math.isnan(val):
            return ('ECOS stopped at its iteration limit (exit flag -1) but the problem reports (%s, %r): the AGE vectors it then exposes are not a '
                    'certificate' % (st, val))
        for i, av in con.age_vectors.items():
            a = np.asarray(av.value, dtype=float)
            vars_free = bool(av.variables())
            if vars_free and not np.all(np.isnan(a[[j for j in range(len(a)) if not av[j].is_constant()]])):
                return 'after a failed solve AGE vector %d still exposes numbers: %s' % (i, a.tolist())
    return None


def certificate_at_values(rng, d, con, m, n):
    c = np.asarray(con.c.value, dtype=float)
    tot = np.zeros(m)
    for i, av in con.age_vectors.items():
        a = np.asarray(av.value, dtype=float)
        if not np.all(np.isfinite(a)) and np.all(np.isfinite(c)):
            return 'after a successful solve the exposed AGE vector %d holds %s (c = %s)' % (i, a.tolist(), c.tolist())
        tot += a
        neg = [j for j in range(m) if a[j] < -1e-6]
        if any(j != i for j in neg):
            return 'AGE vector %d has a negative entry off its own index: %s' % (i, a.tolist())
    if np.any(tot > c + 1e-5 * (1 + np.abs(c))):
        return 'AGE vectors sum to %s which exceeds c = %s' % (tot.tolist(), c.tolist())
    # "up to solver tolerance": the solver meets the conic rows to ~1e-8 in the COEFFICIENTS, so a coefficient of size
    # 1e-6 * (1 + |c|_inf) is indistinguishable from 0; the value tolerance at x is that times sum_j exp(alpha_j . x)
    ctol = 1e-6 * (1 + float(np.max(np.abs(c))))
    for _ in range(60):
        x, w = sagecorr.sample_domain_point(rng, n, d['kind'], d['X'])
        if x is None:
            break
        ex = np.exp(d['alpha_np'] @ np.array(x))
        for i, av in con.age_vectors.items():
            a = np.asarray(av.value, dtype=float)
            fv = float(a @ ex)
            if fv < -(ctol * float(np.sum(ex)) + 1e-6 * float(np.abs(a) @ ex)):
                return 'AGE signomial %d (coefficients %s) is negative (%g) at the point %s of X' % (i, a.tolist(), fv, x)
        fv = float(c @ ex)
        if fv < -(ctol * float(np.sum(ex)) + 1e-6 * float(np.abs(c) @ ex)):
            return 'signomial with the constrained coefficients %s is negative (%g) at the point %s of X' % (c.tolist(), fv, x)
    return None


def oracle_kernel_basis(rng):
    """kernel_basis=True is outside the row model (floating-point SVD): the certificate it produces is checked directly, on exponent
    matrices whose columns live on very different scales, at points scaled to each column"""
    import sageopt.coniclifts as cl
    fams = [([[0, 0], [2000, 0], [1000, 0.0005]], 2), ([[0, 0], [2, 0], [1, 0.000001]], 2), ([[0, 0], [4, 0], [2, 0.001], [0, 3]], 2),
            ([[0, 0], [2, 0], [0, 2], [1, 1]], 3), ([[0], [0.000002], [0.000001]], 2)]
    alpha, neg = rng.choice(fams)
    alpha = np.array(alpha, dtype=float)
    m, n = alpha.shape
    t = cl.Variable(shape=(1,), name='kb_t')
    cvals = [float(rng.choice([1, 2, 3])) for _ in range(m)]
    cvals[neg] = -1.0 * t[0]
    settings = sagecorr.full_settings({'kernel_basis': True, 'sum_age_force_equality': rng.random() < 0.3})
    with warnings.catch_warnings(), sagecorr.adversarial_globals(settings):
        warnings.simplefilter('ignore')
        try:
            con = cl.PrimalSageCone(cl.Expression(cvals), alpha, None, 'kb', settings=dict(settings))
            st, val = cl.Problem(cl.MAX, t[0], [con, t <= 50]).solve(verbose=False)
        except RuntimeError:
            return None
    if st != 'solved' or not math.isfinite(val):
        return None
    c = np.asarray(con.c.value, dtype=float)
    scale = np.max(np.abs(alpha), axis=0)
    ctol = 1e-6 * (1 + float(np.max(np.abs(c))))
    for u in itertools.product([0.0, 1.0, -1.0, 2.0, -2.0, 4.0, -4.0], repeat=n):
        x = np.array([ui / sk if sk > 0 else 0.0 for ui, sk in zip(u, scale)])
        e = alpha @ x
        if np.max(np.abs(e)) > 50:
            continue
        ex = np.exp(e)
        vecs = [('constrained coefficients', c)] + [('AGE vector %d' % i, np.asarray(av.value, dtype=float)) for i, av in con.age_vectors.items()]
        for nm, a in vecs:
            fv = float(a @ ex)
            if fv < -(ctol * float(np.sum(ex)) + 1e-6 * float(np.abs(a) @ ex)):
                return ('kernel_basis=True, exponents %s: the signomial with the %s %s is negative (%g) at x=%s'
                        % (alpha.tolist(), nm, a.tolist(), fv, x.tolist()))
    return None


def oracle_domain_updated_in_place(rng):
    """the constraint exposes the set it is stated over as con.X; SigDomain.parse_coniclifts_constraints is a documented in-place update.  A
    certificate exposed after a solve must hold on con.X as it is when the Problem is compiled (a box widened after the constraint was created,
    or con.X replaced by another domain of the same shape)"""
    import sageopt.coniclifts as cl
    from sageopt import SigDomain
    with warnings.catch_warnings():
        warnings.simplefilter('ignore')
        for how in ('reparse', 'replace'):
            lo1, hi1 = 0.0, 1.0
            hi2 = float(rng.choice([2.0, 2.5, 3.0]))
            lo2 = float(rng.choice([0.0, -0.5]))
            x = cl.Variable(shape=(1,), name='dup_x_' + how)
            gam = cl.Variable(shape=(1,), name='dup_g_' + how)
            alpha = np.array([[1.0], [2.0], [0.0]])
            cexpr = cl.Expression([-1.0, 0.1, -gam[0]])      # -exp(x) + 0.1 exp(2x) - gamma
            X = SigDomain(1)
            X.parse_coniclifts_constraints([x >= lo1, x <= hi1])
            con = cl.PrimalSageCone(cexpr, alpha, X, 'dup_' + how)
            if how == 'reparse':
                X.parse_coniclifts_constraints([x >= lo2, x <= hi2])
            else:
                X2 = SigDomain(1)
                X2.parse_coniclifts_constraints([x >= lo2, x <= hi2])
                con.X = X2
            try:
                st, val = cl.Problem(cl.MAX, gam[0], [con]).solve(verbose=False)
            except Exception:
                continue                  # refusing the updated domain is not a wrong certificate
            if st != 'solved' or not math.isfinite(val):
                continue
            Xc = con.X
            ts = np.linspace(lo2 - 0.5, hi2 + 0.5, 701)
            inside = [t for t in ts if np.all(Xc.A @ np.array([t]) + Xc.b >= -1e-12)] if Xc.A.shape[1] == 1 else []
            if not inside or abs(min(inside) - lo2) > 0.01 or abs(max(inside) - hi2) > 0.01:
                continue
            c = np.asarray(con.c.value, dtype=float)
            vecs = [('constrained coefficients', c)] + [('AGE vector %d' % i, np.asarray(av.value, dtype=float)) for i, av in con.age_vectors.items()]
            for t in inside:
                ex = np.exp(alpha[:, 0] * t)
                for nm, a in vecs:
                    fv = float(a @ ex)
                    if fv < -1e-5 * (1 + float(np.abs(a) @ ex)):
                        return ('a primal SAGE constraint created over [%g, %g] whose domain was then %s to [%g, %g] (this is con.X at compile time) '
                                'reports gamma = %g; the signomial with the %s %s is %g at x = %g in con.X'
                                % (lo1, hi1, 'widened in place' if how == 'reparse' else 'replaced', lo2, hi2, val, nm, a.tolist(), fv, t))
    return None


def oracle_declared_domains(rng):
    """domains built from user constraints that leave a coordinate unmentioned (SigDomain and PolyDomain, with and without auxiliary columns): the
    certificate of a solved primal SAGE constraint over X holds at the points of the DECLARED set (taken from the constraints as written)"""
    import sageopt.coniclifts as cl
    from sageopt.symbolic.polynomials import PolyDomain
    alpha = np.array([[1.0, 0.0, 0.0], [0.0, 1.0, 0.0], [0.0, 0.0, 0.0], [0.0, 1.0, 1.0], [0.0, -1.0, -1.0]])
    doms = list(sagecorr.declared_domains(rng))

    def polydisc():
        y = cl.Variable(shape=(3,), name='decl_poly_y')
        return PolyDomain(3, logspace_cons=[cl.vector2norm(y[:2]) <= 1])
    doms.append(('PolyDomain {|(log|x0|, log|x1|)| <= 1} in R^3 (third coordinate free, one auxiliary column)', polydisc, doms[2][2]))
    with warnings.catch_warnings():
        warnings.simplefilter('ignore')
        for desc, build, pts in doms:
            X = build()
            gam = cl.Variable(shape=(1,), name='decl_gamma')
            cexpr = cl.Expression([1.0, 1.0, -gam[0], 0.5, 0.5])
            con = cl.PrimalSageCone(cexpr, alpha, X, 'decl_primal')
            st, val = cl.Problem(cl.MAX, gam[0], [con]).solve(verbose=False)
            if st != 'solved' or not math.isfinite(val):
                continue
            c = np.asarray(con.c.value, dtype=float)
            vecs = [('constrained coefficients', c)] + [('AGE vector %d' % i, np.asarray(av.value, dtype=float)) for i, av in con.age_vectors.items()]
            for x in pts:
                ex = np.exp(alpha @ x)
                for nm, a in vecs:
                    fv = float(a @ ex)
                    if fv < -1e-5 * (1 + float(np.abs(a) @ ex)):
                        return ('X = %s: the solved primal SAGE constraint reports gamma = %g; the signomial with the %s %s is %g at the point %s of X'
                                % (desc, val, nm, a.tolist(), fv, x.tolist()))
    return None


def oracle_kernel_basis_zero_rows(rng):
    """kernel_basis=True on exponent layouts for which the kernel basis of some AGE cone has an exactly-zero row (nu_j identically 0 for a cover
    element): the exposed AGE vectors still have at most one negative entry each and the certified signomial is nonnegative"""
    import sageopt.coniclifts as cl
    alpha = np.array([[0.0, 0.0], [6.0, 1.0], [3.0, 0.5], [0.0, 2.0], [0.0, 1.0]])
    with warnings.catch_warnings():
        warnings.simplefilter('ignore')
        for feq, numeric in ((False, False), (True, False), (False, True)):
            t = cl.Variable(shape=(1,), name='kbz_t_%d%d' % (feq, numeric))
            settings = sagecorr.full_settings({'kernel_basis': True, 'sum_age_force_equality': feq})
            with sagecorr.adversarial_globals(settings):
                try:
                    if numeric:
                        # a membership test with numbers only: 1 + e^(6x+y) - 10 e^(3x+y/2) + e^(2y) - e^y is negative somewhere (minimum about -24)
                        con = cl.PrimalSageCone(np.array([1.0, 1.0, -10.0, 1.0, -1.0]), alpha, None, 'kbz', settings=dict(settings))
                        st, val = cl.Problem(cl.MIN, cl.Expression([0]), [con]).solve(verbose=False)
                    else:
                        cexpr = cl.Expression([1.0, 1.0, -t[0], 1.0, -1.0])
                        con = cl.PrimalSageCone(cexpr, alpha, None, 'kbz', settings=dict(settings))
                        st, val = cl.Problem(cl.MAX, t[0], [con, t <= 50]).solve(verbose=False)
                except RuntimeError:
                    continue
            if st != 'solved' or not math.isfinite(val):
                continue
            c = np.asarray(con.c.value, dtype=float)
            vecs = [('constrained coefficients', c)] + [('AGE vector %d' % i, np.asarray(av.value, dtype=float)) for i, av in con.age_vectors.items()]
            for i, av in con.age_vectors.items():
                a = np.asarray(av.value, dtype=float)
                neg = [j for j in range(len(a)) if a[j] < -1e-6 and j != i]
                if neg:
                    return ('kernel_basis=True, exponents %s, c = (1, 1, -t, 1, -1): after maximising t (= %g) the AGE vector %d is %s, negative off its own index'
                            % (alpha.tolist(), val, i, a.tolist()))
            for u in itertools.product(np.linspace(-2.0, 1.0, 13), np.linspace(-3.0, 2.0, 21)):
                ex = np.exp(alpha @ np.array(u))
                for nm, a in vecs:
                    fv = float(a @ ex)
                    if fv < -1e-5 * (1 + float(np.abs(a) @ ex)):
                        return ('kernel_basis=True, exponents %s: t = %g is certified but the signomial with the %s %s is %g at x = %s' % (alpha.tolist(), val, nm, a.tolist(), fv, list(u)))
    return None


def oracle_partially_used_variable(rng):
    """the coefficient vector is built from SOME components of a user Variable (an unused component strictly between used ones): the values the solved
    constraint exposes (c, AGE vectors) are those of the components it was built from, and they form a certificate"""
    import sageopt.coniclifts as cl
    with warnings.catch_warnings():
        warnings.simplefilter('ignore')
        for gap in (1, 2):
            p = cl.Variable(shape=(3 + gap,), name='pu_p_%d' % gap)
            last = 2 + gap
            alpha = np.array([[0.0], [1.0], [2.0]])
            cexpr = cl.Expression([p[0], -3.0, p[last]])
            con = cl.PrimalSageCone(cexpr, alpha, None, 'pu')
            st, val = cl.Problem(cl.MIN, p[0], [con, p[last] == 1]).solve(verbose=False)
            if st != 'solved' or not math.isfinite(val):
                continue
            c = np.asarray(con.c.value, dtype=float)
            if abs(val - 2.25) > 1e-5 or not np.allclose(c, [2.25, -3.0, 1.0], atol=1e-4):
                return ('min p0 s.t. p0 - 3 e^t + p%d e^(2t) SAGE, p%d = 1 (components p1..p%d unused): value %r, exposed c = %s; the optimum is 2.25 with c = (2.25, -3, 1)'
                        % (last, last, last - 1, val, c.tolist()))
            tot = sum(np.asarray(av.value, dtype=float) for av in con.age_vectors.values())
            if np.any(tot > c + 1e-5):
                return 'partially used Variable: the exposed AGE vectors sum to %s which exceeds the exposed c = %s' % (tot.tolist(), c.tolist())
            for t_ in np.linspace(-3.0, 3.0, 25):
                fv = float(c @ np.exp(alpha[:, 0] * t_))
                if fv < -1e-5 * (1 + float(np.abs(c) @ np.exp(alpha[:, 0] * t_))):
                    return 'partially used Variable: the signomial with the exposed coefficients %s is %g at t = %g' % (c.tolist(), fv, t_)
    return None


def run(ctx):
    why = oracle_partially_used_variable(ctx.rng)
    ctx.evaluations += 2
    ctx.suites['partially_used_variable'] = {'cases': 2, 'failure': why}
    if why:
        ctx.problem('oracle', 'property fails on the implementation: ' + why, inputs={'suite': 'partially_used_variable'}, failing_input_found=True)
    why = oracle_kernel_basis_zero_rows(ctx.rng)
    ctx.evaluations += 2
    ctx.suites['kernel_basis_zero_rows'] = {'cases': 2, 'failure': why}
    if why:
        ctx.problem('oracle', 'property fails on the implementation: ' + why, inputs={'suite': 'kernel_basis_zero_rows'}, failing_input_found=True)
    why = oracle_declared_domains(ctx.rng)
    ctx.evaluations += 4
    ctx.suites['declared_domains'] = {'cases': 4, 'failure': why}
    if why:
        ctx.problem('oracle', 'property fails on the implementation: ' + why, inputs={'suite': 'declared_domains'}, failing_input_found=True)
    why = oracle_domain_updated_in_place(ctx.rng)
    ctx.evaluations += 1
    ctx.suites['domain_updated_in_place'] = {'cases': 2, 'failure': why}
    if why:
        ctx.problem('oracle', 'property fails on the implementation: ' + why, inputs={'suite': 'domain_updated_in_place'}, failing_input_found=True)
    for _ in range(ctx.n(12, 80)):
        why = oracle_kernel_basis(ctx.rng)
        ctx.evaluations += 1
        ctx.count('oracle_solves', 'kernel_basis')
        if why:
            ctx.problem('oracle', 'certificate check fails on the implementation: ' + why, inputs={'suite': 'kernel_basis'}, failing_input_found=True)
            break
    cases = []
    for k in range(ctx.n(220, 2500)):
        sagecorr.FORCE_TINY[0] = (k % 40 == 7)      # a few instances with every exponent of size 2^-45 (far below any absolute threshold)
        try:
            d = sagecorr.build_primal(ctx.rng)
        finally:
            sagecorr.FORCE_TINY[0] = False
        if 'error' in d:
            ctx.count('construction_error', d['error'][:40])
            continue
        ctx.count('domain', d['kind'])
        ctx.count('covers', d['cover_mode'])
        ctx.count('m', d['m'])
        ctx.count('force_equality', d['settings']['sum_age_force_equality'])
        ctx.count('age_cones', min(d['ncones'], 5))
        if d['ncones'] >= 1:
            ctx.nontrivial.add(vlib.sha(d['json']))
        cases.append((d['json'], d['cin'], d['cout']))
        if k % 6 == 3:
            why = oracle_iteration_limit(ctx.rng, d)
            ctx.count('oracle_solves', 'iteration_limit')
            if why:
                ctx.problem('oracle', 'certificate check fails on the implementation: ' + why, inputs={'instance': d['json']}, failing_input_found=True)
                break
        if k % 6 == 0:
            why = oracle_certificate(ctx.rng, d)
            ctx.count('oracle_solves', 'checked')
            if why:
                ctx.problem('oracle', 'certificate check fails on the implementation: ' + why, inputs={'instance': d['json']}, failing_input_found=True)
                break
    ctx.evaluations += len(cases)
    mism, err = vlib.run_suite_in_coq(ctx.pid, 'primal_rows', sagecorr.HEADER, 'model_primal', 'blocks_eqb', sagecorr.T_PRIMAL_IN,
                                      'option (list block)', [(c[1], c[2]) for c in cases], shard=60)
    ctx.suites['primal_rows'] = {'cases': len(cases), 'mismatches': None if mism is None else len(mism)}
    if err:
        ctx.problem('correspondence', 'suite primal_rows: ' + err)
    else:
        if cases:
            ctx.samples.append({'suite': 'primal_rows', 'instance': cases[len(cases) // 2][0]})
        for idx in mism[:3]:
            model_out = vlib.coq_show(sagecorr.HEADER, 'model_primal %s' % cases[idx][1])
            ctx.problem('correspondence', 'suite primal_rows: model and implementation disagree on %s; input=%s impl=%s model=%s'
                        % (cases[idx][0], cases[idx][1][:1200], cases[idx][2][:2500], model_out[:2500]), inputs={'instance': cases[idx][0]},
                        failing_input_found=False)


def search(ctx):
    for _ in range(120):
        d = sagecorr.build_primal(ctx.rng)
        if 'error' in d:
            continue
        why = oracle_certificate(ctx.rng, d)
        if why:
            return {'instance': d['json'], 'property_failure': why}
    return None


def replay(payload):
    ctx = vlib.Ctx('C01', 'quick', int(payload.get('seed', 0)))
    found = search(ctx)
    print(found or 'property holds on the regenerated instances')
    return 1 if found else 0
