"""C17 — recovered solutions are feasible, ordered and consistent with the bound.
Tie: Model/Solrec.v (feasibility filter + stable sort by objective over an arbitrary candidate list) vs sig_solrec and
poly_solrec: the harness wraps is_feasible in the two recovery modules (in its own process) to log every candidate the
numerical generators propose, with the values of all constraint functions and of the objective at it, and checks that
the returned list is the model's filter+sort of the logged candidates.
Oracle: every returned point re-evaluated against gts, eqs, the functions defining X and the solved bound."""
import math
import warnings
from fractions import Fraction

import numpy as np

from harness import vlib
from harness.vlib import Nat, cq, Raw

USES_TRANSLATOR = True
RULE = ('case = solved dual relaxation (unconstrained / constrained, X None / inferred incl. lifted PolyDomain, ell,p,q<=1) with recovery '
        'options (skip_ls, tolerances, heuristic_signs, all_signs); every candidate passed to is_feasible is logged; non-trivial = run '
        'with >= 2 candidates of which at least one is rejected or >= 2 are returned')
TRUSTED = ['translator harness/translator/funcs.py (Gen/GenSolrec.v: is_feasible regenerated from sig_solution_recovery.py; call sites and default tolerances pinned)',
           'correspondence harness harness/props/c17.py (wraps is_feasible in its own process; values are exact binary fractions of the floats)',
           'ORACLES: lstsq, the conic least-squares solves, exp/log of moments, COBYLA are not modelled: the theorems quantify over every candidate list',
           'ORACLE: ECOS for the relaxations that are solved first']
ASSUMPTIONS = ['Model/Solrec.v is hand written; tied by correspondence only',
               '"no returned point below the bound" is proved for exactly feasible points only; with tolerances it is checked numerically']
HEADER = ('From Coq Require Import List Bool Arith ZArith QArith.\n'
          'From SageVerif Require Import Model.Solrec Base.Corr.\nImport ListNotations.\n'
          'Definition mk (x : nat * Q * list Q * list Q) : cand :=\n'
          "  let '(i, f, g, h) := x in {| c_id := i; c_f := f; c_gts := g; c_eqs := h |}.\n"
          'Definition model (x : Q * Q * list (nat * Q * list Q * list Q)) :=\n'
          "  let '(it, et, cs) := x in map c_id (solrec it et (map mk cs)).")


class Logger:
    def __init__(self):
        self.calls = []

    def wrap(self, orig):
        def is_feasible(x, greater_than_zero, equal_zero, ineq_tol=1e-8, eq_tol=1e-8):
            res = orig(x, greater_than_zero, equal_zero, ineq_tol, eq_tol)
            self.calls.append((np.array(x, dtype=float).copy(), [float(g(x)) for g in greater_than_zero],
                               [float(h(x)) for h in equal_zero], float(ineq_tol), float(eq_tol), bool(res)))
            return res
        return is_feasible


def scenarios(rng):
    import sageopt as so
    from sageopt.relaxations import sage_sigs as ss, sage_polys as sp
    out = []
    with warnings.catch_warnings():
        warnings.simplefilter('ignore')
        y = so.standard_sig_monomials(2)
        a, b = float(rng.choice([1, 2])), float(rng.choice([1, 3]))
        f = a * y[0] ** 2 + b * y[1] ** 2 - 2 * y[0] * y[1] + y[0] ** -1 + 0.5 * y[1] ** -1
        g = [4 - y[0] - y[1], y[0] - 0.25]
        out.append(('sig_unconstrained', lambda: ss.sig_relaxation(f, form='dual', ell=rng.choice([0, 1])), 'sig', f, [], []))
        out.append(('sig_constrained', lambda: ss.sig_constrained_relaxation(f, g, [], form='dual', p=0, q=1, ell=0), 'sig', f, g, []))
        X = ss.infer_domain(f, g, [])
        out.append(('sig_conditional', lambda: ss.sig_constrained_relaxation(f, g, [], X=X, form='dual', p=0, q=1, ell=0), 'sig', f, g, []))
        h = [y[0] * y[1] - 1]
        out.append(('sig_with_equality', lambda: ss.sig_constrained_relaxation(f, g, h, form='dual', p=0, q=1, ell=0), 'sig', f, g, h))
        # equations only (no inequality at all)
        f2 = y[0] ** 2 + y[1] ** 2 + 0.5 * y[0] ** -1
        out.append(('sig_equality_only', lambda: ss.sig_constrained_relaxation(f2, [], h, form='dual', p=0, q=1, ell=0), 'sig', f2, [], h))
        # infimum approached only as exp(x1) -> 0 : vanishing moments at the optimum (ell = 1)
        f3 = y[0] + y[0] ** -1 + y[1] - y[1] ** 2 + y[1] ** 3
        g3 = [1 - y[1]]
        out.append(('sig_vanishing_moments', lambda: ss.sig_constrained_relaxation(f3, g3, [], None, form='dual', p=0, q=1, ell=1), 'sig', f3, g3, []))
        X3 = ss.infer_domain(f3, g3, [])
        out.append(('sig_vanishing_moments_X', lambda: ss.sig_relaxation(f3, X3, form='dual', ell=1), 'sig', f3, [], []))
        # a Lagrangian term with a VARIABLE coefficient whose AGE cone is trivial after the presolve (x1^2 is shared by the objective and the second
        # constraint; empty cover): its mu/v candidate is an ordinary candidate, every returned point is a point (no NaN), feasible and ordered
        f4 = y[0] ** 2 + y[1] ** 2 - y[0] - 3 * y[1] + y[0] ** 3
        g4 = [4 - y[0] ** 2, 1 - y[1] ** 2]
        out.append(('sig_trivial_age_cone_variable_coeff', lambda: ss.sig_constrained_relaxation(f4, g4, [], X=None, form='dual', p=0, q=1, ell=0), 'sig', f4, g4, []))
        x = so.standard_poly_monomials(2)
        p = (x[0] - 1) ** 2 + (x[1] + 0.5 * rng.choice([1, 2])) ** 2 + x[0] * x[1]
        pg = [4 - x[0] ** 2 - x[1] ** 2]
        out.append(('poly_constrained', lambda: sp.poly_constrained_relaxation(p, pg, [], form='dual', p=0, q=1, ell=0), 'poly', p, pg, []))
        pg2 = [4 - x[0] ** 2 - x[1] ** 2 - x[0] ** 2 * x[1] ** 2, 9 - x[0] ** 2]
        XP = sp.infer_domain(p, pg2, [])
        ph = [x[0] * x[1] - 0.5]
        out.append(('poly_equality_only', lambda: sp.poly_constrained_relaxation(p, [], ph, form='dual', p=0, q=1, ell=0), 'poly', p, [], ph))
        # q-fold products drop single-monomial constraints from the relaxation; the feasibility filter must still use them
        pq = x[0] * x[1] + 0.0
        pgq = [x[0], 1 - x[0] ** 2, 1 - x[1] ** 2]
        out.append(('poly_q2_monomial_constraint', lambda: sp.poly_constrained_relaxation(pq, pgq, [], form='dual', p=0, q=2, ell=0), 'poly', pq, pgq, []))
        # a domain that keeps |x_i| away from 0 together with a tiny moment: the magnitude least squares is infeasible
        pa = x[0] ** 2 * x[1] ** 2 + x[0] ** 2 + x[1] ** 2 - x[0] * x[1]
        XA = sp.infer_domain(pa, [x[0] ** 2 - 0.01, x[1] ** 2 - 0.01, 1 - x[0] ** 2, 1 - x[1] ** 2], [])
        out.append(('poly_annulus_domain', lambda: sp.poly_constrained_relaxation(pa, [], [], XA, form='dual'), 'poly', pa, [], []))
        # a variable that occurs only with EVEN powers in the monomials with nonzero moments (x1 here): its sign is free; every option
        # combination (all_signs=False in particular) must return feasible, sorted points without raising
        pe = x[0] ** 4 - 4 * x[0] + x[1] ** 4 - 2 * x[1] ** 2
        pge = [9 - x[0] ** 2 - x[1] ** 2]
        out.append(('poly_even_only_variable', lambda: sp.poly_constrained_relaxation(pe, pge, [], form='dual', p=0, q=1, ell=0), 'poly', pe, pge, []))
        out.append(('poly_lifted_domain', lambda: sp.poly_constrained_relaxation(p, pg2, [], XP, form='dual', p=0, q=1, ell=0), 'poly', p, pg2, []))
    return out


def run_one(ctx, name, build, kind, f, gts, eqs, opts):
    import sageopt as so
    from sageopt.relaxations import sig_solution_recovery as ssr, poly_solution_recovery as psr
    log = Logger()
    o1, o2 = ssr.is_feasible, psr.is_feasible
    with warnings.catch_warnings():
        warnings.simplefilter('ignore')
        prob = build()
        st, val = prob.solve(verbose=False)
        if st != 'solved' or not math.isfinite(val):
            return None, None, {'name': name, 'status': st}
        ssr.is_feasible = log.wrap(o1)
        psr.is_feasible = log.wrap(o2)
        try:
            if kind == 'sig':
                sols = so.sig_solrec(prob, **{k: v for k, v in opts.items() if k in ('ineq_tol', 'eq_tol', 'skip_ls')})
            else:
                sols = so.poly_solrec(prob, **opts)
        except Exception as e:
            return ('%s: solution recovery raised %r' % (name, e)), None, {'name': name}
        finally:
            ssr.is_feasible, psr.is_feasible = o1, o2
    if sols is None or not isinstance(sols, list):
        return ('%s: solution recovery returned %r instead of a list' % (name, type(sols))), None, {'name': name}
    # the same solved problem asked again, with stricter tolerances: the answer obeys the tolerances of THIS call and nothing raises
    strict = dict(opts, ineq_tol=1e-12, eq_tol=1e-12)
    with warnings.catch_warnings():
        warnings.simplefilter('ignore')
        try:
            if kind == 'sig':
                again = so.sig_solrec(prob, **{k: v for k, v in strict.items() if k in ('ineq_tol', 'eq_tol', 'skip_ls')})
            else:
                again = so.poly_solrec(prob, **strict)
            third = so.sig_solrec(prob, **{k: v for k, v in opts.items() if k in ('ineq_tol', 'eq_tol', 'skip_ls')}) if kind == 'sig' else so.poly_solrec(prob, **opts)
        except Exception as e:
            return ('%s: a second or third call of solution recovery on the same solved problem raised %s %s'
                    % (name, type(e).__name__, ' '.join(str(e).split())[:100])), None, {'name': name}
    con_ = prob.constraints[0]
    Xg_ = list(con_.X.gts) if getattr(con_, 'X', None) is not None else []
    Xh_ = list(con_.X.eqs) if getattr(con_, 'X', None) is not None else []
    for s_ in (again or []):
        for g_ in list(gts) + Xg_:
            if float(g_(s_)) < -1e-12:
                return ('%s: called again with ineq_tol=1e-12, solution recovery returns %s which violates an inequality by %g'
                        % (name, np.asarray(s_).tolist(), -float(g_(s_)))), None, {'name': name}
        for h_ in list(eqs) + Xh_:
            if abs(float(h_(s_))) > 1e-12:
                return ('%s: called again with eq_tol=1e-12, solution recovery returns %s which violates an equation by %g'
                        % (name, np.asarray(s_).tolist(), abs(float(h_(s_))))), None, {'name': name}
    if third is None or len(third) != len(sols):
        return ('%s: a third call with the original options returns %s points, the first call returned %d'
                % (name, 'None' if third is None else len(third), len(sols))), None, {'name': name}
    # oracle on the returned points
    it, et = opts.get('ineq_tol', 1e-8), opts.get('eq_tol', 1e-6)
    for (x_, gv_, hv_, itl, etl, res_) in log.calls:
        if itl != it or etl != et:
            return ('%s: the feasibility test was run with ineq_tol=%r, eq_tol=%r although ineq_tol=%r, eq_tol=%r were requested'
                    % (name, itl, etl, it, et)), None, {'name': name}
        if len(gv_) != len(list(gts) + (list(prob.constraints[0].X.gts) if getattr(prob.constraints[0], 'X', None) is not None else [])) \
                or len(hv_) != len(list(eqs) + (list(prob.constraints[0].X.eqs) if getattr(prob.constraints[0], 'X', None) is not None else [])):
            return ('%s: the feasibility test saw %d inequality and %d equality functions; the problem (with X) has %d and %d'
                    % (name, len(gv_), len(hv_), len(gts), len(eqs))), None, {'name': name}
    con = prob.constraints[0]
    Xg = list(con.X.gts) if getattr(con, 'X', None) is not None else []
    Xh = list(con.X.eqs) if getattr(con, 'X', None) is not None else []
    prev = -math.inf
    for s in sols:
        if not np.all(np.isfinite(np.asarray(s, dtype=float))):
            return ('%s: a returned "point" has non-finite coordinates: %s' % (name, np.asarray(s, dtype=float).tolist())), None, {'name': name}
        for g in list(gts) + Xg:
            if float(g(s)) < -it:
                return ('%s: returned point %s violates an inequality by %g (> ineq_tol)' % (name, np.asarray(s).tolist(), -float(g(s)))), None, {'name': name}
        for hh in list(eqs) + Xh:
            if abs(float(hh(s))) > et:
                return ('%s: returned point %s violates an equality by %g (> eq_tol)' % (name, np.asarray(s).tolist(), abs(float(hh(s))))), None, {'name': name}
        fv = float(f(s))
        if fv < prev - 1e-12 * (1 + abs(prev)):
            return ('%s: returned list is not sorted by objective value' % name), None, {'name': name}
        prev = fv
        if fv < val - 1e-5 * (1 + abs(val)):
            return ('%s: returned point has objective %r below the relaxation bound %r' % (name, fv, val)), None, {'name': name}
    # model comparison: the returned list = filter + stable sort of the logged candidates
    cands = []
    for k, (x, gv, hv, itl, etl, res) in enumerate(log.calls):
        fx = f(x)      # the sort key exactly as the implementation computes it (longdouble for signomials)
        key = Fraction(*np.longdouble(fx).as_integer_ratio()) if np.isfinite(fx) else Fraction(0)
        cands.append((k, x, gv, hv, itl, etl, res, key))
    meta = {'name': name, 'candidates': len(cands), 'returned': len(sols), 'rejected': sum(1 for c in cands if not c[6])}
    if not cands:
        return None, None, meta
    # map returned points to candidate ids (first unused exact match); the sort key of a returned candidate is recomputed on the very
    # object that was returned (the implementation's key function sees that object: evaluating f on a copy of another shape can
    # differ in the last bit, and sign-symmetric candidates have nearly equal values)
    used, ids = set(), []
    for s in sols:
        m = next((c[0] for c in cands if c[0] not in used and np.array_equal(c[1], np.asarray(s, dtype=float))), None)
        if m is None:
            return ('%s: a returned point was never tested by is_feasible' % name), None, meta
        used.add(m)
        ids.append(Nat(m))
        fs_ = f(s)
        c_old = cands[m]
        cands[m] = c_old[:7] + (Fraction(*np.longdouble(fs_).as_integer_ratio()) if np.isfinite(fs_) else Fraction(0),)
    if kind == 'sig':
        # sig_solrec filters inside the generators and sorts the union: only candidates that passed are sorted
        pass
    F = lambda v: Fraction(float(v))
    cin = cq((F(cands[0][4]), F(cands[0][5]), [(Nat(c[0]), c[7], [F(v) for v in c[2]], [F(v) for v in c[3]]) for c in cands]))
    return None, (meta, cin, cq(ids)), meta


def is_feasible_direct(ctx):
    """the feasibility test itself, at and around its boundaries (binary fractions, so every comparison is exact): the generated
    function gen_is_feasible (Gen/GenSolrec.v) is evaluated inside Coq on the same (values, tolerances) and the answers are compared;
    the property statement (g >= -ineq_tol, |h| <= eq_tol) is evaluated here as well"""
    from sageopt.relaxations import sig_solution_recovery as ssr
    tols = [Fraction(1, 2 ** 20), Fraction(0), Fraction(1, 2), Fraction(1, 2 ** 40)]
    cases, fails = [], []
    for it, et in [(a, b) for a in tols for b in tols]:
        unit_i, unit_e = (it or Fraction(1, 2 ** 20)), (et or Fraction(1, 2 ** 20))
        for k in range(12):
            gv = [ctx.rng.choice([-2, -1, Fraction(-1, 2), 0, 1, 3]) * unit_i for _ in range(ctx.rng.randint(0, 3))]
            hv = [ctx.rng.choice([-2, -1, Fraction(-1, 2), 0, Fraction(1, 2), 1, 2]) * unit_e for _ in range(ctx.rng.randint(0, 3))]
            gts = [(lambda x, v=float(v): v) for v in gv]
            eqs = [(lambda x, v=float(v): v) for v in hv]
            got = bool(ssr.is_feasible(np.zeros(1), gts, eqs, float(it), float(et)))
            want = all(v >= -it for v in gv) and all(abs(v) <= et for v in hv)
            if got != want and not fails:
                fails.append('is_feasible(inequality values %s, equality values %s, ineq_tol=%s, eq_tol=%s) = %s; the property requires %s'
                             % ([str(v) for v in gv], [str(v) for v in hv], it, et, got, want))
            cases.append((cq((gv, hv, it, et)), cq(got)))
    hdr = 'From Coq Require Import List Bool QArith.\nFrom SageVerif Require Import Gen.GenSolrec Base.Corr.\nImport ListNotations.'
    mism, err = vlib.run_suite_in_coq(ctx.pid, 'is_feasible_direct', hdr, "fun x => let '(g, h, it, et) := x in gen_is_feasible g h it et",
                                      'Bool.eqb', 'list Q * list Q * Q * Q', 'bool', cases, shard=400)
    ctx.evaluations += len(cases)
    ctx.suites['is_feasible_direct'] = {'cases': len(cases), 'mismatches': None if mism is None else len(mism), 'oracle_failure': fails[:1]}
    if err:
        ctx.problem('correspondence', 'suite is_feasible_direct: ' + err)
    elif mism:
        ctx.problem('correspondence', 'suite is_feasible_direct: the function generated from the source and the implementation disagree on %s'
                    % cases[mism[0]][0], inputs={'is_feasible_case': cases[mism[0]][0]}, failing_input_found=False)
    if fails:
        ctx.problem('oracle', 'property fails on the implementation: ' + fails[0], inputs={'is_feasible_case': fails[0]}, failing_input_found=True)


def run(ctx):
    is_feasible_direct(ctx)
    cases = []
    optsets = [{}, {'zero_tol': 1e-6}, {'ineq_tol': 0.0, 'eq_tol': 0.0}, {'skip_ls': True}, {'ineq_tol': 1e-6, 'eq_tol': 1e-4}, {'ineq_tol': 1e-9, 'eq_tol': 0.25}, {'all_signs': False}, {'heuristic_signs': False, 'zero_tol': 1e-12}, {'all_signs': False, 'heuristic_signs': False}, {'all_signs': False, 'skip_ls': True}]
    for rep in range(ctx.n(1, 6)):
        for name, build, kind, f, gts, eqs in scenarios(ctx.rng):
            for opts in (optsets if rep == 0 else [ctx.rng.choice(optsets)]):
                why, case, meta = run_one(ctx, name, build, kind, f, gts, eqs, dict(opts))
                ctx.evaluations += 1
                ctx.count('scenario', name)
                ctx.count('options', str(sorted(opts)))
                if why:
                    ctx.problem('oracle', 'property fails on the implementation: ' + why, inputs={'scenario': name, 'options': str(opts)}, failing_input_found=True)
                    return
                if case:
                    cases.append(case)
                    ctx.count('candidates', min(meta['candidates'], 9))
                    ctx.count('returned', min(meta['returned'], 9))
                    if meta['candidates'] >= 2 and (meta['rejected'] >= 1 or meta['returned'] >= 2):
                        ctx.nontrivial.add(vlib.sha([name, str(opts), meta['candidates'], meta['returned'], rep]))
    mism, err = vlib.run_suite_in_coq(ctx.pid, 'solrec_glue', HEADER, 'model', 'list_eqb Nat.eqb', 'Q * Q * list (nat * Q * list Q * list Q)',
                                      'list nat', [(c[1], c[2]) for c in cases], shard=60)
    ctx.suites['solrec_glue'] = {'cases': len(cases), 'mismatches': None if mism is None else len(mism)}
    if err:
        ctx.problem('correspondence', 'suite solrec_glue: ' + err)
    else:
        if cases:
            ctx.samples.append({'suite': 'solrec_glue', 'meta': cases[len(cases) // 2][0], 'returned_ids': cases[len(cases) // 2][2]})
        for idx in mism[:3]:
            model_out = vlib.coq_show(HEADER, 'model %s' % cases[idx][1])
            ctx.problem('correspondence', 'suite solrec_glue: returned list differs from filter+sort of the logged candidates: %s; impl=%s model=%s '
                        '(the returned points passed the feasibility/ordering oracle)' % (cases[idx][0], cases[idx][2], model_out[:300]),
                        inputs=cases[idx][0], failing_input_found=False)


def search(ctx):
    before = len(ctx.problems)
    run(ctx)
    for pr in ctx.problems[before:]:
        if pr['failing_input_found']:
            return pr['inputs']
    del ctx.problems[before:]
    return None


def replay(payload):
    ctx = vlib.Ctx('C17', 'quick', int(payload.get('seed', 0)))
    found = search(ctx)
    print(found or 'property holds on the regenerated scenarios')
    return 1 if found else 0
