"""C02 — the dual SAGE constraint admits every moment vector of X.
Tie: Model/Sage.v (dual_blocks) vs DualSageCone.conic_form on random (alpha, v, c, X, covers, settings).
Oracle: for sampled x in X and t >= 0 substitute v = t*exp(alpha x), mu_i = v_i*[x;w] (and epi = (alpha_i - alpha_j).mu_i in the
non-compact form) into the rows the implementation emits and check every cone block."""
import math
import warnings

import numpy as np

from harness import vlib
from harness.props import sagecorr, c07

RULE = ('case = DualSageCone(v, alpha, X[, c]) with half-integer exponents (m<=6, n<=3), v a Variable or an affine image, optional sign '
        'information c, X as in C01, covers automatic/full/user, compact_dual on/off; non-trivial = at least one dual AGE cone with '
        'non-empty cover; distinct by instance hash')
TRUSTED = ['correspondence harness harness/props/sagecorr.py', 'presolve LPs solved by ECOS enter only through the observed covers']
ASSUMPTIONS = ['Model/Sage.v is hand written; tied by correspondence only', 'exact-arithmetic theorem']


def oracle_moments(rng, d):
    import sageopt.coniclifts as cl
    con = d['con']
    m, n = d['m'], d['n']
    from sageopt.coniclifts.base import Expression
    with warnings.catch_warnings(), sagecorr.adversarial_globals(d['settings']):
        warnings.simplefilter('ignore')
        cd = con.conic_form()
    for trial in range(5):
        x, w = sagecorr.sample_domain_point(rng, n, d['kind'], d['X'])
        if x is None:
            return None
        t = rng.choice([0.0, 1.0, 0.5, 2.0])
        target = t * np.exp(d['alpha_np'] @ np.array(x))
        # set v (possibly through the affine image v = M @ vv with unit upper-triangular M)
        d['v'].value = np.linalg.solve(d['vmat'], target - d['voff'])
        vval = np.asarray(Expression(con.v).value, dtype=float)
        if not np.allclose(vval, target, rtol=1e-9, atol=1e-9):
            return 'harness could not set v'
        xl = np.array(list(x) + list(w))
        for i, mu in con._lifted_mu_vars.items():
            mu.value = vval[i] * xl
        for i, ep in con._relent_epi_vars.items():
            cov = con.ech.covers[i]
            mat = d['alpha_np'][i, :] - d['alpha_np'][cov, :]
            ep.value = mat @ (vval[i] * np.array(x))
        vals = {}
        for var in con.variables():
            for sid, val in zip(var.scalar_variable_ids, np.asarray(var.value, dtype=float).ravel().tolist()):
                vals[int(sid)] = val
        for blk in cd:
            A_vals, A_rows, A_cols, b, K = blk
            r = np.array(b, dtype=float).copy()
            for v_, row, col in zip(list(A_vals), np.asarray(A_rows).tolist(), list(A_cols)):
                if v_ != 0:
                    if int(col) not in vals:
                        return 'row refers to scalar variable %d which the constraint does not own' % col
                    r[int(row)] += float(v_) * vals[int(col)]
            i0 = 0
            scale = 1e-7 * (1 + float(np.max(np.abs(r))) if r.size else 1.0)
            for co in K:
                seg = r[i0:i0 + co.len].tolist()
                i0 += co.len
                ok = True
                if co.type == '+':
                    ok = all(s >= -scale for s in seg)
                elif co.type == '0':
                    ok = all(abs(s) <= scale for s in seg)
                elif co.type == 'S':
                    ok = seg[0] >= math.sqrt(sum(s * s for s in seg[1:])) - scale
                elif co.type == 'e':
                    xx, yy, zz = seg
                    if zz > 1e-300:
                        ok = zz * math.exp(min(xx / zz, 700)) <= yy + scale * (1 + abs(yy))
                    else:
                        ok = abs(zz) <= scale and xx <= scale and yy >= -scale
                if not ok:
                    return ('moment vector of x=%s (t=%s) violates a %s-block of the dual SAGE constraint: residual %s'
                            % (x, t, co.type, seg))
    # the compiled system is the stacked blocks, coefficient for coefficient (relative comparison: a coefficient of size 1e-14 is a
    # coefficient)
    with warnings.catch_warnings(), sagecorr.adversarial_globals(d['settings']):
        warnings.simplefilter('ignore')
        cd2 = con.conic_form()
        if sum(len(blk[3]) for blk in cd2) == 0:
            return None          # a constraint without rows (every AGE cone trivial): there is no compiled system to compare (compiling it alone raises)
        A, b, K, vmap_, vars_, svid2col = cl.compile_constrained_system([con])
        # variable_map says where each component of each Variable sits: the column of its scalar variable, -1 for a component that takes no part (e.g. a
        # coordinate of mu_i that no exponent difference touches)
        for v_ in vars_:
            ids_ = [int(t) for t in v_.scalar_variable_ids]
            got_ = [int(t) for t in np.asarray(vmap_[v_.name]).ravel().tolist()]
            want_ = [int(svid2col[i]) if i in svid2col else -1 for i in ids_]
            if got_ != want_:
                return ('variable_map[%s] = %s but the scalar variables %s of that Variable sit in the columns %s of the compiled dual SAGE constraint (-1: takes no part)'
                        % (v_.name, got_, ids_, want_))
    A = np.asarray(A.todense(), dtype=float)
    E = np.zeros(A.shape)
    eb = []
    r0 = 0
    for A_vals, A_rows, A_cols, bb, KK in cd2:
        for v_, row, col in zip(list(A_vals), np.asarray(A_rows).tolist(), list(A_cols)):
            if float(v_) != 0:
                E[r0 + int(row), svid2col[int(col)]] += float(v_)
        eb += list(np.asarray(bb, dtype=float))
        r0 += len(bb)
    if r0 != A.shape[0]:
        return 'the compiled system has %d rows, the blocks of the constraint have %d' % (A.shape[0], r0)
    Kc = [(co.type, int(co.len)) for co in K]
    Kb = [(co.type, int(co.len)) for blk in cd2 for co in blk[4]]
    if Kc != Kb:
        return ('the cones of the compiled system %s differ from the cones of the blocks of the dual SAGE constraint %s (a product of cones is not one '
                'cone of the summed length: the rows of two adjacent second-order cones of X are no longer required to lie in each of them)' % (Kc, Kb))
    if not np.allclose(A, E, rtol=1e-12, atol=0) or not np.allclose(np.asarray(b, dtype=float), np.array(eb), rtol=1e-12, atol=0):
        k = np.argwhere(~np.isclose(A, E, rtol=1e-12, atol=0))
        return ('the compiled matrix differs from the stacked blocks of the dual SAGE constraint, e.g. entry %s: compiled %r, block %r'
                % (k[0].tolist() if len(k) else 'b', float(A[tuple(k[0])]) if len(k) else None, float(E[tuple(k[0])]) if len(k) else None))
    return None


def oracle_interior_coordinate(rng):
    """exponent vectors that all share an interior coordinate (n = 3, the middle coordinate is constant): the compact dual rows never mention mu_i[1], so
    that component takes no part while mu_i[0] and mu_i[2] do; variable_map reports exactly that, and the moment vector assembled THROUGH variable_map satisfies
    the compiled system"""
    import sageopt.coniclifts as cl
    from harness.props.c07 import in_cone
    with warnings.catch_warnings():
        warnings.simplefilter('ignore')
        for mid in (0.0, 1.0):
            alpha = np.array([[0.0, mid, 0.0], [2.0, mid, 0.0], [0.0, mid, 2.0], [1.0, mid, 1.0], [1.0, mid, 0.0]])
            v = cl.Variable(shape=(5,), name='intc_v')
            con = cl.DualSageCone(v, alpha, None, 'intc', settings={'compact_dual': True})
            A, b, K, vmap_, vars_, svid2col = cl.compile_constrained_system([con])
            for v_ in vars_:
                ids_ = [int(t) for t in v_.scalar_variable_ids]
                got_ = [int(t) for t in np.asarray(vmap_[v_.name]).ravel().tolist()]
                want_ = [int(svid2col[i]) if i in svid2col else -1 for i in ids_]
                if got_ != want_:
                    return ('exponents with a constant middle coordinate: variable_map[%s] = %s but its scalar variables sit in the columns %s (-1: takes no part)'
                            % (v_.name, got_, want_))
            x = np.array([rng.randint(-2, 2) / 2.0, rng.randint(-2, 2) / 2.0, rng.randint(-2, 2) / 2.0])
            mom = np.exp(alpha @ x)
            z = np.zeros(A.shape[1])
            for v_ in vars_:
                cols = np.asarray(vmap_[v_.name]).ravel()
                if v_.name == v.name:
                    vals = mom
                elif v_.name.startswith('mu['):
                    i_ = int(v_.name.split('[')[1].split(']')[0])
                    vals = mom[i_] * x
                else:
                    return None
                for c_, t_ in zip(cols.tolist(), np.asarray(vals).ravel().tolist()):
                    if c_ >= 0:
                        z[int(c_)] = t_
            r = np.asarray(A @ z + b).ravel()
            i0 = 0
            for co in K:
                seg = r[i0:i0 + co.len].tolist()
                i0 += co.len
                if co.type == 'e':
                    xx, yy, zz = seg
                    ok = (zz > 1e-300 and zz * math.exp(min(xx / zz, 700)) <= yy * (1 + 1e-9) + 1e-9) or (abs(zz) <= 1e-12 and xx <= 1e-12 and yy >= -1e-12)
                else:
                    ok = in_cone(co.type, [t_ + (1e-9 if co.type == '+' else 0.0) for t_ in seg]) if co.type != '0' else all(abs(t_) <= 1e-9 for t_ in seg)
                if not ok:
                    return ('exponents with a constant middle coordinate: the moment vector of x = %s with mu_i = v_i x, placed through variable_map, violates a %s-block of '
                            'the compiled dual SAGE constraint (residual %s)' % (x.tolist(), co.type, seg))
    return None


def oracle_declared_domains(rng):
    """for domains built from user constraints that leave a coordinate unmentioned: the dual SAGE constraint over X, compiled, admits the moment
    vector of every point of the DECLARED set (v fixed to exp(alpha x), feasibility decided by the solver), under both dual encodings"""
    import sageopt.coniclifts as cl
    import sageopt.coniclifts.constraints.set_membership.sage_cones as sc
    alpha = np.array([[0.0, 0.0, 0.0], [1.0, 0.0, 0.0], [0.0, 1.0, 1.0], [0.0, -1.0, -1.0], [1.0, 1.0, 0.0], [0.0, 0.0, 2.0]])
    saved = dict(sc.SETTINGS)
    try:
        with warnings.catch_warnings():
            warnings.simplefilter('ignore')
            for desc, build, pts in sagecorr.declared_domains(rng):
                for comp in (True, False):
                    sc.SETTINGS.update(saved)
                    cl.compact_sage_duals(comp)
                    X = build()
                    for kx, x in enumerate(rng.sample(pts, 4)):
                        if kx == 3 and not comp:
                            # the constant exponent's entry written as the NUMBER 1: v = (1, y) is an affine vector with a constant entry
                            vy = cl.Variable(shape=(alpha.shape[0] - 1,), name='decl_vy')
                            v = cl.hstack((1.0, vy))
                            con = cl.DualSageCone(v, alpha, X, 'decl_dual_const', settings={'compact_dual': False})
                            st, val = cl.Problem(cl.MIN, cl.Expression([0]), [con, vy == np.exp(alpha @ x)[1:]]).solve(verbose=False)
                            if not (st == 'solved' and val < 1e-6):
                                return ('X = %s: the dual SAGE constraint over X stated on v = (1, y) (a constant entry for the zero exponent, compact_dual=False) rejects the '
                                        'moment vector of the point x = %s of X: feasibility problem reports (%s, %r)' % (desc, x.tolist(), st, val))
                            continue
                        v = cl.Variable(shape=(alpha.shape[0],), name='decl_v')
                        con = cl.DualSageCone(v, alpha, X, 'decl_dual')
                        st, val = cl.Problem(cl.MIN, cl.Expression([0]), [con, v == np.exp(alpha @ x)]).solve(verbose=False)
                        if not (st == 'solved' and val < 1e-6):
                            return ('X = %s: the dual SAGE constraint over X (compact_dual=%s) rejects the moment vector exp(alpha x) of the point x = %s of X: '
                                    'feasibility problem reports (%s, %r)' % (desc, comp, x.tolist(), st, val))
    finally:
        sc.SETTINGS.clear()
        sc.SETTINGS.update(saved)
    return None


def run(ctx):
    why = oracle_interior_coordinate(ctx.rng)
    ctx.evaluations += 2
    ctx.suites['interior_coordinate'] = {'cases': 2, 'failure': why}
    if why:
        ctx.problem('oracle', 'property fails on the implementation: ' + why, inputs={'suite': 'interior_coordinate'}, failing_input_found=True)
    why = oracle_declared_domains(ctx.rng)
    ctx.evaluations += 24
    ctx.suites['declared_domains'] = {'cases': 24, 'failure': why}
    if why:
        ctx.problem('oracle', 'property fails on the implementation: ' + why, inputs={'suite': 'declared_domains'}, failing_input_found=True)
    cases = []
    for k in range(ctx.n(220, 2500)):
        sagecorr.FORCE_TINY[0] = (k % 40 == 7)      # a few instances with every exponent of size 2^-45 (far below any absolute threshold)
        try:
            d = sagecorr.build_dual(ctx.rng)
        finally:
            sagecorr.FORCE_TINY[0] = False
        if 'error' in d:
            ctx.count('construction_error', d['error'][:40])
            continue
        ctx.count('domain', d['kind'])
        ctx.count('covers', d['cover_mode'])
        ctx.count('compact_dual', d['settings']['compact_dual'])
        ctx.count('with_c', d['with_c'])
        ctx.count('age_cones', min(d['ncones'], 5))
        if d['ncones'] >= 1:
            ctx.nontrivial.add(vlib.sha(d['json']))
        cases.append((d['json'], d['cin'], d['cout']))
        if k % 3 == 0 or k % 40 == 7:
            why = oracle_moments(ctx.rng, d)
            ctx.count('oracle', 'checked')
            if why:
                ctx.problem('oracle', 'property fails on the implementation: ' + why, inputs={'instance': d['json']}, failing_input_found=True)
                break
    ctx.evaluations += len(cases)
    mism, err = vlib.run_suite_in_coq(ctx.pid, 'dual_rows', sagecorr.HEADER, 'model_dual', 'dblocks_eqb', sagecorr.T_DUAL_IN,
                                      'list block', [(c[1], c[2]) for c in cases], shard=60)
    ctx.suites['dual_rows'] = {'cases': len(cases), 'mismatches': None if mism is None else len(mism)}
    if err:
        ctx.problem('correspondence', 'suite dual_rows: ' + err)
    else:
        if cases:
            ctx.samples.append({'suite': 'dual_rows', 'instance': cases[len(cases) // 2][0]})
        for idx in mism[:3]:
            model_out = vlib.coq_show(sagecorr.HEADER, 'model_dual %s' % cases[idx][1])
            ctx.problem('correspondence', 'suite dual_rows: model and implementation disagree on %s; input=%s impl=%s model=%s'
                        % (cases[idx][0], cases[idx][1][:1200], cases[idx][2][:2500], model_out[:2500]), inputs={'instance': cases[idx][0]},
                        failing_input_found=False)


def search(ctx):
    for _ in range(300):
        d = sagecorr.build_dual(ctx.rng)
        if 'error' in d:
            continue
        why = oracle_moments(ctx.rng, d)
        if why:
            return {'instance': d['json'], 'property_failure': why}
    return None


def replay(payload):
    ctx = vlib.Ctx('C02', 'quick', int(payload.get('seed', 0)))
    found = search(ctx)
    print(found or 'property holds on the regenerated instances')
    return 1 if found else 0
