"""Shared generator / observers for the SAGE cone rows (used by C01, C02, C19, C03)."""
import math
import warnings
from fractions import Fraction

import numpy as np

from harness import vlib
from harness.vlib import Nat, cq, Raw
from harness.props import c08, c07

TAG = {'0': 'T0', '+': 'TPos', 'S': 'TSoc', 'e': 'TExp'}
HEADER = ('From Coq Require Import List Bool Arith ZArith QArith.\n'
          'From SageVerif Require Import Model.Expr Model.SolverForms Model.Compile Model.Sage Base.Corr.\nImport ListNotations.\n'
          'Definition canon_block (b : block) : block := (fst b, map canon_row (snd b)).\n'
          'Definition mk_dom (x : option (list (list Q) * list Q * list cone)) : option domain :=\n'
          "  match x with Some (A, b, K) => Some {| dA := A; db := b; dK := K |} | None => None end.\n"
          'Definition mk_ids (x : list Z * list Z * list Z * list Z) : age_ids :=\n'
          "  let '(a, b, c, d) := x in {| a_nu := a; a_epi := b; a_eta := c; a_c := d |}.\n"
          'Definition model_primal (x : nat * nat * list (list Q) * list sexpr * option (list (list Q) * list Q * list cone)\n'
          '                             * list (list bool) * list (list Z * list Z * list Z * list Z) * bool * Z) :=\n'
          "  let '(n, ln, alpha, c, X, covs, ids, fe, dummy) := x in\n"
          '  option_map (map canon_block)\n'
          '    (primal_blocks n ln alpha c (mk_dom X) (fun i => nth i covs []) (fun i => mk_ids (nth i ids ([], [], [], [])))\n'
          '                   {| force_equality := fe |} dummy).\n'
          'Definition model_dual (x : nat * nat * list (list Q) * list sexpr * option (list sexpr) * option (list (list Q) * list Q * list cone)\n'
          '                           * list (list bool) * list (list Z * list Z) * bool * Z) :=\n'
          "  let '(n, ln, alpha, v, c, X, covs, ids, cd, dummy) := x in\n"
          '  map canon_block (dual_blocks n ln alpha v c (mk_dom X) (fun i => nth i covs [])\n'
          '                               (fun i => {| d_mu := fst (nth i ids ([], [])); d_epi := snd (nth i ids ([], [])) |})\n'
          '                               {| compact_dual := cd |} dummy).\n'
          'Definition block_eqb (a b : block) : bool := list_eqb cone_eqb (fst a) (fst b) && list_eqb rrow_eqb (snd a) (snd b).\n'
          'Definition blocks_eqb (a : option (list block)) (b : option (list block)) : bool := option_eqb (list_eqb block_eqb) a b.\n'
          'Definition dblocks_eqb (a b : list block) : bool := list_eqb block_eqb a b.')

DOMAINS = ['none', 'none', 'box', 'halfspace', 'ball', 'expcone', 'lifted', 'equality', 'eq_box', 'mixed', 'intbox', 'two_balls']


class adversarial_globals:
    """while a constraint that was given ALL its settings explicitly is constructed, compiled or solved, the module-level defaults
    hold the opposite value of every flag: code that consults the global SETTINGS instead of the constraint's own snapshot differs"""
    KEYS = ('heuristic_reduction', 'presolve_trivial_age_cones', 'sum_age_force_equality', 'compact_dual', 'kernel_basis')

    def __init__(self, settings):
        self.settings = settings

    def __enter__(self):
        import sageopt.coniclifts.constraints.set_membership.sage_cones as sc
        self.sc = sc
        self.saved = dict(sc.SETTINGS)
        for k in self.KEYS:
            sc.SETTINGS[k] = not self.settings[k]

    def __exit__(self, *a):
        self.sc.SETTINGS.clear()
        self.sc.SETTINGS.update(self.saved)


def full_settings(partial):
    d = {'heuristic_reduction': True, 'presolve_trivial_age_cones': False, 'sum_age_force_equality': False, 'compact_dual': True,
         'kernel_basis': False}
    d.update(partial)
    return d


def make_domain(rng, n, kind):
    """explicit (A, b, K) descriptions of convex sets in R^n (possibly with lifted coordinates)"""
    import sageopt.coniclifts as cl
    from sageopt.symbolic.signomials import SigDomain
    if kind == 'none':
        return None, None
    if kind == 'box':
        A = np.vstack([np.eye(n), -np.eye(n)])
        b = np.array([1.0] * n + [2.0] * n)
        K = [('+', 2 * n)]
    elif kind == 'intbox':
        # integer-typed A with a fractional b: x <= 1/2 + ..., stored exactly as the user gave it
        A = np.vstack([np.eye(n), -np.eye(n)]).astype(int)
        b = np.array([1.5] * n + [0.5] * n)
        K = [('+', 2 * n)]
    elif kind == 'two_balls':
        # two second-order cone blocks NEXT TO EACH OTHER: |x| <= 2 and |x - e_1| <= 2
        A = np.vstack([np.zeros((1, n)), np.eye(n), np.zeros((1, n)), np.eye(n)])
        b = np.array([2.0] + [0.0] * n + [2.0] + [-1.0] + [0.0] * (n - 1))
        K = [('S', n + 1), ('S', n + 1)]
    elif kind == 'negbox':
        # [-1, -1/2]^n : a box inside the negative orthant
        A = np.vstack([np.eye(n), -np.eye(n)])
        b = np.array([1.0] * n + [-0.5] * n)
        K = [('+', 2 * n)]
    elif kind in ('negorthant', 'posorthant'):
        # unbounded cones {x <= 0} / {x >= 0}: upper / lower bounds on every monomial e^{x_j}
        A = (-1.0 if kind == 'negorthant' else 1.0) * np.eye(n)
        b = np.zeros(n)
        K = [('+', n)]
    elif kind == 'halfspace':
        A = np.array([[float(rng.choice([1, -1, 2, 0.5, -1.5])) for _ in range(n)]])
        b = np.array([float(rng.choice([0, 1, 3, 0.5]))])
        K = [('+', 1)]
    elif kind == 'ball':
        A = np.vstack([np.zeros((1, n)), np.eye(n)])
        b = np.array([2.0] + [0.0] * n)
        K = [('S', n + 1)]
    elif kind == 'expcone':
        # exp(x0) <= 2 - (x_last)/1  i.e. (x0, 2 - x_{n-1}, 1) in K_exp ; plus a bound
        A = np.zeros((4, n))
        A[0, 0] = 1.0
        A[1, n - 1] = -1.0
        A[3, 0] = 1.0
        b = np.array([0.0, 2.0, 1.0, 3.0])
        K = [('e', 3), ('+', 1)]
    elif kind == 'lifted':
        # |x0| <= w, w <= 2 with one auxiliary column w
        A = np.zeros((3, n + 1))
        A[0, 0], A[0, n] = 1.0, 1.0
        A[1, 0], A[1, n] = -1.0, 1.0
        A[2, n] = -1.0
        b = np.array([0.0, 0.0, 2.0])
        K = [('+', 3)]
    elif kind == 'equality':
        A = np.array([[1.0] + [float(rng.choice([0, 1, -1])) for _ in range(n - 1)]])
        b = np.array([float(rng.choice([0, -1]))])
        K = [('0', 1)]
    elif kind == 'eq_box':
        # an equality block FOLLOWED by other cones: x0 + a.x_rest + b0 = 0 inside the box [-1, 2]^n
        A = np.vstack([np.array([[1.0] + [float(rng.choice([0, 1, -1])) for _ in range(n - 1)]]), np.eye(n), -np.eye(n)])
        b = np.array([float(rng.choice([0, -1]))] + [1.0] * n + [2.0] * n)
        K = [('0', 1), ('+', 2 * n)]
    elif kind == 'mixed':
        # x0 >= -1 ; x0 - x1 = 0 (x0 = -1/2 when n = 1) ; |x| <= 2
        r1 = np.zeros((1, n))
        r1[0, 0] = 1.0
        r2 = np.zeros((1, n))
        r2[0, 0] = 1.0
        if n >= 2:
            r2[0, 1] = -1.0
        A = np.vstack([r1, r2, np.zeros((1, n)), np.eye(n)])
        b = np.array([1.0, 0.0 if n >= 2 else 0.5, 2.0] + [0.0] * n)
        K = [('+', 1), ('0', 1), ('S', n + 1)]
    else:
        raise ValueError(kind)
    Kc = [cl.Cone(t, k) for t, k in K]
    with warnings.catch_warnings():
        warnings.simplefilter('ignore')
        X = SigDomain(n, AbK=(A, b, Kc), gts=[], eqs=[], check_feas=False)
    desc = vlib.Some(([[Fraction(v) for v in r] for r in A.tolist()], [Fraction(v) for v in b.tolist()], [(Raw(TAG[t]), Nat(k)) for t, k in K]))
    return X, desc


FORCE_TINY = [False]     # set by a caller for a few cases: the whole exponent matrix at scale 2^-45


def gen_alpha(rng, m, n, nonneg=False):
    if FORCE_TINY[0]:
        nonneg = False
    rows = []
    tries = 0
    while len(rows) < m:
        tries += 1
        if nonneg:
            r = [Fraction(rng.choice([0, 0, 1, 2, 1] if tries < 200 else list(range(0, 9)))) for _ in range(n)]
        else:
            r = [Fraction(rng.choice([0, 1, -1, 2, 3, -2]), rng.choice([1, 1, 2])) for _ in range(n)]
        if r not in rows:
            rows.append(r)
    if nonneg and [Fraction(0)] * n not in rows:
        rows[rng.randrange(m)] = [Fraction(0)] * n
    if not nonneg and (FORCE_TINY[0] or rng.random() < 0.1):
        # the whole matrix at scale 2^-30: differences of exponents far below 1e-8 are differences
        sc = Fraction(1, 2 ** (45 if FORCE_TINY[0] else rng.choice([30, 30, 45])))       # 2^-45 ~ 2.8e-14: no absolute threshold separates data from round-off
        rows = [[v * sc for v in r] for r in rows]
    if nonneg == 'almost':
        # nonnegative with a zero row, except for ONE negative entry: the orthogonality-based cover reduction must not fire
        cand = [(i, j) for i in range(m) for j in range(n) if rows[i][j] > 0]
        if cand:
            i, j = rng.choice(cand)
            r = list(rows[i])
            r[j] = -r[j]
            if r not in rows:
                rows[i] = r
    return rows


def gen_c(rng, m, comps):
    """entries of c: constants of both signs, zero, single components, affine combinations, shared components"""
    out = []
    for _ in range(m):
        r = rng.random()
        if r < 0.35:
            out.append(float(rng.choice([1, 2, 3, 0.5, 4])))
        elif r < 0.5:
            out.append(float(rng.choice([-1, -2, -0.5, -3])))
        elif r < 0.55:
            out.append(0.0)
        elif r < 0.8:
            out.append(rng.choice(comps))
        else:
            out.append(float(rng.choice([1, 2, -1])) * rng.choice(comps) + float(rng.choice([0, 1, -2])) + (rng.choice(comps) if rng.random() < 0.4 else 0.0))
    return out


def block_rows(cd):
    """(A_vals, A_rows, A_cols, b, K) -> canonical block text"""
    A_vals, A_rows, A_cols, b, K = cd
    m = len(b)
    rows = [dict() for _ in range(m)]
    for v, r, c in zip(list(A_vals), np.asarray(A_rows).tolist(), list(A_cols)):
        rows[int(r)][int(c)] = rows[int(r)].get(int(c), 0.0) + float(v)
    out = []
    for r, bv in zip(rows, np.asarray(b, dtype=float).tolist()):
        ent = [(i, c07.qe(v)) for i, v in sorted(r.items()) if v != 0]
        out.append((ent, c07.qe(bv)))
    return ([(Raw(TAG[co.type]), Nat(int(co.len))) for co in K], out)


def ids_of(v):
    return [int(i) for i in v.scalar_variable_ids] if v is not None else []


def build_primal(rng):
    """returns dict with the constraint object, the model input text, the implementation's blocks text"""
    import sageopt.coniclifts as cl
    from sageopt.coniclifts.base import ScalarVariable, Expression
    n = rng.randint(1, 3)
    m = rng.randint(1, 6) if rng.random() < 0.95 else 1
    kind = rng.choice(DOMAINS)
    nonneg = rng.choice([False, False, False, False, True, True, 'almost'])
    alpha = gen_alpha(rng, m, n, nonneg)
    X, Xdesc = make_domain(rng, n, kind)
    cv = cl.Variable(shape=(3,), name='cvar')
    comps = [cv[0], cv[1], cv[2]]
    cvals = gen_c(rng, m, comps)
    c = Expression(cvals)
    settings = full_settings({'sum_age_force_equality': rng.random() < 0.3, 'presolve_trivial_age_cones': rng.random() < 0.25,
                              'heuristic_reduction': rng.random() < 0.7, 'kernel_basis': False, 'compact_dual': rng.random() < 0.5})
    cover_mode = rng.choice(['auto', 'auto', 'full', 'user'])
    kwargs = {'settings': settings}
    alpha_np = np.array([[float(a) for a in r] for r in alpha]).reshape(m, n)
    alpha_arg = alpha_np
    if rng.random() < 0.3 and np.all(alpha_np == np.round(alpha_np)):
        alpha_arg = alpha_np.astype(int)         # exponents handed over as an integer array
    if cover_mode != 'auto':
        covers = {}
        for i in range(m):
            cov = np.ones(m, dtype=bool) if cover_mode == 'full' else np.array([rng.random() < 0.6 for _ in range(m)], dtype=bool)
            cov[i] = False
            covers[i] = cov
        kwargs['covers'] = covers
    try:
        with warnings.catch_warnings(), adversarial_globals(settings):
            warnings.simplefilter('ignore')
            con = cl.PrimalSageCone(c, alpha_arg, X, 'con', **kwargs)
    except RuntimeError as e:
        return {'error': 'construction: ' + str(e)[:60]}
    ech = con.ech
    covs, ids = [], []
    for i in range(m):
        if i in ech.U_I:
            covs.append([bool(x) for x in ech.covers[i].tolist()])
            ids.append((ids_of(con._nus.get(i)), ids_of(con._relent_epi_vars.get(i)), ids_of(con._eta_vars.get(i)), ids_of(con._c_vars.get(i))))
        else:
            covs.append([])
            ids.append(([], [], [], []))
    lifted_n = con._lifted_n
    dummy = int(ScalarVariable.curr_variable_count()) - 1
    ccells = [c08.cell_desc(se) for se in con.c.flat]
    with warnings.catch_warnings(), adversarial_globals(settings):
        warnings.simplefilter('ignore')
        cd = con.conic_form()
    blocks = [block_rows(b) for b in cd]
    cin = cq((Nat(n), Nat(lifted_n), alpha, ccells, Xdesc, covs, ids, bool(settings['sum_age_force_equality']), dummy))
    ncones = sum(1 for i in ech.U_I if np.any(ech.covers[i])) if m > 1 else 0
    return {'con': con, 'cin': cin, 'cout': cq(vlib.Some(blocks)), 'n': n, 'm': m, 'alpha': alpha, 'alpha_np': alpha_np, 'X': X, 'kind': kind,
            'settings': settings, 'cover_mode': cover_mode, 'cvar': cv, 'ncones': ncones,
            'json': {'n': n, 'm': m, 'alpha': [[str(a) for a in r] for r in alpha], 'domain': kind, 'c': [str(x) if isinstance(x, float) else 'expr' for x in cvals],
                     'settings': {k: bool(v) for k, v in settings.items()}, 'covers': cover_mode}}


def build_dual(rng):
    import sageopt.coniclifts as cl
    from sageopt.coniclifts.base import ScalarVariable, Expression
    n = rng.randint(1, 3)
    m = rng.randint(1, 6) if rng.random() < 0.95 else 1
    kind = rng.choice(DOMAINS)
    nonneg = rng.choice([False, False, False, False, True, True, 'almost'])
    alpha = gen_alpha(rng, m, n, nonneg)
    X, Xdesc = make_domain(rng, n, kind)
    vv = cl.Variable(shape=(m,), name='v')
    vmode = rng.choice(['var', 'var', 'expr', 'affine', 'affine', 'arith'])
    M, off = np.eye(m), np.zeros(m)
    if vmode == 'var':
        v = vv
    elif vmode == 'expr':
        if m > 1:
            M[0, 1] = 1.0
        v = M @ vv
    elif vmode == 'arith':
        # cells written with ordinary arithmetic, later component first: the atoms of a cell are NOT in increasing id order
        for i in range(1, m):
            M[i, i - 1] = 0.5
        v = Expression([vv[0] + 0.0] + [vv[i] + 0.5 * vv[i - 1] for i in range(1, m)])
    else:
        # general affine image: non-unit coefficients and constant terms (as in v_h = c_h @ v of the constrained dual relaxations)
        M = np.diag([float(rng.choice([0.5, 2.0, 1.0, -1.0, 4.0])) for _ in range(m)])
        if m > 1 and rng.random() < 0.5:
            M[m - 1, 0] = float(rng.choice([1.0, -0.5]))
        off = np.array([float(rng.choice([0.0, 1.0, -0.5, 2.0])) for _ in range(m)])
        v = M @ vv + off
    with_c = rng.random() < 0.5
    cv = cl.Variable(shape=(2,), name='cvar')
    cvals = gen_c(rng, m, [cv[0], cv[1]]) if with_c else None
    settings = full_settings({'compact_dual': rng.random() < 0.6, 'presolve_trivial_age_cones': rng.random() < 0.25,
                              'heuristic_reduction': rng.random() < 0.7, 'sum_age_force_equality': rng.random() < 0.5,
                              # kernel_basis is an option of the PRIMAL cone: a dual cone compiles to the same rows with or without it
                              'kernel_basis': rng.random() < 0.4})
    kwargs = {'settings': settings}
    if with_c:
        kwargs['c'] = Expression(cvals)
    cover_mode = rng.choice(['auto', 'auto', 'full', 'user'])
    alpha_np = np.array([[float(a) for a in r] for r in alpha]).reshape(m, n)
    if cover_mode != 'auto':
        covers = {}
        for i in range(m):
            cov = np.ones(m, dtype=bool) if cover_mode == 'full' else np.array([rng.random() < 0.6 for _ in range(m)], dtype=bool)
            cov[i] = False
            covers[i] = cov
        kwargs['covers'] = covers
    try:
        alpha_arg = alpha_np.astype(int) if (rng.random() < 0.3 and np.all(alpha_np == np.round(alpha_np))) else alpha_np
        with warnings.catch_warnings(), adversarial_globals(settings):
            warnings.simplefilter('ignore')
            con = cl.DualSageCone(v, alpha_arg, X, 'dcon', **kwargs)
    except RuntimeError as e:
        return {'error': 'construction: ' + str(e)[:60]}
    ech = con.ech
    covs, ids = [], []
    for i in range(m):
        if i in ech.U_I and m > 1:
            covs.append([bool(x) for x in ech.covers[i].tolist()])
            ids.append((ids_of(con._lifted_mu_vars.get(i)), ids_of(con._relent_epi_vars.get(i))))
        else:
            covs.append([])
            ids.append(([], []))
    dummy = int(ScalarVariable.curr_variable_count()) - 1
    vcells = [c08.cell_desc(se) for se in Expression(con.v).flat]
    ccells = vlib.Some([c08.cell_desc(se) for se in con.c.flat]) if with_c else None
    with warnings.catch_warnings(), adversarial_globals(settings):
        warnings.simplefilter('ignore')
        cd = con.conic_form()
    blocks = [block_rows(b) for b in cd]
    cin = cq((Nat(n), Nat(con._lifted_n), alpha, vcells, ccells, Xdesc, covs, ids, bool(settings['compact_dual']), dummy))
    ncones = sum(1 for i in ech.U_I if np.any(ech.covers[i])) if m > 1 else 0
    return {'con': con, 'cin': cin, 'cout': cq(blocks), 'n': n, 'm': m, 'alpha': alpha, 'alpha_np': alpha_np, 'X': X, 'kind': kind, 'settings': settings,
            'cover_mode': cover_mode, 'v': vv, 'vexpr': v, 'vmat': M, 'voff': off, 'ncones': ncones, 'with_c': with_c,
            'json': {'n': n, 'm': m, 'alpha': [[str(a) for a in r] for r in alpha], 'domain': kind, 'v': vmode, 'with_c': with_c,
                     'settings': {k: bool(v_) for k, v_ in settings.items()}, 'covers': cover_mode}}


T_PRIMAL_IN = ('nat * nat * list (list Q) * list sexpr * option (list (list Q) * list Q * list cone) * list (list bool) '
               '* list (list Z * list Z * list Z * list Z) * bool * Z')
T_DUAL_IN = ('nat * nat * list (list Q) * list sexpr * option (list sexpr) * option (list (list Q) * list Q * list cone) '
             '* list (list bool) * list (list Z * list Z) * bool * Z')


def sample_domain_point(rng, n, kind, X=None):
    """a point of X (exactly feasible by construction), with lifted coordinates if any; membership of the grid point is decided on
    the domain's own (A, b, K) when X is given"""
    from harness.props.c07 import in_cone
    for _ in range(300):
        x = [rng.randint(-4, 4) / 2.0 for _ in range(n)]
        if kind == 'none':
            return x, []
        if kind == 'lifted':
            if abs(x[0]) <= 2:
                return x, [abs(x[0]) + 0.0]
            continue
        if X is None:
            if kind == 'box' and all(-1 <= xi <= 2 for xi in x):
                return x, []
            if kind == 'ball' and sum(xi * xi for xi in x) <= 4:
                return x, []
            continue
        A, b, K = np.asarray(X.A, dtype=float), np.asarray(X.b, dtype=float), X.K
        i = 0
        for co in K:      # solve equality rows for their leading coordinate
            if co.type == '0':
                for r in range(i, i + co.len):
                    nz = [j for j in range(n) if A[r, j] != 0]
                    if nz:
                        j = nz[0]
                        x[j] = -(b[r] + sum(A[r, k] * x[k] for k in range(n) if k != j)) / A[r, j]
            i += co.len
        v = A[:, :n] @ np.array(x) + b
        i, ok = 0, True
        for co in K:
            blk = v[i:i + co.len].tolist()
            if co.type == '0':
                ok = ok and all(t == 0 for t in blk)
            elif co.type == 'e':
                ok = ok and blk[2] > 0 and blk[2] * math.exp(blk[0] / blk[2]) <= blk[1] * (1 - 1e-9)
            else:
                ok = ok and in_cone(co.type, blk)
            i += co.len
        if ok:
            return x, []
    return None, None


def declared_domains(rng):
    """domains built from USER constraints in which one coordinate is mentioned by no constraint (with and without auxiliary columns).  Each entry:
    (description, zero-argument builder of the SigDomain, list of points of the DECLARED set).  The points come from the constraints as written,
    not from the domain's own (A, b, K): a domain that silently describes another set is then seen by whoever uses it."""
    import sageopt.coniclifts as cl
    from sageopt.symbolic.signomials import SigDomain
    out = []
    pts_box = [np.array([a, b, c]) for a in (-1.0, -0.5, 0.3, 1.0) for b in (-1.0, 0.0, 0.9, 1.0) for c in (-2.0, 0.0, 0.9, 3.0)]
    pts_disc = [np.array([a, b, c]) for a in (-0.7, 0.0, 0.6) for b in (-0.7, 0.0, 0.6) for c in (-2.0, 0.0, 0.9, 3.0) if a * a + b * b <= 1]

    def box():
        x = cl.Variable(shape=(3,), name='decl_box_x')
        return SigDomain(3, coniclifts_cons=[x[:2] <= 1, x[:2] >= -1])

    def box_last_first():
        x = cl.Variable(shape=(3,), name='decl_box2_x')
        return SigDomain(3, coniclifts_cons=[x[1:] <= 1, x[1:] >= -1])

    def disc():
        x = cl.Variable(shape=(3,), name='decl_disc_x')
        return SigDomain(3, coniclifts_cons=[cl.vector2norm(x[:2]) <= 1])
    out.append(('{-1 <= x0, x1 <= 1} in R^3 (x2 free, linear constraints only)', box, pts_box))
    out.append(('{-1 <= x1, x2 <= 1} in R^3 (x0 free, linear constraints only)', box_last_first, [p_[[2, 0, 1]] for p_ in pts_box]))
    out.append(('{|(x0, x1)| <= 1} in R^3 (x2 free, one auxiliary column)', disc, pts_disc))
    return out
