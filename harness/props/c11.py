"""C11 — compiling and solving never change what a model means.
Tie: Model/History.v vs the implementation on random histories: the same constraint objects are compiled repeatedly
(directly and through Problem(...)), unrelated Variables/models are created in between, the global SAGE defaults are
changed after constraints were constructed, Variables of different generations are mixed.
Oracle: the history itself — after every step the shared objects must give the same cone signature and optimal value as
a freshly built copy of the model; mixed generations must be rejected."""
import math
import warnings
from fractions import Fraction

import numpy as np

from harness import vlib
from harness.vlib import Nat, cq, Raw
from harness.props import c07, c08

USES_TRANSLATOR = True
RULE = ('case = random history (4-9 steps) over a pool of shared constraint objects: compile a subset, build+solve a Problem from a '
        'subset, create unrelated Variables, change a global SAGE default, construct a SAGE constraint; observed after each compile: '
        'cone signature, canonical rows, optimal value, against the model and against a freshly rebuilt copy; non-trivial = history that '
        'compiles some constraint with a nonlinear atom at least twice or changes a default after constructing a SAGE constraint')
TRUSTED = ['correspondence harness harness/props/c11.py', 'translator for SETTINGS and the setter functions (Gen/GenSettings.v)',
           'ORACLE: ECOS for the optimal values compared between shared objects and fresh copies']
ASSUMPTIONS = ['Model/History.v is hand written; tied by correspondence only',
               'optimal values are compared between two runs of the same solver (tolerance 1e-6), not proved equal']
HEADER = ('From Coq Require Import List Bool Arith ZArith QArith.\n'
          'From SageVerif Require Import Model.Expr Model.SolverForms Model.Compile Model.History Base.Corr.\nImport ListNotations.\n'
          'Definition epi_of (tbl : list (atom * Z)) (a : atom) : Z :=\n'
          '  match filter (fun p => atom_eqb (fst p) a) tbl with (_, i) :: _ => i | [] => 0%Z end.\n'
          'Definition mk_ccon (x : bool * list sexpr) : ccon := {| cc_op := if fst x then OpEq else OpLe; cc_cells := snd x; cc_subst := [] |}.\n'
          'Definition canon_block (b : list cone * list rrow) := (fst b, map canon_row (snd b)).\n'
          '(* recompile the same objects with the given dummy ids; all results canonicalised *)\n'
          'Definition model (x : list (atom * Z) * list Z * list (bool * list sexpr)) :=\n'
          "  let '(tbl, dummies, cs) := x in map (map canon_block) (recompile (epi_of tbl) dummies (map mk_ccon cs)).\n"
          'Definition block_eqb (a b : list cone * list rrow) : bool := list_eqb cone_eqb (fst a) (fst b) && list_eqb rrow_eqb (snd a) (snd b).\n'
          'Definition out_eqb := list_eqb (list_eqb block_eqb).')


def build_pool(rng, nmin=1, nmax=3):
    """a function that builds a fresh copy of a small model: returns (user vars, constraint list, objective)"""
    spec = []
    for _ in range(rng.randint(nmin, nmax)):
        spec.append((rng.choice(['aff', 'abs', 'norm', 'exp', 'pos'] + (['mix', 'mix'] if nmin >= 2 else [])), rng.choice(['<=', '>=']), rng.randint(1, 3), rng.randint(0, 2),
                     float(rng.choice([1, 2, 3]))))

    def make():
        import sageopt.coniclifts as cl
        from sageopt.coniclifts.operators.abs import abs as clabs
        from sageopt.coniclifts.operators.pos import pos as clpos
        x = cl.Variable(shape=(3,), name='x')
        cons = [x >= -2, x <= 3]
        for kind, op, k, j, r in spec:
            if kind == 'aff':
                cons.append(x[j] + x[(j + 1) % 3] <= r)
            elif kind == 'abs':
                cons.append(clabs(x[:k] - 1.0) <= r)
            elif kind == 'norm':
                cons.append(cl.vector2norm(x[:k + 1 if k < 3 else 3]) <= r)
            elif kind == 'exp':
                cons.append(cl.weighted_sum_exp(np.array([1.0, 0.5]), x[:2]) <= r + 2)
            elif kind == 'mix':
                # atoms of different classes in one constraint (their per-class ids may coincide)
                cons.append(cl.vector2norm(x[:2]) + cl.weighted_sum_exp(np.array([1.0]), x[j:j + 1]) + clabs(x[2:3] - 1.0)[0] <= r + 4)
            else:
                cons.append(clpos(x[j] + 0.5) + x[(j + 1) % 3] <= r)
        obj = x[0] + 2 * x[1] - x[2]
        make.exprs = [cl.weighted_sum_exp(np.array([1.0, 2.0]), x[:2]) - 6.0, cl.vector2norm(x[1:]) + clabs(x[:1])[0] - 5.0,
                      clpos(x[2:] - 0.5) - 2.0]
        return x, cons, obj
    return make, spec


def signature(K):
    return [(co.type, int(co.len)) for co in K]


def canon_rows(A, b, K, svid2col):
    cols = sorted((col, i) for i, col in svid2col.items() if col >= 0)
    ids = [int(i) for _, i in cols]
    Ad = A.tocsr()
    rows = []
    for i in range(A.shape[0]):
        r = Ad.getrow(i)
        ent = sorted((ids[j], v) for j, v in zip(r.indices.tolist(), r.data.tolist()) if v != 0)
        rows.append(([(int(i_), c07.qe(v)) for i_, v in ent], c07.qe(b[i])))
    return rows


def blocks_from(A, b, K, svid2col, nblocks):
    """split the compiled rows back into the blocks (elementwise constraints first, then one per atom)"""
    rows = canon_rows(A, b, K, svid2col)
    out, i = [], 0
    for grp in nblocks:
        n = sum(k for _, k in grp)
        out.append(([(Raw(c07.TAG[t]), Nat(k)) for t, k in grp], rows[i:i + n]))
        i += n
    return out


def run_history(rng):
    """returns (coq case or None, property failure or None, meta)"""
    import sageopt.coniclifts as cl
    from sageopt.coniclifts.base import ScalarVariable
    make, spec = build_pool(rng)
    x, cons, obj = make()
    elem = [c for c in cons]
    # observe the inputs of the model before anything is compiled
    tbl, dummy0, cs_desc, _, atoms = c07.observe_inputs(elem, [])
    dummies, outs = [], []
    meta = {'recompiled_nl': False, 'steps': []}
    failure = None
    ncompiles = 0
    for step in range(rng.randint(3, 7)):
        op = rng.choice(['compile', 'compile', 'problem', 'unrelated', 'unrelated_model'])
        meta['steps'].append(op)
        with warnings.catch_warnings():
            warnings.simplefilter('ignore')
            if op == 'unrelated':
                cl.Variable(shape=(rng.randint(1, 3),), name='u%d' % step)
            elif op == 'unrelated_model':
                xm, cm, om = make()
                cl.Problem(cl.MIN, om, cm).solve(verbose=False)
            elif op == 'compile':
                dummies.append(int(ScalarVariable.curr_variable_count()) - 1)
                A, b, K, vm, vs, s2c = cl.compile_constrained_system(elem)
                ncompiles += 1
                # blocks: one per elementwise constraint, then one per distinct atom
                grp = [[(('0' if c.operator == '==' else '+'), int(c.expr.size))] for c in elem]
                k0 = len(elem)
                sig = signature(K)
                pos = sum(len(g) for g in grp)
                agr = [[t] for t in sig[pos:]]
                outs.append(blocks_from(A, b, K, s2c, grp + agr))
                xf, cf, of = make()
                Af, bf, Kf, _, _, _ = cl.compile_constrained_system(cf)
                if signature(Kf) != sig or Af.shape[0] != A.shape[0]:
                    failure = ('compilation #%d of the shared constraint objects gives cones %s / A%s but a freshly built copy gives %s / A%s'
                               % (ncompiles, sig, A.shape, signature(Kf), Af.shape))
                    break
            else:
                sense = cl.MIN
                p1 = cl.Problem(sense, obj, elem)
                dummies.append(None)
                ncompiles += 1
                r1 = p1.solve(verbose=False)
                xf, cf, of = make()
                r2 = cl.Problem(sense, of, cf).solve(verbose=False)
                if signature(p1.K) != signature(cl.Problem(sense, of, cf).K):
                    failure = 'Problem #%d built from the shared constraints has cones %s, a fresh copy %s' % (ncompiles, signature(p1.K), '?')
                    break
                if r1[0] != r2[0] or (np.isfinite(r1[1]) and abs(r1[1] - r2[1]) > 1e-6 * (1 + abs(r2[1]))) or (np.isfinite(r1[1]) != np.isfinite(r2[1])):
                    failure = 'Problem built from the shared constraints solves to %r, a freshly built copy to %r' % (r1, r2)
                    break
                # a Problem compile also counts as a compile of the objects: record with its dummy unknown -> drop from the model comparison
                dummies.pop()
    if ncompiles >= 2 and atoms:
        meta['recompiled_nl'] = True
    case = None
    real = [d for d in dummies if d is not None]
    if failure is None and outs and 'problem' not in meta['steps']:
        case = (meta['steps'], cq((tbl, real, cs_desc)), cq(outs))
    return case, failure, meta


def align_atom_counters():
    """atom ids are per-class counters; in a fresh process atoms of different classes carry the same ids. Reproduce that state."""
    from sageopt.coniclifts.operators.abs import Abs
    from sageopt.coniclifts.operators.exp import Exponential
    from sageopt.coniclifts.operators.norms import Vector2Norm
    from sageopt.coniclifts.operators.pos import Pos
    from sageopt.coniclifts.operators.relent import RelEnt
    top = max(Abs._ABS_COUNTER_, Exponential._EXPONENTIAL_COUNTER_, Vector2Norm._VECTOR_2_NORM_COUNTER_, Pos._POS_COUNTER_, RelEnt._REL_ENT_COUNTER_)
    Abs._ABS_COUNTER_ = Exponential._EXPONENTIAL_COUNTER_ = Vector2Norm._VECTOR_2_NORM_COUNTER_ = Pos._POS_COUNTER_ = RelEnt._REL_ENT_COUNTER_ = top


def subset_history(rng):
    """shared constraint objects (several of them with EQUAL nonlinear atoms) are built into Problems subset by subset;
    every solve must agree with a freshly built copy of the same subset"""
    import sageopt.coniclifts as cl
    make, spec = build_pool(rng, nmin=2, nmax=4)
    align_atom_counters()
    x, cons, obj = make()
    exprs = make.exprs
    late = []        # (index of the user's Expression object, right-hand side): constraints stated from it AFTER earlier compilations
    steps = []
    for step in range(rng.randint(3, 6)):
        idx = sorted(rng.sample(range(2, len(cons)), rng.randint(1, len(cons) - 2)))
        if rng.random() < 0.3:
            idx = idx + [rng.choice(idx)]       # the same constraint object listed twice
        if rng.random() < 0.5:
            late.append((rng.randrange(len(exprs)), float(rng.choice([0, 0, 1]))))
        steps.append((idx, list(late)))
        with warnings.catch_warnings():
            warnings.simplefilter('ignore')
            # the user's Expression objects are reused: each time a NEW constraint is stated from the same object
            extra = [(exprs[k] <= r) if r != 0 else (exprs[k] <= 0) for k, r in late]
            r1 = cl.Problem(cl.MIN, obj, cons[:2] + [cons[i] for i in idx] + extra).solve(verbose=False)
            xf, cf, of = make()
            ef = make.exprs
            extraf = [(ef[k] <= r) if r != 0 else (ef[k] <= 0) for k, r in late]
            r2 = cl.Problem(cl.MIN, of, cf[:2] + [cf[i] for i in idx] + extraf).solve(verbose=False)
        if r1[0] != r2[0] or np.isfinite(r1[1]) != np.isfinite(r2[1]) or (np.isfinite(r1[1]) and abs(r1[1] - r2[1]) > 1e-5 * (1 + abs(r2[1]))):
            return ('model spec %s: after building Problems from the subsets %s of the shared constraint objects, the last one solves to %r '
                    'but a freshly built copy of the same constraints solves to %r' % (spec, steps, r1, r2)), {'spec': str(spec), 'subsets': steps}
    kinds = [sp_[0] for sp_ in spec]
    return None, {'spec': str(spec), 'subsets': steps, 'equal_atoms': any(kinds.count(k) > 1 for k in ('exp', 'norm', 'abs', 'pos'))}


def oracle_separately_then_together(rng):
    """constraints with EQUAL nonlinear atoms are each compiled in a Problem of their own first and used together afterwards; a
    conditional dual SAGE constraint object is built into two Problems in a row; both behave like fresh copies"""
    import sageopt.coniclifts as cl
    from sageopt.symbolic.signomials import SigDomain

    def make():
        x = cl.Variable(shape=(2,), name='st_x')
        c1 = cl.weighted_sum_exp(np.array([1.0]), cl.Expression([x[0] + x[1]])) <= 50        # loose
        c2 = cl.weighted_sum_exp(np.array([1.0]), cl.Expression([x[0] + x[1]])) + x[0] <= 6    # binding
        return x, [c1, c2, x >= -1, x <= 3]
    with warnings.catch_warnings():
        warnings.simplefilter('ignore')
        x, cons = make()
        obj = -x[0] - 2 * x[1]
        r_a = cl.Problem(cl.MIN, obj, [cons[0]] + cons[2:]).solve(verbose=False)
        r_b = cl.Problem(cl.MIN, obj, [cons[1]] + cons[2:]).solve(verbose=False)
        r_ab = cl.Problem(cl.MIN, obj, cons).solve(verbose=False)
        xf, cf = make()
        fresh = cl.Problem(cl.MIN, -xf[0] - 2 * xf[1], cf).solve(verbose=False)
        if r_ab[0] != fresh[0] or abs(r_ab[1] - fresh[1]) > 1e-5 * (1 + abs(fresh[1])):
            return ('two constraints with equal exp atoms were compiled separately (values %r, %r) and then together: %r; a fresh copy of the joint '
                    'model solves to %r' % (r_a[1], r_b[1], r_ab, fresh))
        # conditional dual SAGE constraint, compiled twice
        alpha = np.array([[0.0, 0.0], [1.0, 0.0], [0.0, 1.0], [1.0, 1.0]])
        X = SigDomain(2, AbK=(np.vstack([np.eye(2), -np.eye(2)]), np.array([1.0, 1.0, 2.0, 2.0]), [cl.Cone('+', 4)]), gts=[], eqs=[], check_feas=False)
        v = cl.Variable(shape=(4,), name='st_v')
        con = cl.DualSageCone(v, alpha, X, 'st_dual', c=cl.Expression(np.array([1.0, 1.0, 1.0, -1.0])))
        objv = v[1] + v[2] - v[3]
        try:
            first = cl.Problem(cl.MIN, objv, [con, v[0] == 1]).solve(verbose=False)
            second = cl.Problem(cl.MIN, objv, [con, v[0] == 1]).solve(verbose=False)
        except Exception as e:
            return 'building a second Problem from the same conditional dual SAGE constraint raised %s %s' % (type(e).__name__, ' '.join(str(e).split())[:100])
        if first[0] != second[0] or (np.isfinite(first[1]) and abs(first[1] - second[1]) > 1e-6 * (1 + abs(first[1]))):
            return 'the same conditional dual SAGE constraint gives %r in a first Problem and %r in a second one' % (first, second)
        if any(len(np.asarray(u.scalar_variable_ids).ravel()) != int(np.prod(u.shape)) for u in con.variables()):
            return 'after two compilations a Variable of the dual SAGE constraint reports more indices than components'
        # primal SAGE constraints (ordinary and conditional, nontrivial AGE cones), compiled twice and then built into two Problems:
        # the same system and the same value every time
        alpha5 = np.array([[0.0, 0.0], [2.0, 0.0], [0.0, 2.0], [1.0, 1.0], [1.0, 0.0]])
        for Xp, label in ((None, 'ordinary'), (X, 'conditional')):
            g = cl.Variable(shape=(1,), name='st_g')
            cp = cl.Expression([1.0 - g[0], 1.0, 1.0, -1.5, -0.5])
            conp = cl.PrimalSageCone(cp, alpha5, Xp, 'st_primal_' + label)
            systems = []
            try:
                for _ in range(3):
                    A_, b_, K_ = cl.compile_constrained_system([conp])[:3]
                    systems.append((np.asarray(A_.todense()), np.asarray(b_), [(co.type, co.len) for co in K_]))
                vals = [cl.Problem(cl.MAX, g[0], [conp]).solve(verbose=False) for _ in range(2)]
            except Exception as e:
                return 'compiling the same %s primal SAGE constraint again raised %s %s' % (label, type(e).__name__, ' '.join(str(e).split())[:100])
            for k in (1, 2):
                if systems[k][2] != systems[0][2] or systems[k][0].shape != systems[0][0].shape or \
                        not np.array_equal(systems[k][0], systems[0][0]) or not np.array_equal(systems[k][1], systems[0][1]):
                    return ('compilation number %d of the same %s primal SAGE constraint gives another system than the first (|A_k - A_1|_1 = %s)'
                            % (k + 1, label, float(np.abs(systems[k][0] - systems[0][0]).sum()) if systems[k][0].shape == systems[0][0].shape else 'shape'))
            gf = cl.Variable(shape=(1,), name='st_gf')
            fresh_p = cl.Problem(cl.MAX, gf[0], [cl.PrimalSageCone(cl.Expression([1.0 - gf[0], 1.0, 1.0, -1.5, -0.5]), alpha5, Xp, 'st_fresh_' + label)]).solve(verbose=False)
            for k, vv in enumerate(vals):
                if vv[0] != fresh_p[0] or (np.isfinite(fresh_p[1]) and not abs(vv[1] - fresh_p[1]) <= 1e-5 * (1 + abs(fresh_p[1]))):
                    return ('Problem number %d built from an already compiled %s primal SAGE constraint solves to %r; a fresh copy solves to %r'
                            % (k + 1, label, vv, fresh_p))
            if any(len(np.asarray(u.scalar_variable_ids).ravel()) != int(np.prod(u.shape)) for u in conp.variables()):
                return 'after repeated compilation a Variable of the %s primal SAGE constraint reports more indices than components' % label
    return None


def oracle_resolve(rng):
    """re-solving: whatever options earlier solves of the same Problem were given, a later plain solve gives the value of a fresh copy"""
    import sageopt.coniclifts as cl
    make, spec = build_pool(rng, nmin=2, nmax=3)
    with warnings.catch_warnings():
        warnings.simplefilter('ignore')
        x, cons, obj = make()
        p1 = cl.Problem(cl.MIN, obj, cons)
        first = p1.solve(verbose=False, max_iters=rng.choice([1, 2]))
        again = p1.solve(verbose=False)
        third = p1.solve(verbose=False, max_iters=150)
        xf, cf, of = make()
        fresh = cl.Problem(cl.MIN, of, cf).solve(verbose=False)
    # options given to the CONSTRUCTOR of another Problem belong to that Problem only
    with warnings.catch_warnings():
        warnings.simplefilter('ignore')
        zz = cl.Variable(shape=(1,), name='unrelated_z')
        other = cl.Problem(cl.MIN, zz[0], [zz >= 1], max_iters=1)
        xg, cg, og = make()
        pg = cl.Problem(cl.MIN, og, cg)
        if 'max_iters' in pg.problem_options:
            return 'a Problem built after Problem(..., max_iters=1) carries that option: %s' % sorted(pg.problem_options)
        after_other = pg.solve(verbose=False)
        if 'max_iters' in p1.problem_options:
            return 'a Problem built BEFORE Problem(..., max_iters=1) now carries that option: %s' % sorted(p1.problem_options)
    if after_other[0] != fresh[0] or (np.isfinite(fresh[1]) and not abs(after_other[1] - fresh[1]) <= 1e-5 * (1 + abs(fresh[1]))):
        return 'model spec %s: after an unrelated Problem(MIN, z, [z >= 1], max_iters=1) was constructed, a fresh copy solves to %r instead of %r' % (
            spec, after_other, fresh)
    for label, got in (('a plain solve()', again), ('solve(max_iters=150)', third)):
        if got[0] != fresh[0] or (np.isfinite(fresh[1]) and not abs(got[1] - fresh[1]) <= 1e-5 * (1 + abs(fresh[1]))):
            return 'model spec %s: after solve(max_iters=1 or 2) returned %r, %s of the same Problem returns %r; a fresh copy solves to %r' % (
                spec, first, label, got, fresh)
    return None


def oracle_settings(rng):
    """changing the global defaults after construction must not change what a constraint compiles to"""
    import sageopt.coniclifts as cl
    import sageopt.coniclifts.constraints.set_membership.sage_cones as sc
    saved = dict(sc.SETTINGS)
    try:
        with warnings.catch_warnings():
            warnings.simplefilter('ignore')
            alpha = np.array([[0.0, 0.0], [2.0, 0.0], [0.0, 2.0], [1.0, 1.0], [1.0, 0.0]])
            cv = cl.Variable(shape=(1,), name='g')
            c = cl.Expression([1.0 - cv[0], 1.0, 1.0, -1.5, -0.5])
            setters = [(cl.sum_age_force_equality, 'sum_age_force_equality'), (cl.compact_sage_duals, 'compact_dual'),
                       (cl.presolve_trivial_age_cones, 'presolve_trivial_age_cones'), (cl.heuristic_reduce_cond_age_cones, 'heuristic_reduction'),
                       (cl.kernel_basis_age_witnesses, 'kernel_basis')]
            for fn, key in setters:
                for val in (True, False):
                    sc.SETTINGS.update(saved)
                    con = cl.PrimalSageCone(c, alpha, None, 'snap')
                    before = dict(con.settings)
                    sig0 = [[(co.type, co.len) for co in blk[4]] for blk in con.conic_form()]
                    fn(val)
                    if sc.SETTINGS[key] != val:
                        return 'setter %s does not set SETTINGS[%r]' % (fn.__name__, key)
                    if con.settings != before:
                        return 'constraint.settings changed after %s(%s)' % (fn.__name__, val)
                    sig1 = [[(co.type, co.len) for co in blk[4]] for blk in con.conic_form()]
                    if sig0 != sig1:
                        return 'cone structure of an existing constraint changed after %s(%s): %s -> %s' % (fn.__name__, val, sig0, sig1)
                    # per-constraint override beats the (new) default
                    con2 = cl.PrimalSageCone(c, alpha, None, 'snap2', settings={key: (not val)})
                    if con2.settings[key] != (not val):
                        return 'settings= override of %r ignored' % key
                    d = cl.DualSageCone(cl.Variable(shape=(5,), name='vv'), alpha, None, 'dsnap')
                    if d.settings[key] != val:
                        return 'a constraint constructed after %s(%s) does not see the new default' % (fn.__name__, val)
            # value unchanged: solve the same primal problem built before / after a default change
            sc.SETTINGS.update(saved)
            con = cl.PrimalSageCone(c, alpha, None, 'valsnap')
            cl.sum_age_force_equality(True)
            cl.compact_sage_duals(False)
            v1 = cl.Problem(cl.MAX, cv[0], [con]).solve(verbose=False)
            sc.SETTINGS.update(saved)
            cv2 = cl.Variable(shape=(1,), name='g2')
            c2 = cl.Expression([1.0 - cv2[0], 1.0, 1.0, -1.5, -0.5])
            v2 = cl.Problem(cl.MAX, cv2[0], [cl.PrimalSageCone(c2, alpha, None, 'valfresh')]).solve(verbose=False)
            if v1[0] != v2[0] or abs(v1[1] - v2[1]) > 1e-5:
                return 'optimal value %r of a model whose constraint predates a default change differs from a fresh copy %r' % (v1, v2)
    finally:
        sc.SETTINGS.clear()
        sc.SETTINGS.update(saved)
    return None


def oracle_generations(rng):
    import sageopt.coniclifts as cl
    with warnings.catch_warnings():
        warnings.simplefilter('ignore')
        a = cl.Variable(shape=(2,), name='ga')
        cl.clear_variable_indices()
        b = cl.Variable(shape=(2,), name='gb')
        try:
            cl.compile_constrained_system([a[0] + b[0] <= 1, a >= 0, b >= 0])
            return 'a model mixing Variables of two index generations was compiled instead of rejected'
        except RuntimeError:
            pass
        try:
            cl.Problem(cl.MIN, b[0], [a[0] + b[0] >= 1, b <= 4, a <= 1])
            return 'a Problem mixing Variables of two index generations was built instead of rejected'
        except RuntimeError:
            pass
        # the two generations may carry the SAME indices (both declared first after a clear): still two generations
        cl.clear_variable_indices()
        p_old = cl.Variable(shape=(2,), name='gp')
        cl.clear_variable_indices()
        q_new = cl.Variable(shape=(2,), name='gq')
        # ... also when the two Variables only ever meet INSIDE the same scalar expressions (equal ids in one dict of atoms)
        try:
            pr = cl.Problem(cl.MAX, p_old[0] + 0.0, [p_old[0] + q_new[0] <= 1, p_old[0] - q_new[0] <= 0.5])
            return ('a Problem in which a Variable of an earlier generation and one of the current generation with the same index only meet inside '
                    'the same scalar expressions (x_old + y_new <= 1, x_old - y_new <= 0.5) was built (A is %s) instead of rejected' % (pr.A.shape,))
        except RuntimeError:
            pass
        for cons in ([p_old >= 1, q_new >= 2], [q_new >= 2, p_old >= 1], [p_old[0] + q_new[1] >= 1, p_old <= 5, q_new <= 5]):
            try:
                pr = cl.Problem(cl.MIN, p_old[0] + q_new[0], cons)
                return ('a Problem mixing two index generations whose Variables carry the same indices %s was built (A is %s) instead of rejected'
                        % (p_old.scalar_variable_ids, pr.A.shape))
            except RuntimeError:
                pass
        # ... also when the older Variable went through a pickle round trip after the clear
        import pickle
        cl.clear_variable_indices()
        r_old = cl.Variable(shape=(2,), name='gr')
        cl.clear_variable_indices()
        r_loaded = pickle.loads(pickle.dumps(r_old))
        s_new = cl.Variable(shape=(2,), name='gs')
        try:
            pr = cl.Problem(cl.MIN, r_loaded[0] + s_new[0], [r_loaded >= 1, s_new >= 2])
            return ('a Problem mixing a Variable of an earlier generation (pickled and loaded after clear_variable_indices) with a Variable of '
                    'the current generation was built (A is %s) instead of rejected' % (pr.A.shape,))
        except RuntimeError:
            pass
        # the epigraph Variables that a first compilation creates belong to the CURRENT generation: a nonlinear constraint over a
        # Variable of an earlier generation is a mixed model as well
        cl.clear_variable_indices()
        e_old = cl.Variable(shape=(2,), name='ge')
        cl.clear_variable_indices()
        try:
            pr = cl.Problem(cl.MIN, e_old[0], [cl.weighted_sum_exp(np.array([1.0, 2.0]), e_old) <= 4, e_old >= -1])
            return ('a nonlinear constraint over a Variable of an earlier generation was compiled (A is %s): its epigraph Variables belong to the '
                    'current generation' % (pr.A.shape,))
        except RuntimeError:
            pass
        # ... and it makes no difference whether somebody asked the constraint for its Variables before the first compilation
        # (the library does: SigDomain(coniclifts_cons=...) and find_variables_from_constraints run before compiling)
        for how in ('variables', 'find_variables', 'sigdomain'):
            cl.clear_variable_indices()
            e_old = cl.Variable(shape=(2,), name='ge_' + how)
            cl.clear_variable_indices()
            con = cl.weighted_sum_exp(np.array([1.0, 2.0]), e_old) <= 4
            try:
                if how == 'variables':
                    con.variables()
                elif how == 'find_variables':
                    from sageopt.coniclifts.compilers import find_variables_from_constraints
                    find_variables_from_constraints([con, e_old >= -1])
                else:
                    from sageopt.symbolic.signomials import SigDomain
                    try:
                        SigDomain(2, coniclifts_cons=[con, e_old >= -1])
                        return ('SigDomain(coniclifts_cons=...) accepted a nonlinear constraint over a Variable of an earlier generation (its epigraph '
                                'Variables belong to the current generation)')
                    except RuntimeError:
                        pass
                pr = cl.Problem(cl.MAX, e_old[0], [con, e_old >= -1])
                return ('a nonlinear constraint over a Variable of an earlier generation was compiled (A is %s) after %s had been asked for its Variables '
                        'before the first compilation; without that call the model is rejected' % (pr.A.shape, how))
            except RuntimeError:
                pass
        # ... and wherever in a nonlinear atom the older Variable sits: only in the FIRST argument of relent, only in the first / a middle component of a norm
        for where in ('relent_first', 'relent_second', 'norm_first', 'norm_middle'):
            cl.clear_variable_indices()
            y_old = cl.Variable(shape=(2,), name='gy_' + where)
            cl.clear_variable_indices()
            x_new = cl.Variable(shape=(2,), name='gx_' + where)
            t_new = cl.Variable(shape=(1,), name='gt_' + where)
            if where == 'relent_first':
                cons_w = [cl.relent(y_old, x_new) <= t_new, x_new <= np.array([1.0, 2.0]), x_new >= 0.5]
            elif where == 'relent_second':
                cons_w = [cl.relent(x_new, y_old) <= t_new, x_new <= np.array([1.0, 2.0]), x_new >= 0.5]
            elif where == 'norm_first':
                cons_w = [cl.vector2norm(cl.hstack((y_old[0], x_new[0], x_new[1]))) <= t_new, x_new >= 1]
            else:
                cons_w = [cl.vector2norm(cl.hstack((x_new[0], y_old[1], x_new[1]))) <= t_new, x_new >= 1]
            try:
                pr = cl.Problem(cl.MIN, t_new[0], cons_w)
                return ('a Problem in which a Variable of an earlier generation occurs only in one argument of a nonlinear atom (%s) was built (A is %s) instead of '
                        'rejected' % (where, pr.A.shape))
            except RuntimeError:
                pass
        b = cl.Variable(shape=(2,), name='gb_current')
        # same generation after the clear: fine
        c2 = cl.Variable(shape=(2,), name='gc')
        st = cl.Problem(cl.MIN, b[0] + c2[1], [b >= 1, c2 >= 2]).solve(verbose=False)
        if st[0] != 'solved' or abs(st[1] - 3) > 1e-6:
            return 'a single-generation model built after clear_variable_indices solves to %r' % (st,)
    return None


def oracle_id_coincidence(rng):
    """ScalarVariable indices and the ids of each class of nonlinear atoms come from separate counters, so whether a Variable component and an
    atom carry the same number depends on what was created earlier in the session.  The meaning of a model must not depend on that: build the
    coincidence on purpose (as it occurs in a fresh session) and compare with the same model built without it."""
    import sageopt.coniclifts as cl
    from sageopt.coniclifts.operators.exp import Exponential
    from sageopt.coniclifts.operators.abs import Abs, abs as clabs
    with warnings.catch_warnings():
        warnings.simplefilter('ignore')
        for kind in ('exp', 'abs'):
            for coincide in (True, False):
                cl.clear_variable_indices()
                nxt = Exponential._EXPONENTIAL_COUNTER_ if kind == 'exp' else Abs._ABS_COUNTER_
                x = cl.Variable(shape=(nxt + 3,), name='idc_%s_%d' % (kind, coincide))
                j = nxt if coincide else nxt + 1          # x[j] carries the number the next atom of that class will get
                atom_expr = cl.weighted_sum_exp(np.array([1.0]), x[:1]) if kind == 'exp' else clabs(x[:1])
                atom = [a for a in atom_expr.ravel()[0].atoms_to_coeffs if not isinstance(a, type(list(x[0].atoms_to_coeffs)[0]))]
                if coincide and (not atom or atom[0].id != list(x[j].atoms_to_coeffs)[0].id):
                    return None if not atom else 'harness: could not build the id coincidence (%r vs %r)' % (atom[0].id, list(x[j].atoms_to_coeffs)[0].id)
                E = cl.hstack((atom_expr, x[j]))
                M = np.array([[1.0, 2.0], [3.0, -1.0]])
                val = np.zeros(nxt + 3)
                val[0], val[j] = 0.5, -1.5
                x.value = val
                a0 = math.exp(0.5) if kind == 'exp' else 0.5
                for name, got, want in (('M @ E', M @ E, M @ np.array([a0, -1.5])), ('E @ M', E @ M, np.array([a0, -1.5]) @ M)):
                    gv = np.asarray(got.value, dtype=float)
                    natoms = [len(se.atoms_to_coeffs) for se in got.ravel()]
                    if not np.allclose(gv, want) or natoms != [2, 2]:
                        return ('%s with E = (%s(x0), x[%d]) where the atom and x[%d] %s: value %s with %s atoms per cell; expected %s with 2 atoms per cell'
                                % (name, kind, j, j, 'carry the same number %d' % nxt if coincide else 'carry different numbers', gv.tolist(), natoms, want.tolist()))
                # the same through a solve: max x_j s.t. [1, 2] @ (atom(x0), x_j) <= 3, x0 >= 0 (exp) or x0 >= 1 (abs): x_j = 1
                cons = [np.array([1.0, 2.0]) @ E <= 3, x[0] >= (0 if kind == 'exp' else 1), x[0] <= 5]
                st, v = cl.Problem(cl.MAX, x[j], cons).solve(verbose=False)
                if st != 'solved' or abs(v - 1.0) > 1e-5:
                    return ('max x[%d] s.t. [1, 2] @ (%s(x0), x[%d]) <= 3 reports (%s, %r); the optimum is 1 (the atom and x[%d] %s)'
                            % (j, kind, j, st, v, j, 'carry the same number' if coincide else 'carry different numbers'))
    return None


def oracle_pickled_objects(rng):
    """constraint and Variable objects restored from a pickle (in either order in the pickled tuple, with constraints stated on slices of the
    Variable, affine and nonlinear) build the same model as a fresh copy, before and after the originals were compiled.  (A pickle of the constraints
    WITHOUT their Variable is outside the property: it speaks of the restored constraint AND Variable objects.)"""
    import pickle
    import sageopt.coniclifts as cl
    from sageopt.coniclifts.operators.abs import abs as clabs

    def build(tag):
        x = cl.Variable(shape=(3,), name='pk_x' + tag)
        cons = [x[1:] >= 1, cl.Expression([x[0] + x[1] + x[2]]) <= 10, x[0] >= x[1] + 2 * x[2], clabs(x[:2] - np.array([4.0, 0.0])) <= np.array([3.5, 5.0])]
        return x, cons
    with warnings.catch_warnings():
        warnings.simplefilter('ignore')
        xf, cf = build('f')
        pf = cl.Problem(cl.MIN, xf[0], cf)
        pf.solve(verbose=False)
        fresh = (signature(pf.K), pf.A.shape, pf.status, round(float(pf.value), 5))
        for order in ('variable_first', 'constraints_first'):
            for compiled_before in (False, True):
                x, cons = build(order[:1])
                if compiled_before:
                    cl.Problem(cl.MIN, x[0], cons).solve(verbose=False)
                try:
                    if order == 'variable_first':
                        x2, cons2 = pickle.loads(pickle.dumps((x, cons)))
                    else:
                        cons2, x2 = pickle.loads(pickle.dumps((cons, x)))
                    got = []
                    for _ in range(2):
                        p2 = cl.Problem(cl.MIN, x2[0], cons2)
                        p2.solve(verbose=False)
                        got.append((signature(p2.K), p2.A.shape, p2.status, round(float(p2.value), 5)))
                except Exception as e:
                    return ('x = Variable(3), constraints [x[1:] >= 1, sum(x) <= 10, x0 >= x1 + 2 x2, |x[:2] - (4, 0)| <= (3.5, 5)]%s; pickled and loaded as %s; '
                            'building a Problem from the restored objects raised %s: %s'
                            % (' (compiled and solved once)' if compiled_before else '', order, type(e).__name__, ' '.join(str(e).split())[:160]))
                for g in got:
                    if g != fresh:
                        return ('x = Variable(3), constraints [x[1:] >= 1, sum(x) <= 10, x0 >= x1 + 2 x2, |x[:2] - (4, 0)| <= (3.5, 5)]%s; pickled and loaded as %s; '
                                'the Problem built from the restored objects has (K, A.shape, status, value) = %s, a fresh copy %s'
                                % (' (compiled and solved once)' if compiled_before else '', order, g, fresh))
    return None


def run(ctx):
    cases = []
    for _ in range(ctx.n(120, 1200)):
        case, failure, meta = run_history(ctx.rng)
        for s in meta['steps']:
            ctx.count('step', s)
        ctx.count('recompiled_nonlinear', meta['recompiled_nl'])
        if meta['recompiled_nl']:
            ctx.nontrivial.add(vlib.sha(meta['steps'] + [str(case[1])[:200] if case else '']))
        if failure:
            ctx.problem('oracle', 'property fails on the implementation: ' + failure, inputs={'history': meta['steps']}, failing_input_found=True)
            break
        if case:
            cases.append(case)
    ctx.evaluations += len(cases)
    T_in = 'list (atom * Z) * list Z * list (bool * list sexpr)'
    T_out = 'list (list (list cone * list rrow))'
    mism, err = vlib.run_suite_in_coq(ctx.pid, 'recompile', HEADER, 'model', 'out_eqb', T_in, T_out, [(c[1], c[2]) for c in cases], shard=60)
    ctx.suites['recompile'] = {'cases': len(cases), 'mismatches': None if mism is None else len(mism)}
    if err:
        ctx.problem('correspondence', 'suite recompile: ' + err)
    else:
        if cases:
            ctx.samples.append({'suite': 'recompile', 'history': cases[len(cases) // 2][0]})
        for idx in mism[:3]:
            model_out = vlib.coq_show(HEADER, 'model %s' % cases[idx][1])
            ctx.problem('correspondence', 'suite recompile: model and implementation disagree on history %s; input=%s impl=%s model=%s'
                        % (cases[idx][0], cases[idx][1][:1200], cases[idx][2][:2000], model_out[:2000]), inputs={'history': cases[idx][0]},
                        failing_input_found=False)
    nsub = 0
    for _ in range(ctx.n(60, 600)):
        why, meta = subset_history(ctx.rng)
        nsub += 1
        ctx.evaluations += 1
        ctx.count('subset_history_equal_atoms', bool(meta.get('equal_atoms')))
        if meta.get('equal_atoms'):
            ctx.nontrivial.add(vlib.sha(['subset', meta['spec'], meta['subsets']]))
        if why:
            ctx.problem('oracle', 'property fails on the implementation: ' + why, inputs=meta, failing_input_found=True)
            break
    ctx.suites['subset_histories'] = {'cases': nsub}
    for name, f in (('resolve', oracle_resolve), ('separately_then_together', oracle_separately_then_together), ('settings_snapshot', oracle_settings), ('generations', oracle_generations), ('id_coincidence', oracle_id_coincidence), ('pickled_objects', oracle_pickled_objects)):
        why = f(ctx.rng)
        ctx.suites[name] = {'cases': 1, 'failure': why}
        ctx.evaluations += 1
        if why:
            ctx.problem('oracle', '%s: %s' % (name, why), inputs={'suite': name}, failing_input_found=True)


def search(ctx):
    for _ in range(150):
        case, failure, meta = run_history(ctx.rng)
        if failure:
            return {'history': meta['steps'], 'property_failure': failure}
    for _ in range(150):
        why, meta = subset_history(ctx.rng)
        if why:
            return dict(meta, property_failure=why)
    for name, f in (('resolve', oracle_resolve), ('separately_then_together', oracle_separately_then_together), ('settings_snapshot', oracle_settings), ('generations', oracle_generations), ('id_coincidence', oracle_id_coincidence), ('pickled_objects', oracle_pickled_objects)):
        why = f(ctx.rng)
        if why:
            return {'suite': name, 'property_failure': why}
    return None


def replay(payload):
    ctx = vlib.Ctx('C11', 'quick', int(payload.get('seed', 0)))
    found = search(ctx)
    print(found or 'property holds on the regenerated histories')
    return 1 if found else 0
