"""C12 — Signomial and Polynomial arithmetic is pointwise arithmetic.
Tie: Model/Signomial.v + Model/SigExpr.v (interpreter of expression trees) vs the implementation on random trees.
Oracle: exact rational pointwise evaluation of the tree vs of the result object (y_i = t_i^2 so that half-integer
powers stay rational), structural checks (unique rows, no explicit zeros, alpha/c/alpha_c agree, == symmetric)."""
import itertools
from fractions import Fraction

import numpy as np

from harness import vlib
from harness.vlib import Nat, cq, Raw

RULE = ('case = random expression tree (depth<=4) over monomials/literals with +,-,*,/,**,neg, scalar operands, without_zeros, '
        'for Signomial (half-integer exponents) and Polynomial; non-trivial = tree with >=2 binary operations whose result has '
        '>=2 terms or raises; distinct by tree hash.  Second suite: == on pairs of results (both directions).')
TRUSTED = ['correspondence harness harness/props/c12.py (tree generator, Fraction canonicalisation; exponents mapped to the 1e-7 grid)',
           'numpy float arithmetic is exact on the generated domain (small integers, dyadic scalars, half-integer exponents)',
           'np.unique lexicographic row order; CPython dict ordering']
ASSUMPTIONS = ['Model/Signomial.v is hand written; tied by correspondence only',
               'float(v)**p for one-term powers is modelled exactly (inputs restricted to v = +-2^k)',
               '1e-8 coefficient tolerance of == modelled as the rational 10^-8']
HEADER = ('From Coq Require Import List Bool Arith ZArith QArith.\n'
          'From SageVerif Require Import Model.Signomial Model.SigExpr Base.Corr.')
GRID = 10 ** 7
USES_TRANSLATOR = True


def sigmod():
    from sageopt.symbolic.signomials import Signomial, standard_sig_monomials
    from sageopt.symbolic.polynomials import Polynomial, standard_poly_monomials
    return Signomial, standard_sig_monomials, Polynomial, standard_poly_monomials


def canon(f):
    """(alpha rows on the grid, c) in implementation order"""
    rows = []
    for r, c in zip(np.asarray(f.alpha, dtype=float).tolist(), np.asarray(f.c, dtype=float).tolist()):
        rows.append(([Fraction(int(round(a * GRID)), GRID) for a in r], Fraction(c)))
    return rows


def Q(x):
    return Fraction(x)


# ---------------------------------------------------------------- tree generation
SCALARS = [Fraction(1), Fraction(-1), Fraction(2), Fraction(-2), Fraction(1, 2), Fraction(3), Fraction(0), Fraction(-1, 2), Fraction(4)]
DIVS = [Fraction(1), Fraction(-1), Fraction(2), Fraction(-2), Fraction(1, 2), Fraction(4), Fraction(-4)]


def gen_lit(rng, n, poly, small=False):
    m = rng.randint(1, 2 if small else 4)
    rows = []
    for _ in range(m):
        if poly:
            a = [Fraction(rng.choice([0, 0, 1, 1, 2, 3])) for _ in range(n)]
        else:
            a = [Fraction(rng.choice([0, 0, 1, -1, 2, 1, 3, -3]), rng.choice([1, 1, 2])) for _ in range(n)]
        c = Fraction(rng.choice([1, -1, 2, -2, 3, 0, 4, -4, 1, 5]), rng.choice([1, 1, 1, 2]))
        rows.append((a, c))
    if rng.random() < 0.3 and rows:
        rows.append((list(rows[0][0]), Fraction(rng.choice([1, -1, 2, -rows[0][1]]))))   # repeated row (may cancel)
    return rows


def gen_tree(rng, n, poly, depth):
    r = rng.random()
    if depth == 0 or r < 0.25:
        if rng.random() < 0.5:
            return ('mono', rng.randrange(n))
        return ('lit', gen_lit(rng, n, poly))
    op = rng.choice(['add', 'add', 'sub', 'sub', 'mul', 'mul', 'neg', 'addq', 'raddq', 'subq', 'rsubq', 'mulq', 'divq',
                     'pow', 'pow', 'div', 'rdivq', 'wz', 'cancel'])
    if op in ('add', 'sub', 'mul'):
        if rng.random() < 0.2:
            # the same monomial basis in another row order with other coefficients (no alignment shortcut may apply)
            rows = []
            for a, _ in gen_lit(rng, n, poly):
                if a not in [r for r, _ in rows]:
                    rows.append((a, Fraction(rng.choice([1, -1, 2, 3, 5, 7]))))
            perm = list(rows)
            rng.shuffle(perm)
            other = [(a, Fraction(rng.choice([1, -2, 3, 4, 11]))) for a, _ in perm]
            return (op, ('lit', rows), ('lit', other))
        return (op, gen_tree(rng, n, poly, depth - 1), gen_tree(rng, n, poly, depth - 1))
    if op == 'cancel':   # a - a, a*0 style cancellations to the zero function
        a = gen_tree(rng, n, poly, depth - 1)
        return rng.choice([('sub', a, a), ('mulq', a, Fraction(0)), ('add', a, ('neg', a))])
    if op == 'div':
        den = ('lit', [([Fraction(rng.choice([0, 1, -1, 1]), rng.choice([1, 2])) if not poly else Fraction(rng.choice([0, 1]))
                         for _ in range(n)], Fraction(rng.choice([1, 2, -2, 4, -1, 1]), rng.choice([1, 2])))])
        if rng.random() < 0.2:
            den = gen_tree(rng, n, poly, depth - 1)
        return ('div', gen_tree(rng, n, poly, depth - 1), den)
    if op == 'neg' or op == 'wz':
        return (op, gen_tree(rng, n, poly, depth - 1))
    if op in ('addq', 'raddq', 'subq', 'rsubq', 'mulq'):
        return (op, gen_tree(rng, n, poly, depth - 1), rng.choice(SCALARS))
    if op == 'divq':
        return (op, gen_tree(rng, n, poly, depth - 1), rng.choice(DIVS))
    if op == 'rdivq':
        den = ('lit', [([Fraction(rng.choice([0, 1, -1, 2])) for _ in range(n)], Fraction(rng.choice([1, 2, -2, 4, -1])))])
        if rng.random() < 0.2:
            den = gen_tree(rng, n, poly, depth - 1)
        return (op, den, rng.choice(SCALARS))
    if op == 'pow':
        p = rng.choice([0, 1, 2, 2, 3, -1, -2])
        if p < 0:
            base = ('lit', [([Fraction(rng.choice([0, 1, -1, 2]), rng.choice([1, 2])) if not poly else Fraction(rng.choice([0, 1, 2]))
                              for _ in range(n)], Fraction(rng.choice([1, 2, -2, 4, -1]), rng.choice([1, 2])))])
            if rng.random() < 0.25:
                base = gen_tree(rng, n, poly, max(depth - 2, 0))
        elif rng.random() < 0.25:
            # larger natural powers (5 = 101b, 6 = 110b, 9 = 1001b, ...) of a one- or two-term function
            p = rng.choice([4, 5, 6, 7, 9])
            base = ('lit', gen_lit(rng, n, poly, small=True)[:(1 if p == 9 else 2)])
        else:
            base = gen_tree(rng, n, poly, max(depth - 2, 0))
        return ('pow', base, p)
    raise ValueError(op)


def tree_coq(t):
    k = t[0]
    if k == 'mono':
        return '(SMono %d%%nat)' % t[1]
    if k == 'lit':
        return '(SLit %s)' % cq([(a, c) for a, c in t[1]])
    if k in ('add', 'sub', 'mul', 'div'):
        return '(%s %s %s)' % ({'add': 'SAdd', 'sub': 'SSub', 'mul': 'SMul', 'div': 'SDiv'}[k], tree_coq(t[1]), tree_coq(t[2]))
    if k == 'neg':
        return '(SNeg %s)' % tree_coq(t[1])
    if k == 'wz':
        return '(SWithoutZeros %s)' % tree_coq(t[1])
    if k in ('addq', 'subq', 'mulq', 'divq'):
        return '(%s %s %s)' % ({'addq': 'SAddQ', 'subq': 'SSubQ', 'mulq': 'SMulQ', 'divq': 'SDivQ'}[k], tree_coq(t[1]), cq(t[2]))
    if k in ('raddq', 'rsubq', 'rdivq'):
        return '(%s %s %s)' % ({'raddq': 'SRAddQ', 'rsubq': 'SRSubQ', 'rdivq': 'SRDivQ'}[k], cq(t[2]), tree_coq(t[1]))
    if k == 'pow':
        return '(SPow %s %s)' % (tree_coq(t[1]), cq(t[2]))
    raise ValueError(k)


def tree_json(t):
    if t[0] == 'lit':
        return ['lit', [[[str(a) for a in r], str(c)] for r, c in t[1]]]
    return [t[0]] + [tree_json(x) if isinstance(x, tuple) else (str(x) if isinstance(x, Fraction) else x) for x in t[1:]]


def tree_from_json(j):
    if j[0] == 'lit':
        return ('lit', [([Fraction(a) for a in r], Fraction(c)) for r, c in j[1]])
    out = [j[0]]
    for x in j[1:]:
        if isinstance(x, list):
            out.append(tree_from_json(x))
        elif isinstance(x, str):
            out.append(Fraction(x))
        else:
            out.append(x)
    return tuple(out)


class TooBig(Exception):
    pass


def impl_eval(t, n, poly):
    Signomial, ssm, Polynomial, spm = sigmod()
    k = t[0]
    if k == 'mono':
        return (spm(n) if poly else ssm(n))[t[1]]
    if k == 'lit':
        alpha = np.array([[float(a) for a in r] for r, _ in t[1]]).reshape(len(t[1]), n)
        c = np.array([float(c) for _, c in t[1]])
        if np.all(alpha == np.round(alpha)) and (hash(str(t)) % 3 == 0):
            alpha = alpha.astype(int)       # exponents handed over as an integer array (with whatever repeated rows it has)
        return (Polynomial if poly else Signomial)(alpha, c)
    if k in ('add', 'sub', 'mul', 'div'):
        a, b = impl_eval(t[1], n, poly), impl_eval(t[2], n, poly)
        if a.m * b.m > 400:
            raise TooBig()
        return {'add': lambda: a + b, 'sub': lambda: a - b, 'mul': lambda: a * b, 'div': lambda: a / b}[k]()
    if k == 'neg':
        return -impl_eval(t[1], n, poly)
    if k == 'wz':
        return impl_eval(t[1], n, poly).without_zeros()
    a = impl_eval(t[1], n, poly)
    if k == 'pow':
        if a.m ** max(t[2], 1) > 400:
            raise TooBig()
        return a ** t[2]
    q = float(t[2])
    if t[2].denominator == 1 and abs(t[2]) < 10 and (hash(str(t)) % 2 == 0):
        q = int(t[2])      # exercise python ints as well as floats
    return {'addq': lambda: a + q, 'raddq': lambda: q + a, 'subq': lambda: a - q, 'rsubq': lambda: q - a,
            'mulq': lambda: (a * q if hash(str(t)) % 3 else q * a), 'divq': lambda: a / q, 'rdivq': lambda: q / a}[k]()


# ---------------------------------------------------------------- exact pointwise semantics (the property statement)
class Undefined(Exception):
    pass


def tree_value(t, tpt, poly):
    """exact value of the expression at the point; for signomials y_i = t_i^2 (t_i > 0 rational)."""
    k = t[0]
    if k == 'mono':
        return tpt[t[1]] if poly else tpt[t[1]] ** 2
    if k == 'lit':
        return sum(c * mono_val(a, tpt, poly) for a, c in t[1])
    if k in ('add', 'sub', 'mul', 'div'):
        a, b = tree_value(t[1], tpt, poly), tree_value(t[2], tpt, poly)
        if k == 'div':
            if b == 0:
                raise Undefined()
            return a / b
        return {'add': a + b, 'sub': a - b, 'mul': a * b}[k]
    if k == 'neg':
        return -tree_value(t[1], tpt, poly)
    if k == 'wz':
        return tree_value(t[1], tpt, poly)
    a = tree_value(t[1], tpt, poly)
    if k == 'pow':
        if t[2] < 0 and a == 0:
            raise Undefined()
        return a ** t[2]
    q = t[2]
    if k in ('divq',) and q == 0:
        raise Undefined()
    if k == 'rdivq' and a == 0:
        raise Undefined()
    return {'addq': a + q, 'raddq': q + a, 'subq': a - q, 'rsubq': q - a, 'mulq': a * q,
            'divq': (a / q if q != 0 else None), 'rdivq': (q / a if a != 0 else None)}[k]


def mono_val(a, tpt, poly):
    v = Fraction(1)
    for ai, ti in zip(a, tpt):
        e = ai if poly else 2 * ai
        if e.denominator != 1:
            raise Undefined()
        if e < 0 and ti == 0:
            raise Undefined()
        v *= ti ** int(e)
    return v


def obj_value(rows, tpt, poly):
    return sum(c * mono_val(a, tpt, poly) for a, c in rows)


def oracle_tree(t, n, poly, rng=None):
    """property statement on the implementation for one tree; None if it holds"""
    import random
    rng = rng or random.Random(1)
    try:
        f = impl_eval(t, n, poly)
    except TooBig:
        return None
    except Exception:
        return None    # raising is allowed for invalid operations; wrong answers are not
    rows = canon(f)
    keys = [tuple(a) for a, _ in rows]
    if len(set(keys)) != len(keys):
        return 'result has repeated exponent rows'
    if t[0] in ('add', 'sub', 'mul', 'div', 'neg', 'addq', 'raddq', 'subq', 'rsubq', 'mulq', 'divq', 'rdivq') and len(rows) > 1 \
            and any(c == 0 for _, c in rows):
        return 'result of binary arithmetic keeps an explicitly-zero term'
    ac = f.alpha_c
    d = {}
    for a, c in zip(np.asarray(f.alpha, dtype=float).tolist(), np.asarray(f.c, dtype=float).tolist()):
        d[tuple(a)] = c
    if {k: float(v) for k, v in ac.items()} != d:
        return 'alpha_c differs from (alpha, c)'
    for _ in range(4):
        tpt = [Fraction(rng.randint(1, 5), rng.randint(1, 3)) * (1 if (not poly or rng.random() < 0.6) else -1) for _ in range(n)]
        try:
            want = tree_value(t, tpt, poly)
        except Undefined:
            continue
        except ZeroDivisionError:
            continue
        try:
            got = obj_value(rows, tpt, poly)
        except Undefined:
            continue
        if abs(got - want) > Fraction(1, 10 ** 9) * (1 + abs(want)):
            return 'at point %s the result evaluates to %s but the expression is %s' % ([str(v) for v in tpt], got, want)
    return None


def oracle_eq(t1, t2, n, poly):
    try:
        f, g = impl_eval(t1, n, poly), impl_eval(t2, n, poly)
    except Exception:
        return None
    a, b = (f == g), (g == f)
    if a != b:
        return '== is not symmetric: f==g is %s, g==f is %s' % (a, b)
    if not (f == f):
        return '== is not reflexive'
    rf, rg = canon(f), canon(g)
    df = {tuple(r): c for r, c in rf if abs(c) > Fraction(1, 10 ** 6)}
    dg = {tuple(r): c for r, c in rg if abs(c) > Fraction(1, 10 ** 6)}
    same = df == dg
    tiny = any(0 < abs(c) <= Fraction(1, 10 ** 6) for _, c in rf + rg)
    if not tiny and len(rf) == len(rg) and a != same and all(c != 0 for _, c in rf + rg):
        return '== returned %s but the functions %s' % (a, 'coincide' if same else 'differ')
    return None


def oracle_scaling():
    """small coefficients are coefficients: nothing below a threshold is dropped by the arithmetic (all values exact in floating point)"""
    import sageopt as so
    t = 2.0 ** -30
    y = so.standard_sig_monomials(2)
    x = so.standard_poly_monomials(2)
    checks = [('y0 + y1/2^30', y[0] + y[1] * t, [([1, 0], 1.0), ([0, 1], t)]),
              ('(x0*x1 + 7)/2^30', (x[0] * x[1] + 7) / 2.0 ** 30, [([1, 1], t), ([0, 0], 7 * t)]),
              ('(y0 - y1) * 2^-30', (y[0] - y[1]) * t, [([1, 0], t), ([0, 1], -t)]),
              ('2^-30*x0^2 - 2^-30*x0^2 + 2^-30*x1', t * x[0] ** 2 - t * x[0] ** 2 + t * x[1], [([0, 1], t)])]
    for name, f, want in checks:
        got = {tuple(int(v) for v in a): float(c) for a, c in zip(np.asarray(f.alpha).tolist(), np.asarray(f.c, dtype=float).tolist()) if float(c) != 0}
        exp = {tuple(a): c for a, c in want}
        if got != exp:
            return '%s has terms %s, expected %s (coefficients of size 2^-30 are coefficients, not zeros)' % (name, got, exp)
    return None


def run(ctx):
    why = oracle_scaling()
    ctx.evaluations += 4
    ctx.suites['scaling'] = {'cases': 4, 'failure': why}
    if why:
        ctx.problem('oracle', 'property fails on the implementation: ' + why, inputs={'suite': 'scaling'}, failing_input_found=True)
    cases, eqcases = [], []
    ntrees = ctx.n(1200, 12000)
    kept = []
    for _ in range(ntrees):
        n = ctx.rng.randint(1, 3)
        poly = ctx.rng.random() < 0.45
        t = gen_tree(ctx.rng, n, poly, ctx.rng.randint(1, 4))
        try:
            f = impl_eval(t, n, poly)
            out = vlib.Some(canon(f))
            ctx.count('result', 'ok')
            ctx.count('terms', min(len(out.v), 9))
            if len(out.v) > 60:
                continue
            if any(c.denominator > 2 ** 20 for _, c in out.v):
                ctx.count('result', 'skipped_inexact_float')
                continue
        except TooBig:
            continue
        except (ValueError, RuntimeError) as e:
            out = None
            ctx.count('result', type(e).__name__)
        except Exception as e:
            out = None
            ctx.count('result', 'other:' + type(e).__name__)
        nbin = str(t).count("'add'") + str(t).count("'sub'") + str(t).count("'mul'") + str(t).count("'div'")
        if nbin >= 2 and (out is None or len(out.v) >= 2):
            ctx.nontrivial.add(vlib.sha(tree_json(t)))
        ctx.count('class', 'poly' if poly else 'sig')
        cases.append(({'tree': tree_json(t), 'n': n, 'poly': poly}, cq((poly, Nat(n), Raw(tree_coq(t)))), cq(out), (t, n, poly)))
        if out is not None:
            kept.append((t, n, poly))
    ctx.evaluations += len(cases)
    mism, err = vlib.run_suite_in_coq(ctx.pid, 'trees', HEADER, "fun x => let '(p, n, e) := x in eval p n e", 'sig_out_eqb',
                                      'bool * nat * sexp', 'option qsig', [(c[1], c[2]) for c in cases], shard=150)
    ctx.suites['trees'] = {'cases': len(cases), 'mismatches': None if mism is None else len(mism)}
    if err:
        ctx.problem('correspondence', 'suite trees: ' + err)
    else:
        ctx.samples.append({'suite': 'trees', 'input': cases[len(cases) // 2][0], 'impl': cases[len(cases) // 2][2][:300]})
        for idx in mism[:3]:
            t, n, poly = cases[idx][3]
            why = oracle_tree(t, n, poly)
            model_out = vlib.coq_show(HEADER, "(fun x => let '(p, n, e) := x in eval p n e) %s" % cases[idx][1])
            ctx.problem('correspondence', 'suite trees: model and implementation disagree on %s; impl=%s model=%s; oracle: %s'
                        % (cases[idx][0], cases[idx][2][:500], model_out[:500], why or 'pointwise semantics hold on this input'),
                        inputs={'suite': 'trees', 'input': cases[idx][0], 'property_failure': why}, failing_input_found=bool(why))
    # equality suite: pairs of results, plus perturbed copies
    pairs = []
    byk = {}
    for t, n, poly in kept:
        byk.setdefault((n, poly), []).append(t)
    for (n, poly), ts in byk.items():
        for _ in range(min(len(ts), ctx.n(60, 600))):
            a = ctx.rng.choice(ts)
            b = ctx.rng.choice([a, ctx.rng.choice(ts), ('addq', a, Fraction(0)), ('mulq', a, Fraction(1)), ('add', a, ('lit', [([Fraction(0)] * n, Fraction(ctx.rng.choice([0, 1, 5])))]))])
            pairs.append((a, b, n, poly))
        # large coefficients that differ by one unit: the tolerance of == is absolute (1e-8), not relative
        rows = [[Fraction(ctx.rng.choice([0, 1, 2])) for _ in range(n)] for _ in range(2)]
        if rows[0] != rows[1]:
            big = Fraction(ctx.rng.choice([2 ** 17, 3 * 2 ** 18, 10 ** 6]))
            a = ('lit', [(rows[0], big), (rows[1], Fraction(3))])
            for d in (Fraction(1), Fraction(1, 2), Fraction(0)):
                pairs.append((a, ('lit', [(rows[0], big + d), (rows[1], Fraction(3))]), n, poly))
    for a, b, n, poly in pairs:
        try:
            f, g = impl_eval(a, n, poly), impl_eval(b, n, poly)
            r1, r2 = bool(f == g), bool(g == f)
        except Exception:
            continue
        ctx.count('eq', '%s/%s' % (r1, r2))
        if r1 != r2:
            ctx.problem('oracle', '== is not symmetric on a pair of results', inputs={'suite': 'eq', 'a': tree_json(a), 'b': tree_json(b), 'n': n, 'poly': poly},
                        failing_input_found=True)
            break
        eqcases.append(({'a': tree_json(a), 'b': tree_json(b), 'n': n, 'poly': poly},
                        cq((poly, Nat(n), Raw(tree_coq(a)), Raw(tree_coq(b)))), cq((r1, r2)), (a, b, n, poly)))
    ctx.evaluations += len(eqcases)
    mism, err = vlib.run_suite_in_coq(ctx.pid, 'eq', HEADER,
                                      "fun x => let '(p, n, a, b) := x in match eval p n a, eval p n b with "
                                      "Some f, Some g => (q_eqb f g, q_eqb g f) | _, _ => (false, false) end",
                                      'pair_eqb Bool.eqb Bool.eqb', 'bool * nat * sexp * sexp', 'bool * bool',
                                      [(c[1], c[2]) for c in eqcases], shard=150)
    ctx.suites['eq'] = {'cases': len(eqcases), 'mismatches': None if mism is None else len(mism)}
    if err:
        ctx.problem('correspondence', 'suite eq: ' + err)
    else:
        for idx in mism[:3]:
            a, b, n, poly = eqcases[idx][3]
            why = oracle_eq(a, b, n, poly)
            ctx.problem('correspondence', 'suite eq: model and implementation disagree on %s (impl %s); oracle: %s'
                        % (eqcases[idx][0], eqcases[idx][2], why), inputs={'suite': 'eq', 'input': eqcases[idx][0], 'property_failure': why},
                        failing_input_found=bool(why))
    # the same pairs through Signomial.__eq__ GENERATED from signomials.py (Gen/GenSigEq.v)
    gh = HEADER.replace('Model.SigExpr Base.Corr.', 'Model.SigExpr Gen.GenSigEq Base.Corr.')
    mism, err = vlib.run_suite_in_coq(ctx.pid, 'eq_generated', gh,
                                      "fun x => let '(p, n, a, b) := x in match eval p n a, eval p n b with "
                                      "Some f, Some g => (gen_sig_eq f g, gen_sig_eq g f) | _, _ => (false, false) end",
                                      'pair_eqb Bool.eqb Bool.eqb', 'bool * nat * sexp * sexp', 'bool * bool',
                                      [(c[1], c[2]) for c in eqcases], shard=150)
    ctx.suites['eq_generated'] = {'cases': len(eqcases), 'mismatches': None if mism is None else len(mism)}
    if err:
        ctx.problem('correspondence', 'suite eq_generated: ' + err)
    else:
        for idx in mism[:2]:
            ctx.problem('correspondence', 'suite eq_generated: the __eq__ generated from signomials.py and the implementation disagree on %s (impl %s)'
                        % (eqcases[idx][0], eqcases[idx][2]), inputs={'suite': 'eq', 'input': eqcases[idx][0]}, failing_input_found=False)
    why, inp = oracle_operands(ctx.rng, kept, ctx.n(80, 800))
    ctx.suites['operands_unchanged'] = {'cases': min(len(kept), ctx.n(80, 800)), 'failure': why}
    ctx.evaluations += min(len(kept), ctx.n(80, 800))
    if why:
        ctx.problem('oracle', 'property fails on the implementation: ' + why, inputs=dict(inp, suite='operands_unchanged'), failing_input_found=True)
    why = oracle_fractional_poly()
    ctx.suites['fractional_polynomial_powers'] = {'cases': 7, 'failure': why}
    ctx.evaluations += 7
    if why:
        ctx.problem('oracle', 'property fails on the implementation: ' + why, inputs={'suite': 'fractional_polynomial_powers'}, failing_input_found=True)
    # replay of the repaired defect F4
    why = probe_eq_sym()
    if why:
        ctx.problem('oracle', why, inputs={'suite': 'eq_sym_probe'}, failing_input_found=True)
    why = probe_cross_class_eq()
    ctx.suites['cross_class_equality'] = {'cases': 1, 'failure': why}
    ctx.evaluations += 1
    if why:
        ctx.problem('oracle', 'property fails on the implementation: ' + why, inputs={'suite': 'cross_class_eq'}, failing_input_found=True)
    why = probe_from_dict()
    ctx.suites['from_dict_history'] = {'cases': 4, 'failure': why}
    ctx.evaluations += 4
    if why:
        ctx.problem('oracle', 'property fails on the implementation: ' + why, inputs={'suite': 'from_dict_probe'}, failing_input_found=True)


def oracle_operands(rng, kept, limit):
    """arithmetic never changes its operands: after f (+,-,*) g, g (+,-) f and the accumulating forms, f and g denote the same functions
    as before (rows, coefficients and the coefficient lookup table), and (f + g) - f is g.  The right operand is drawn so that it often
    introduces no new monomial and the left one carries float64 coefficients produced by earlier arithmetic."""
    Signomial, ssm, Polynomial, spm = sigmod()
    done = 0
    for t, n, poly in kept:
        if done >= limit:
            break
        try:
            f = impl_eval(t, n, poly)
        except Exception:
            continue
        if f.m < 2 or f.m > 30:
            continue
        done += 1
        cls = Polynomial if poly else Signomial
        pick = [i for i in range(f.m) if rng.random() < 0.6] or [0]
        g = cls(np.asarray(f.alpha)[pick, :].copy(), np.array([float(rng.choice([1, -2, 3, 0.5])) for _ in pick]))
        variants = [('f as computed', f), ('f / 1.0 + 0.0', f / 1.0 + 0.0)]
        for label, ff in variants:
            snap_f, snap_g = canon(ff), canon(g)
            tab_f = sorted((tuple(k), float(v)) for k, v in ff.alpha_c.items())
            try:
                s1 = ff + g
                d1 = s1 - ff
                _ = ff - g
                _ = g + ff
                _ = ff * g
                _ = cls.sum([ff, g, g]) if hasattr(cls, 'sum') else None
            except Exception as e:
                return 'arithmetic on results raised %r (tree %s)' % (e, tree_json(t)), {'tree': tree_json(t), 'n': n, 'poly': poly}
            if canon(ff) != snap_f or canon(g) != snap_g:
                return ('an operand was changed by arithmetic (%s): rows/coefficients before %s, after %s' % (label, snap_f[:4], canon(ff)[:4]),
                        {'tree': tree_json(t), 'n': n, 'poly': poly, 'g_rows': pick})
            if sorted((tuple(k), float(v)) for k, v in ff.alpha_c.items()) != tab_f:
                return 'the coefficient table of an operand changed after arithmetic (%s)' % label, {'tree': tree_json(t), 'n': n, 'poly': poly}
            want = sorted((tuple(r), c) for r, c in canon(g.without_zeros()) if c != 0)
            got = sorted((tuple(r), c) for r, c in canon(d1.without_zeros()) if c != 0)
            if got != want:
                return '(f + g) - f differs from g (%s): %s vs %s' % (label, got[:4], want[:4]), {'tree': tree_json(t), 'n': n, 'poly': poly, 'g_rows': pick}
    return None, None


def oracle_fractional_poly():
    """a Polynomial has integer exponents: operations whose exact result is not a polynomial raise instead of returning another function"""
    Signomial, ssm, Polynomial, spm = sigmod()
    x = spm(2)
    bad = [('(x0**3)**0.5', lambda: (x[0] ** 3) ** 0.5), ('x0**2.5', lambda: x[0] ** 2.5), ('(4*x0*x1**3)**0.5', lambda: (4 * x[0] * x[1] ** 3) ** 0.5),
           ('Polynomial.from_dict({(0.5, 1): 2})', lambda: Polynomial.from_dict({(0.5, 1.0): 2.0})),
           ('Signomial({(1.5,0):1, (0,1):1}).as_polynomial()', lambda: Signomial.from_dict({(1.5, 0.0): 1.0, (0.0, 1.0): 1.0}).as_polynomial())]
    for name, fn in bad:
        try:
            r = fn()
        except (ValueError, RuntimeError, TypeError):
            continue
        except Exception as e:
            return '%s raised %r' % (name, e)
        return '%s returned the polynomial with exponents %s, coefficients %s although the exact result has a non-integer exponent' % (
            name, np.asarray(r.alpha).tolist(), np.asarray(r.c).tolist())
    good = [('(x0**2)**0.5', lambda: (x[0] ** 2) ** 0.5, [[1, 0]], [1.0]), ('(4*x0**2*x1**4)**0.5', lambda: (4 * x[0] ** 2 * x[1] ** 4) ** 0.5, [[1, 2]], [2.0])]
    for name, fn, ea, ec in good:
        try:
            r = fn()
        except Exception as e:
            return '%s raised %r' % (name, e)
        if np.asarray(r.alpha, dtype=float).tolist() != [[float(v) for v in ea[0]]] or np.asarray(r.c, dtype=float).tolist() != ec:
            return '%s gives exponents %s, coefficients %s' % (name, np.asarray(r.alpha).tolist(), np.asarray(r.c).tolist())
    return None


def probe_eq_sym():
    Signomial = sigmod()[0]
    a = Signomial(np.array([[0.], [1.]]), np.array([0., 1.]))
    b = Signomial(np.array([[2.], [1.]]), np.array([5., 1.]))
    if (a == b) != (b == a) or (a == b):
        return 'Signomial([[0],[1]],[0,1]) == Signomial([[2],[1]],[5,1]) gives %s / %s' % (a == b, b == a)
    return None


def probe_cross_class_eq():
    """a Polynomial and a Signomial with the same exponent matrix and coefficients are different functions (x^a against exp(a . x)): == is False in both
    directions, they are two elements of a set, and neither is `in` a list holding the other"""
    Signomial, ssm, Polynomial, spm = sigmod()
    alpha = np.array([[2, 1], [1, 0], [0, 0]])
    cvec = np.array([3.0, -2.0, 1.0])
    p, s_ = Polynomial(alpha, cvec), Signomial(alpha, cvec)
    pt = np.array([1.0, 2.0])
    if abs(float(p(pt)) - float(s_(pt))) < 1e-9:
        return None
    if (p == s_) or (s_ == p) or (s_ in [p]) or (p in [s_]):
        return ('Polynomial(alpha, c) == Signomial(alpha, c) is %s / %s (in a list: %s / %s) although p(1, 2) = %r and s(1, 2) = %r'
                % (p == s_, s_ == p, s_ in [p], p in [s_], float(p(pt)), float(s_(pt))))
    return None


def probe_from_dict():
    """construction from a dict: the Signomial/Polynomial is the function the dict described WHEN it was built (the caller goes on using the
    dict), and alpha, c and alpha_c describe the same function also when keys only coincide after rounding (repaired defect, /repo f80810a)"""
    Signomial, ssm, Polynomial, spm = sigmod()
    for cls, name in ((Signomial, 'Signomial'), (Polynomial, 'Polynomial')):
        d = {(1, 0): 2.0, (0, 1): 3.0}
        f = cls.from_dict(d)
        g = cls.from_dict({(1, 0): 2.0, (0, 1): 3.0})
        d[(2, 2)] = 5.0                 # the caller extends the dict to build the next function
        d[(1, 0)] = 7.0
        h = cls.from_dict(d)
        ac = {tuple(float(t) for t in k): float(v) for k, v in f.alpha_c.items()}
        if ac != {(1.0, 0.0): 2.0, (0.0, 1.0): 3.0}:
            return '%s.from_dict(d) followed by changes to d: alpha_c is %r while (alpha, c) still describe 2*t0 + 3*t1' % (name, f.alpha_c)
        if not (f == g) or not (g == f) or (f == h) or (h == f):
            return ('%s.from_dict(d) followed by changes to d: f == g is %s / %s for the same function, f == h is %s / %s for different functions'
                    % (name, f == g, g == f, f == h, h == f))
        z = f - g
        if [float(v) for v in np.asarray(z.c).ravel()] != [0.0] or len(z.alpha_c) != 1:
            return '%s.from_dict(d) followed by changes to d: f - g has coefficients %s' % (name, np.asarray(z.c).tolist())
    f2 = Signomial.from_dict({(1.0, 0.0): 1.0, (1.00000001, 0.0): 2.0})
    if f2.m != len(f2.alpha_c) or abs(sum(float(v) for v in f2.alpha_c.values()) - 3.0) > 1e-12:
        return ('Signomial.from_dict with two keys that coincide after rounding: alpha has %d row(s) with c = %s but alpha_c has %d entries %r'
                % (f2.m, np.asarray(f2.c).tolist(), len(f2.alpha_c), f2.alpha_c))
    f3 = Signomial.from_dict({(0.123456789,): 1.0, (1.0,): 2.0})
    g3 = Signomial(np.array([[0.123456789], [1.0]]), np.array([1.0, 2.0]))
    if not (f3 == g3 and g3 == f3):
        return 'Signomial.from_dict({(0.123456789,): 1, (1,): 2}) == Signomial(alpha, c) with the same data is %s / %s' % (f3 == g3, g3 == f3)
    return None


def search(ctx):
    for _ in range(2500):
        n = ctx.rng.randint(1, 3)
        poly = ctx.rng.random() < 0.45
        t = gen_tree(ctx.rng, n, poly, ctx.rng.randint(1, 4))
        why = oracle_tree(t, n, poly, ctx.rng)
        if why:
            return {'suite': 'trees', 'input': {'tree': tree_json(t), 'n': n, 'poly': poly}, 'property_failure': why}
        t2 = gen_tree(ctx.rng, n, poly, 2)
        for pair in ((t, t2), (t, ('addq', t, Fraction(0)))):
            why = oracle_eq(pair[0], pair[1], n, poly)
            if why:
                return {'suite': 'eq', 'input': {'a': tree_json(pair[0]), 'b': tree_json(pair[1]), 'n': n, 'poly': poly}, 'property_failure': why}
    why = probe_eq_sym()
    if why:
        return {'suite': 'eq_sym_probe', 'property_failure': why}
    return None


def replay(payload):
    inp = payload.get('input') or {}
    s = inp.get('suite')
    if s == 'trees':
        x = inp['input']
        why = oracle_tree(tree_from_json(x['tree']), x['n'], x['poly'])
    elif s == 'eq':
        x = inp.get('input') or inp
        why = oracle_eq(tree_from_json(x['a']), tree_from_json(x['b']), x['n'], x['poly'])
    elif s == 'eq_sym_probe':
        why = probe_eq_sym()
    elif s == 'from_dict_probe':
        why = probe_from_dict()
    else:
        print('replay names a broken theorem/correspondence, no concrete input: ' + str(payload.get('detail'))[:500])
        return 1
    print('replay %s: %s' % (s, why or 'property holds'))
    return 1 if why else 0


def canon_rows_only(f):
    """exponent rows (on the grid) of a Signomial whose coefficients may be symbolic"""
    return [([Fraction(int(round(a * GRID)), GRID) for a in r], None) for r in np.asarray(f.alpha, dtype=float).tolist()]
